(* ImportsFacts.v -- proofs about the @import loading model (property C20) *)
From CssV Require Import Base Imports.
From CssV.Gen Require Import Import.

(* ------------------------------------------------------------------ the source this model was written against *)
Lemma urljoin_pinned : eqs urljoin_source_sha urljoin_modelled_sha = true.
Proof. vm_compute. reflexivity. Qed.

(* ------------------------------------------------------------------ encoding priority *)
(* first entry whose flag is set; the last entry of the documented list is unconditional *)
Fixpoint first_choice (l : list (bool * (N * enc))) (dflt : N * enc) : N * enc :=
  match l with
  | [] => dflt
  | (true, x) :: _ => x
  | (false, _) :: r => first_choice r dflt
  end.

Lemma ladder_priority_lemma override http explicit cenc parent :
  ladder override http explicit cenc parent =
  first_choice [(truthy override, (0%N, override)); (truthy http, (1%N, http)); (explicit, (2%N, cenc));
                (truthy parent, (4%N, parent))] (5%N, Some (s "utf-8")).
Proof.
  unfold ladder. destruct (truthy override), (truthy http), explicit, (truthy parent); reflexivity.
Qed.

Definition chosen (W : world) (override http parent : enc) (c : content) : N * enc :=
  first_choice [(truthy override, (0%N, override)); (truthy http, (1%N, http));
                (snd (detect W c), (2%N, fst (detect W c))); (truthy parent, (4%N, parent))] (5%N, Some (s "utf-8")).

Lemma readurl_priority_lemma W override parent http c :
  readurl W override parent (OContent http c) =
  let '(enctype, e) := chosen W override http parent c in
  match c with
  | CText t => RdOk e enctype t
  | CBytes b => match decode W b e with
                | DecText t => RdOk e enctype t
                | DecRaise x => if decode_tolerated x then RdNone else RdRaise x
                end
  end.
Proof.
  unfold readurl, chosen. destruct (detect W c) as [cenc explicit]. simpl fst; simpl snd.
  rewrite ladder_priority_lemma.
  destruct (first_choice _ _) as [enctype e]. reflexivity.
Qed.

(* ------------------------------------------------------------------ containment *)
Definition documented_exn (e : exn) : Prop := e = E_OSError \/ e = E_ValueError.       (* IOError is OSError *)
Definition documented_world (W : world) : Prop :=
  (forall tr u e, fetch W tr u = ORaise e -> documented_exn e) /\
  (forall b en e, decode W b en = DecRaise e -> e = E_UnicodeDecodeError \/ e = E_LookupError).

Definition no_escape (ld : loader) : Prop :=
  forall full anc o n sr tr, match ld full anc o n sr tr with Escapes _ _ => False | _ => True end.

Lemma caught_documented e : documented_exn e -> is_caught e = true.
Proof. intros [-> | ->]; vm_compute; reflexivity. Qed.

Lemma caught_none : is_caught raised_on_none = true.
Proof. vm_compute. reflexivity. Qed.

Lemma caught_cycle : is_caught raised_on_cycle = true.
Proof. vm_compute. reflexivity. Qed.

Lemma caught_join : join_guarded = true /\ is_caught E_ValueError = true.
Proof. split; vm_compute; reflexivity. Qed.

Lemma caught_decode e : e = E_UnicodeDecodeError \/ e = E_LookupError -> decode_tolerated e = true \/ is_caught e = true.
Proof. intros [-> | ->]; vm_compute; auto. Qed.

Lemma readurl_raise_caught W override parent tr u e :
  documented_world W -> readurl W override parent (fetch W tr u) = RdRaise e -> is_caught e = true.
Proof.
  intros [Hf Hd] H. unfold readurl in H.
  destruct (fetch W tr u) as [ | | | http c | x] eqn:Ef; try discriminate.
  - destruct (detect W c) as [cenc explicit]. destruct (ladder _ _ _ _ _) as [enctype en].
    destruct c as [t | b]; try discriminate.
    destruct (decode W b en) as [t | x] eqn:Ed; try discriminate.
    destruct (decode_tolerated x) eqn:Et; try discriminate.
    inversion H; subst. destruct (caught_decode _ (Hd _ _ _ Ed)) as [H1 | H1]; congruence.
  - inversion H; subst. apply caught_documented. eapply Hf; eauto.
Qed.

Lemma set_encoding_some W e rules : exists r, set_encoding W e rules = Some r.
Proof.
  unfold set_encoding, charset_init_safe. destruct rules as [ | [] ?]; destruct (enc_norm W e); eauto.
Qed.

Lemma finish_encoding_some W eo en rules : exists r, finish_encoding W eo en rules = Some r.
Proof.
  unfold finish_encoding. destruct (opt_truthy eo), (opt_truthy en); eauto using set_encoding_some.
Qed.

Definition import_ok (r : rrule) : Prop :=
  match r with RImport _ _ found _ rules => found = false -> rules = [] | _ => True end.

(* one assignment of href: whatever a documented fetcher does the assignment returns, and a failed load leaves
   hrefFound = False with an empty sheet *)
Lemma set_href_contained_lemma ld W cwd base anc override parent h tr :
  no_escape ld -> documented_world W ->
  match set_href ld W cwd base anc override parent h tr with
  | Escapes _ _ => False
  | OutOfDepth => True
  | Normal (l, _) => (l_found l = false -> l_rules l = [])
  end.
Proof.
  intros Hld HW. unfold set_href.
  destruct (negb (nonempty (raw h))); [simpl; auto|].
  destruct caught_join as [Hg Hv].
  destruct (urljoin _ h) as [full|].
  2:{ rewrite Hg, Hv. simpl. auto. }
  destruct (cycle_guard && mem_str (raw full) anc). { rewrite caught_cycle. simpl. auto. }
  destruct (readurl W override parent _) as [ | used enctype t | e] eqn:Er.
  - rewrite caught_none. simpl. auto.
  - destruct (split_enc enctype used) as [eo en].
    specialize (Hld full (raw full :: anc) (opt_truthy eo) (opt_truthy en) (parse W t) (raw full :: tr)).
    destruct (ld _ _ _ _ _ _) as [[rules tr2] | e tr2 | ]; auto; try contradiction.
    destruct (finish_encoding_some W eo en rules) as [r ->]. simpl. discriminate.
  - rewrite (readurl_raise_caught _ _ _ _ _ _ HW Er). simpl. auto.
Qed.

(* ---- the statement loop: which @import rules are kept *)
Fixpoint placed (items : list item) (expected : N) : list str :=
  match items with
  | [] => []
  | IComment _ :: r => placed r (N.max 1 expected)
  | INamespace _ :: r => placed r (if N.ltb 2 expected then expected else 2%N)
  | IStyle _ _ :: r => placed r 3%N
  | IImport h _ :: r =>
      if negb (nonempty (raw h)) then placed r expected
      else if N.ltb 1 expected then placed r expected
      else raw h :: placed r 1%N
  end.

Definition import_hrefs (rules : list rrule) : list str :=
  flat_map (fun r => match r with RImport h _ _ _ _ => [h] | _ => [] end) rules.

Lemma import_hrefs_app a b : import_hrefs (a ++ b) = import_hrefs a ++ import_hrefs b.
Proof. apply flat_map_app. Qed.

Definition good (r : res (list rrule * trace)) (P : list rrule -> Prop) : Prop :=
  match r with
  | Escapes _ _ => False
  | OutOfDepth => True
  | Normal (rules, _) => P rules
  end.

Lemma items_loop_contained ld W cwd base anc override newenc :
  no_escape ld -> documented_world W ->
  forall items expected acc tr,
    Forall import_ok acc ->
    good (items_loop ld W cwd base anc override newenc items expected acc tr)
         (fun rules => import_hrefs rules = import_hrefs acc ++ placed items expected /\ Forall import_ok rules).
Proof.
  intros Hld HW. induction items as [ | it rest IH]; intros expected acc tr Hacc.
  - simpl. rewrite app_nil_r. auto.
  - simpl. destruct it as [h media | u | sel p | t].
    + pose proof (set_href_contained_lemma ld W cwd base anc override (parent_encoding newenc acc) h tr Hld HW) as H1.
      destruct (set_href ld W cwd base anc override (parent_encoding newenc acc) h tr) as [[l tr1] | e tr1 | ];
        try contradiction; simpl; auto.
      destruct (negb (nonempty (raw h))); [apply IH; auto|].
      destruct (N.ltb 1 expected); [apply IH; auto|].
      destruct (l_found l) eqn:Ef.
      * specialize (IH 1%N (acc ++ [mk_import h media l]) tr1).
        destruct (items_loop _ _ _ _ _ _ _ rest _ _ _) as [[rules tr2] | | ]; simpl in *; auto.
        -- destruct IH as [IH1 IH2].
           { apply Forall_app; split; auto. constructor; auto. simpl. congruence. }
           split; auto. rewrite IH1, import_hrefs_app. simpl. rewrite <- app_assoc. reflexivity.
        -- apply IH. apply Forall_app; split; auto. constructor; auto. simpl. congruence.
      * pose proof (set_href_contained_lemma ld W cwd base anc override
                      (parent_encoding newenc (acc ++ [mk_import h media l])) h tr1 Hld HW) as H2.
        destruct (set_href ld W cwd base anc override _ h tr1) as [[l2 tr2] | e tr2 | ]; try contradiction; simpl; auto.
        specialize (IH 1%N (acc ++ [mk_import h media l2]) tr2).
        assert (Hok : Forall import_ok (acc ++ [mk_import h media l2])).
        { apply Forall_app; split; auto; constructor; simpl; auto. }
        destruct (items_loop _ _ _ _ _ _ _ rest _ _ _) as [[rules tr3] | | ]; simpl in *; auto.
        destruct (IH Hok) as [IH1 IH2]. split; auto.
        rewrite IH1, import_hrefs_app. simpl. rewrite <- app_assoc. reflexivity.
    + destruct (N.ltb 2 expected).
      * apply IH; auto.
      * specialize (IH 2%N (acc ++ [RNamespace u]) tr).
        destruct (items_loop _ _ _ _ _ _ _ rest _ _ _) as [[rules tr2] | | ]; simpl in *; auto.
        -- destruct IH as [IH1 IH2]. { apply Forall_app; split; auto. constructor; simpl; auto. }
           split; auto. rewrite IH1, import_hrefs_app. simpl. rewrite app_nil_r. reflexivity.
        -- apply IH. apply Forall_app; split; auto. constructor; simpl; auto.
    + specialize (IH 3%N (acc ++ [RStyle sel p]) tr).
      destruct (items_loop _ _ _ _ _ _ _ rest _ _ _) as [[rules tr2] | | ]; simpl in *; auto.
      * destruct IH as [IH1 IH2]. { apply Forall_app; split; auto. constructor; simpl; auto. }
        split; auto. rewrite IH1, import_hrefs_app. simpl. rewrite app_nil_r. reflexivity.
      * apply IH. apply Forall_app; split; auto. constructor; simpl; auto.
    + specialize (IH (N.max 1 expected) (acc ++ [RComment t]) tr).
      destruct (items_loop _ _ _ _ _ _ _ rest _ _ _) as [[rules tr2] | | ]; simpl in *; auto.
      * destruct IH as [IH1 IH2]. { apply Forall_app; split; auto. constructor; simpl; auto. }
        split; auto. rewrite IH1, import_hrefs_app. simpl. rewrite app_nil_r. reflexivity.
      * apply IH. apply Forall_app; split; auto. constructor; simpl; auto.
Qed.

Lemma parse_src_no_escape fuel W cwd :
  documented_world W -> no_escape (loader_at fuel W cwd).
Proof.
  intros HW. induction fuel as [ | f IH]; intros full anc o n sr tr; unfold loader_at; simpl; auto.
  pose proof (items_loop_contained (loader_at f W cwd) W cwd (Some full) anc o n IH HW (s_items sr)
                (initial_expected sr) (initial_rules sr) tr) as H.
  unfold loader_at in H.
  destruct (items_loop _ _ _ _ _ _ _ _ _ _ _) as [[rules tr2] | | ]; auto.
  apply H. unfold initial_rules. destruct (s_charset sr); repeat constructor.
Qed.

Lemma import_hrefs_initial sr : import_hrefs (initial_rules sr) = [].
Proof. unfold initial_rules. destruct (s_charset sr); reflexivity. Qed.

Lemma set_encoding_hrefs W e rules r :
  set_encoding W e rules = Some r -> import_hrefs r = import_hrefs rules /\ (Forall import_ok rules -> Forall import_ok r).
Proof.
  unfold set_encoding, charset_init_safe. intros H.
  destruct rules as [ | x rest].
  - destruct (enc_norm W e); inversion H; subst; simpl; split; auto. intros _. repeat constructor.
  - destruct x; destruct (enc_norm W e); inversion H; subst; simpl; split; auto;
      intros Hf; auto; inversion Hf; subst; repeat (constructor; simpl; auto).
Qed.

Lemma finish_encoding_hrefs W eo en rules r :
  finish_encoding W eo en rules = Some r -> import_hrefs r = import_hrefs rules /\ (Forall import_ok rules -> Forall import_ok r).
Proof.
  unfold finish_encoding. destruct (opt_truthy eo), (opt_truthy en); intros H;
    try (eapply set_encoding_hrefs; eassumption).
  inversion H; subst; auto.
Qed.

(* the whole parse: never an exception; when it returns, exactly the well-placed @import rules are kept, in order,
   with the href as written, and every one that is not loaded has an empty sheet *)
Lemma parse_contained_lemma fuel W cwd base override sr :
  documented_world W ->
  good (parse_string fuel W cwd base override sr)
       (fun rules => import_hrefs rules = placed (s_items sr) (initial_expected sr) /\ Forall import_ok rules).
Proof.
  intros HW. unfold parse_string.
  destruct fuel as [ | f]; simpl; auto.
  pose proof (items_loop_contained (loader_at f W cwd) W cwd base (top_chain base) (opt_truthy override) None
                (parse_src_no_escape f W cwd HW) HW (s_items sr) (initial_expected sr) (initial_rules sr) []) as H.
  unfold loader_at in H.
  destruct (items_loop _ _ _ _ _ _ _ _ _ _ _) as [[rules tr2] | | ]; simpl in *; auto.
  - destruct H as [H1 H2]. { unfold initial_rules. destruct (s_charset sr); repeat constructor. }
    destruct (finish_encoding_some W override None rules) as [r Hr]. rewrite Hr. simpl.
    destruct (finish_encoding_hrefs _ _ _ _ _ Hr) as [H3 H4].
    rewrite H3, H1, import_hrefs_initial. auto.
  - apply H. unfold initial_rules. destruct (s_charset sr); repeat constructor.
Qed.

(* ------------------------------------------------------------------ nested imports resolve against the imported sheet *)
Lemma nested_base_url_lemma f W cwd b anc override parent h tr l tr' :
  set_href (loader_at f W cwd) W cwd (Some b) anc override parent h tr = Normal (l, tr') ->
  l_found l = true ->
  exists full used enctype t rules,
    urljoin b h = Some full /\ l_href l = Some (raw full) /\
    readurl W override parent (fetch W tr (raw full)) = RdOk used enctype t /\
    parse_src f W cwd (Some full) (raw full :: anc) (opt_truthy (fst (split_enc enctype used)))
              (opt_truthy (snd (split_enc enctype used))) (parse W t) (raw full :: tr) = Normal (rules, tr').
Proof.
  unfold set_href. intros H Hf.
  destruct (negb (nonempty (raw h))). { inversion H; subst. discriminate. }
  destruct (urljoin b h) as [full|].
  2:{ destruct join_guarded; [destruct (is_caught E_ValueError)|]; inversion H; subst; discriminate. }
  destruct (cycle_guard && mem_str (raw full) anc).
  { destruct (is_caught raised_on_cycle); inversion H; subst; discriminate. }
  destruct (readurl W override parent _) as [ | used enctype t | e] eqn:Er.
  - destruct (is_caught raised_on_none); inversion H; subst; discriminate.
  - destruct (split_enc enctype used) as [eo en] eqn:Es. unfold loader_at in H.
    destruct (parse_src f W cwd (Some full) _ _ _ _ _) as [[rules tr2] | e tr2 | ] eqn:Ep; try discriminate.
    + destruct (finish_encoding W eo en rules) as [r | ].
      * inversion H; subst. exists full, used, enctype, t, rules. rewrite Es. simpl. auto.
      * destruct (is_caught E_AttributeError); inversion H; subst; discriminate.
    + destruct (is_caught e); inversion H; subst; discriminate.
  - destruct (is_caught e); inversion H; subst; discriminate.
Qed.


(* ------------------------------------------------------------------ urljoin *)
Lemma urljoin_absolute_lemma a b pa pb :
  parsed a = Some pa -> parsed b = Some pb ->
  nonempty (u_scheme pb) = true -> eqs (u_scheme pa) (u_scheme pb) = false ->
  urljoin a b = Some b.
Proof.
  intros Ha Hb Hs Hne. unfold urljoin, join_parsed. rewrite Ha, Hb, Hs, Hne. reflexivity.
Qed.

Lemma urljoin_invalid_lemma a b : parsed a = None \/ parsed b = None -> urljoin a b = None.
Proof. unfold urljoin. intros [-> | ->]; [ | destruct (parsed a)]; reflexivity. Qed.

(* ------------------------------------------------------------------ resolveImports *)
Lemma in_insert_at {A} i (x y : A) l : In y l -> In y (insert_at i x l).
Proof.
  unfold insert_at. intros H. rewrite <- (firstn_skipn i l) in H.
  apply in_app_or in H. apply in_or_app. destruct H; [left | right; right]; auto.
Qed.

Lemma in_insert_at_self {A} i (x : A) l : In x (insert_at i x l).
Proof. unfold insert_at. apply in_or_app. right. left. reflexivity. Qed.

Lemma add_keeps r tg y : In y tg -> In y (add r tg).
Proof.
  intros H. unfold add.
  destruct r; try (apply in_or_app; auto).
  - destruct (after_last _ tg); [apply in_insert_at; auto|].
    destruct tg as [ | [] ?]; try (right; exact H); try (apply in_insert_at; auto).
  - destruct (after_last (is_kind K_NAMESPACE) tg); [apply in_insert_at; auto|].
    destruct (first_index _ _); [apply in_insert_at; auto | apply in_or_app; auto].
Qed.

Lemma add_self r tg : In r (add r tg).
Proof.
  unfold add. destruct r; try (apply in_or_app; right; left; reflexivity).
  - destruct (after_last _ tg); [apply in_insert_at_self|].
    destruct tg as [ | [] ?]; try (left; reflexivity); apply in_insert_at_self.
  - destruct (after_last (is_kind K_NAMESPACE) tg); [apply in_insert_at_self|].
    destruct (first_index _ _); [apply in_insert_at_self | apply in_or_app; right; left; reflexivity].
Qed.

Local Arguments add : simpl never.

Lemma fold_add_keeps l tg y : In y tg -> In y (fold_left (fun t x => add x t) l tg).
Proof. revert tg. induction l as [ | x l IH]; simpl; intros tg H; auto. apply IH. apply add_keeps. exact H. Qed.

Lemma wrappable_not_import l : forallb wrappable l = true -> existsb (is_kind K_IMPORT) l = false.
Proof.
  induction l as [ | x l IH]; simpl; auto. intros H. apply andb_true_iff in H as [H1 H2].
  rewrite (IH H2), orb_false_r. destruct x; try reflexivity. vm_compute in H1. discriminate.
Qed.

(* resolveImports never raises: a rule always yields a target (HierarchyRequestErr is impossible) *)
Lemma resolve_rule_total r tg : resolve_rule r tg <> None.
Proof.
  destruct r; simpl; try discriminate.
  destruct (negb found); try discriminate.
  match goal with |- context [match ?i with Some _ => _ | None => _ end] => destruct i as [imported | ] end;
    try discriminate.
  destruct (is_all media); try discriminate.
  destruct (forallb wrappable imported) eqn:Ew; try discriminate.
  rewrite (wrappable_not_import _ Ew). discriminate.
Qed.

Lemma resolve_rule_keeps r tg tg' y : resolve_rule r tg = Some tg' -> In y tg -> In y tg'.
Proof.
  destruct r; simpl; try solve [intros H Hy; inversion H; subst; auto using add_keeps].
  destruct (negb found). { intros H Hy; inversion H; subst; auto using add_keeps. }
  match goal with |- context [match ?i with Some _ => _ | None => _ end] => destruct i as [imported | ] end.
  - destruct (is_all media). { intros H Hy; inversion H; subst. apply fold_add_keeps. auto using add_keeps. }
    destruct (forallb wrappable imported).
    + destruct (existsb _ imported); intros H Hy; inversion H; subst. auto using add_keeps.
    + intros H Hy; inversion H; subst. auto using add_keeps.
  - intros H Hy; inversion H; subst. auto using add_keeps.
Qed.

Lemma resolve_rules_total l acc : resolve_rules l acc <> None.
Proof.
  revert acc. induction l as [ | x l IH]; simpl; intros acc; try discriminate.
  destruct (resolve_rule x acc) eqn:E; auto. exfalso. eapply resolve_rule_total; eauto.
Qed.

Lemma resolve_rules_keeps l acc out y : resolve_rules l acc = Some out -> In y acc -> In y out.
Proof.
  revert acc. induction l as [ | x l IH]; simpl; intros acc H Hy. { inversion H; subst; auto. }
  destruct (resolve_rule x acc) eqn:E; try discriminate. eapply IH; eauto. eapply resolve_rule_keeps; eauto.
Qed.

(* an @import that was not loaded is kept in the flattened sheet *)
Lemma resolve_keeps_unloaded_lemma rules out h media href sub :
  resolve rules = Some out -> In (RImport h media false href sub) rules -> In (FImport h media) out.
Proof.
  unfold resolve. generalize (@nil frule). induction rules as [ | x l IH]; simpl; intros acc H Hin; [destruct Hin|].
  destruct (resolve_rule x acc) eqn:E; try discriminate.
  destruct Hin as [-> | Hin].
  - simpl in E. inversion E; subst. eapply resolve_rules_keeps; eauto. apply add_self.
  - eapply IH; eauto.
Qed.

(* ------------------------------------------------------------------ resolveImports = flatten *)
(* induction over import trees (rrule is a nested inductive type) *)
Section RruleInd.
  Variable P : rrule -> Prop.
  Hypothesis Hcharset : forall e, P (RCharset e).
  Hypothesis Hns : forall u, P (RNamespace u).
  Hypothesis Hstyle : forall a b, P (RStyle a b).
  Hypothesis Hcomment : forall t, P (RComment t).
  Hypothesis Himport : forall h media found href rules, Forall P rules -> P (RImport h media found href rules).

  Fixpoint rrule_tree_ind (r : rrule) : P r :=
    match r with
    | RCharset e => Hcharset e
    | RNamespace u => Hns u
    | RStyle a b => Hstyle a b
    | RComment t => Hcomment t
    | RImport h media found href rules =>
        Himport h media found href rules
          ((fix go (l : list rrule) : Forall P l :=
              match l with
              | [] => Forall_nil P
              | x :: xs => Forall_cons x (rrule_tree_ind x) (go xs)
              end) rules)
    end.
End RruleInd.

(* the part of resolve_rule for an @import that does not recurse *)
Definition import_case (h media : str) (found : bool) (inner : option (list frule)) (tg : list frule)
  : option (list frule) :=
  if negb found then Some (add (FImport h media) tg)
  else
    let tg1 := add (start_comment h) tg in
    match inner with
    | None => Some (add (FImport h media) tg1)
    | Some imported =>
        if is_all media then Some (fold_left (fun t x => add x t) imported tg1)
        else if forallb wrappable imported then
          if existsb (is_kind K_IMPORT) imported then None
          else Some (add (FMedia media imported) tg1)
        else Some (add (FImport h media) tg1)
    end.

Lemma resolve_rule_import h media found href rules tg :
  resolve_rule (RImport h media found href rules) tg = import_case h media found (resolve_rules rules []) tg.
Proof.
  unfold import_case, start_comment. simpl. destruct (negb found); [reflexivity|].
  match goal with
  | |- context [match ?f rules [] with Some _ => _ | None => _ end] =>
      replace (f rules []) with (resolve_rules rules [])
  end; [reflexivity|].
  generalize (@nil frule). induction rules as [ | x xs IH]; intros acc; simpl; [reflexivity|].
  destruct (resolve_rule x acc); auto.
Qed.

Lemma place_app a b tg : place (a ++ b) tg = place b (place a tg).
Proof. unfold place. apply fold_left_app. Qed.

Lemma resolve_rules_spec l :
  Forall (fun r => forall tg, resolve_rule r tg = Some (place (contrib r) tg)) l ->
  forall acc, resolve_rules l acc = Some (place (flat_map contrib l) acc).
Proof.
  induction 1 as [ | x xs Hx Hxs IH]; intros acc; simpl; [reflexivity|].
  rewrite Hx, place_app. apply IH.
Qed.

Lemma resolve_rule_spec r : forall tg, resolve_rule r tg = Some (place (contrib r) tg).
Proof.
  induction r as [e | u | a b | t | h media found href rules IH] using rrule_tree_ind; intros tg;
    try reflexivity.
  rewrite resolve_rule_import, (resolve_rules_spec _ IH). unfold import_case.
  change (contrib (RImport h media found href rules)) with
    (if negb found then [FImport h media]
     else start_comment h ::
          (if is_all media then place (flat_map contrib rules) []
           else if forallb wrappable (place (flat_map contrib rules) []) then [FMedia media (place (flat_map contrib rules) [])]
           else [FImport h media])).
  destruct (negb found); [reflexivity|].
  destruct (is_all media); [reflexivity|].
  destruct (forallb wrappable (place (flat_map contrib rules) [])) eqn:Ew; [ | reflexivity].
  rewrite (wrappable_not_import _ Ew). reflexivity.
Qed.

Lemma resolve_imports_spec_lemma rules : resolve rules = Some (flatten rules).
Proof.
  unfold resolve, flatten. apply resolve_rules_spec.
  apply Forall_forall. intros r _. apply resolve_rule_spec.
Qed.

(* ---- nothing that was not loaded gets lost, at any depth: every unloaded @import of the tree is in the flattened
   sheet itself, or a media-restricted @import above it is kept as a whole *)
(* covers rules h media: (h, media) is the @import rule that must stand in the flattened sheet for some unloaded
   import of the tree -- the unloaded import itself, possibly seen through loaded `all` imports, or the media-restricted
   loaded import above it (which then cannot be wrapped) *)
Inductive covers : list rrule -> str -> str -> Prop :=
  | cov_here rules h media href sub : In (RImport h media false href sub) rules -> covers rules h media
  | cov_all rules h0 m0 href sub h media :
      In (RImport h0 m0 true href sub) rules -> is_all m0 = true -> covers sub h media -> covers rules h media
  | cov_media rules h0 m0 href sub h media :
      In (RImport h0 m0 true href sub) rules -> is_all m0 = false -> covers sub h media -> covers rules h0 m0.

(* some @import anywhere in the tree was not loaded *)
Inductive has_unloaded : list rrule -> Prop :=
  | un_here rules h media href sub : In (RImport h media false href sub) rules -> has_unloaded rules
  | un_below rules h media href sub : In (RImport h media true href sub) rules -> has_unloaded sub -> has_unloaded rules.

Lemma has_unloaded_covered rules : has_unloaded rules -> exists h media, covers rules h media.
Proof.
  induction 1 as [rules h media href sub Hin | rules h media href sub Hin Hu [h' [m' IH]]].
  - eauto using cov_here.
  - destruct (is_all media) eqn:E; eauto using cov_all, cov_media.
Qed.

Lemma place_keeps l tg y : In y tg -> In y (place l tg).
Proof. unfold place. apply fold_add_keeps. Qed.

Lemma place_in l : forall tg y, In y l -> In y (place l tg).
Proof.
  induction l as [ | x xs IH]; intros tg y H; [destruct H|].
  unfold place. simpl. destruct H as [-> | H].
  - apply fold_add_keeps. apply add_self.
  - apply IH. exact H.
Qed.

Lemma flatten_in rules r y : In r rules -> In y (contrib r) -> In y (flatten rules).
Proof.
  intros Hr Hy. unfold flatten. apply place_in. apply in_flat_map. eauto.
Qed.

Lemma wrappable_in_not_import l h media : forallb wrappable l = true -> In (FImport h media) l -> False.
Proof.
  intros Hw Hin. rewrite forallb_forall in Hw. specialize (Hw _ Hin). vm_compute in Hw. discriminate.
Qed.

Lemma flatten_covers rules h media : covers rules h media -> In (FImport h media) (flatten rules).
Proof.
  induction 1 as [rules h media href sub Hin
                 | rules h0 m0 href sub h media Hin Hm Hc IH
                 | rules h0 m0 href sub h media Hin Hm Hc IH].
  - eapply flatten_in; [exact Hin|]. simpl. left. reflexivity.
  - eapply flatten_in; [exact Hin|].
    change (In (FImport h media) (start_comment h0 ::
              (if is_all m0 then flatten sub else if forallb wrappable (flatten sub) then [FMedia m0 (flatten sub)]
               else [FImport h0 m0]))).
    rewrite Hm. right. exact IH.
  - eapply flatten_in; [exact Hin|].
    change (In (FImport h0 m0) (start_comment h0 ::
              (if is_all m0 then flatten sub else if forallb wrappable (flatten sub) then [FMedia m0 (flatten sub)]
               else [FImport h0 m0]))).
    rewrite Hm. destruct (forallb wrappable (flatten sub)) eqn:Hw.
    + exfalso. eapply wrappable_in_not_import; eauto.
    + right. left. reflexivity.
Qed.

(* ------------------------------------------------------------------ termination (needs the cycle guard of _setHref) *)
(* the fetcher serves content at the URLs of `universe` only (any finite list; duplicates allowed) *)
Definition served (W : world) (universe : list str) : Prop :=
  forall tr u http c, fetch W tr u = OContent http c -> In u universe.

(* URLs of the universe that are not yet in the import chain *)
Definition remaining (universe anc : list str) : nat :=
  length (filter (fun u => negb (mem_str u anc)) universe).

Local Arguments mem_str : simpl never.

Lemma mem_str_cons u x anc : mem_str u (x :: anc) = eqs u x || mem_str u anc.
Proof. reflexivity. Qed.

Lemma remaining_le universe anc x : remaining universe (x :: anc) <= remaining universe anc.
Proof.
  unfold remaining. induction universe as [ | a l IH]; simpl; [lia|].
  rewrite mem_str_cons. destruct (eqs a x), (mem_str a anc); simpl; lia.
Qed.

Lemma remaining_decr universe anc x :
  In x universe -> mem_str x anc = false -> remaining universe (x :: anc) < remaining universe anc.
Proof.
  intros Hin Hm. induction universe as [ | a l IH]; [destruct Hin|].
  destruct Hin as [-> | Hin].
  - pose proof (remaining_le l anc x) as Hle. unfold remaining in *. simpl.
    rewrite mem_str_cons, eqs_refl, Hm. simpl. lia.
  - specialize (IH Hin). unfold remaining in *. simpl.
    rewrite mem_str_cons. destruct (eqs a x), (mem_str a anc); simpl; lia.
Qed.

Lemma remaining_bound universe anc : remaining universe anc <= length universe.
Proof.
  unfold remaining. induction universe as [ | a l IH]; simpl; [lia|].
  destruct (negb (mem_str a anc)); simpl; lia.
Qed.

Definition no_depth_ld (universe anc : list str) (ld : loader) : Prop :=
  forall full o n sr tr, In (raw full) universe -> mem_str (raw full) anc = false ->
                         ld full (raw full :: anc) o n sr tr <> OutOfDepth.

Lemma readurl_ok_content W override parent o used enctype t :
  readurl W override parent o = RdOk used enctype t -> exists http c, o = OContent http c.
Proof. destruct o; simpl; try discriminate. eauto. Qed.

Lemma set_href_no_depth ld W cwd base anc override parent h tr universe :
  served W universe -> no_depth_ld universe anc ld ->
  set_href ld W cwd base anc override parent h tr <> OutOfDepth.
Proof.
  intros Hs Hld. unfold set_href.
  destruct (negb (nonempty (raw h))); [discriminate|].
  destruct (urljoin _ h) as [full|].
  2:{ destruct join_guarded; [destruct (is_caught E_ValueError)|]; discriminate. }
  destruct (cycle_guard && mem_str (raw full) anc) eqn:Ec.
  { destruct (is_caught raised_on_cycle); discriminate. }
  unfold cycle_guard in Ec. simpl in Ec.
  destruct (readurl W override parent _) as [ | used enctype t | e] eqn:Er.
  - destruct (is_caught raised_on_none); discriminate.
  - destruct (readurl_ok_content _ _ _ _ _ _ _ Er) as [http [c Hc]].
    destruct (split_enc enctype used) as [eo en].
    specialize (Hld full (opt_truthy eo) (opt_truthy en) (parse W t) (raw full :: tr) (Hs _ _ _ _ Hc) Ec).
    destruct (ld _ _ _ _ _ _) as [[rules tr2] | e tr2 | ]; try contradiction.
    + destruct (finish_encoding W eo en rules); [discriminate|]. destruct (is_caught E_AttributeError); discriminate.
    + destruct (is_caught e); discriminate.
  - destruct (is_caught e); discriminate.
Qed.

Lemma items_loop_no_depth ld W cwd base anc override newenc universe :
  served W universe -> no_depth_ld universe anc ld ->
  forall items expected acc tr,
    items_loop ld W cwd base anc override newenc items expected acc tr <> OutOfDepth.
Proof.
  intros Hs Hld. induction items as [ | it rest IH]; intros expected acc tr; simpl; [discriminate|].
  destruct it as [h media | u | sel p | t]; try apply IH.
  - pose proof (set_href_no_depth ld W cwd base anc override (parent_encoding newenc acc) h tr universe Hs Hld) as H1.
    destruct (set_href ld W cwd base anc override (parent_encoding newenc acc) h tr) as [[l tr1] | e tr1 | ];
      try discriminate; try contradiction.
    destruct (negb (nonempty (raw h))); [apply IH|].
    destruct (N.ltb 1 expected); [apply IH|].
    destruct (l_found l); [apply IH|].
    pose proof (set_href_no_depth ld W cwd base anc override
                  (parent_encoding newenc (acc ++ [mk_import h media l])) h tr1 universe Hs Hld) as H2.
    destruct (set_href ld W cwd base anc override _ h tr1) as [[l2 tr2] | e tr2 | ];
      try discriminate; try contradiction.
    apply IH.
  - destruct (N.ltb 2 expected); apply IH.
Qed.

(* fuel above the number of universe URLs outside the chain is never exhausted *)
Lemma parse_src_no_depth W cwd universe :
  served W universe ->
  forall fuel base anc override newenc sr tr,
    remaining universe anc < fuel ->
    parse_src fuel W cwd base anc override newenc sr tr <> OutOfDepth.
Proof.
  intros Hs. induction fuel as [ | f IH]; intros base anc override newenc sr tr Hr; [lia|].
  simpl. apply (items_loop_no_depth _ W cwd base anc override newenc universe Hs).
  intros full o n sr' tr' Hin Hm. apply IH.
  pose proof (remaining_decr universe anc (raw full) Hin Hm). lia.
Qed.

Lemma parse_terminates_lemma W cwd universe base override sr fuel :
  documented_world W -> served W universe -> length universe < fuel ->
  exists rules tr,
    parse_string fuel W cwd base override sr = Normal (rules, tr) /\
    import_hrefs rules = placed (s_items sr) (initial_expected sr) /\ Forall import_ok rules.
Proof.
  intros HW Hs Hf.
  pose proof (parse_contained_lemma fuel W cwd base override sr HW) as Hg.
  assert (Hd : parse_string fuel W cwd base override sr <> OutOfDepth).
  { unfold parse_string.
    pose proof (parse_src_no_depth W cwd universe Hs fuel base (top_chain base) (opt_truthy override) None sr []) as Hn.
    destruct (parse_src fuel W cwd base (top_chain base) (opt_truthy override) None sr []) as [[rules tr] | e tr | ].
    - destruct (finish_encoding W override None rules); discriminate.
    - discriminate.
    - exfalso. apply Hn; [ | reflexivity]. pose proof (remaining_bound universe (top_chain base)). lia. }
  destruct (parse_string fuel W cwd base override sr) as [[rules tr] | e tr | ]; simpl in Hg; try contradiction.
  exists rules, tr. tauto.
Qed.

(* ------------------------------------------------------------------ the fetcher is the only source of content *)
Definition suffix (l tr : trace) : Prop := exists p, tr = p ++ l.

Lemma suffix_refl l : suffix l l.
Proof. exists []. reflexivity. Qed.

Lemma suffix_cons x l tr : suffix (x :: l) tr -> suffix l tr.
Proof. intros [p ->]. exists (p ++ [x]). rewrite <- app_assoc. reflexivity. Qed.

Lemma suffix_trans a b c : suffix a b -> suffix b c -> suffix a c.
Proof. intros [p ->] [q ->]. exists (q ++ p). rewrite app_assoc. reflexivity. Qed.

Lemma suffix_step x l : suffix l (x :: l).
Proof. exists [x]. reflexivity. Qed.

Lemma suffix_in u tr0 tr : suffix (u :: tr0) tr -> In u tr.
Proof. intros [p ->]. apply in_or_app. right. left. reflexivity. Qed.

Definition rtrace {A} (r : res (A * trace)) : option trace :=
  match r with Normal (_, t) => Some t | Escapes _ t => Some t | OutOfDepth => None end.

(* a result only adds calls to the trace it started from *)
Definition extends {A} (r : res (A * trace)) (tr : trace) : Prop := forall t, rtrace r = Some t -> suffix tr t.

Definition ld_extends (ld : loader) : Prop := forall full anc o n sr t, extends (ld full anc o n sr t) t.

Lemma raise_trace (e : exn) (t : trace) (l : loaded) :
  rtrace (if is_caught e then Normal (l, t) else Escapes e t) = Some t.
Proof. destruct (is_caught e); reflexivity. Qed.

Lemma set_href_extends ld W cwd base anc override parent h tr :
  ld_extends ld -> extends (set_href ld W cwd base anc override parent h tr) tr.
Proof.
  intros Hld t. unfold set_href.
  destruct (negb (nonempty (raw h))). { simpl. intros H; inversion H; apply suffix_refl. }
  destruct (urljoin _ h) as [full|].
  2:{ destruct join_guarded; [rewrite raise_trace | simpl]; intros H; inversion H; apply suffix_refl. }
  destruct (cycle_guard && mem_str (raw full) anc). { rewrite raise_trace. intros H; inversion H; apply suffix_refl. }
  destruct (readurl W override parent _) as [ | used enctype t0 | e].
  - rewrite raise_trace. intros H; inversion H; apply suffix_step.
  - destruct (split_enc enctype used) as [eo en].
    pose proof (Hld full (raw full :: anc) (opt_truthy eo) (opt_truthy en) (parse W t0) (raw full :: tr)) as Hx.
    unfold extends in Hx.
    destruct (ld _ _ _ _ _ _) as [[rules tr2] | e tr2 | ]; simpl in Hx.
    + destruct (finish_encoding W eo en rules); [simpl | rewrite raise_trace]; intros H; inversion H; subst;
        eapply suffix_cons; apply Hx; reflexivity.
    + rewrite raise_trace. intros H; inversion H; subst. eapply suffix_cons; apply Hx; reflexivity.
    + simpl. discriminate.
  - rewrite raise_trace. intros H; inversion H; apply suffix_step.
Qed.

Lemma items_loop_extends ld W cwd base anc override newenc :
  ld_extends ld ->
  forall items expected acc tr, extends (items_loop ld W cwd base anc override newenc items expected acc tr) tr.
Proof.
  intros Hld. induction items as [ | it rest IH]; intros expected acc tr; simpl.
  - intros t H. inversion H. apply suffix_refl.
  - destruct it as [h media | u | sel p | t0]; try apply IH.
    + pose proof (set_href_extends ld W cwd base anc override (parent_encoding newenc acc) h tr Hld) as H1.
      destruct (set_href ld W cwd base anc override (parent_encoding newenc acc) h tr) as [[l tr1] | e tr1 | ].
      * assert (S1 : suffix tr tr1) by (apply H1; reflexivity).
        assert (K : forall ex ac, extends (items_loop ld W cwd base anc override newenc rest ex ac tr1) tr).
        { intros ex ac t Ht. eapply suffix_trans; [exact S1 | apply (IH ex ac tr1 t Ht)]. }
        destruct (negb (nonempty (raw h))); [apply K|].
        destruct (N.ltb 1 expected); [apply K|].
        destruct (l_found l); [apply K|].
        pose proof (set_href_extends ld W cwd base anc override
                      (parent_encoding newenc (acc ++ [mk_import h media l])) h tr1 Hld) as H2.
        destruct (set_href ld W cwd base anc override _ h tr1) as [[l2 tr2] | e tr2 | ].
        -- assert (S2 : suffix tr1 tr2) by (apply H2; reflexivity).
           intros t Ht. eapply suffix_trans; [exact S1|]. eapply suffix_trans; [exact S2|]. apply (IH _ _ tr2 t Ht).
        -- intros t Ht. inversion Ht; subst. eapply suffix_trans; [exact S1|]. apply H2. reflexivity.
        -- intros t Ht. discriminate Ht.
      * intros t Ht. inversion Ht; subst. apply H1. reflexivity.
      * intros t Ht. discriminate Ht.
    + destruct (N.ltb 2 expected); apply IH.
Qed.

Lemma parse_src_extends W cwd fuel : ld_extends (loader_at fuel W cwd).
Proof.
  induction fuel as [ | f IH]; intros full anc o n sr t; unfold loader_at; simpl.
  - intros t0 H. discriminate H.
  - apply items_loop_extends. exact IH.
Qed.

(* two worlds with the same codec / parser / validation *)
Definition same_env (W W' : world) : Prop :=
  (forall c, detect W' c = detect W c) /\ (forall b e, decode W' b e = decode W b e) /\
  (forall t, parse W' t = parse W t) /\ (forall e, enc_norm W' e = enc_norm W e).

(* ... whose fetchers answer alike at every call recorded in `tr` (url and the calls made before it) *)
Definition agree (W W' : world) (tr : trace) : Prop :=
  forall tr0 u, suffix (u :: tr0) tr -> fetch W' tr0 u = fetch W tr0 u.

Lemma agree_suffix W W' t tr : agree W W' tr -> suffix t tr -> agree W W' t.
Proof. intros H S tr0 u Hs. apply H. eapply suffix_trans; eauto. Qed.

Lemma readurl_same W W' override parent o : same_env W W' -> readurl W' override parent o = readurl W override parent o.
Proof.
  intros [Hd [Hc _]]. unfold readurl. destruct o as [ | | | http c | e]; try reflexivity.
  rewrite Hd. destruct (detect W c) as [cenc explicit]. destruct (ladder _ _ _ _ _) as [enctype en].
  destruct c as [t | b]; [reflexivity|]. rewrite Hc. reflexivity.
Qed.

Lemma finish_encoding_same W W' eo en rules : same_env W W' -> finish_encoding W' eo en rules = finish_encoding W eo en rules.
Proof.
  intros [_ [_ [_ He]]]. unfold finish_encoding, set_encoding.
  destruct (opt_truthy eo), (opt_truthy en); try reflexivity; rewrite He; reflexivity.
Qed.

(* ld' is the loader of the other world: equal wherever the fetchers agree on the calls made *)
Definition ld_same (W W' : world) (ld ld' : loader) : Prop :=
  forall full anc o n sr t tR, rtrace (ld full anc o n sr t) = Some tR -> agree W W' tR ->
                               ld' full anc o n sr t = ld full anc o n sr t.

Lemma set_href_same ld ld' W W' cwd base anc override parent h tr tR :
  same_env W W' -> ld_extends ld -> ld_same W W' ld ld' ->
  rtrace (set_href ld W cwd base anc override parent h tr) = Some tR -> agree W W' tR ->
  set_href ld' W' cwd base anc override parent h tr = set_href ld W cwd base anc override parent h tr.
Proof.
  intros He Hx Hs. unfold set_href.
  destruct (negb (nonempty (raw h))); [reflexivity|].
  destruct (urljoin _ h) as [full|]; [ | reflexivity].
  destruct (cycle_guard && mem_str (raw full) anc); [reflexivity|].
  intros Ht Ha.
  assert (Hf : fetch W' tr (raw full) = fetch W tr (raw full)).
  { apply Ha. revert Ht.
    destruct (readurl W override parent _) as [ | used enctype t0 | e].
    - rewrite raise_trace. intros H; inversion H. apply suffix_refl.
    - destruct (split_enc enctype used) as [eo en].
      pose proof (Hx full (raw full :: anc) (opt_truthy eo) (opt_truthy en) (parse W t0) (raw full :: tr)) as Hxx.
      unfold extends in Hxx.
      destruct (ld _ _ _ _ _ _) as [[rules tr2] | e tr2 | ]; simpl in Hxx.
      + destruct (finish_encoding W eo en rules); [simpl | rewrite raise_trace]; intros H; inversion H; subst;
          apply Hxx; reflexivity.
      + rewrite raise_trace. intros H; inversion H; subst. apply Hxx; reflexivity.
      + simpl. discriminate.
    - rewrite raise_trace. intros H; inversion H. apply suffix_refl. }
  rewrite Hf, (readurl_same W W' _ _ _ He). revert Ht.
  destruct (readurl W override parent _) as [ | used enctype t0 | e]; try (intros _; reflexivity).
  destruct (split_enc enctype used) as [eo en].
  destruct He as [Hd [Hc [Hp Hn]]]. rewrite Hp.
  specialize (Hs full (raw full :: anc) (opt_truthy eo) (opt_truthy en) (parse W t0) (raw full :: tr)).
  destruct (ld full _ _ _ _ _) as [[rules tr2] | e tr2 | ] eqn:El; simpl in Hs.
  - intros Ht.
    assert (Et : tR = tr2).
    { destruct (finish_encoding W eo en rules); [simpl in Ht | rewrite raise_trace in Ht]; inversion Ht; reflexivity. }
    subst tR. rewrite (Hs tr2 eq_refl Ha).
    rewrite (finish_encoding_same W W' eo en rules (conj Hd (conj Hc (conj Hp Hn)))). reflexivity.
  - rewrite raise_trace. intros Ht. inversion Ht; subst tR. rewrite (Hs tr2 eq_refl Ha). reflexivity.
  - simpl. discriminate.
Qed.

Lemma items_loop_same ld ld' W W' cwd base anc override newenc :
  same_env W W' -> ld_extends ld -> ld_same W W' ld ld' ->
  forall items expected acc tr tR,
    rtrace (items_loop ld W cwd base anc override newenc items expected acc tr) = Some tR -> agree W W' tR ->
    items_loop ld' W' cwd base anc override newenc items expected acc tr =
    items_loop ld W cwd base anc override newenc items expected acc tr.
Proof.
  intros He Hx Hs. induction items as [ | it rest IH]; intros expected acc tr tR; simpl; [reflexivity|].
  destruct it as [h media | u | sel p | t0]; try apply IH.
  2:{ destruct (N.ltb 2 expected); apply IH. }
  intros Ht Ha.
  pose proof (set_href_extends ld W cwd base anc override (parent_encoding newenc acc) h tr Hx) as E1.
  pose proof (set_href_same ld ld' W W' cwd base anc override (parent_encoding newenc acc) h tr) as S1.
  destruct (set_href ld W cwd base anc override (parent_encoding newenc acc) h tr) as [[l tr1] | e tr1 | ] eqn:R1.
  - (* the calls of the first load are among those of the whole result *)
    assert (Sx : suffix tr1 tR).
    { revert Ht.
      destruct (negb (nonempty (raw h))); [apply (items_loop_extends ld W cwd base anc override newenc Hx)|].
      destruct (N.ltb 1 expected); [apply (items_loop_extends ld W cwd base anc override newenc Hx)|].
      destruct (l_found l); [apply (items_loop_extends ld W cwd base anc override newenc Hx)|].
      pose proof (set_href_extends ld W cwd base anc override
                    (parent_encoding newenc (acc ++ [mk_import h media l])) h tr1 Hx) as E2.
      destruct (set_href ld W cwd base anc override _ h tr1) as [[l2 tr2] | e tr2 | ].
      - intros Ht. eapply suffix_trans; [apply E2; reflexivity|].
        apply (items_loop_extends ld W cwd base anc override newenc Hx _ _ _ _ _ Ht).
      - intros Ht. inversion Ht; subst. apply E2. reflexivity.
      - discriminate. }
    rewrite (S1 tr1 He Hx Hs eq_refl (agree_suffix _ _ _ _ Ha Sx)).
    destruct (negb (nonempty (raw h))); [apply (IH _ _ _ tR Ht Ha)|].
    destruct (N.ltb 1 expected); [apply (IH _ _ _ tR Ht Ha)|].
    destruct (l_found l); [apply (IH _ _ _ tR Ht Ha)|].
    pose proof (set_href_extends ld W cwd base anc override
                  (parent_encoding newenc (acc ++ [mk_import h media l])) h tr1 Hx) as E2.
    pose proof (set_href_same ld ld' W W' cwd base anc override
                  (parent_encoding newenc (acc ++ [mk_import h media l])) h tr1) as S2.
    destruct (set_href ld W cwd base anc override _ h tr1) as [[l2 tr2] | e tr2 | ] eqn:R2.
    + assert (Sy : suffix tr2 tR) by (apply (items_loop_extends ld W cwd base anc override newenc Hx _ _ _ _ _ Ht)).
      rewrite (S2 tr2 He Hx Hs eq_refl (agree_suffix _ _ _ _ Ha Sy)). apply (IH _ _ _ tR Ht Ha).
    + inversion Ht; subst. rewrite (S2 tR He Hx Hs eq_refl Ha). reflexivity.
    + discriminate Ht.
  - inversion Ht; subst. rewrite (S1 tR He Hx Hs eq_refl Ha). reflexivity.
  - discriminate Ht.
Qed.

Lemma parse_src_same W W' cwd fuel :
  same_env W W' -> ld_same W W' (loader_at fuel W cwd) (loader_at fuel W' cwd).
Proof.
  intros He. induction fuel as [ | f IH]; intros full anc o n sr t tR; unfold loader_at; simpl; [reflexivity|].
  apply (items_loop_same _ _ W W' cwd (Some full) anc o n He (parse_src_extends W cwd f) IH).
Qed.

Lemma only_fetcher_called_lemma W W' fuel cwd base override sr tR :
  same_env W W' ->
  rtrace (parse_string fuel W cwd base override sr) = Some tR -> agree W W' tR ->
  parse_string fuel W' cwd base override sr = parse_string fuel W cwd base override sr.
Proof.
  intros He. unfold parse_string.
  pose proof (parse_src_same W W' cwd fuel He (match base with Some b => b | None => cwd end)) as Hs.
  destruct fuel as [ | f]; [reflexivity|]. simpl.
  pose proof (items_loop_same (loader_at f W cwd) (loader_at f W' cwd) W W' cwd base (top_chain base)
                (opt_truthy override) None He (parse_src_extends W cwd f) (parse_src_same W W' cwd f He)
                (s_items sr) (initial_expected sr) (initial_rules sr) []) as H.
  unfold loader_at in H.
  destruct (items_loop _ W cwd base _ _ _ _ _ _ _) as [[rules tr] | e tr | ] eqn:R.
  - intros Ht Ha.
    assert (tR = tr).
    { destruct (finish_encoding W override None rules); simpl in Ht; inversion Ht; reflexivity. }
    subst. rewrite (H tr eq_refl Ha), (finish_encoding_same W W' _ _ _ He). reflexivity.
  - simpl. intros Ht Ha. inversion Ht; subst. rewrite (H tR eq_refl Ha). reflexivity.
  - simpl. discriminate.
Qed.

(* ------------------------------------------------------------------ nested base URLs, at every depth *)
(* based b rules: every loaded @import of the tree (any depth) carries as sheet href the URL obtained by joining its
   href with the URL of the sheet that contains it -- b for the rules themselves, that joined URL for the rules of the
   imported sheet, and so on *)
Inductive based : url -> list rrule -> Prop :=
  | based_nil b : based b []
  | based_other b r rules :
      match r with RImport _ _ _ _ _ => False | _ => True end -> based b rules -> based b (r :: rules)
  | based_unloaded b h m href sub rules : based b rules -> based b (RImport h m false href sub :: rules)
  | based_loaded b h m hu full sub rules :
      raw hu = h -> urljoin b hu = Some full -> based full sub -> based b rules ->
      based b (RImport h m true (Some (raw full)) sub :: rules).

Lemma based_app b l1 l2 : based b l1 -> based b l2 -> based b (l1 ++ l2).
Proof.
  intros H1 H2. induction H1; simpl; auto.
  - apply based_other; auto.
  - apply based_unloaded; auto.
  - eapply based_loaded; eauto.
Qed.

Lemma set_encoding_based W e b rules r : set_encoding W e rules = Some r -> based b rules -> based b r.
Proof.
  unfold set_encoding. intros H Hb.
  destruct rules as [ | x rest].
  - destruct (enc_norm W e); [ | destruct charset_init_safe]; inversion H; subst; auto.
    apply based_other; simpl; auto.
  - destruct x as [e0 | h m f hr sub | u | a c | t0].
    + destruct (enc_norm W e); inversion H; subst; auto.
      inversion Hb; subst. apply based_other; simpl; auto.
    + destruct (enc_norm W e); [ | destruct charset_init_safe]; inversion H; subst; auto; apply based_other; simpl; auto.
    + destruct (enc_norm W e); [ | destruct charset_init_safe]; inversion H; subst; auto; apply based_other; simpl; auto.
    + destruct (enc_norm W e); [ | destruct charset_init_safe]; inversion H; subst; auto; apply based_other; simpl; auto.
    + destruct (enc_norm W e); [ | destruct charset_init_safe]; inversion H; subst; auto; apply based_other; simpl; auto.
Qed.

Lemma finish_encoding_based W eo en b rules r : finish_encoding W eo en rules = Some r -> based b rules -> based b r.
Proof.
  unfold finish_encoding. destruct (opt_truthy eo), (opt_truthy en); intros H Hb;
    try (eapply set_encoding_based; eassumption).
  inversion H; subst; auto.
Qed.

Definition ld_based (ld : loader) : Prop :=
  forall full anc o n sr t rules t', ld full anc o n sr t = Normal (rules, t') -> based full rules.

Definition base_of (cwd : url) (base : option url) : url := match base with Some b => b | None => cwd end.

Lemma set_href_based ld W cwd base anc override parent h tr l tr' :
  ld_based ld ->
  set_href ld W cwd base anc override parent h tr = Normal (l, tr') -> l_found l = true ->
  exists full, urljoin (base_of cwd base) h = Some full /\ l_href l = Some (raw full) /\ based full (l_rules l).
Proof.
  intros Hld. unfold set_href, base_of. intros H Hf.
  destruct (negb (nonempty (raw h))). { inversion H; subst. discriminate. }
  destruct (urljoin _ h) as [full|].
  2:{ destruct join_guarded; [destruct (is_caught E_ValueError)|]; inversion H; subst; discriminate. }
  destruct (cycle_guard && mem_str (raw full) anc).
  { destruct (is_caught raised_on_cycle); inversion H; subst; discriminate. }
  destruct (readurl W override parent _) as [ | used enctype t | e].
  - destruct (is_caught raised_on_none); inversion H; subst; discriminate.
  - destruct (split_enc enctype used) as [eo en].
    destruct (ld full _ _ _ _ _) as [[rules tr2] | e tr2 | ] eqn:El; try discriminate.
    + destruct (finish_encoding W eo en rules) as [r | ] eqn:Ef.
      * inversion H; subst. exists full. simpl. repeat split; auto.
        eapply finish_encoding_based; eauto.
      * destruct (is_caught E_AttributeError); inversion H; subst; discriminate.
    + destruct (is_caught e); inversion H; subst; discriminate.
  - destruct (is_caught e); inversion H; subst; discriminate.
Qed.

Lemma based_import b h media l :
  (l_found l = true -> exists full, urljoin b h = Some full /\ l_href l = Some (raw full) /\ based full (l_rules l)) ->
  based b [mk_import h media l].
Proof.
  intros H. unfold mk_import. destruct (l_found l).
  - destruct (H eq_refl) as [full [Hj [Hh Hb]]]. rewrite Hh.
    eapply based_loaded; eauto. apply based_nil.
  - apply based_unloaded. apply based_nil.
Qed.

Lemma items_loop_based ld W cwd base anc override newenc :
  ld_based ld ->
  forall items expected acc tr rules tr',
    based (base_of cwd base) acc ->
    items_loop ld W cwd base anc override newenc items expected acc tr = Normal (rules, tr') ->
    based (base_of cwd base) rules.
Proof.
  intros Hld. induction items as [ | it rest IH]; intros expected acc tr rules tr' Hacc; simpl.
  - intros H; inversion H; subst; auto.
  - destruct it as [h media | u | sel p | t0].
    + destruct (set_href ld W cwd base anc override (parent_encoding newenc acc) h tr) as [[l tr1] | e tr1 | ] eqn:R1;
        try discriminate.
      destruct (negb (nonempty (raw h))); [apply IH; auto|].
      destruct (N.ltb 1 expected); [apply IH; auto|].
      destruct (l_found l) eqn:Ef.
      * apply IH. apply based_app; auto. apply based_import. intros _.
        eapply set_href_based; eauto.
      * destruct (set_href ld W cwd base anc override _ h tr1) as [[l2 tr2] | e tr2 | ] eqn:R2; try discriminate.
        apply IH. apply based_app; auto. apply based_import. intros Hf2.
        eapply set_href_based; eauto.
    + destruct (N.ltb 2 expected); [apply IH; auto|].
      apply IH. apply based_app; auto. apply based_other; simpl; auto. apply based_nil.
    + apply IH. apply based_app; auto. apply based_other; simpl; auto. apply based_nil.
    + apply IH. apply based_app; auto. apply based_other; simpl; auto. apply based_nil.
Qed.

Lemma initial_rules_based b sr : based b (initial_rules sr).
Proof. unfold initial_rules. destruct (s_charset sr); [apply based_other; simpl; auto|]; apply based_nil. Qed.

Lemma parse_src_based W cwd fuel : ld_based (loader_at fuel W cwd).
Proof.
  induction fuel as [ | f IH]; intros full anc o n sr t rules t'; unfold loader_at; simpl; [discriminate|].
  intros H.
  apply (items_loop_based (loader_at f W cwd) W cwd (Some full) anc o n IH _ _ _ _ _ _ (initial_rules_based full sr) H).
Qed.

Lemma nested_base_url_deep_lemma fuel W cwd base override sr rules tr :
  parse_string fuel W cwd base override sr = Normal (rules, tr) -> based (base_of cwd base) rules.
Proof.
  unfold parse_string. destruct fuel as [ | f]; simpl; [discriminate|].
  destruct (items_loop _ W cwd base _ _ _ _ _ _ _) as [[rules0 tr0] | e tr0 | ] eqn:R; try discriminate.
  destruct (finish_encoding W override None rules0) as [r | ] eqn:Ef; try discriminate.
  intros H; inversion H; subst.
  eapply finish_encoding_based; eauto.
  eapply (items_loop_based (loader_at f W cwd) W cwd base); [apply parse_src_based | apply initial_rules_based | exact R].
Qed.
