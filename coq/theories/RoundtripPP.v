(* RoundtripPP.v -- C03: the value round trip with the value grammar DISCHARGED by the production-parser model (PP).
   `reparse_equal_items` (RoundtripFacts / props/C03.v) keeps the value grammar as the premise value_grammar_faithful.
   Here `vparse` is instantiated with PP's PropertyValue parse (ProdParserValue.build_value: the regenerated
   PropertyValue tree run by the ProdParser interpreter, constructor + object read-back) and the premise disappears for
   the fragment PP covers that is expressible as C03 items: STRING items and IDENT items (single-token terms), joined by
   the serializer's single space.  What remains as a premise is only what `Out` does (C05): the tokens of the written
   text are the items' tokens with one " " S token between them.                                                    *)
From CssV Require Import Base Regex RegexFacts RegexTotal Gen.Productions Gen.TokTables Gen.PyTables
     Tokenizer TokenizerFacts Quote Gen.Quote QuoteFacts QuoteStrFacts Roundtrip RoundtripFacts.
From CssV Require Grammar GrammarFacts ProdParser Gen.ProdTrees ProdParserValue Selector.

(* ------------------------------------------------------------------ the token a written string yields, with its value *)
(* string_roundtrip_lemma with the token spelled out (same proof) *)
Lemma string_token_lemma : forall dc fs v follow, representable_str v ->
  first_token dc fs (hstring v ++ follow) = Some (mkTok (s "STRING") (hstring v) (34%N :: bloop SN v ++ [34%N]) 1 1).
Proof.
  intros dc fs v follow Hn.
  destruct (string_roundtrip_lemma dc fs v follow Hn) as (t & Ht & Hty & Hraw & Hl & Hc & _).
  (* the token is determined by the run of the model: replay the last steps to read its value *)
  destruct (hstring_shape v) as [y Hy].
  revert Ht. unfold first_token, tokenize.
  assert (Hb : rmatch (snd bom_production) None (hstring v ++ follow) = None).
  { rewrite Hy. unfold rmatch. apply fails_on_sound. exact bom_fails_dq. }
  rewrite Hb.
  assert (Hs : starts (s "@charset ") (hstring v ++ follow) = false) by (rewrite Hy; reflexivity).
  rewrite Hs.
  set (text := hstring v ++ follow).
  assert (Htext : text = 34%N :: y ++ follow) by (unfold text; rewrite Hy; reflexivity).
  assert (Hloop : loop (S (length text)) dc fs None text 1 1 =
               option_map (cons (mkTok (s "STRING") (hstring v) (34%N :: bloop SN v ++ [34%N]) 1 1))
                 (let '(l', c') := upd_pos 1 1 (hstring v) in
                  loop (length text) dc fs (last_opt None (hstring v)) follow l' c')).
  { rewrite Htext at 2. cbn [loop]. change (mem 34%N fastchars) with false. cbv iota.
    rewrite <- Htext. unfold text. rewrite (try_prods_string dc fs None v follow Hn).
    rewrite skipn_app, skipn_all, Nat.sub_diag. cbn [skipn app].
    rewrite (finish_string_rep v follow Hn).
    rewrite skipn_app, skipn_all, Nat.sub_diag. cbn [skipn app].
    destruct (upd_pos 1 1 (hstring v)) as [l' c'].
    change (eqs (s "STRING") (s "COMMENT")) with false. cbn [negb]. rewrite orb_true_r.
    destruct (loop (length (hstring v ++ follow)) dc fs (last_opt None (hstring v)) follow l' c'); reflexivity. }
  rewrite Hloop. destruct (upd_pos 1 1 (hstring v)) as [l' c'].
  destruct (loop (length text) dc fs (last_opt None (hstring v)) follow l' c') as [ts|]; cbn [option_map app]; [|discriminate].
  intros _. reflexivity.
Qed.

(* a value whose quoted text is its own body: no double quote, no backslash at the end *)
Lemma bloop_plain : forall v st, ~ In 34%N v -> bloop st v = match st with SN => [] | _ => [92%N] end ++ v ++
  (match v, st with [], SN => [] | [], _ => [92%N] | _, _ => if N.eqb (last v 0%N) 92 then [92%N] else [] end).
Proof.
  induction v as [|c v IH]; intros st Hq.
  - destruct st; reflexivity.
  - assert (Hc : c <> 34%N) by (intros ->; apply Hq; left; reflexivity).
    assert (Hq' : ~ In 34%N v) by (intros H; apply Hq; right; exact H).
    assert (Eb : bplain c = [c]) by (unfold bplain; apply N.eqb_neq in Hc; rewrite Hc; reflexivity).
    cbn [bloop]. destruct st; destruct (N.eqb_spec c 92) as [->|H92]; rewrite ?Eb, IH by exact Hq'; cbn [app];
      destruct v as [|d v]; cbn [last app]; rewrite ?N.eqb_refl; try reflexivity;
      try (replace (N.eqb c 92) with false by (symmetry; apply N.eqb_neq; exact H92); reflexivity).
Qed.

(* ------------------------------------------------------------------ the PP fragment as C03 items *)
Definition norm (t : tok) : tok := mkTok (ty t) (val t) (val t) 0 0.       (* type and value: all the production parser reads *)

Definition noncolor (x : str) : Prop :=
  ProdParser.mem_s (normalize x) Gen.ProdTrees.color_keys = false /\
  Selector.assoc_s (lower x) Grammar.named_colors = None.

Definition pp_str (v : str) : Prop :=
  representable_str v /\ bloop SN v = v /\
  ProdParser.stringvalue (34%N :: v ++ [34%N]) = Some v /\ ProdParser.stringvalue (39%N :: v ++ [39%N]) = Some v.

Definition pp_item (sepok : str -> Prop) (i : item) : Prop :=
  match i with
  | IStr v => pp_str v
  | ILex ty0 x => ty0 = s "IDENT" /\ ProdParserValue.okw x /\ noncolor x /\ wf_item sepok (ILex ty0 x)
  end.

Definition term_of (i : item) : Grammar.term :=
  match i with IStr v => Grammar.TmStr 0 v | ILex _ x => Grammar.TmIdent x end.

(* read the object model of PP back as items *)
Definition item_of_js (j : Grammar.js) : option item :=
  match j with
  | Grammar.JL [Grammar.JS t; Grammar.JS v] =>
      if eqs t (s "STRING") then Some (IStr v) else if eqs t (s "IDENT") then Some (ILex (s "IDENT") v) else None
  | _ => None
  end.
Fixpoint all_some {A} (l : list (option A)) : option (list A) :=
  match l with
  | [] => Some []
  | Some a :: r => match all_some r with Some r' => Some (a :: r') | None => None end
  | None :: _ => None
  end.
Definition items_of_js (j : Grammar.js) : option (list item) :=
  match j with Grammar.JL l => all_some (map item_of_js l) | _ => None end.

(* vparse := PropertyValue parse + constructor + read-back of PP, on the (type, value) view of the tokens *)
Definition vparse_pp (ts : list tok) : option (list item) :=
  items_of_js (ProdParserValue.build_value (map norm ts)).

Fixpoint sp_join (l : list tok) : list tok :=
  match l with [] => [] | [a] => [a] | a :: r => a :: Grammar.wS " " :: sp_join r end.
(* what `Out` does with value items: exactly one S token " " between two items, none around *)
Definition spaced (ts : list tok) : Prop := map norm ts = sp_join (map norm (filter non_S ts)).

Definition decl_of (l : list item) : Grammar.decl :=
  match l with
  | [] => Grammar.mkDecl [] 0 0 (Grammar.TmIdent []) [] 0 None
  | i :: r => Grammar.mkDecl (s "x") 0 0 (term_of i) (map (fun j => (Grammar.SepSp 0, term_of j)) r) 0 None
  end.

Lemma item_js sepok i : pp_item sepok i -> item_of_js (Grammar.m_term (term_of i)) = Some i.
Proof.
  destruct i as [v|ty0 x]; cbn [pp_item term_of Grammar.m_term].
  - intros _. reflexivity.
  - intros (-> & _ & (_ & Hn) & _). rewrite Hn. reflexivity.
Qed.

Lemma item_tok sepok i t : pp_item sepok i -> yields sepok i t -> norm t = hd t (Grammar.r_term [] (term_of i)).
Proof.
  intros Hp (follow & t' & Hsep & Hf & Hty & Hval). unfold norm. destruct i as [v|ty0 x]; cbn [pp_item term_of ser_item] in *.
  - destruct Hp as (Hr & Hb & _). rewrite (string_token_lemma true false v follow Hr) in Hf. injection Hf as <-.
    cbn [ty val] in Hty, Hval. rewrite <- Hty, <- Hval, Hb. reflexivity.
  - destruct Hp as (-> & _ & _ & (_ & Hlex)). destruct (Hlex follow t' Hsep Hf) as [H1 H2].
    rewrite <- Hty, <- Hval, H1, H2. reflexivity.
Qed.

Lemma wf_term_of sepok i : pp_item sepok i ->
  ProdParserValue.wf_term (term_of i) /\ ProdParserValue.wf_term_js (term_of i).
Proof.
  destruct i as [v|ty0 x]; cbn [pp_item term_of ProdParserValue.wf_term ProdParserValue.wf_term_js].
  - intros (_ & _ & H1 & H2). auto.
  - intros (_ & Hk & (Hc & Hn) & _). split; [exact Hk|]. rewrite Hc, Hn. reflexivity.
Qed.

Lemma term_tok1 sepok j u : pp_item sepok j -> yields sepok j u -> Grammar.r_term [] (term_of j) = [norm u].
Proof. intros Hj Hu. rewrite (item_tok sepok j u Hj Hu). destruct j; reflexivity. Qed.

Lemma rendered_tail sepok : forall l fts, Forall2 (yields sepok) l fts -> Forall (pp_item sepok) l ->
  forall t0, sp_join (t0 :: map norm fts) =
             t0 :: flat_map (fun p => Grammar.r_sep [] (fst p) ++ Grammar.r_term [] (snd p))
                            (map (fun j => (Grammar.SepSp 0, term_of j)) l).
Proof.
  induction 1 as [|j u l fts Hju Hy IH]; intros Hl t0; [reflexivity|].
  inversion Hl as [|? ? Hj Hl']; subst. cbn [map flat_map fst snd Grammar.r_sep].
  change (Grammar.greq [] 0) with [Grammar.wS " "]. rewrite (term_tok1 sepok j u Hj Hju). cbn [app].
  change (sp_join (t0 :: norm u :: map norm fts)) with (t0 :: Grammar.wS " " :: sp_join (norm u :: map norm fts)).
  f_equal. f_equal. apply IH. exact Hl'.
Qed.

Lemma rendered sepok : forall l fts, Forall (pp_item sepok) l -> Forall2 (yields sepok) l fts -> l <> [] ->
  sp_join (map norm fts) = Grammar.r_value [] (decl_of l).
Proof.
  intros l fts Hp Hy Hne. destruct Hy as [|i t l fts Hit Hy]; [congruence|].
  inversion Hp as [|? ? Hi Hl]; subst.
  unfold Grammar.r_value, decl_of. cbn [Grammar.d_first Grammar.d_more map].
  rewrite (term_tok1 sepok i t Hi Hit). cbn [app]. apply (rendered_tail sepok); assumption.
Qed.

Lemma js_items sepok : forall l, Forall (pp_item sepok) l -> l <> [] ->
  items_of_js (GrammarFacts.m_value (decl_of l)) = Some l.
Proof.
  intros l Hp Hne. destruct l as [|i l]; [congruence|]. inversion Hp as [|? ? Hi Hl]; subst.
  unfold GrammarFacts.m_value, decl_of, items_of_js. cbn [Grammar.d_first Grammar.d_more map all_some].
  rewrite (item_js sepok i Hi).
  assert (E : all_some (map item_of_js (flat_map (fun p => Grammar.m_sep (fst p) ++ [Grammar.m_term (snd p)])
                 (map (fun j => (Grammar.SepSp 0, term_of j)) l))) = Some l).
  { clear Hp Hi Hne. induction Hl as [|j l Hj Hl IH]; [reflexivity|].
    cbn [map flat_map fst snd Grammar.m_sep app all_some]. rewrite (item_js sepok j Hj), IH. reflexivity. }
  rewrite E. reflexivity.
Qed.

Lemma wf_decl sepok l : Forall (pp_item sepok) l -> l <> [] -> ProdParserValue.wf_value_js (decl_of l).
Proof.
  intros Hp Hne. destruct l as [|i l]; [congruence|]. inversion Hp as [|? ? Hi Hl]; subst.
  unfold ProdParserValue.wf_value_js, ProdParserValue.wf_value, decl_of. cbn [Grammar.d_first Grammar.d_more].
  destruct (wf_term_of sepok i Hi) as [W1 W2].
  assert (Hall : Forall (fun p => ProdParserValue.wf_term (snd p)) (map (fun j => (Grammar.SepSp 0, term_of j)) l) /\
                 Forall (fun p => ProdParserValue.wf_term_js (snd p)) (map (fun j => (Grammar.SepSp 0, term_of j)) l)).
  { clear Hp Hi Hne W1 W2. induction Hl as [|j l Hj Hl [IH1 IH2]]; [split; constructor|].
    destruct (wf_term_of sepok j Hj) as [V1 V2]. split; constructor; auto. }
  destruct Hall as [A1 A2]. repeat split; assumption.
Qed.

(* value_grammar_faithful, PROVED for vparse_pp on the token lists the serializer produces for PP items: the premise of
   reparse_equal_items (there: for all token lists, assumed) in the form in which it is used *)
Lemma value_grammar_faithful_pp_lemma : forall (sepok : str -> Prop) l ts,
  Forall2 (yields sepok) l (filter non_S ts) -> spaced ts -> Forall (pp_item sepok) l -> l <> [] ->
  vparse_pp ts = Some l.
Proof.
  intros sepok l ts Hy Hsp Hp Hne. unfold vparse_pp. rewrite Hsp.
  rewrite (rendered sepok l (filter non_S ts) Hp Hy Hne).
  pose proof (ProdParserValue.value_grammar_faithful_simple [] (decl_of l) 0 (wf_decl sepok l Hp Hne)) as Hpp.
  assert (Ed : GrammarFacts.decl_value [] (decl_of l) (Grammar.gopt [] 0) = Grammar.r_value [] (decl_of l)).
  { unfold GrammarFacts.decl_value. destruct l as [|i l0]; [congruence|]. cbn [decl_of Grammar.d_g2 Grammar.d_imp].
    change (Grammar.gopt [] 0) with (@nil tok). cbn [app]. apply app_nil_r. }
  rewrite Ed in Hpp. rewrite Hpp. apply (js_items sepok); assumption.
Qed.

(* the value round trip without any hypothesis about the value grammar: for a non-empty list of PP items, if the
   tokens of the written text are what the items yield, one " " S token apart (the part that belongs to `Out`), then
   tokenizing it, running PP's PropertyValue parse and reading the objects back gives the items again *)
Theorem reparse_equal_items_pp_lemma : forall (sepok : str -> Prop) (out : list str -> str) l ts,
  tokenize true false (ser_items out l) = Some ts ->
  Forall2 (yields sepok) l (filter non_S ts) -> spaced ts ->
  Forall (pp_item sepok) l -> l <> [] ->
  parse_items vparse_pp (ser_items out l) = Some l /\
  option_map (ser_items out) (parse_items vparse_pp (ser_items out l)) = Some (ser_items out l).
Proof.
  intros sepok out l ts Ht Hy Hsp Hp Hne.
  assert (H : parse_items vparse_pp (ser_items out l) = Some l).
  { unfold parse_items. rewrite Ht. apply (value_grammar_faithful_pp_lemma sepok); assumption. }
  split; [exact H|]. rewrite H. reflexivity.
Qed.

(* in the shape of reparse_equal_items: the only premise left is the one about `Out` *)
Corollary reparse_equal_items_pp_all_lemma : forall (sepok : str -> Prop) (out : list str -> str),
  (forall l, Forall (pp_item sepok) l -> l <> [] ->
     exists ts, tokenize true false (ser_items out l) = Some ts /\
                Forall2 (yields sepok) l (filter non_S ts) /\ spaced ts) ->                  (* out_tokens_spaced *)
  forall l, Forall (pp_item sepok) l -> l <> [] ->
    parse_items vparse_pp (ser_items out l) = Some l /\
    option_map (ser_items out) (parse_items vparse_pp (ser_items out l)) = Some (ser_items out l).
Proof.
  intros sepok out Hout l Hp Hne. destruct (Hout l Hp Hne) as (ts & Ht & Hy & Hsp).
  exact (reparse_equal_items_pp_lemma sepok out l ts Ht Hy Hsp Hp Hne).
Qed.

(* a PP string item is a well-formed item of reparse_equal_items *)
Lemma pp_item_wf sepok i : pp_item sepok i -> wf_item sepok i.
Proof. destruct i as [v|ty0 x]; cbn [pp_item wf_item]; [intros (H & _); exact H|intros (_ & _ & _ & H); exact H]. Qed.

(* ------------------------------------------------------------------ non-vacuity: a string with a newline escape and a
   simple escape (value  a LF backslash g,  written  quote a backslash a space backslash g quote)  and an identifier *)
Definition out_sp (l : list str) : str :=
  match l with [] => [] | a :: r => a ++ flat_map (fun x => 32%N :: x) r end.
Definition ex_sepok (f : str) : Prop := f = [] \/ f = s " serif".
Definition ex_items : list item := [IStr [97; 10; 92; 103]%N; ILex (s "IDENT") (s "serif")].

Lemma reparse_equal_items_pp_example_lemma :
  ser_items out_sp ex_items = [34; 97; 92; 97; 32; 92; 103; 34; 32; 115; 101; 114; 105; 102]%N /\
  Forall (pp_item ex_sepok) ex_items /\
  parse_items vparse_pp (ser_items out_sp ex_items) = Some ex_items.
Proof.
  split; [vm_compute; reflexivity|].
  assert (Hp : Forall (pp_item ex_sepok) ex_items).
  { constructor; [|constructor; [|constructor]].
    - unfold pp_item, pp_str, representable_str. repeat split; vm_compute; reflexivity.
    - unfold pp_item. split; [reflexivity|]. split; [split; vm_compute; reflexivity|].
      split; [split; vm_compute; reflexivity|]. split; [discriminate|].
      intros follow t [->| ->] Hf; vm_compute in Hf; injection Hf as <-; split; reflexivity. }
  split; [exact Hp|].
  eapply (reparse_equal_items_pp_lemma ex_sepok out_sp ex_items).
  - vm_compute. reflexivity.
  - match goal with |- Forall2 _ _ ?f => let f' := eval vm_compute in f in change f with f' end.
    constructor; [|constructor; [|constructor]].
    + exists (s " serif"). eexists. split; [right; reflexivity|]. split; [vm_compute; reflexivity|]. split; reflexivity.
    + exists []. eexists. split; [left; reflexivity|]. split; [vm_compute; reflexivity|]. split; reflexivity.
  - vm_compute. reflexivity.
  - exact Hp.
  - discriminate.
Qed.
