(* QuoteFacts.v -- C03: the string quoting round trip
     helper.string  ->  STRING production of the generated list, run by the shared tokenizer model
                    ->  unicodesub, cleanstring  ->  Base._stringtokenvalue
   proved for every REPRESENTABLE value (rep_ok: every value except those with an escape-introducing
   backslash directly before a double quote - kept as it is by helper.string because the pinned test
   test_value.py:411 asserts that output - or a backslash before a newline character, which is written as
   backslash + newline escape and deleted by the tokenizer's cleanstring: finding C03-backslash-before-newline)
   and every following text; refuted for the excluded quote case.                                     *)
From CssV Require Import Base Regex RegexFacts RegexTotal Gen.Productions Gen.TokTables Gen.PyTables
     Tokenizer TokenizerFacts Quote Gen.Quote.


(* ------------------------------------------------------------------ characters *)
Definition ishex (c : N) : bool := mem c str_hexdigits.
Definition isnl (c : N) : bool := (N.eqb c 10 || N.eqb c 13 || N.eqb c 12)%N.
Definition hexr : list (N * N) := [(48, 57); (65, 70); (97, 102)]%N.

Lemma hexdigits_eq :
  str_hexdigits = [48;49;50;51;52;53;54;55;56;57;97;98;99;100;101;102;65;66;67;68;69;70]%N.
Proof. reflexivity. Qed.
Lemma ishex_small : forallb (fun x => Bool.eqb (ishex x) (in_ranges x hexr)) (map N.of_nat (seq 0 128)) = true.
Proof. vm_compute. reflexivity. Qed.
Lemma ishex_ranges x : ishex x = in_ranges x hexr.
Proof.
  destruct (N.ltb_spec x 128) as [Hlt|Hge].
  - pose proof ishex_small as H. rewrite forallb_forall in H. apply eqb_prop. apply H.
    rewrite <- (N2Nat.id x). apply in_map. apply in_seq. lia.
  - assert (E : forall k, (k < 128)%N -> N.eqb k x = false) by (intros k Hk; apply N.eqb_neq; lia).
    unfold ishex. rewrite hexdigits_eq. cbn [mem]. rewrite !E by lia. cbn [orb].
    unfold hexr. cbn [in_ranges]. replace (N.leb x 57) with false by (symmetry; apply N.leb_gt; lia).
    replace (N.leb x 70) with false by (symmetry; apply N.leb_gt; lia).
    replace (N.leb x 102) with false by (symmetry; apply N.leb_gt; lia). rewrite !andb_false_r. reflexivity.
Qed.

(* what the facts below need about a character that is neither a hex digit nor a newline *)
Lemma ranges_bounds x : in_ranges x hexr = false ->
  ((x < 48 \/ 57 < x) /\ (x < 65 \/ 70 < x) /\ (x < 97 \/ 102 < x))%N.
Proof.
  unfold hexr. cbn [in_ranges]. intros H.
  repeat (apply orb_false_iff in H as [? H]).
  repeat match goal with H : (_ && _)%bool = false |- _ => apply andb_false_iff in H end.
  repeat match goal with H : _ \/ _ |- _ => destruct H end;
  repeat match goal with H : N.leb _ _ = false |- _ => apply N.leb_gt in H end; try discriminate; lia.
Qed.
Lemma ranges_hex_true x : in_ranges x hexr = true -> ((48 <= x <= 57) \/ (65 <= x <= 70) \/ (97 <= x <= 102))%N.
Proof.
  unfold hexr. cbn [in_ranges]. intros H.
  repeat (apply orb_true_iff in H as [H|H]); try discriminate;
    apply andb_true_iff in H as [H1 H2]; apply N.leb_le in H1, H2; lia.
Qed.
Lemma isnl_false x : isnl x = false -> x <> 10%N /\ x <> 13%N /\ x <> 12%N.
Proof.
  unfold isnl. intros H. repeat (apply orb_false_iff in H as [H ?]).
  repeat match goal with H : N.eqb _ _ = false |- _ => apply N.eqb_neq in H end. auto.
Qed.

Ltac ranges_false :=
  cbn [in_ranges];
  repeat match goal with |- context [N.leb ?a ?b] => destruct (N.leb_spec a b) end; simpl; try reflexivity; lia.

(* str_plain, case by case *)
Lemma str_plain_cases c : c <> 92%N ->
  ((c = 34 /\ str_plain c = [92; 34]) \/ (c = 10 /\ str_plain c = [92; 97; 32]) \/
   (c = 13 /\ str_plain c = [92; 100; 32]) \/ (c = 12 /\ str_plain c = [92; 99; 32]) \/
   (c <> 34 /\ isnl c = false /\ str_plain c = [c]))%N.
Proof.
  intros _. unfold str_plain, str_quote, str_quote_esc, str_newlines, isnl. cbn [str_assoc].
  destruct (N.eqb_spec c 34) as [->|H34]; [left; auto|].
  rewrite (N.eqb_sym 10 c), (N.eqb_sym 13 c), (N.eqb_sym 12 c).
  destruct (N.eqb_spec c 10) as [->|H10]; [right; left; auto|].
  destruct (N.eqb_spec c 13) as [->|H13]; [right; right; left; auto|].
  destruct (N.eqb_spec c 12) as [->|H12]; [right; right; right; left; auto|].
  right; right; right; right. auto.
Qed.
Lemma str_plain_nonempty c : (0 < length (str_plain c))%nat.
Proof.
  unfold str_plain, str_quote, str_quote_esc, str_newlines. cbn [str_assoc].
  repeat match goal with |- context [N.eqb ?a ?b] => destruct (N.eqb a b) end; simpl; lia.
Qed.

(* ------------------------------------------------------------------ representable values *)
Fixpoint rep_ok (st : sstate) (v : str) : bool :=
  match v with
  | [] => true
  | c :: r =>
    match st with
    | SN => if N.eqb c 92%N then rep_ok S1 r else rep_ok SN r
    | S1 => if N.eqb c 92%N then rep_ok S2 r else negb (N.eqb c 34%N) && negb (isnl c) && rep_ok SN r
    | S2 => if N.eqb c 92%N then rep_ok S1 r else negb (isnl c) && rep_ok SN r
    end
  end.
Definition representable (v : str) : Prop := rep_ok SN v = true.

Lemma nobs_representable v : no_backslash v -> representable v.
Proof.
  unfold representable. induction v as [|c v IH]; intros Hn; [reflexivity|]. cbn [rep_ok].
  replace (N.eqb c 92) with false by (symmetry; apply N.eqb_neq; intros ->; apply Hn; left; reflexivity).
  apply IH. intros H. apply Hn. right. exact H.
Qed.

(* the text after the tokenizer's unicodesub (and cleanstring), and the remaining value, per state *)
Definition bplain (c : N) : str := if N.eqb c 34%N then [92; 34]%N else [c].
Fixpoint bloop (st : sstate) (v : str) : str :=
  match v with
  | [] => match st with SN => [] | _ => [92; 92]%N end
  | c :: r =>
    match st with
    | SN => if N.eqb c 92%N then bloop S1 r else bplain c ++ bloop SN r
    | S1 => if N.eqb c 92%N then 92%N :: bloop S2 r else 92%N :: bplain c ++ bloop SN r
    | S2 => if N.eqb c 92%N then 92%N :: bloop S1 r else 92%N :: bplain c ++ bloop SN r
    end
  end.
Definition vsuf (st : sstate) (r : str) : str := match st with SN => r | _ => 92%N :: r end.

Lemma hstring_unfold v : hstring_uri v = 34%N :: hstring_loop SN v ++ [34%N].
Proof. reflexivity. Qed.

Lemma loop_head st r tl : st <> SN -> exists t', hstring_loop st r ++ tl = 92%N :: t'.
Proof.
  intros Hs. destruct r as [|c r]; destruct st; try congruence; cbn [hstring_loop];
    unfold str_end1, str_end2, str_s1_first, str_s2_first, str_s1_hex, str_s1_else, str_s2_hex, str_s2_else, str_bs;
    repeat match goal with |- context [if ?b then _ else _] => destruct b end; cbn [app]; eauto.
Qed.
Lemma bloop_head st r tl : st <> SN -> exists t', bloop st r ++ tl = 92%N :: t'.
Proof.
  intros Hs. destruct r as [|c r]; destruct st; try congruence; cbn [bloop];
    repeat match goal with |- context [if ?b then _ else _] => destruct b end; cbn [app]; eauto.
Qed.

(* ------------------------------------------------------------------ the STRING production on the written text *)
Definition body_dq : re := match re_STRING with Alt (Cat _ (Cat (Rep b _ _) _)) _ => b | _ => Eps end.
Definition sq_branch : re := match re_STRING with Alt _ b => b | _ => Eps end.
Definition body_dq_tail : re := match body_dq with Alt _ b => b | _ => Eps end.
Definition nl_alt : re := (Alt (Chr 10) (Alt (Cat (Chr 13) (Chr 10)) (Alt (Chr 13) (Chr 12))))%N.
Definition ws_opt : re := match body_dq_tail with Alt _ (Cat _ (Alt (Cat _ w) _)) => w | _ => Eps end.

(* the shapes the proofs below rely on; a change of the string macros in cssproductions.py breaks them here *)
Lemma re_STRING_shape : re_STRING = Alt (Cat (Chr 34) (Cat (Rep body_dq 0 None) (Chr 34))) sq_branch.
Proof. reflexivity. Qed.
Lemma body_dq_shape :
  body_dq = Alt (Cls true [(10, 10); (13, 13); (12, 12); (92, 92); (34, 34)]%N) body_dq_tail.
Proof. reflexivity. Qed.
Lemma body_dq_tail_shape :
  body_dq_tail = Alt (Cat (Chr 92) nl_alt)
                     (Cat (Chr 92) (Alt (Cat (Rep (Cls false hexr) 1 (Some 6)) ws_opt)
                                        (Cls true [(10, 10); (13, 13); (12, 12); (48, 57); (97, 102)]%N))).
Proof. reflexivity. Qed.

Lemma ltb_S n : (n <? S n)%nat = true.
Proof. apply Nat.ltb_lt; lia. Qed.
Lemma ltb_SS n : (S n <? S (S n))%nat = true.
Proof. apply Nat.ltb_lt; lia. Qed.
Lemma ltb_SSS n : (S (S n) <? S (S (S n)))%nat = true.
Proof. apply Nat.ltb_lt; lia. Qed.

Section Units.
  Variable R : Type.
  (* [Unit u]: one greedy iteration of the string body consumes exactly u, whatever follows *)
  Definition Unit (u : str) : Prop :=
    forall prev t (kk : cont R) r, (forall p, kk p t = Some r) -> m body_dq prev (u ++ t) kk = Some r.

  Lemma unit_nl h : h = 97%N \/ h = 100%N \/ h = 99%N -> Unit [92%N; h; 32%N].
  Proof.
    intros Hh prev t kk r Hk. unfold body_dq.
    destruct Hh as [->|[->| ->]]; cbn -[Nat.ltb]; rewrite ltb_SS, ltb_S, Hk; reflexivity.
  Qed.
  Lemma unit_5c : Unit [92; 53; 99; 32]%N.
  Proof.
    intros prev t kk r Hk. unfold body_dq. cbn -[Nat.ltb]. rewrite ltb_SSS, ltb_SS, ltb_S, Hk. reflexivity.
  Qed.
  Lemma unit_quote : Unit [92; 34]%N.
  Proof. intros prev t kk r Hk. unfold body_dq. cbn -[Nat.ltb]. rewrite Hk. reflexivity. Qed.
  Lemma unit_plain c : c <> 10%N -> c <> 13%N -> c <> 12%N -> c <> 92%N -> c <> 34%N -> Unit [c].
  Proof.
    intros H1 H2 H3 H4 H5 prev t kk r Hk. rewrite body_dq_shape. cbn [m app].
    assert (E : in_ranges c [(10, 10); (13, 13); (12, 12); (92, 92); (34, 34)]%N = false) by ranges_false.
    rewrite E. cbn [xorb]. rewrite Hk. reflexivity.
  Qed.
  (* a backslash and a character that is neither a hex digit nor a newline: a simple escape *)
  Lemma unit_pair x : ishex x = false -> isnl x = false -> Unit [92%N; x].
  Proof.
    intros Hh Hn prev t kk r Hk. rewrite ishex_ranges in Hh.
    destruct (isnl_false x Hn) as (N10 & N13 & N12). destruct (ranges_bounds x Hh) as (B1 & B2 & B3).
    rewrite body_dq_shape, body_dq_tail_shape. cbn [app]. unfold nl_alt.
    apply N.eqb_neq in N10, N13, N12.
    cbn -[in_ranges N.eqb Nat.ltb hexr ws_opt]. rewrite ?N.eqb_refl, ?N10, ?N13, ?N12, ?Hh.
    cbn -[in_ranges N.eqb Nat.ltb hexr ws_opt]. rewrite ?N.eqb_refl, ?N10, ?N13, ?N12, ?Hh.
    assert (E : in_ranges x [(10, 10); (13, 13); (12, 12); (48, 57); (97, 102)]%N = false).
    { apply N.eqb_neq in N10, N13, N12. ranges_false. }
    change (in_ranges 92 [(10, 10); (13, 13); (12, 12); (92, 92); (34, 34)]%N) with true. cbv iota.
    rewrite E. rewrite Hk. reflexivity.
  Qed.

  Lemma unit_str_plain c : c <> 92%N -> exists us, str_plain c = concat us /\ Forall Unit us /\ Forall (fun u => u <> []) us.
  Proof.
    intros Hc. destruct (str_plain_cases c Hc) as [[-> ->]|[[-> ->]|[[-> ->]|[[-> ->]|(H34 & Hn & ->)]]]].
    - exists [[92; 34]%N]. repeat split; repeat constructor; [apply unit_quote|discriminate].
    - exists [[92; 97; 32]%N]. repeat split; repeat constructor; [apply unit_nl; auto|discriminate].
    - exists [[92; 100; 32]%N]. repeat split; repeat constructor; [apply unit_nl; auto|discriminate].
    - exists [[92; 99; 32]%N]. repeat split; repeat constructor; [apply unit_nl; auto|discriminate].
    - destruct (isnl_false c Hn) as (N10 & N13 & N12).
      exists [[c]]. repeat split; repeat constructor; [apply unit_plain; auto|discriminate].
  Qed.

  (* greedy iteration over a text made of units stops exactly at the closing quote *)
  Variables (kq : cont R) (res : R) (follow : str).
  Hypothesis Hkq : forall p, kq p (34%N :: follow) = Some res.
  Definition Iter (t : str) : Prop :=
    forall fuel prev, (length t < fuel)%nat -> rep_iter (m body_dq) kq fuel 0 None prev t = Some res.

  Lemma Iter_close : Iter (34%N :: follow).
  Proof.
    intros fuel prev Hf. destruct fuel as [|f]; [lia|]. cbn [rep_iter].
    assert (E : forall kk : cont R, m body_dq prev (34%N :: follow) kk = None) by (intros kk; unfold body_dq; cbn; reflexivity).
    rewrite E. apply Hkq.
  Qed.
  Lemma Iter_unit u t : Unit u -> u <> [] -> Iter t -> Iter (u ++ t).
  Proof.
    intros Hu Hne Ht fuel prev Hf. destruct fuel as [|f]; [lia|]. cbn [rep_iter].
    rewrite (Hu prev t _ res); [reflexivity|]. intros p. rewrite app_length in *.
    assert (0 < length u)%nat by (destruct u; [congruence|simpl; lia]).
    replace (Nat.ltb _ _) with true by (symmetry; apply Nat.ltb_lt; lia).
    apply Ht. lia.
  Qed.
  Lemma Iter_units us t : Forall Unit us -> Forall (fun u => u <> []) us -> Iter t -> Iter (concat us ++ t).
  Proof.
    induction us as [|u us IH]; intros Hu Hn Ht; [exact Ht|]. cbn [concat]. rewrite <- app_assoc.
    inversion Hu; inversion Hn; subst. apply Iter_unit; auto.
  Qed.

  Definition pre (st : sstate) : str := match st with S2 => [92%N] | _ => [] end.
  Lemma ishex_92 : ishex 92%N = false. Proof. reflexivity. Qed.
  Lemma isnl_92 : isnl 92%N = false. Proof. reflexivity. Qed.
  Lemma plain_hexdigit c : ishex c = true -> Unit [c].
  Proof.
    intros H. rewrite ishex_ranges in H. apply ranges_hex_true in H. apply unit_plain; lia.
  Qed.

  Lemma body_iter : forall r st, rep_ok st r = true -> Iter (pre st ++ hstring_loop st r ++ 34%N :: follow).
  Proof.
    assert (Upair : Unit [92; 92]%N) by (apply unit_pair; reflexivity).
    assert (P53 : Unit [53%N]) by (apply unit_plain; discriminate).
    assert (P99 : Unit [99%N]) by (apply unit_plain; discriminate).
    assert (P32 : Unit [32%N]) by (apply unit_plain; discriminate).
    induction r as [|c r IH]; intros st Hok.
    - destruct st; cbn [pre hstring_loop app]; unfold str_end1, str_end2.
      + apply Iter_close.
      + apply (Iter_unit [92; 92]%N); [exact Upair|discriminate|apply Iter_close].
      + apply (Iter_unit [92; 92]%N); [exact Upair|discriminate|].
        apply (Iter_unit [92; 53; 99; 32]%N); [apply unit_5c|discriminate|apply Iter_close].
    - cbn [rep_ok] in Hok. cbn [hstring_loop]. unfold str_bs, str_s1_first, str_s2_first, str_s1_hex, str_s2_hex, str_s1_else, str_s2_else.
      destruct st; destruct (N.eqb_spec c 92) as [->|Hc].
      + (* SN, backslash *) apply (IH S1 Hok).
      + (* SN, other *) destruct (unit_str_plain c Hc) as (us & -> & Hu & Hn). cbn [pre app]. rewrite <- app_assoc.
        apply Iter_units; auto. apply (IH SN Hok).
      + (* S1, backslash *) cbn [pre app]. apply (IH S2 Hok).
      + (* S1, other *) apply andb_true_iff in Hok as [Hok H3]. apply andb_true_iff in Hok as [H1 H2].
        apply negb_true_iff in H1, H2. apply N.eqb_neq in H1.
        destruct (str_plain_cases c Hc) as [[-> _]|[[-> _]|[[-> _]|[[-> _]|(_ & _ & ->)]]]]; try congruence; try discriminate.
        cbn [pre app]. destruct (ishex c) eqn:Eh; fold (ishex c) in *; change (mem c str_hexdigits) with (ishex c); rewrite Eh; cbn [app].
        * apply (Iter_unit [92; 53; 99; 32]%N); [apply unit_5c|discriminate|].
          apply (Iter_unit [c]); [apply plain_hexdigit; exact Eh|discriminate|apply (IH SN H3)].
        * apply (Iter_unit [92%N; c]); [apply unit_pair; assumption|discriminate|apply (IH SN H3)].
      + (* S2, backslash *) cbn [pre app]. apply (Iter_unit [92; 92]%N); [exact Upair|discriminate|]. apply (IH S1 Hok).
      + (* S2, other *) apply andb_true_iff in Hok as [H2 H3]. apply negb_true_iff in H2.
        cbn [pre app]. change (mem c str_hexdigits) with (ishex c). destruct (ishex c) eqn:Eh; cbn [app].
        * apply (Iter_unit [92; 92]%N); [exact Upair|discriminate|].
          apply (Iter_unit [53%N]); [exact P53|discriminate|]. apply (Iter_unit [99%N]); [exact P99|discriminate|].
          apply (Iter_unit [32%N]); [exact P32|discriminate|].
          destruct (str_plain_cases c Hc) as [[-> _]|[[-> _]|[[-> _]|[[-> _]|(_ & _ & ->)]]]]; try discriminate.
          apply (Iter_unit [c]); [apply plain_hexdigit; exact Eh|discriminate|apply (IH SN H3)].
        * apply (Iter_unit [92; 92]%N); [exact Upair|discriminate|].
          destruct (unit_str_plain c Hc) as (us & -> & Hu & Hn). rewrite <- app_assoc.
          apply Iter_units; auto. apply (IH SN H3).
  Qed.
End Units.

(* ------------------------------------------------------------------ no earlier production matches a text that starts with a quote *)
(* [fails_on r c]: r matches no text that begins with c;  [skips r c]: on such a text r can only
   hand the unchanged text to its continuation (sufficient syntactic conditions)               *)
Definition skips (r : re) (c : N) : bool :=
  match r with
  | Eps | NotBehind _ => true
  | Rep a O _ => match a with
                 | Chr x => negb (N.eqb c x)
                 | Cls neg rs => negb (xorb neg (in_ranges c rs))
                 | _ => false
                 end
  | _ => false
  end.
Fixpoint fails_on (r : re) (c : N) : bool :=
  match r with
  | Chr x => negb (N.eqb c x)
  | NotChr x => N.eqb c x
  | Any => N.eqb c 10
  | Cls neg rs => negb (xorb neg (in_ranges c rs))
  | Cat a b => fails_on a c || (skips a c && fails_on b c)
  | Alt a b => fails_on a c && fails_on b c
  | Rep a (S _) _ => fails_on a c
  | _ => false
  end.

Lemma skips_sound {R} r c : skips r c = true ->
  forall p t (k : cont R), (forall p', k p' (c :: t) = None) -> m r p (c :: t) k = None.
Proof.
  destruct r as [|x|x| |neg rs|a b|a b|a lo hi|a lo hi|x|x|x| |]; cbn [skips]; intros H p t k Hk; try discriminate.
  - apply Hk.
  - destruct lo; [|discriminate]. cbn [m rep_iter length].
    assert (Ha : forall kk : cont R, m a p (c :: t) kk = None).
    { intros kk. destruct a; try discriminate; cbn [m]; apply negb_true_iff in H.
      - rewrite N.eqb_sym in H. rewrite N.eqb_sym, H. now rewrite N.eqb_sym in H.
      - rewrite H. reflexivity. }
    destruct hi as [[|h]|]; rewrite ?Ha; apply Hk.
  - cbn [m]. destruct p as [y|]; [destruct (N.eqb y x); [reflexivity|]|]; apply Hk.
Qed.

Lemma fails_on_sound {R} r c : fails_on r c = true ->
  forall p t (k : cont R), m r p (c :: t) k = None.
Proof.
  induction r as [|x|x| |neg rs|a IHa b IHb|a IHa b IHb|a IHa lo hi|a IHa lo hi|x|x|x| |];
    cbn [fails_on]; intros H p t k; try discriminate; cbn [m].
  - apply negb_true_iff in H. rewrite H. reflexivity.
  - rewrite H. reflexivity.
  - rewrite H. reflexivity.
  - apply negb_true_iff in H. rewrite H. reflexivity.
  - apply orb_true_iff in H as [H|H]; [apply IHa; exact H|].
    apply andb_true_iff in H as [Hs Hb]. apply skips_sound; [exact Hs|]. intros p'. apply IHb; exact Hb.
  - apply andb_true_iff in H as [Ha Hb]. rewrite IHa by exact Ha. apply IHb; exact Hb.
  - destruct lo as [|lo]; [discriminate|]. cbn [rep_iter length].
    destruct hi as [[|h]|]; rewrite ?IHa by exact H; reflexivity.
Qed.

Definition before_STRING : list (str * re) := firstn 11 productions.
Definition after_STRING : list (str * re) := skipn 12 productions.

Lemma productions_split : productions = before_STRING ++ (s "STRING", re_STRING) :: after_STRING.
Proof. reflexivity. Qed.
Lemma before_STRING_fail : forallb (fun p => fails_on (snd p) 34%N) before_STRING = true.
Proof. vm_compute. reflexivity. Qed.
Lemma bom_fails_dq : fails_on (snd bom_production) 34%N = true.
Proof. vm_compute. reflexivity. Qed.

Lemma starts_comment_false c t : c <> 47%N -> starts (s "/*") (c :: t) = false.
Proof.
  intros H. change (s "/*") with [47; 42]%N. cbn [starts].
  replace (N.eqb 47 c) with false by (symmetry; apply N.eqb_neq; congruence). reflexivity.
Qed.

Lemma try_prods_skip pre : forall ps dc fs prev c t,
  c <> 47%N -> forallb (fun p => fails_on (snd p) c) pre = true ->
  try_prods (pre ++ ps) dc fs prev (c :: t) = try_prods ps dc fs prev (c :: t).
Proof.
  induction pre as [|[nm r] pre IH]; intros ps dc fs prev c t Hc H; [reflexivity|].
  cbn [forallb snd] in H. apply andb_true_iff in H as [Hr H].
  cbn [app try_prods]. rewrite (starts_comment_false c t Hc), andb_false_r. cbn [andb].
  unfold rmatch. rewrite (fails_on_sound r c Hr). apply IH; assumption.
Qed.


(* ------------------------------------------------------------------ escape resolution of the token value *)
Lemma rmatch_us_nonhex prev x t : ishex x = false -> rmatch re_unicodesub prev (92%N :: x :: t) = None.
Proof.
  intros Hh. rewrite ishex_ranges in Hh. destruct (ranges_bounds x Hh) as (B1 & B2 & B3).
  assert (E : in_ranges x [(48, 57); (97, 102); (65, 70)]%N = false) by ranges_false.
  unfold rmatch, re_unicodesub. cbn -[in_ranges Nat.ltb]. rewrite E. reflexivity.
Qed.
Lemma rmatch_us_nl prev h t : h = 97%N \/ h = 100%N \/ h = 99%N ->
  rmatch re_unicodesub prev (92 :: h :: 32 :: t)%N = Some 3%nat.
Proof.
  intros Hh. unfold rmatch, re_unicodesub.
  destruct Hh as [->|[->| ->]]; cbn -[Nat.ltb Nat.sub]; rewrite ltb_SS, ltb_S; f_equal; cbn [length]; lia.
Qed.
Lemma rmatch_us_5c prev t : rmatch re_unicodesub prev (92 :: 53 :: 99 :: 32 :: t)%N = Some 4%nat.
Proof.
  unfold rmatch, re_unicodesub. cbn -[Nat.ltb Nat.sub]. rewrite ltb_SSS, ltb_SS, ltb_S. f_equal. cbn [length]. lia.
Qed.
Lemma rmatch_cs_nonnl prev x t : isnl x = false -> rmatch re_cleanstring prev (92%N :: x :: t) = None.
Proof.
  intros Hn. destruct (isnl_false x Hn) as (N10 & N13 & N12).
  assert (E : in_ranges x [(10, 10); (13, 13); (12, 12)]%N = false) by ranges_false.
  apply N.eqb_neq in N13.
  unfold rmatch, re_cleanstring. cbn -[in_ranges N.eqb]. rewrite N13, E. reflexivity.
Qed.

Lemma sub_all_fuel_plain r' f fuel prev c t : c <> 92%N ->
  sub_all_fuel (S fuel) (Cat (Chr 92) r') f prev (c :: t) = c :: sub_all_fuel fuel (Cat (Chr 92) r') f (Some c) t.
Proof. intros H. cbn [sub_all_fuel]. rewrite rmatch_bs_none by exact H. reflexivity. Qed.

(* [Us t b]: unicodesub turns t into b, from any position / with any fuel that suffices *)
Definition Us (t b : str) : Prop :=
  forall fuel prev, (length t < fuel)%nat -> sub_all_fuel fuel re_unicodesub repl prev t = b.
Lemma Us_nil : Us [] [].
Proof. intros fuel prev _. destruct fuel; reflexivity. Qed.
Lemma Us_plain c t b : c <> 92%N -> Us t b -> Us (c :: t) (c :: b).
Proof.
  intros Hc Ht fuel prev Hf. destruct fuel as [|f]; [simpl in Hf; lia|]. unfold re_unicodesub.
  rewrite sub_all_fuel_plain by exact Hc. f_equal. apply Ht. simpl in Hf. lia.
Qed.
Lemma Us_bs x t b : ishex x = false -> Us (x :: t) b -> Us (92%N :: x :: t) (92%N :: b).
Proof.
  intros Hx Ht fuel prev Hf. destruct fuel as [|f]; [simpl in Hf; lia|]. cbn [sub_all_fuel].
  rewrite rmatch_us_nonhex by exact Hx. f_equal. apply Ht. simpl in Hf |- *. lia.
Qed.
Lemma Us_5c t b : Us t b -> Us (92 :: 53 :: 99 :: 32 :: t)%N (92%N :: b).
Proof.
  intros Ht fuel prev Hf. destruct fuel as [|f]; [simpl in Hf; lia|]. cbn [sub_all_fuel].
  rewrite rmatch_us_5c. cbn [firstn skipn]. change (repl [92; 53; 99; 32]%N) with [92%N]. cbn [app]. f_equal.
  apply Ht. simpl in Hf. lia.
Qed.
Lemma Us_nl h t b : h = 97%N \/ h = 100%N \/ h = 99%N -> Us t b ->
  Us (92%N :: h :: 32%N :: t) ((if N.eqb h 97 then 10 else if N.eqb h 100 then 13 else 12)%N :: b).
Proof.
  intros Hh Ht fuel prev Hf. destruct fuel as [|f]; [simpl in Hf; lia|]. cbn [sub_all_fuel].
  rewrite rmatch_us_nl by exact Hh. cbn [firstn skipn].
  assert (E : repl [92%N; h; 32%N] = [(if N.eqb h 97 then 10 else if N.eqb h 100 then 13 else 12)%N])
    by (destruct Hh as [->|[->| ->]]; vm_compute; reflexivity).
  rewrite E. cbn [app]. f_equal. apply Ht. simpl in Hf. lia.
Qed.

Lemma bplain_str_plain c t b : c <> 92%N -> isnl c = false \/ True -> Us t b -> Us (str_plain c ++ t) (bplain c ++ b).
Proof.
  intros Hc _ Ht. unfold bplain.
  destruct (str_plain_cases c Hc) as [[-> ->]|[[-> ->]|[[-> ->]|[[-> ->]|(H34 & Hn & ->)]]]]; cbn [app N.eqb Pos.eqb].
  - apply Us_bs; [reflexivity|]. apply Us_plain; [discriminate|exact Ht].
  - apply (Us_nl 97); auto.
  - apply (Us_nl 100); auto.
  - apply (Us_nl 99); auto.
  - apply N.eqb_neq in H34. rewrite H34. cbn [app]. apply Us_plain; assumption.
Qed.

Lemma unicodesub_loop tl tb : Us tl tb -> (exists x t', tl = x :: t' /\ ishex x = false) ->
  forall r st, rep_ok st r = true -> Us (hstring_loop st r ++ tl) (bloop st r ++ tb).
Proof.
  intros Htl (x0 & t0 & Etl & Hx0). induction r as [|c r IH]; intros st Hok.
  - destruct st; cbn [hstring_loop bloop app]; unfold str_end1, str_end2; cbn [app].
    + exact Htl.
    + apply Us_bs; [reflexivity|]. rewrite Etl. apply Us_bs; [exact Hx0|]. rewrite <- Etl. exact Htl.
    + apply Us_bs; [reflexivity|]. apply Us_5c. exact Htl.
  - cbn [rep_ok] in Hok. cbn [hstring_loop bloop].
    unfold str_bs, str_s1_first, str_s2_first, str_s1_hex, str_s2_hex, str_s1_else, str_s2_else.
    change (mem c str_hexdigits) with (ishex c).
    destruct st; destruct (N.eqb_spec c 92) as [->|Hc].
    + apply (IH S1 Hok).
    + rewrite <- !app_assoc. apply bplain_str_plain; [exact Hc|right; exact I|apply (IH SN Hok)].
    + cbn [app]. destruct (loop_head S2 r tl) as [t' Et']; [discriminate|]. rewrite Et'.
      apply Us_bs; [reflexivity|]. rewrite <- Et'. apply (IH S2 Hok).
    + apply andb_true_iff in Hok as [Hok H3]. apply andb_true_iff in Hok as [H1 H2].
      apply negb_true_iff in H1, H2. apply N.eqb_neq in H1.
      destruct (str_plain_cases c Hc) as [[-> _]|[[-> _]|[[-> _]|[[-> _]|(_ & _ & Ep)]]]]; try congruence; try discriminate.
      rewrite Ep. unfold bplain. replace (N.eqb c 34) with false by (symmetry; apply N.eqb_neq; exact H1).
      destruct (ishex c) eqn:Eh; cbn [app].
      * apply Us_5c. apply Us_plain; [exact Hc|]. apply (IH SN H3).
      * apply Us_bs; [exact Eh|]. apply Us_plain; [exact Hc|]. apply (IH SN H3).
    + cbn [app]. destruct (loop_head S1 r tl) as [t' Et']; [discriminate|]. rewrite Et'.
      apply Us_bs; [reflexivity|]. rewrite <- Et'. apply (IH S1 Hok).
    + apply andb_true_iff in Hok as [H2 H3]. apply negb_true_iff in H2.
      destruct (ishex c) eqn:Eh; cbn [app].
      * destruct (str_plain_cases c Hc) as [[-> _]|[[-> _]|[[-> _]|[[-> _]|(H34 & _ & Ep)]]]]; try discriminate.
        rewrite Ep. unfold bplain. replace (N.eqb c 34) with false by (symmetry; apply N.eqb_neq; exact H34). cbn [app].
        apply Us_5c. apply Us_plain; [exact Hc|]. apply (IH SN H3).
      * rewrite <- !app_assoc.
        assert (Hhd : exists y t', str_plain c ++ hstring_loop SN r ++ tl = y :: t' /\ ishex y = false).
        { destruct (str_plain_cases c Hc) as [[-> ->]|[[-> ->]|[[-> ->]|[[-> ->]|(_ & _ & ->)]]]]; cbn [app]; eauto. }
        destruct Hhd as (y & t' & Ey & Hy). rewrite Ey. apply Us_bs; [exact Hy|]. rewrite <- Ey.
        apply bplain_str_plain; [exact Hc|right; exact I|apply (IH SN H3)].
Qed.

(* cleanstring leaves that text alone *)
Definition Cs (t : str) : Prop :=
  forall fuel prev, (length t < fuel)%nat -> sub_all_fuel fuel re_cleanstring (fun _ => []) prev t = t.
Lemma Cs_plain c t : c <> 92%N -> Cs t -> Cs (c :: t).
Proof.
  intros Hc Ht fuel prev Hf. destruct fuel as [|f]; [simpl in Hf; lia|]. unfold re_cleanstring.
  rewrite sub_all_fuel_plain by exact Hc. f_equal. apply Ht. simpl in Hf. lia.
Qed.
Lemma Cs_bs x t : isnl x = false -> Cs (x :: t) -> Cs (92%N :: x :: t).
Proof.
  intros Hx Ht fuel prev Hf. destruct fuel as [|f]; [simpl in Hf; lia|]. cbn [sub_all_fuel].
  rewrite rmatch_cs_nonnl by exact Hx. f_equal. apply Ht. simpl in Hf |- *. lia.
Qed.
Lemma Cs_bplain c t : c <> 92%N -> Cs t -> Cs (bplain c ++ t).
Proof.
  intros Hc Ht. unfold bplain. destruct (N.eqb_spec c 34) as [->|H34]; cbn [app].
  - apply Cs_bs; [reflexivity|]. apply Cs_plain; [discriminate|exact Ht].
  - apply Cs_plain; assumption.
Qed.
Lemma cleanstring_loop : forall r st, rep_ok st r = true -> Cs (bloop st r ++ [34%N]).
Proof.
  assert (C34 : Cs [34%N]).
  { intros fuel prev Hf. destruct fuel as [|f]; [simpl in Hf; lia|]. unfold re_cleanstring.
    rewrite sub_all_fuel_plain by discriminate. destruct f; reflexivity. }
  induction r as [|c r IH]; intros st Hok.
  - destruct st; cbn [bloop app]; [exact C34| |]; (apply Cs_bs; [reflexivity|]; apply Cs_bs; [reflexivity|exact C34]).
  - cbn [rep_ok] in Hok. cbn [bloop]. destruct st; destruct (N.eqb_spec c 92) as [->|Hc].
    + apply (IH S1 Hok).
    + rewrite <- app_assoc. apply Cs_bplain; [exact Hc|apply (IH SN Hok)].
    + cbn [app]. destruct (bloop_head S2 r [34%N]) as [t' Et']; [discriminate|]. rewrite Et'.
      apply Cs_bs; [reflexivity|]. rewrite <- Et'. apply (IH S2 Hok).
    + apply andb_true_iff in Hok as [Hok H3]. apply andb_true_iff in Hok as [H1 H2].
      apply negb_true_iff in H1, H2. apply N.eqb_neq in H1.
      unfold bplain. replace (N.eqb c 34) with false by (symmetry; apply N.eqb_neq; exact H1). cbn [app].
      apply Cs_bs; [exact H2|]. apply Cs_plain; [exact Hc|apply (IH SN H3)].
    + cbn [app]. destruct (bloop_head S1 r [34%N]) as [t' Et']; [discriminate|]. rewrite Et'.
      apply Cs_bs; [reflexivity|]. rewrite <- Et'. apply (IH S1 Hok).
    + apply andb_true_iff in Hok as [H2 H3]. apply negb_true_iff in H2. cbn [app]. rewrite <- app_assoc.
      unfold bplain. destruct (N.eqb_spec c 34) as [->|H34]; cbn [app].
      * apply Cs_bs; [reflexivity|]. apply Cs_bs; [reflexivity|]. apply Cs_plain; [discriminate|apply (IH SN H3)].
      * apply Cs_bs; [exact H2|]. apply Cs_plain; [exact Hc|apply (IH SN H3)].
Qed.

(* ------------------------------------------------------------------ Base._stringtokenvalue on that value *)
Definition Rp (t o : str) : Prop :=
  forall fuel, (length t < fuel)%nat -> py_replace_fuel fuel t [92; 34]%N [34%N] = o.
Lemma Rp_nil : Rp [] [].
Proof. intros fuel _. destruct fuel; reflexivity. Qed.
Lemma Rp_plain c t o : c <> 92%N -> Rp t o -> Rp (c :: t) (c :: o).
Proof.
  intros Hc Ht fuel Hf. destruct fuel as [|f]; [simpl in Hf; lia|]. cbn [py_replace_fuel starts].
  replace (N.eqb 92 c) with false by (symmetry; apply N.eqb_neq; congruence). cbn [andb]. f_equal. apply Ht. simpl in Hf. lia.
Qed.
Lemma Rp_bs x t o : x <> 34%N -> Rp (x :: t) o -> Rp (92%N :: x :: t) (92%N :: o).
Proof.
  intros Hx Ht fuel Hf. destruct fuel as [|f]; [simpl in Hf; lia|]. cbn [py_replace_fuel starts]. rewrite N.eqb_refl.
  replace (N.eqb 34 x) with false by (symmetry; apply N.eqb_neq; congruence). cbn [andb]. f_equal. apply Ht. simpl in Hf |- *. lia.
Qed.
Lemma Rp_bsq t o : Rp t o -> Rp (92 :: 34 :: t)%N (34%N :: o).
Proof.
  intros Ht fuel Hf. destruct fuel as [|f]; [simpl in Hf; lia|].
  cbn [py_replace_fuel starts]. rewrite !N.eqb_refl. cbn [andb length skipn app]. f_equal. apply Ht. simpl in Hf. lia.
Qed.
Lemma Rp_bplain c t o : c <> 92%N -> Rp t o -> Rp (bplain c ++ t) (c :: o).
Proof.
  intros Hc Ht. unfold bplain. destruct (N.eqb_spec c 34) as [->|H34]; cbn [app].
  - apply Rp_bsq. exact Ht.
  - apply Rp_plain; assumption.
Qed.
Lemma replace_loop : forall r st, rep_ok st r = true -> Rp (bloop st r ++ [34%N]) (vsuf st r ++ [34%N]).
Proof.
  assert (R34 : Rp [34%N] [34%N]) by (apply Rp_plain; [discriminate|apply Rp_nil]).
  induction r as [|c r IH]; intros st Hok.
  - destruct st; cbn [bloop vsuf app]; [exact R34| |]; (apply Rp_bs; [discriminate|]; apply Rp_bsq; apply Rp_nil).
  - cbn [rep_ok] in Hok. cbn [bloop]. destruct st; destruct (N.eqb_spec c 92) as [->|Hc]; cbn [vsuf].
    + apply (IH S1 Hok).
    + rewrite <- app_assoc. cbn [app]. apply Rp_bplain; [exact Hc|apply (IH SN Hok)].
    + cbn [app]. destruct (bloop_head S2 r [34%N]) as [t' Et']; [discriminate|]. rewrite Et'.
      apply Rp_bs; [discriminate|]. rewrite <- Et'. apply (IH S2 Hok).
    + apply andb_true_iff in Hok as [Hok H3]. apply andb_true_iff in Hok as [H1 H2].
      apply negb_true_iff in H1. apply N.eqb_neq in H1.
      unfold bplain. replace (N.eqb c 34) with false by (symmetry; apply N.eqb_neq; exact H1). cbn [app].
      apply Rp_bs; [exact H1|]. apply Rp_plain; [exact Hc|apply (IH SN H3)].
    + cbn [app]. destruct (bloop_head S1 r [34%N]) as [t' Et']; [discriminate|]. rewrite Et'.
      apply Rp_bs; [discriminate|]. rewrite <- Et'. apply (IH S1 Hok).
    + apply andb_true_iff in Hok as [_ H3]. cbn [app]. rewrite <- app_assoc.
      unfold bplain. destruct (N.eqb_spec c 34) as [->|H34]; cbn [app].
      * apply Rp_bs; [discriminate|]. apply Rp_bsq. apply (IH SN H3).
      * apply Rp_bs; [exact H34|]. apply Rp_plain; [exact Hc|apply (IH SN H3)].
Qed.

Lemma py_slice_1_1 c d (y : str) : py_slice_nn 1 1 (c :: y ++ [d]) = y.
Proof.
  unfold py_slice_nn. cbn [skipn length]. rewrite app_length. cbn [length].
  replace (S (length y + 1) - 1 - 1)%nat with (length y) by lia.
  rewrite firstn_app, firstn_all, Nat.sub_diag. cbn [firstn]. apply app_nil_r.
Qed.

Lemma stringtokenvalue_rep v ty0 raw0 l c : representable v ->
  stringtokenvalue (Some (mkTok ty0 raw0 (34%N :: bloop SN v ++ [34%N]) l c)) = Ok (Some v).
Proof.
  intros Hr. unfold stringtokenvalue. cbn [val py_index0 app].
  unfold py_replace. cbn [length].
  rewrite (Rp_plain 34 (bloop SN v ++ [34%N]) (v ++ [34%N])); [|discriminate|apply (replace_loop v SN Hr)|cbn [length]; lia].
  rewrite py_slice_1_1. reflexivity.
Qed.

