(* QuoteFacts.v -- C03: the string quoting round trip
     helper.string  ->  STRING production of the generated list, run by the shared tokenizer model
                    ->  unicodesub, cleanstring  ->  Base._stringtokenvalue
   proved for every value without a backslash and every following text; refuted (with the
   witness a parse produces) for values that contain a backslash.                              *)
From CssV Require Import Base Regex RegexFacts RegexTotal Gen.Productions Gen.TokTables Gen.PyTables
     Tokenizer TokenizerFacts Quote Gen.Quote.

(* ------------------------------------------------------------------ Python operations *)
Lemma py_replace_fuel_char fuel : forall x c b,
  (length x < fuel)%nat ->
  py_replace_fuel fuel x [c] b = flat_map (fun y => if N.eqb c y then b else [y]) x.
Proof.
  induction fuel as [|f IH]; intros x c b H; [lia|]. destruct x as [|y x']; [reflexivity|].
  cbn [py_replace_fuel starts flat_map length skipn]. rewrite andb_true_r.
  simpl in H. destruct (N.eqb c y); rewrite IH by lia; reflexivity.
Qed.

Lemma py_replace_char x c b : py_replace x [c] b = flat_map (fun y => if N.eqb c y then b else [y]) x.
Proof. unfold py_replace. apply py_replace_fuel_char. lia. Qed.

Lemma flat_map_flat_map {A B C} (f : B -> list C) (g : A -> list B) l :
  flat_map f (flat_map g l) = flat_map (fun a => flat_map f (g a)) l.
Proof. induction l as [|a l IH]; simpl; [reflexivity|]. rewrite flat_map_app, IH. reflexivity. Qed.

Lemma flat_map_ext_in {A B} (f g : A -> list B) l :
  (forall a, In a l -> f a = g a) -> flat_map f l = flat_map g l.
Proof.
  induction l as [|a l IH]; intros H; simpl; [reflexivity|].
  rewrite H by (left; reflexivity). rewrite IH; [reflexivity|]. intros b Hb. apply H. right. exact Hb.
Qed.

Lemma py_slice_1_1 c d (y : str) : py_slice_nn 1 1 (c :: y ++ [d]) = y.
Proof.
  unfold py_slice_nn. cbn [skipn length]. rewrite app_length. cbn [length].
  replace (S (length y + 1) - 1 - 1)%nat with (length y) by lia.
  rewrite firstn_app, firstn_all, Nat.sub_diag. cbn [firstn]. apply app_nil_r.
Qed.

(* ------------------------------------------------------------------ helper.string on backslash-free values *)
(* what helper.string writes for one character *)
Definition esc1 (c : N) : str :=
  if N.eqb c 10%N then [92; 97; 32]%N else if N.eqb c 13%N then [92; 100; 32]%N
  else if N.eqb c 12%N then [92; 99; 32]%N else if N.eqb c 34%N then [92; 34]%N else [c].
(* the same after the tokenizer's unicodesub: only the escaped quote is left *)
Definition esc2 (c : N) : str := if N.eqb c 34%N then [92; 34]%N else [c].

Lemma esc1_cases c :
  (c = 10%N /\ esc1 c = [92; 97; 32]%N) \/ (c = 13%N /\ esc1 c = [92; 100; 32]%N) \/
  (c = 12%N /\ esc1 c = [92; 99; 32]%N) \/ (c = 34%N /\ esc1 c = [92; 34]%N) \/
  (c <> 10%N /\ c <> 13%N /\ c <> 12%N /\ c <> 34%N /\ esc1 c = [c])%N.
Proof.
  unfold esc1.
  destruct (N.eqb_spec c 10); [left; auto|]. destruct (N.eqb_spec c 13); [right; left; auto|].
  destruct (N.eqb_spec c 12); [right; right; left; auto|].
  destruct (N.eqb_spec c 34); [right; right; right; left; auto|]. right; right; right; right; auto.
Qed.

Lemma esc_chain c : c <> 92%N ->
  flat_map (fun a => flat_map (fun a0 => flat_map (fun y => if N.eqb 34%N y then [92; 34]%N else [y])
                                            (if N.eqb 12%N a0 then [92; 99; 32]%N else [a0]))
                              (if N.eqb 13%N a then [92; 100; 32]%N else [a]))
           (if N.eqb 10%N c then [92; 97; 32]%N else [c]) = esc1 c.
Proof.
  intros H92.
  destruct (esc1_cases c) as [[-> ->]|[[-> ->]|[[-> ->]|[[-> ->]|(H1 & H2 & H3 & H4 & ->)]]]]; try reflexivity.
  apply N.eqb_neq in H1, H2, H3, H4. rewrite N.eqb_sym in H1, H2, H3, H4.
  repeat (rewrite ?H1, ?H2, ?H3, ?H4; cbn [flat_map app]). rewrite ?app_nil_r. reflexivity.
Qed.

Lemma esc1_last c : c <> 92%N -> exists pre l, esc1 c = pre ++ [l] /\ l <> 92%N.
Proof.
  intros H.
  destruct (esc1_cases c) as [[_ ->]|[[_ ->]|[[_ ->]|[[_ ->]|(_ & _ & _ & _ & ->)]]]].
  - exists [92; 97]%N, 32%N. split; [reflexivity|discriminate].
  - exists [92; 100]%N, 32%N. split; [reflexivity|discriminate].
  - exists [92; 99]%N, 32%N. split; [reflexivity|discriminate].
  - exists [92]%N, 34%N. split; [reflexivity|discriminate].
  - exists [], c. split; [reflexivity|exact H].
Qed.

Lemma esc_not_endswith v : no_backslash v -> py_endswith (flat_map esc1 v) [92%N] = false.
Proof.
  intros Hn. unfold py_endswith. cbn [rev app].
  destruct (starts [92%N] (rev (flat_map esc1 v))) eqn:E; [|reflexivity]. exfalso.
  apply starts_spec in E as [r Hr]. apply (f_equal (@rev N)) in Hr. rewrite rev_involutive in Hr.
  cbn [app] in Hr. change (92%N :: r) with ([92%N] ++ r) in Hr. rewrite rev_app_distr in Hr. cbn [rev app] in Hr.
  revert Hn Hr. generalize (rev r). clear r. induction v as [|c v IH] using rev_ind; intros y Hn Hr.
  - destruct y; discriminate.
  - rewrite flat_map_app in Hr. cbn [flat_map] in Hr. rewrite app_nil_r in Hr.
    assert (Hc : c <> 92%N) by (intros ->; apply Hn; apply in_or_app; right; left; reflexivity).
    destruct (esc1_last c Hc) as (pre & l & Hp & Hl). rewrite Hp, app_assoc in Hr.
    apply app_inj_tail in Hr as [_ Hr]. congruence.
Qed.

Lemma hstring_nobs v : no_backslash v -> hstring v = 34%N :: flat_map esc1 v ++ [34%N].
Proof.
  intros Hn. unfold hstring. rewrite !py_replace_char, !flat_map_flat_map.
  rewrite (flat_map_ext_in _ esc1).
  - rewrite (esc_not_endswith v Hn). reflexivity.
  - intros c Hc. apply esc_chain. intros ->. exact (Hn Hc).
Qed.

(* ------------------------------------------------------------------ the STRING production on such a text *)
Definition body_dq : re := match re_STRING with Alt (Cat _ (Cat (Rep b _ _) _)) _ => b | _ => Eps end.
Definition sq_branch : re := match re_STRING with Alt _ b => b | _ => Eps end.
Definition body_dq_tail : re := match body_dq with Alt _ b => b | _ => Eps end.

(* the shapes the proofs below rely on; a change of the string macros in cssproductions.py breaks them here *)
Lemma re_STRING_shape : re_STRING = Alt (Cat (Chr 34) (Cat (Rep body_dq 0 None) (Chr 34))) sq_branch.
Proof. reflexivity. Qed.
Lemma body_dq_shape :
  body_dq = Alt (Cls true [(10, 10); (13, 13); (12, 12); (92, 92); (34, 34)]%N) body_dq_tail.
Proof. reflexivity. Qed.

Lemma ltb_S n : (n <? S n)%nat = true.
Proof. apply Nat.ltb_lt; lia. Qed.
Lemma ltb_SS n : (S n <? S (S n))%nat = true.
Proof. apply Nat.ltb_lt; lia. Qed.

(* one unit of the escaped text is consumed by one iteration of the string body *)
Lemma unit_hex R prev t (kk : cont R) h r :
  h = 97%N \/ h = 100%N \/ h = 99%N -> kk (Some 32%N) t = Some r ->
  m body_dq prev (92 :: h :: 32 :: t)%N kk = Some r.
Proof.
  intros Hh Hk. unfold body_dq.
  destruct Hh as [->|[->| ->]]; cbn -[Nat.ltb]; rewrite ltb_SS, ltb_S, Hk; reflexivity.
Qed.

Lemma unit_quote R prev t (kk : cont R) r :
  kk (Some 34%N) t = Some r -> m body_dq prev (92 :: 34 :: t)%N kk = Some r.
Proof. intros Hk. unfold body_dq. cbn -[Nat.ltb]. rewrite Hk. reflexivity. Qed.

Lemma unit_close R prev t (kk : cont R) : m body_dq prev (34 :: t)%N kk = None.
Proof. unfold body_dq. cbn. reflexivity. Qed.

Lemma unit_plain R prev t (kk : cont R) c r :
  c <> 10%N -> c <> 13%N -> c <> 12%N -> c <> 92%N -> c <> 34%N ->
  kk (Some c) t = Some r -> m body_dq prev (c :: t) kk = Some r.
Proof.
  intros H1 H2 H3 H4 H5 Hk. rewrite body_dq_shape. cbn [m].
  assert (E : in_ranges c [(10, 10); (13, 13); (12, 12); (92, 92); (34, 34)]%N = false).
  { cbn [in_ranges].
    repeat match goal with |- context [N.leb ?a ?b] => destruct (N.leb_spec a b) end; simpl; try reflexivity; lia. }
  rewrite E. cbn [xorb]. rewrite Hk. reflexivity.
Qed.

Lemma esc1_unit R prev c t (kk : cont R) r : c <> 92%N ->
  (forall p, kk p t = Some r) -> m body_dq prev (esc1 c ++ t) kk = Some r.
Proof.
  intros Hc Hk.
  destruct (esc1_cases c) as [[_ ->]|[[_ ->]|[[_ ->]|[[_ ->]|(H1 & H2 & H3 & H4 & ->)]]]]; cbn [app].
  - apply unit_hex; auto.
  - apply unit_hex; auto.
  - apply unit_hex; auto.
  - apply unit_quote; auto.
  - apply unit_plain; auto.
Qed.

Lemma esc1_nonempty c : (0 < length (esc1 c))%nat.
Proof.
  destruct (esc1_cases c) as [[_ ->]|[[_ ->]|[[_ ->]|[[_ ->]|(_ & _ & _ & _ & ->)]]]]; simpl; lia.
Qed.

(* greedy iteration of the body over the escaped value stops exactly at the closing quote *)
Lemma body_iter R (kq : cont R) r follow : (forall p, kq p (34%N :: follow) = Some r) ->
  forall v fuel prev, no_backslash v -> (length (flat_map esc1 v ++ 34%N :: follow) < fuel)%nat ->
  rep_iter (m body_dq) kq fuel 0 None prev (flat_map esc1 v ++ 34%N :: follow) = Some r.
Proof.
  intros Hk v. induction v as [|c v IH]; intros fuel prev Hn Hf; (destruct fuel as [|f]; [lia|]).
  - cbn [flat_map app rep_iter]. rewrite unit_close. apply Hk.
  - cbn [flat_map rep_iter]. rewrite <- app_assoc.
    assert (Hc : c <> 92%N) by (intros ->; apply Hn; left; reflexivity).
    assert (Hn' : no_backslash v) by (intros H; apply Hn; right; exact H).
    rewrite (esc1_unit _ _ c _ _ r Hc); [reflexivity|]. intros p.
    pose proof (esc1_nonempty c) as Hl.
    cbn [flat_map] in Hf. rewrite <- app_assoc, app_length in Hf.
    replace (Nat.ltb _ _) with true by (symmetry; apply Nat.ltb_lt; rewrite (app_length (esc1 c)); lia).
    apply IH; [exact Hn'|]. lia.
Qed.

Lemma rmatch_string_nobs prev v follow : no_backslash v ->
  rmatch re_STRING prev (34%N :: flat_map esc1 v ++ 34%N :: follow) = Some (length (34%N :: flat_map esc1 v ++ [34%N])).
Proof.
  intros Hn. unfold rmatch. rewrite re_STRING_shape. cbn [m]. rewrite N.eqb_refl.
  rewrite (body_iter _ _ (length (34%N :: flat_map esc1 v ++ [34%N])) follow); [reflexivity| |exact Hn|lia].
  intros p. rewrite N.eqb_refl. f_equal. cbn [length]. rewrite !app_length. cbn [length]. lia.
Qed.

(* ------------------------------------------------------------------ no earlier production matches a text that starts with a quote *)
(* [fails_on r c]: r matches no text that begins with c;  [skips r c]: on such a text r can only
   hand the unchanged text to its continuation (sufficient syntactic conditions)               *)
Definition skips (r : re) (c : N) : bool :=
  match r with
  | Eps | NotBehind _ => true
  | Rep a O _ => match a with
                 | Chr x => negb (N.eqb c x)
                 | Cls neg rs => negb (xorb neg (in_ranges c rs))
                 | _ => false
                 end
  | _ => false
  end.
Fixpoint fails_on (r : re) (c : N) : bool :=
  match r with
  | Chr x => negb (N.eqb c x)
  | NotChr x => N.eqb c x
  | Any => N.eqb c 10
  | Cls neg rs => negb (xorb neg (in_ranges c rs))
  | Cat a b => fails_on a c || (skips a c && fails_on b c)
  | Alt a b => fails_on a c && fails_on b c
  | Rep a (S _) _ => fails_on a c
  | _ => false
  end.

Lemma skips_sound {R} r c : skips r c = true ->
  forall p t (k : cont R), (forall p', k p' (c :: t) = None) -> m r p (c :: t) k = None.
Proof.
  destruct r as [|x|x| |neg rs|a b|a b|a lo hi|a lo hi|x|x|x| |]; cbn [skips]; intros H p t k Hk; try discriminate.
  - apply Hk.
  - destruct lo; [|discriminate]. cbn [m rep_iter length].
    assert (Ha : forall kk : cont R, m a p (c :: t) kk = None).
    { intros kk. destruct a; try discriminate; cbn [m]; apply negb_true_iff in H.
      - rewrite N.eqb_sym in H. rewrite N.eqb_sym, H. now rewrite N.eqb_sym in H.
      - rewrite H. reflexivity. }
    destruct hi as [[|h]|]; rewrite ?Ha; apply Hk.
  - cbn [m]. destruct p as [y|]; [destruct (N.eqb y x); [reflexivity|]|]; apply Hk.
Qed.

Lemma fails_on_sound {R} r c : fails_on r c = true ->
  forall p t (k : cont R), m r p (c :: t) k = None.
Proof.
  induction r as [|x|x| |neg rs|a IHa b IHb|a IHa b IHb|a IHa lo hi|a IHa lo hi|x|x|x| |];
    cbn [fails_on]; intros H p t k; try discriminate; cbn [m].
  - apply negb_true_iff in H. rewrite H. reflexivity.
  - rewrite H. reflexivity.
  - rewrite H. reflexivity.
  - apply negb_true_iff in H. rewrite H. reflexivity.
  - apply orb_true_iff in H as [H|H]; [apply IHa; exact H|].
    apply andb_true_iff in H as [Hs Hb]. apply skips_sound; [exact Hs|]. intros p'. apply IHb; exact Hb.
  - apply andb_true_iff in H as [Ha Hb]. rewrite IHa by exact Ha. apply IHb; exact Hb.
  - destruct lo as [|lo]; [discriminate|]. cbn [rep_iter length].
    destruct hi as [[|h]|]; rewrite ?IHa by exact H; reflexivity.
Qed.

Definition before_STRING : list (str * re) := firstn 11 productions.
Definition after_STRING : list (str * re) := skipn 12 productions.

Lemma productions_split : productions = before_STRING ++ (s "STRING", re_STRING) :: after_STRING.
Proof. reflexivity. Qed.
Lemma before_STRING_fail : forallb (fun p => fails_on (snd p) 34%N) before_STRING = true.
Proof. vm_compute. reflexivity. Qed.
Lemma bom_fails_dq : fails_on (snd bom_production) 34%N = true.
Proof. vm_compute. reflexivity. Qed.

Lemma starts_comment_false c t : c <> 47%N -> starts (s "/*") (c :: t) = false.
Proof.
  intros H. change (s "/*") with [47; 42]%N. cbn [starts].
  replace (N.eqb 47 c) with false by (symmetry; apply N.eqb_neq; congruence). reflexivity.
Qed.

Lemma try_prods_skip pre : forall ps dc fs prev c t,
  c <> 47%N -> forallb (fun p => fails_on (snd p) c) pre = true ->
  try_prods (pre ++ ps) dc fs prev (c :: t) = try_prods ps dc fs prev (c :: t).
Proof.
  induction pre as [|[nm r] pre IH]; intros ps dc fs prev c t Hc H; [reflexivity|].
  cbn [forallb snd] in H. apply andb_true_iff in H as [Hr H].
  cbn [app try_prods]. rewrite (starts_comment_false c t Hc), andb_false_r. cbn [andb].
  unfold rmatch. rewrite (fails_on_sound r c Hr). apply IH; assumption.
Qed.

Lemma try_prods_string dc fs prev v follow : no_backslash v ->
  try_prods productions dc fs prev (hstring v ++ follow) = Some (Step (s "STRING") (hstring v) true).
Proof.
  intros Hn. rewrite (hstring_nobs v Hn). rewrite productions_split.
  cbn [app]. rewrite <- app_assoc. cbn [app].
  rewrite try_prods_skip; [|discriminate|exact before_STRING_fail].
  cbn [try_prods].
  change (eqs (s "STRING") (s "CHAR")) with false. rewrite andb_false_r. cbn [andb].
  rewrite (rmatch_string_nobs prev v follow Hn).
  change (eqs (s "STRING") (s "IDENT")) with false. cbn [andb].
  change (eqs (s "STRING") (s "INVALID")) with false. rewrite andb_false_r. cbn [andb].
  change (eqs (s "STRING") (s "FUNCTION")) with false. rewrite andb_false_r. cbn [andb].
  f_equal. f_equal.
  change (34%N :: flat_map esc1 v ++ 34%N :: follow) with ((34%N :: flat_map esc1 v) ++ 34%N :: follow).
  change (34%N :: flat_map esc1 v ++ [34%N]) with ((34%N :: flat_map esc1 v) ++ [34%N]).
  replace ((34%N :: flat_map esc1 v) ++ 34%N :: follow) with (((34%N :: flat_map esc1 v) ++ [34%N]) ++ follow)
    by (rewrite <- app_assoc; reflexivity).
  rewrite firstn_app, firstn_all, Nat.sub_diag. cbn [firstn]. apply app_nil_r.
Qed.

(* ------------------------------------------------------------------ escape resolution of the token value *)
Lemma rmatch_unicodesub_hex prev h t : h = 97%N \/ h = 100%N \/ h = 99%N ->
  rmatch re_unicodesub prev (92 :: h :: 32 :: t)%N = Some 3%nat.
Proof.
  intros Hh. unfold rmatch, re_unicodesub.
  destruct Hh as [->|[->| ->]]; cbn -[Nat.ltb Nat.sub]; rewrite ltb_SS, ltb_S; f_equal; cbn [length]; lia.
Qed.
Lemma rmatch_unicodesub_quote prev t : rmatch re_unicodesub prev (92 :: 34 :: t)%N = None.
Proof. unfold rmatch, re_unicodesub. cbn. reflexivity. Qed.
Lemma rmatch_cleanstring_quote prev t : rmatch re_cleanstring prev (92 :: 34 :: t)%N = None.
Proof. unfold rmatch, re_cleanstring. cbn. reflexivity. Qed.

Lemma repl_hex h : h = 97%N \/ h = 100%N \/ h = 99%N ->
  repl [92; h; 32]%N = [if N.eqb h 97 then 10 else if N.eqb h 100 then 13 else 12]%N.
Proof. intros [->|[->| ->]]; vm_compute; reflexivity. Qed.

Definition res1 (c : N) : str := if N.eqb c 34 then [92; 34]%N else [c].

Lemma unicodesub_esc v : no_backslash v -> forall fuel prev,
  (length (flat_map esc1 v ++ [34%N]) < fuel)%nat ->
  sub_all_fuel fuel re_unicodesub repl prev (flat_map esc1 v ++ [34%N]) = flat_map esc2 v ++ [34%N].
Proof.
  induction v as [|c v IH]; intros Hn fuel prev Hf; (destruct fuel as [|f]; [lia|]).
  - cbn [flat_map app sub_all_fuel]. unfold re_unicodesub at 1. rewrite rmatch_bs_none by discriminate.
    destruct f; reflexivity.
  - assert (Hc : c <> 92%N) by (intros ->; apply Hn; left; reflexivity).
    assert (Hn' : no_backslash v) by (intros H; apply Hn; right; exact H).
    cbn [flat_map] in *. rewrite <- app_assoc in *. rewrite app_length in Hf.
    unfold esc2 at 1.
    destruct (esc1_cases c) as [[-> E]|[[-> E]|[[-> E]|[[-> E]|(H1 & H2 & H3 & H4 & E)]]]]; rewrite E in *; cbn [app length] in *.
    + cbn [sub_all_fuel]. rewrite rmatch_unicodesub_hex by auto. cbn [firstn skipn N.eqb Pos.eqb app].
      rewrite repl_hex by auto. cbn [N.eqb Pos.eqb app]. f_equal. apply IH; [exact Hn'|lia].
    + cbn [sub_all_fuel]. rewrite rmatch_unicodesub_hex by auto. cbn [firstn skipn N.eqb Pos.eqb app].
      rewrite repl_hex by auto. cbn [N.eqb Pos.eqb app]. f_equal. apply IH; [exact Hn'|lia].
    + cbn [sub_all_fuel]. rewrite rmatch_unicodesub_hex by auto. cbn [firstn skipn N.eqb Pos.eqb app].
      rewrite repl_hex by auto. cbn [N.eqb Pos.eqb app]. f_equal. apply IH; [exact Hn'|lia].
    + cbn [sub_all_fuel]. rewrite rmatch_unicodesub_quote. destruct f as [|f]; [lia|].
      cbn [sub_all_fuel]. unfold re_unicodesub at 1. rewrite rmatch_bs_none by discriminate.
      cbn [N.eqb Pos.eqb app]. f_equal. f_equal. apply IH; [exact Hn'|lia].
    + cbn [sub_all_fuel]. unfold re_unicodesub at 1. rewrite rmatch_bs_none by exact Hc.
      apply N.eqb_neq in H4. rewrite H4. cbn [app]. f_equal. apply IH; [exact Hn'|lia].
Qed.

Lemma cleanstring_esc v : no_backslash v -> forall fuel prev,
  (length (flat_map esc2 v ++ [34%N]) < fuel)%nat ->
  sub_all_fuel fuel re_cleanstring (fun _ => []) prev (flat_map esc2 v ++ [34%N]) = flat_map esc2 v ++ [34%N].
Proof.
  induction v as [|c v IH]; intros Hn fuel prev Hf; (destruct fuel as [|f]; [lia|]).
  - cbn [flat_map app sub_all_fuel]. unfold re_cleanstring at 1. rewrite rmatch_bs_none by discriminate.
    destruct f; reflexivity.
  - assert (Hc : c <> 92%N) by (intros ->; apply Hn; left; reflexivity).
    assert (Hn' : no_backslash v) by (intros H; apply Hn; right; exact H).
    cbn [flat_map] in *. rewrite <- app_assoc in *. rewrite app_length in Hf.
    unfold esc2 at 1 in Hf. unfold esc2 at 1 3.
    destruct (N.eqb_spec c 34) as [->|H4]; cbn [app length] in *.
    + cbn [sub_all_fuel]. rewrite rmatch_cleanstring_quote. destruct f as [|f]; [lia|].
      cbn [sub_all_fuel]. unfold re_cleanstring at 1. rewrite rmatch_bs_none by discriminate.
      f_equal. f_equal. apply IH; [exact Hn'|lia].
    + cbn [sub_all_fuel]. unfold re_cleanstring at 1. rewrite rmatch_bs_none by exact Hc.
      f_equal. apply IH; [exact Hn'|lia].
Qed.

Lemma sub_all_fuel_plain r' f fuel prev c t : c <> 92%N ->
  sub_all_fuel (S fuel) (Cat (Chr 92) r') f prev (c :: t) = c :: sub_all_fuel fuel (Cat (Chr 92) r') f (Some c) t.
Proof. intros H. cbn [sub_all_fuel]. rewrite rmatch_bs_none by exact H. reflexivity. Qed.

Lemma finish_string_nobs v after : no_backslash v ->
  finish_token (s "STRING") (hstring v) after = (s "STRING", hstring v, 34%N :: flat_map esc2 v ++ [34%N]).
Proof.
  intros Hn. unfold finish_token.
  change (mem_str (s "STRING") resolved_types) with true. change (mem_str (s "STRING") clean_types) with true.
  cbv iota. f_equal. rewrite (hstring_nobs v Hn).
  assert (Hu : unicodesub (34%N :: flat_map esc1 v ++ [34%N]) = 34%N :: flat_map esc2 v ++ [34%N]).
  { unfold unicodesub, sub_all. cbn [length]. unfold re_unicodesub.
    rewrite sub_all_fuel_plain by discriminate. f_equal. apply (unicodesub_esc v Hn). lia. }
  rewrite Hu. unfold cleanstring, sub_all. cbn [length]. unfold re_cleanstring.
  rewrite sub_all_fuel_plain by discriminate. f_equal. apply (cleanstring_esc v Hn). lia.
Qed.

(* ------------------------------------------------------------------ Base._stringtokenvalue on that value *)
Lemma replace_esc2 v : no_backslash v -> forall fuel,
  (length (flat_map esc2 v ++ [34%N]) < fuel)%nat ->
  py_replace_fuel fuel (flat_map esc2 v ++ [34%N]) [92; 34]%N [34%N] = v ++ [34%N].
Proof.
  induction v as [|c v IH]; intros Hn fuel Hf; (destruct fuel as [|f]; [lia|]).
  - cbn. destruct f; reflexivity.
  - assert (Hc : c <> 92%N) by (intros ->; apply Hn; left; reflexivity).
    assert (Hn' : no_backslash v) by (intros H; apply Hn; right; exact H).
    cbn [flat_map] in *. rewrite <- app_assoc in *. rewrite app_length in Hf.
    unfold esc2 at 1 in Hf. unfold esc2 at 1.
    destruct (N.eqb_spec c 34) as [->|H4]; cbn [app length] in *.
    + cbn [py_replace_fuel starts N.eqb Pos.eqb andb length skipn app]. f_equal. apply IH; [exact Hn'|lia].
    + cbn [py_replace_fuel starts]. replace (N.eqb 92 c) with false by (symmetry; apply N.eqb_neq; congruence).
      cbn [andb]. f_equal. apply IH; [exact Hn'|lia].
Qed.

Lemma py_replace_fuel_plain f c x q b : c <> 92%N ->
  py_replace_fuel (S f) (c :: x) [92%N; q] b = c :: py_replace_fuel f x [92%N; q] b.
Proof.
  intros H. cbn [py_replace_fuel starts].
  replace (N.eqb 92 c) with false by (symmetry; apply N.eqb_neq; congruence). reflexivity.
Qed.

Lemma stringtokenvalue_nobs v ty0 raw0 l c : no_backslash v ->
  stringtokenvalue (Some (mkTok ty0 raw0 (34%N :: flat_map esc2 v ++ [34%N]) l c)) = Ok (Some v).
Proof.
  intros Hn. unfold stringtokenvalue. cbn [val py_index0 app].
  unfold py_replace. cbn [length]. rewrite py_replace_fuel_plain by discriminate.
  rewrite (replace_esc2 v Hn) by lia. rewrite py_slice_1_1. reflexivity.
Qed.

(* ------------------------------------------------------------------ the round trip *)
Lemma hstring_shape v : no_backslash v -> exists y, hstring v = 34%N :: y.
Proof. intros Hn. rewrite (hstring_nobs v Hn). eauto. Qed.

Theorem string_roundtrip_lemma : forall dc fs v follow,
  no_backslash v ->
  exists t, first_token dc fs (hstring v ++ follow) = Some t /\
            ty t = s "STRING" /\ raw t = hstring v /\ line t = 1%nat /\ col t = 1%nat /\
            stringtokenvalue (Some t) = Ok (Some v).
Proof.
  intros dc fs v follow Hn.
  exists (mkTok (s "STRING") (hstring v) (34%N :: flat_map esc2 v ++ [34%N]) 1 1).
  split; [|repeat split; apply stringtokenvalue_nobs; exact Hn].
  destruct (hstring_shape v Hn) as [y Hy].
  unfold first_token, tokenize.
  assert (Hb : rmatch (snd bom_production) None (hstring v ++ follow) = None).
  { rewrite Hy. unfold rmatch. apply fails_on_sound. exact bom_fails_dq. }
  rewrite Hb.
  assert (Hs : starts (s "@charset ") (hstring v ++ follow) = false) by (rewrite Hy; reflexivity).
  rewrite Hs.
  set (text := hstring v ++ follow).
  assert (Htext : text = 34%N :: y ++ follow) by (unfold text; rewrite Hy; reflexivity).
  assert (Hl : loop (S (length text)) dc fs None text 1 1 =
               option_map (cons (mkTok (s "STRING") (hstring v) (34%N :: flat_map esc2 v ++ [34%N]) 1 1))
                 (let '(l', c') := upd_pos 1 1 (hstring v) in
                  loop (length text) dc fs (last_opt None (hstring v)) follow l' c')).
  { rewrite Htext at 2. cbn [loop]. change (mem 34%N fastchars) with false. cbv iota.
    rewrite <- Htext. unfold text. rewrite (try_prods_string dc fs None v follow Hn).
    rewrite skipn_app, skipn_all, Nat.sub_diag. cbn [skipn app].
    rewrite (finish_string_nobs v follow Hn).
    rewrite skipn_app, skipn_all, Nat.sub_diag. cbn [skipn app].
    destruct (upd_pos 1 1 (hstring v)) as [l' c'].
    change (eqs (s "STRING") (s "COMMENT")) with false. cbn [negb]. rewrite orb_true_r.
    destruct (loop (length (hstring v ++ follow)) dc fs (last_opt None (hstring v)) follow l' c'); reflexivity. }
  rewrite Hl. destruct (upd_pos 1 1 (hstring v)) as [l' c'].
  destruct (loop_total (length text) dc fs (last_opt None (hstring v)) follow l' c') as [ts Hts].
  { rewrite Htext. cbn [length]. rewrite app_length. lia. }
  rewrite Hts. reflexivity.
Qed.

(* the second half of the property at this level: writing the re-read value gives the same text *)
Corollary string_fixpoint_lemma : forall dc fs v follow t w,
  no_backslash v -> first_token dc fs (hstring v ++ follow) = Some t ->
  stringtokenvalue (Some t) = Ok (Some w) -> hstring w = hstring v.
Proof.
  intros dc fs v follow t w Hn Ht Hw.
  destruct (string_roundtrip_lemma dc fs v follow Hn) as (t' & Ht' & _ & _ & _ & _ & Hv).
  rewrite Ht in Ht'. injection Ht' as <-. rewrite Hw in Hv. injection Hv as ->. reflexivity.
Qed.

(* ------------------------------------------------------------------ values WITH a backslash: the round trip fails *)
(* The single-quoted source  apostrophe backslash quote apostrophe  is one STRING token whose string value is
   backslash quote  (Base._stringtokenvalue removes the backslash only in front of the token's own quote
   character).  helper.string writes that value as  quote backslash backslash quote quote,  whose first token is
   the string  quote backslash backslash quote  with the value  backslash  -- a different value, and the rest of
   the text is an unterminated string.                                                                    *)
Definition bs_source : str := [39; 92; 34; 39]%N.
Definition bs_value : str := [92; 34]%N.

Lemma bs_value_is_parsed : forall fs,
  option_map (fun t => (ty t, stringtokenvalue (Some t))) (first_token true fs bs_source)
  = Some (s "STRING", Ok (Some bs_value)).
Proof. intros [|]; vm_compute; reflexivity. Qed.

Lemma bs_value_not_restored : forall fs,
  hstring bs_value = [34; 92; 92; 34; 34]%N /\
  option_map (fun t => (raw t, stringtokenvalue (Some t))) (first_token true fs (hstring bs_value))
  = Some ([34; 92; 92; 34]%N, Ok (Some [92%N])).
Proof. intros [|]; vm_compute; split; reflexivity. Qed.

(* a value with a backslash that does survive (a trailing backslash is doubled by helper.string and
   halved again by the replace of backslash-quote in _stringtokenvalue) -- the failure is not "every backslash" *)
Example trailing_backslash_survives :
  option_map (fun t => stringtokenvalue (Some t)) (first_token true false (hstring [97; 92]%N ++ s " x"))
  = Some (Ok (Some [97; 92]%N)).
Proof. vm_compute. reflexivity. Qed.
