(* OrderRefine.v -- the full model parser `parse_sheet` (rule objects, namespaces, cleaning) refines its kinds-level
   abstraction `accept_kinds` (property C07). *)
From CssV Require Import Base Order OrderFacts.
From CssV.Gen Require Import Kinds.

(* ------------------------------------------------------------------ one step of the kinds-level machine *)
Definition next_of (k : kind) (e : nat) : nat := match parse_next k with Some n => n | None => Nat.max 1 e end.
Definition over_threshold (k : kind) (e : nat) : bool :=
  match parse_threshold k with Some t => Nat.ltb t e | None => false end.

Definition accept_step (acc : list kind) (e : nat) (k : kind) : list kind * nat :=
  if over_threshold k e then (acc, e)
  else if kin k parse_discarded_kinds then (acc, next_of k e)
  else match place acc k (length acc) false with
       | PInsert i => (insert_at i k acc, next_of k e)
       | _ => (acc, next_of k e)
       end.

Lemma accept_loop_step acc e k r :
  accept_loop acc e (k :: r) = accept_loop (fst (accept_step acc e k)) (snd (accept_step acc e k)) r.
Proof.
  cbn [accept_loop]. unfold accept_step, over_threshold, next_of.
  destruct (match parse_threshold k with Some t => Nat.ltb t e | None => false end); auto.
  destruct (kin k parse_discarded_kinds); auto.
  destruct (place acc k (length acc) false); auto.
Qed.

Lemma next_ge1 k e : 1 <= next_of k e.
Proof.
  unfold next_of. destruct (parse_next k) as [n|] eqn:E; [|lia].
  destruct k; simpl in E; try discriminate; inversion E; lia.
Qed.

Lemma over_threshold_ge1 k e : over_threshold k e = true -> 1 <= e.
Proof.
  unfold over_threshold. destruct (parse_threshold k); [|discriminate]. intros H. apply Nat.ltb_lt in H. lia.
Qed.

(* ------------------------------------------------------------------ shape of insertRule(rule) at the end of the list *)
Lemma kinds_set_head_enc rs e : kinds (set_head_enc rs e) = kinds rs.
Proof. destruct rs; reflexivity. Qed.

Lemma insert_rule_end_shape rx d clean rs r rs' res :
  insert_rule rx (Some d) clean rs r None false = (rs', res) ->
  (forall e, res <> Exc e) ->
  (is_ns r = true -> clean = false /\ dict_get d (rprefix r) = None) ->
  (is_ns r = false -> kind_beq (rkind r) NAMESPACE_RULE = false) ->
  kinds rs' = match place (kinds rs) (rkind r) (length (kinds rs)) false with
              | PInsert i => insert_at i (rkind r) (kinds rs)
              | _ => kinds rs
              end
  /\ (rs' = rs \/ rs' = set_head_enc rs (renc r) \/ exists i, rs' = insert_at i r rs).
Proof.
  unfold insert_rule. cbv zeta. rewrite kinds_length.
  destruct (place (kinds rs) (rkind r) (length rs) false) as [|i|]; simpl.
  - intros E _ _ _. inversion E; subst. auto.
  - fold (is_kind NAMESPACE_RULE r). fold (is_ns r). destruct (is_ns r) eqn:En.
    + intros E Hx Hc _. destruct (Hc eq_refl) as [-> Hg]. rewrite Hg in E. cbv iota in E. inversion E; subst.
      split; [apply kinds_insert_at | right; right; eauto].
    + intros E _ _ _. cbv iota in E. inversion E; subst.
      split; [apply kinds_insert_at | right; right; eauto].
  - intros E _ _ _. inversion E; subst. split; [apply kinds_set_head_enc | auto].
Qed.

(* ------------------------------------------------------------------ distinct URIs among the @namespace rules *)
Fixpoint udist (rs : list rule) : bool :=
  match rs with
  | [] => true
  | r :: t => (if is_ns r then negb (memN (ruri r) (ns_uris t)) else true) && udist t
  end.

Lemma memN_app u a b : memN u (a ++ b) = memN u a || memN u b.
Proof. apply existsb_app. Qed.

Lemma ns_uris_cons x b : ns_uris (x :: b) = (if is_ns x then [ruri x] else []) ++ ns_uris b.
Proof. reflexivity. Qed.

Lemma udist_insert a b x :
  udist (a ++ b) = true -> (is_ns x = true -> memN (ruri x) (ns_uris (a ++ b)) = false) -> udist (a ++ x :: b) = true.
Proof.
  induction a as [|y a IH]; cbn [app udist]; intros Hd Hx.
  - rewrite Hd, andb_true_r. destruct (is_ns x); auto. now rewrite Hx.
  - apply andb_true_iff in Hd as [Hy Hd]. rewrite IH; auto.
    + rewrite andb_true_r. destruct (is_ns y) eqn:Ey; auto.
      rewrite ns_uris_app, memN_app in *. rewrite ns_uris_cons, memN_app.
      apply negb_true_iff in Hy. apply orb_false_iff in Hy as [H1 H2]. rewrite H1, H2, orb_false_r. simpl.
      destruct (is_ns x) eqn:Ex; auto. simpl. rewrite orb_false_r.
      specialize (Hx eq_refl). rewrite ns_uris_cons, Ey, memN_app in Hx. apply orb_false_iff in Hx as [Hx _].
      simpl in Hx. rewrite orb_false_r in Hx. now rewrite N.eqb_sym, Hx.
    + intros Hn. specialize (Hx Hn). rewrite ns_uris_cons, memN_app in Hx. now apply orb_false_iff in Hx as [_ Hx].
Qed.

Lemma udist_insert_at i x rs :
  udist rs = true -> (is_ns x = true -> memN (ruri x) (ns_uris rs) = false) -> udist (insert_at i x rs) = true.
Proof. intros Hd Hx. unfold insert_at. apply udist_insert; now rewrite firstn_skipn. Qed.

Lemma udist_set_head_enc rs e : udist (set_head_enc rs e) = udist rs.
Proof. destruct rs; reflexivity. Qed.
Lemma ns_uris_set_head_enc rs e : ns_uris (set_head_enc rs e) = ns_uris rs.
Proof. destruct rs; reflexivity. Qed.

Lemma ns_uris_insert_at i x rs u :
  memN u (ns_uris (insert_at i x rs)) = memN u (ns_uris rs) || (is_ns x && N.eqb u (ruri x)).
Proof.
  unfold insert_at. rewrite ns_uris_app, ns_uris_cons, !memN_app.
  rewrite <- (firstn_skipn i rs) at 3. rewrite ns_uris_app, memN_app.
  destruct (is_ns x); simpl; [rewrite orb_false_r|];
    destruct (memN u (ns_uris (firstn i rs))), (memN u (ns_uris (skipn i rs))), (N.eqb u (ruri x)); reflexivity.
Qed.

Lemma udist_split pre r post : udist (pre ++ r :: post) = true -> is_ns r = true -> memN (ruri r) (ns_uris post) = false.
Proof.
  induction pre as [|x pre IH]; cbn [app udist]; intros H Hn.
  - rewrite Hn in H. apply andb_true_iff in H as [H _]. now apply negb_true_iff in H.
  - apply andb_true_iff in H as [_ H]. auto.
Qed.

(* with distinct prefixes and distinct URIs every @namespace rule is effective: _cleanNamespaces deletes nothing *)
Lemma clean_loop_id items rest : forall kept,
  (forall r, List.In r rest -> is_ns r = true -> dict_has_item items (rprefix r) (ruri r) = true) ->
  clean_loop items kept rest = (rev kept ++ rest, None).
Proof.
  induction rest as [|r rest IH]; intros kept H; cbn [clean_loop].
  - now rewrite app_nil_r.
  - assert (E : is_kind NAMESPACE_RULE r && negb (dict_has_item items (rprefix r) (ruri r)) = false).
    { destruct (is_kind NAMESPACE_RULE r) eqn:En; auto. simpl. rewrite (H r (or_introl eq_refl) En). reflexivity. }
    rewrite E, IH; [simpl; now rewrite <- app_assoc|]. intros r0 Hr. apply H. now right.
Qed.

Lemma clean_namespaces_id rs : dist rs = true -> udist rs = true -> clean_namespaces rs = (rs, None).
Proof.
  intros Hd Hu. unfold clean_namespaces. rewrite clean_loop_id; auto.
  intros r Hr Hn. apply in_split in Hr as (pre & post & ->).
  apply view_item; auto; [eapply dist_split; eauto | eapply udist_split; eauto].
Qed.

(* ------------------------------------------------------------------ the simulation *)
Definition proto_wf (st : pstate) (p : proto) : Prop :=
  (pkind p = NAMESPACE_RULE ->
   has_key (p_ns st) (pprefix p) = false /\ memN (puri p) (ns_uris (p_rules st)) = false)
  /\ (pkind p = STYLE_RULE -> forallb (has_key (p_ns st)) (ppfx p) = true).

Fixpoint protos_distinct (ps : list proto) : Prop :=
  match ps with
  | [] => True
  | p :: r => (pkind p = NAMESPACE_RULE ->
               Forall (fun q => pkind q = NAMESPACE_RULE -> pprefix q <> pprefix p /\ puri q <> puri p) r)
              /\ protos_distinct r
  end.

Record SInv (st : pstate) : Prop := mkSInv {
  si_dist : dist (p_rules st) = true;
  si_keys : keys_ok (p_ns st) (p_rules st) = true;
  si_udist : udist (p_rules st) = true }.

Lemma has_key_get d p : has_key d p = false -> dict_get d p = None.
Proof. unfold has_key. destruct (dict_get d p); [discriminate | reflexivity]. Qed.

Lemma has_key_set_inv d p u q : has_key (dict_set d p u) q = true -> has_key d q = true \/ q = p.
Proof.
  unfold has_key. induction d as [|[p' u'] d IH]; simpl.
  - destruct (N.eqb p q) eqn:E; [apply N.eqb_eq in E; auto | discriminate].
  - destruct (N.eqb p' p) eqn:E1; simpl.
    + destruct (N.eqb p q) eqn:E2; [apply N.eqb_eq in E2; auto|]. destruct (N.eqb p' q); auto.
    + destruct (N.eqb p' q); auto.
Qed.

Lemma resolve_ok d pfx : forallb (has_key d) pfx = true -> exists us, resolve d pfx = Some us.
Proof.
  induction pfx as [|x pfx IH]; simpl; [eauto|]. intros H. apply andb_true_iff in H as [H1 H2].
  destruct (IH H2) as [us ->]. unfold has_key in H1. destruct (dict_get d x); [eauto | discriminate].
Qed.

Lemma accept_step_else acc e k :
  over_threshold k e = false -> kin k parse_discarded_kinds = false ->
  accept_step acc e k = (match place acc k (length acc) false with PInsert i => insert_at i k acc | _ => acc end,
                         next_of k e).
Proof.
  intros H1 H2. unfold accept_step. rewrite H1, H2. destruct (place acc k (length acc) false); reflexivity.
Qed.

Lemma parse_step_sim rx st p st1 :
  SInv st -> proto_wf st p -> parse_step rx st p = inl st1 ->
  accept_step (kinds (p_rules st)) (p_expected st) (pkind p) = (kinds (p_rules st1), p_expected st1)
  /\ 1 <= p_expected st1 /\ SInv st1
  /\ (forall q, has_key (p_ns st1) q = true ->
                has_key (p_ns st) q = true \/ (pkind p = NAMESPACE_RULE /\ q = pprefix p))
  /\ (forall q, has_key (p_ns st) q = true -> has_key (p_ns st1) q = true)
  /\ (forall u, memN u (ns_uris (p_rules st1)) = true ->
                memN u (ns_uris (p_rules st)) = true \/ (pkind p = NAMESPACE_RULE /\ u = puri p)).
Proof.
  intros [Hd Hk Hu] [Hns Hst] E.
  assert (HP : PInv st1) by (eapply parse_step_inv; [split; eauto | exact E]).
  destruct HP as [Hd1 Hk1].
  revert E. unfold parse_step. fold (over_threshold (pkind p) (p_expected st)). fold (next_of (pkind p) (p_expected st)).
  destruct (over_threshold (pkind p) (p_expected st)) eqn:Eth.
  { destruct rx; [discriminate|]. intros E; inversion E; subst st1.
    unfold accept_step. rewrite Eth. pose proof (over_threshold_ge1 _ _ Eth).
    repeat split; auto. }
  destruct (kin (pkind p) parse_discarded_kinds) eqn:Edis.
  { intros E; inversion E; subst st1; simpl. unfold accept_step. rewrite Eth, Edis.
    pose proof (next_ge1 (pkind p) (p_expected st)). repeat split; auto. }
  rewrite (accept_step_else _ _ _ Eth Edis).
  (* what a rule inserted at the end does to the invariants *)
  assert (Hshape : forall clean r rs res,
             insert_rule rx (Some (p_ns st)) clean (p_rules st) r None false = (rs, res) ->
             (forall e, res <> Exc e) -> rkind r = pkind p ->
             (is_ns r = true -> clean = false /\ dict_get (p_ns st) (rprefix r) = None /\
                                memN (ruri r) (ns_uris (p_rules st)) = false) ->
             (is_ns r = false -> kind_beq (rkind r) NAMESPACE_RULE = false) ->
             kinds rs = match place (kinds (p_rules st)) (pkind p) (length (kinds (p_rules st))) false with
                        | PInsert i => insert_at i (pkind p) (kinds (p_rules st)) | _ => kinds (p_rules st) end
             /\ udist rs = true
             /\ (forall u, memN u (ns_uris rs) = true ->
                           memN u (ns_uris (p_rules st)) = true \/ (is_ns r = true /\ u = ruri r))).
  { intros clean r rs res Ei Hx Hkind Hn1 Hn2.
    destruct (insert_rule_end_shape rx (p_ns st) clean (p_rules st) r rs res Ei Hx) as [A B]; auto.
    { intros Hn. destruct (Hn1 Hn) as (a & b & _). auto. }
    rewrite Hkind in A. split; auto.
    destruct B as [->|[->|[i ->]]].
    - split; auto.
    - rewrite udist_set_head_enc, ns_uris_set_head_enc. split; auto.
    - split.
      + apply udist_insert_at; auto. intros Hn. now destruct (Hn1 Hn) as (_ & _ & c).
      + intros u. rewrite ns_uris_insert_at. intros H. apply orb_true_iff in H as [H|H]; auto.
        apply andb_true_iff in H as [H1 H2]. apply N.eqb_eq in H2. auto. }
  destruct (kind_beq (pkind p) NAMESPACE_RULE) eqn:Ens.
  { apply kind_beq_eq in Ens. destruct (Hns Ens) as [Hfk Hfu]. rewrite (has_key_get _ _ Hfk).
    set (r := mkRule (pkind p) (pprefix p) (puri p) 0 [] []).
    destruct (insert_rule rx (Some (p_ns st)) false (p_rules st) r None false) as [rs res] eqn:Ei.
    assert (Hr : is_ns r = true) by (unfold is_ns, is_kind; simpl; rewrite Ens; reflexivity).
    intros E.
    assert (Hx : forall e, res <> Exc e) by (intros e He; subst res; discriminate).
    destruct (Hshape false r rs res Ei Hx eq_refl) as (A & B & C).
    { intros _. repeat split; auto. simpl. now apply has_key_get. }
    { rewrite Hr. discriminate. }
    assert (Est : st1 = mkP rs (dict_set (p_ns st) (pprefix p) (puri p)) (next_of (pkind p) (p_expected st))).
    { destruct res; inversion E; auto. }
    subst st1. simpl in *. pose proof (next_ge1 (pkind p) (p_expected st)).
    split; [now rewrite A|]. split; auto. split; [constructor; auto|].
    split; [|split].
    - intros q Hq. apply has_key_set_inv in Hq as [Hq| ->]; auto.
    - intros q Hq. now apply has_key_set.
    - intros u Hm. destruct (C u Hm) as [|[_ ->]]; auto. }
  set (built := if kind_beq (pkind p) STYLE_RULE then _ else _).
  assert (Hb : forall r, built = inl (Some r) -> rkind r = pkind p /\ is_ns r = false).
  { subst built. intros r. unfold is_ns, is_kind.
    destruct (kind_beq (pkind p) STYLE_RULE) eqn:E1.
    { destruct (resolve (p_ns st) (ppfx p)); [|destruct rx]; intros E; inversion E. simpl. auto. }
    destruct (kind_beq (pkind p) MEDIA_RULE) eqn:E2.
    { destruct (media_children rx (pkids p)); intros E; inversion E. simpl. auto. }
    destruct (kind_beq (pkind p) PAGE_RULE) eqn:E3; intros E; inversion E; simpl; auto. }
  assert (Hnone : built <> inl None).
  { subst built. destruct (kind_beq (pkind p) STYLE_RULE) eqn:E1.
    - apply kind_beq_eq in E1. destruct (resolve_ok _ _ (Hst E1)) as [us ->]. discriminate.
    - destruct (kind_beq (pkind p) MEDIA_RULE); [destruct (media_children rx (pkids p)); discriminate|].
      destruct (kind_beq (pkind p) PAGE_RULE); discriminate. }
  destruct built as [[r|]|e]; [| congruence | discriminate].
  destruct (Hb r eq_refl) as [Hkind Hn].
  destruct (insert_rule rx (Some (p_ns st)) true (p_rules st) r None false) as [rs res] eqn:Ei.
  intros E.
  assert (Hx : forall e, res <> Exc e) by (intros e He; subst res; discriminate).
  destruct (Hshape true r rs res Ei Hx Hkind) as (A & B & C).
  { rewrite Hn. discriminate. }
  { intros _. unfold is_ns, is_kind in Hn. exact Hn. }
  assert (Est : st1 = mkP rs (p_ns st) (next_of (pkind p) (p_expected st))).
  { destruct res; inversion E; auto. }
  subst st1. simpl in *. pose proof (next_ge1 (pkind p) (p_expected st)).
  split; [now rewrite A|]. split; auto. split; [constructor; auto|].
  split; [|split]; auto.
  intros u Hm. destruct (C u Hm) as [|[Hc _]]; auto. congruence.
Qed.

Lemma SInv_after_S st : SInv st -> SInv (after_S st).
Proof. intros [A B C]. constructor; auto. Qed.

Lemma parse_loop_sim rx ps : forall st st',
  SInv st -> Forall (proto_wf st) ps -> protos_distinct ps ->
  parse_loop rx st (stmts ps) = inl st' ->
  kinds (p_rules st') = accept_loop (kinds (p_rules st)) (p_expected st) (map pkind ps) /\ SInv st'.
Proof.
  induction ps as [|p r IH]; intros st st' Hi Hwf Hdis E.
  - simpl in E. inversion E; subst. auto.
  - cbn [stmts map parse_loop] in E. fold (stmts r) in E. destruct (parse_step rx st p) as [st1|x] eqn:Es; [|discriminate].
    inversion Hwf as [|? ? Hp Hr]; subst. destruct Hdis as [Hd1 Hd2].
    destruct (parse_step_sim rx st p st1 Hi Hp Es) as (A & B & C & K1 & K2 & U).
    cbn [map]. rewrite accept_loop_step, A. cbn [fst snd].
    assert (Hwf' : Forall (proto_wf (after_S st1)) r).
    { apply Forall_forall. intros q Hq. rewrite Forall_forall in Hr. destruct (Hr q Hq) as [Q1 Q2]. split.
      - intros Hk. destruct (Q1 Hk) as [F1 F2]. cbn [after_S p_ns p_rules]. split.
        + destruct (has_key (p_ns st1) (pprefix q)) eqn:Eh; auto.
          destruct (K1 _ Eh) as [H|[Hn Heq]]; [congruence|].
          specialize (Hd1 Hn). rewrite Forall_forall in Hd1. destruct (Hd1 q Hq Hk) as [X _]. congruence.
        + destruct (memN (puri q) (ns_uris (p_rules st1))) eqn:Eh; auto.
          destruct (U _ Eh) as [H|[Hn Heq]]; [congruence|].
          specialize (Hd1 Hn). rewrite Forall_forall in Hd1. destruct (Hd1 q Hq Hk) as [_ X]. congruence.
      - intros Hk. specialize (Q2 Hk). cbn [after_S p_ns]. revert Q2. apply forallb_impl. intros x. apply K2. }
    destruct (IH (after_S st1) st' (SInv_after_S _ C) Hwf' Hd2 E) as [R1 R2]. split; auto.
    rewrite R1. cbn [after_S p_rules p_expected]. now rewrite Nat.max_r by lia.
Qed.

(* the full parser model computes, on the rule kinds, exactly what the kinds-level machine accept_kinds computes --
   for a text whose @namespace statements have pairwise distinct prefixes and URIs (none declared in the
   environment) and whose style rules use only prefixes of the environment; and its final _cleanNamespaces is a no-op *)
Theorem parse_refines_main rx env ps rs e :
  Forall (proto_wf (mkP [] env 0)) ps -> protos_distinct ps ->
  parse_sheet rx env (stmts ps) = inl (rs, e) -> kinds rs = accept_kinds (map pkind ps) /\ e = None.
Proof.
  intros Hwf Hdis. unfold parse_sheet.
  destruct (parse_loop rx (mkP [] env 0) (stmts ps)) as [st|x] eqn:E; [|discriminate].
  assert (Hi : SInv (mkP [] env 0)) by (constructor; reflexivity).
  destruct (parse_loop_sim rx ps _ _ Hi Hwf Hdis E) as [A [B1 B2 B3]].
  rewrite (clean_namespaces_id _ B1 B3). intros H. inversion H; subst. split; auto.
Qed.

(* ------------------------------------------------------------------ re-reading a sheet *)
Definition proto_of_rule (r : rule) : proto := mkProto (rkind r) (rprefix r) (ruri r) (renc r) [] (rkids r).

Lemma media_children_lenient ks : exists c, media_children false ks = Some c.
Proof.
  induction ks as [|k r [c IH]]; simpl; [eauto|].
  destruct (media_child k) as [[c0|]|]; rewrite ?IH; simpl; eauto.
Qed.

Lemma insert_rule_lenient d clean rs r : (is_ns r = true -> clean = false) ->
  forall e, snd (insert_rule false (Some d) clean rs r None false) <> Exc e.
Proof.
  intros Hc e. unfold insert_rule. cbv zeta.
  destruct (place (kinds rs) (rkind r) (length rs) false); simpl; try discriminate.
  fold (is_kind NAMESPACE_RULE r). fold (is_ns r). destruct (is_ns r) eqn:En; [|discriminate].
  rewrite (Hc eq_refl). destruct (match dict_get d (rprefix r) with Some u => N.eqb u (ruri r) | None => false end);
    discriminate.
Qed.

Lemma parse_step_lenient st p : exists st1, parse_step false st p = inl st1.
Proof.
  unfold parse_step.
  destruct (match parse_threshold (pkind p) with Some t => Nat.ltb t (p_expected st) | None => false end); [eauto|].
  destruct (kin (pkind p) parse_discarded_kinds); [eauto|].
  destruct (kind_beq (pkind p) NAMESPACE_RULE) eqn:Ens.
  - destruct (dict_get (p_ns st) (pprefix p)); [eauto|].
    pose proof (insert_rule_lenient (p_ns st) false (p_rules st)
                  (mkRule (pkind p) (pprefix p) (puri p) 0 [] []) (fun _ => eq_refl)) as Hn.
    destruct (insert_rule false (Some (p_ns st)) false (p_rules st)
                          (mkRule (pkind p) (pprefix p) (puri p) 0 [] []) None false) as [rs res].
    destruct res; eauto. exfalso. eapply Hn. reflexivity.
  - set (built := if kind_beq (pkind p) STYLE_RULE then _ else _).
    assert (Hb : (exists r, built = inl (Some r) /\ is_ns r = false) \/ built = inl None).
    { subst built. unfold is_ns, is_kind.
      destruct (kind_beq (pkind p) STYLE_RULE); [destruct (resolve (p_ns st) (ppfx p)); eauto|].
      destruct (kind_beq (pkind p) MEDIA_RULE).
      { destruct (media_children_lenient (pkids p)) as [c ->]. eauto. }
      destruct (kind_beq (pkind p) PAGE_RULE); eauto. }
    destruct Hb as [(r & -> & Hn)| ->]; [|eauto].
    pose proof (insert_rule_lenient (p_ns st) true (p_rules st) r) as Hx.
    destruct (insert_rule false (Some (p_ns st)) true (p_rules st) r None false) as [rs res].
    destruct res; eauto. exfalso. eapply Hx; [rewrite Hn; discriminate | reflexivity].
Qed.

Lemma parse_loop_lenient ps : forall st, exists st', parse_loop false st ps = inl st'.
Proof.
  induction ps as [|[p|g] r IH]; intros st; simpl; [eauto| |apply IH].
  destruct (parse_step_lenient st p) as [st1 ->]. apply IH.
Qed.

Lemma protos_of_rules_distinct rs : dist rs = true -> udist rs = true -> protos_distinct (map proto_of_rule rs).
Proof.
  induction rs as [|r t IH]; cbn [map protos_distinct dist udist]; auto. intros Hd Hu.
  apply andb_true_iff in Hd as [Hd1 Hd2]. apply andb_true_iff in Hu as [Hu1 Hu2]. split; auto.
  intros Hk. cbn [proto_of_rule pkind] in Hk.
  assert (Hn : is_ns r = true) by (unfold is_ns, is_kind; rewrite Hk; reflexivity).
  rewrite Hn in Hd1, Hu1. apply negb_true_iff in Hu1.
  rewrite Forall_forall. intros q Hq Hkq. apply in_map_iff in Hq as (x & <- & Hx). cbn [proto_of_rule pkind pprefix puri] in *.
  assert (Hnx : is_ns x = true) by (unfold is_ns, is_kind; rewrite Hkq; reflexivity).
  split.
  - unfold pfx_fresh in Hd1. rewrite forallb_forall in Hd1. specialize (Hd1 x Hx). rewrite Hnx in Hd1. simpl in Hd1.
    apply negb_true_iff in Hd1. apply N.eqb_neq in Hd1. exact Hd1.
  - intros Heq. apply in_split in Hx as (a & b & ->). rewrite ns_uris_app, memN_app, ns_uris_cons, Hnx, memN_app in Hu1.
    apply orb_false_iff in Hu1 as [_ Hu1]. apply orb_false_iff in Hu1 as [Hu1 _]. simpl in Hu1.
    rewrite Heq, N.eqb_refl in Hu1. discriminate.
Qed.

(* a valid sheet whose @namespace rules have distinct prefixes and URIs is read back, by the full parser model in
   its lenient mode, with exactly the same rule kinds *)
Theorem sheet_reparse_main rs :
  valid_sheet rs = true -> dist rs = true -> udist rs = true ->
  exists rs', parse_sheet false [] (stmts (map proto_of_rule rs)) = inl (rs', None) /\ kinds rs' = kinds rs.
Proof.
  intros Hv Hd Hu. unfold parse_sheet.
  destruct (parse_loop_lenient (stmts (map proto_of_rule rs)) (mkP [] [] 0)) as [st E].
  assert (Hwf : Forall (proto_wf (mkP [] [] 0)) (map proto_of_rule rs)).
  { rewrite Forall_forall. intros q Hq. apply in_map_iff in Hq as (x & <- & _).
    split; intros _; [split|]; reflexivity. }
  pose proof (protos_of_rules_distinct rs Hd Hu) as Hdis.
  destruct (parse_refines_main false [] _ (fst (clean_namespaces (p_rules st))) (snd (clean_namespaces (p_rules st)))
                               Hwf Hdis) as [A B].
  { unfold parse_sheet. rewrite E. now destruct (clean_namespaces (p_rules st)). }
  rewrite E. exists (fst (clean_namespaces (p_rules st))). split.
  - destruct (clean_namespaces (p_rules st)) as [x y]. simpl in *. now subst.
  - rewrite A. unfold kinds at 1. rewrite map_map. cbn [proto_of_rule pkind].
    apply valid_reparse_main; [now apply VS_elim in Hv as [Hv _] | now apply VS_nr].
Qed.
