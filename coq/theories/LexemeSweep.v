(* LexemeSweep.v -- C09: the lexeme classes that are NOT covered by a theorem over all lexemes
   (URI, UNICODE-RANGE, FUNCTION versus IDENT, identifiers that start with u / U / an escape, the
   delimiters whose class depends on the next character) are checked on a finite list of
   representative lexeme sequences by evaluation of the model inside Coq.  These are statements
   about exactly the listed texts, nothing more.                                              *)
From CssV Require Import Base Regex RegexFacts LexemeRegex Gen.Productions Gen.TokTables Tokenizer Lexemes LexemeFacts.

Fixpoint eq_tv (a b : list (str * str)) : bool :=
  match a, b with
  | [], [] => true
  | (t1, v1) :: a', (t2, v2) :: b' => eqs t1 t2 && eqs v1 v2 && eq_tv a' b'
  | _, _ => false
  end.

Definition tok_is (text : str) (expect : list (str * str)) : bool :=
  match tokenize true false text with Some toks => eq_tv (map tv toks) expect | None => false end.

Definition T (ty v : string) : str * str := (s ty, s v).
Definition bs : str := [92%N].

Definition uri_cases : list (str * list (str * str)) :=
  [ (s "url(a)", [T "URI" "url(a)"]);
    (s "URL( a )x", [T "URI" "URL( a )"; T "IDENT" "x"]);
    (s "url()", [T "URI" "url()"]);
    (s "url('a b')", [T "URI" "url('a b')"]);
    (s "url(""a)b"");", [T "URI" "url(""a)b"")"; T "CHAR" ";"]);
    (s "u" ++ bs ++ s "rl(x)", [(s "URI", s "u" ++ bs ++ s "rl(x)")]);
    (bs ++ s "75 rl(x)", [T "URI" "url(x)"]);
    (bs ++ s "000055" ++ bs ++ s "52" ++ bs ++ s "4C(x)", [T "URI" "URL(x)"]);
    (s "ur" ++ bs ++ s "6c (x)", [T "URI" "url(x)"]);
    (s "url(a(b)", [T "URI" "url(a(b)"]);
    (s "url(" ++ bs ++ s "29 )", [T "URI" "url())"]);
    (s "url(a" ++ bs ++ s ")b)", [(s "URI", s "url(a" ++ bs ++ s ")b)")]);
    (s "url( 'x' ) url(y)", [T "URI" "url( 'x' )"; T "S" " "; T "URI" "url(y)"]);
    (s "url(a b)", [T "FUNCTION" "url("; T "IDENT" "a"; T "S" " "; T "IDENT" "b"; T "CHAR" ")"]);
    (s "url(a", [T "FUNCTION" "url("; T "IDENT" "a"]);
    (s "urls(a)", [T "FUNCTION" "urls("; T "IDENT" "a"; T "CHAR" ")"]) ].

Definition urange_cases : list (str * list (str * str)) :=
  [ (s "u+0", [T "UNICODE-RANGE" "u+0"]);
    (s "U+0-7F;", [T "UNICODE-RANGE" "U+0-7F"; T "CHAR" ";"]);
    (s "u+1?", [T "UNICODE-RANGE" "u+1?"]);
    (s "u+??????", [T "UNICODE-RANGE" "u+??????"]);
    (s "U+10FFFF", [T "UNICODE-RANGE" "U+10FFFF"]);
    (s "u+012345-abcdef,", [T "UNICODE-RANGE" "u+012345-abcdef"; T "CHAR" ","]);
    (bs ++ s "75 +1", [T "UNICODE-RANGE" "u+1"]);
    (bs ++ s "u+a-f", [(s "UNICODE-RANGE", bs ++ s "u+a-f")]);
    (s "u+1234567", [T "UNICODE-RANGE" "u+123456"; T "NUMBER" "7"]);
    (s "u +1", [T "IDENT" "u"; T "S" " "; T "NUMBER" "+1"]);
    (s "u+g", [T "IDENT" "u"; T "CHAR" "+"; T "IDENT" "g"]) ].

Definition function_cases : list (str * list (str * str)) :=
  [ (s "f(", [T "FUNCTION" "f("]);
    (s "rgb(1,2)", [T "FUNCTION" "rgb("; T "NUMBER" "1"; T "CHAR" ","; T "NUMBER" "2"; T "CHAR" ")"]);
    (s "-moz-x(", [T "FUNCTION" "-moz-x("]);
    (s "and(", [T "IDENT" "and"; T "CHAR" "("]);
    (s "AND(", [T "IDENT" "AND"; T "CHAR" "("]);
    (s "aNd(x)", [T "IDENT" "aNd"; T "CHAR" "("; T "IDENT" "x"; T "CHAR" ")"]);
    (bs ++ s "61nd(", [T "FUNCTION" "and("]);
    (s "a" ++ bs ++ s "nd(", [(s "FUNCTION", s "a" ++ bs ++ s "nd(")]);
    (s "and (", [T "IDENT" "and"; T "S" " "; T "CHAR" "("]);
    (s "band(", [T "FUNCTION" "band("]);
    (s "ands(", [T "FUNCTION" "ands("]);
    (s "not(", [T "FUNCTION" "not("]);
    (s "or(", [T "FUNCTION" "or("]);
    (s "u(", [T "FUNCTION" "u("]);
    (s "ur(", [T "FUNCTION" "ur("]);
    (s "calc(1px + 2%)", [T "FUNCTION" "calc("; T "DIMENSION" "1px"; T "S" " "; T "CHAR" "+"; T "S" " ";
                          T "PERCENTAGE" "2%"; T "CHAR" ")"]) ].

(* identifiers starting with u / U / an escape (excluded from ident_lexeme) and the context-dependent delimiters *)
Definition ident_u_cases : list (str * list (str * str)) :=
  [ (s "u", [T "IDENT" "u"]); (s "U;", [T "IDENT" "U"; T "CHAR" ";"]); (s "url", [T "IDENT" "url"]);
    (s "ur l", [T "IDENT" "ur"; T "S" " "; T "IDENT" "l"]);
    (s "unit", [T "IDENT" "unit"]); (s "Up-x", [T "IDENT" "Up-x"]);
    (bs ++ s "41", [T "IDENT" "A"]); (bs ++ s "000041x", [T "IDENT" "Ax"]);
    (bs ++ s "61 b", [T "IDENT" "ab"]); (bs ++ s "z", [(s "IDENT", bs ++ s "z")]);
    (bs ++ s "75", [T "IDENT" "u"]); (bs ++ s "75 r", [T "IDENT" "ur"]);
    (bs ++ s "110000 x", [(s "IDENT", bs ++ s "110000 x")]) ].

Definition delim_cases : list (str * list (str * str)) :=
  [ (s "*", [T "CHAR" "*"]); (s "* =", [T "CHAR" "*"; T "S" " "; T "CHAR" "="]);
    (s "/ *", [T "CHAR" "/"; T "S" " "; T "CHAR" "*"]); (s "/a", [T "CHAR" "/"; T "IDENT" "a"]);
    (s ".a", [T "CHAR" "."; T "IDENT" "a"]); (s "+a", [T "CHAR" "+"; T "IDENT" "a"]);
    (s "- a", [T "CHAR" "-"; T "S" " "; T "IDENT" "a"]); (s "-", [T "CHAR" "-"]);
    (s "<a", [T "CHAR" "<"; T "IDENT" "a"]); (s "@ a", [T "CHAR" "@"; T "S" " "; T "IDENT" "a"]);
    (s "# a", [T "CHAR" "#"; T "S" " "; T "IDENT" "a"]); (s "~a", [T "CHAR" "~"; T "IDENT" "a"]);
    (s "|a", [T "CHAR" "|"; T "IDENT" "a"]); (s "^a", [T "CHAR" "^"; T "IDENT" "a"]);
    (s "$a", [T "CHAR" "$"; T "IDENT" "a"]); (s "!important", [T "CHAR" "!"; T "IDENT" "important"]);
    (s "12.a", [T "NUMBER" "12"; T "CHAR" "."; T "IDENT" "a"]);
    (s "(4/3)", [T "CHAR" "("; T "NUMBER" "4"; T "CHAR" "/"; T "NUMBER" "3"; T "CHAR" ")"]) ].

Definition at_cases : list (str * list (str * str)) :=
  [ (s "@import", [T "IMPORT_SYM" "@import"]); (s "@IMPORT", [T "IMPORT_SYM" "@IMPORT"]);
    (s "@im" ++ bs ++ s "port", [(s "IMPORT_SYM", s "@im" ++ bs ++ s "port")]);
    (s "@" ++ bs ++ s "69mport", [(s "IMPORT_SYM", s "@" ++ bs ++ s "69mport")]);
    (s "@" ++ bs ++ s "49 MPORT", [(s "IMPORT_SYM", s "@" ++ bs ++ s "49 MPORT")]);
    (s "@imp" ++ bs ++ s "6Frt", [(s "IMPORT_SYM", s "@imp" ++ bs ++ s "6Frt")]);
    (s "@media", [T "MEDIA_SYM" "@media"]); (s "@Media", [T "MEDIA_SYM" "@Media"]);
    (s "@" ++ bs ++ s "6d edia", [(s "MEDIA_SYM", s "@" ++ bs ++ s "6d edia")]);
    (s "@page", [T "PAGE_SYM" "@page"]); (s "@P" ++ bs ++ s "000041GE", [(s "PAGE_SYM", s "@P" ++ bs ++ s "000041GE")]);
    (s "@font-face", [T "FONT_FACE_SYM" "@font-face"]);
    (s "@font" ++ bs ++ s "-face", [(s "FONT_FACE_SYM", s "@font" ++ bs ++ s "-face")]);
    (s "@FONT" ++ bs ++ s "2d FACE", [(s "FONT_FACE_SYM", s "@FONT" ++ bs ++ s "2d FACE")]);
    (s "@namespace", [T "NAMESPACE_SYM" "@namespace"]); (s "@NameSpace", [T "NAMESPACE_SYM" "@NameSpace"]);
    (s "@variables", [T "VARIABLES_SYM" "@variables"]);
    (s "@" ++ bs ++ s "v" ++ bs ++ s "61 riables", [(s "VARIABLES_SYM", s "@" ++ bs ++ s "v" ++ bs ++ s "61 riables")]);
    (s "@charset", [T "ATKEYWORD" "@charset"]); (s "@medias", [T "ATKEYWORD" "@medias"]);
    (s "@" ++ bs ++ s "41", [T "ATKEYWORD" "@A"]);
    (s "a @charset b", [T "IDENT" "a"; T "S" " "; T "CHARSET_SYM" "@charset "; T "IDENT" "b"]) ].

Lemma uri_sweep : forallb (fun c => tok_is (fst c) (snd c)) uri_cases = true.
Proof. vm_compute. reflexivity. Qed.
Lemma urange_sweep : forallb (fun c => tok_is (fst c) (snd c)) urange_cases = true.
Proof. vm_compute. reflexivity. Qed.
Lemma function_sweep : forallb (fun c => tok_is (fst c) (snd c)) function_cases = true.
Proof. vm_compute. reflexivity. Qed.
Lemma ident_u_sweep : forallb (fun c => tok_is (fst c) (snd c)) ident_u_cases = true.
Proof. vm_compute. reflexivity. Qed.
Lemma delim_sweep : forallb (fun c => tok_is (fst c) (snd c)) delim_cases = true.
Proof. vm_compute. reflexivity. Qed.
Lemma at_sweep : forallb (fun c => tok_is (fst c) (snd c)) at_cases = true.
Proof. vm_compute. reflexivity. Qed.

(* the table of escape-resolved token types (regenerated from tokenize2.py) covers the classes whose
   `classify` value is the resolved text, and only STRING (and INVALID) are cleaned *)
Lemma resolved_types_cover :
  forallb (fun n => mem_str n resolved_types)
    [s "IDENT"; s "FUNCTION"; s "HASH"; s "DIMENSION"; s "STRING"; s "URI"; s "UNICODE-RANGE"; s "COMMENT"] = true /\
  forallb (fun n => negb (mem_str n resolved_types))
    [s "NUMBER"; s "PERCENTAGE"; s "S"; s "CHAR"; s "ATKEYWORD"; s "INCLUDES"; s "CDO"; s "CDC"] = true /\
  mem_str (s "STRING") clean_types = true /\ mem_str (s "IDENT") clean_types = false /\
  mem_str (s "URI") clean_types = false.
Proof. vm_compute. repeat split; reflexivity. Qed.

(* ---- refutations: the two places where the pinned tokenizer leaves the lexeme grammar ---- *)
(* literal escape of a backslash followed by a hex digit: the grammar says  \\ then 41  (value \\41),
   the tokenizer re-reads the second backslash as the start of a hex escape                      *)
Definition esc_bs_witness : list el := [L 92; P 52; P 49].
Lemma esc_bs_refuted :
  wf_els nmchar_plain false (tl esc_bs_witness) [] = true /\
  tok_is (render esc_bs_witness) [(s "IDENT", denote esc_bs_witness)] = false /\
  tok_is (render esc_bs_witness) [(s "IDENT", bs ++ s "A")] = true.
Proof. vm_compute. repeat split; reflexivity. Qed.

(* NUMBER '/' NUMBER ')' is one RATIO token (not a token of the CSS grammar) unless preceded by '(' *)
Lemma ratio_refuted :
  tok_is (s "4/3)") [T "NUMBER" "4"; T "CHAR" "/"; T "NUMBER" "3"; T "CHAR" ")"] = false /\
  tok_is (s "4/3)") [T "RATIO" "4/3"; T "CHAR" ")"] = true.
Proof. vm_compute. split; reflexivity. Qed.

(* ---- configuration: the classification is a function of the production list handed to try_prods.
   settings.set('DXImageTransform.Microsoft', True) puts dx_production in front of the list; that changes
   nothing for a text that does not start with 'p' (all c), and makes the progid text one FUNCTION token *)
Lemma dx_irrelevant_lemma : forall c t dc prev, N.eqb c 112 = false ->
  try_prods (dx_production :: productions) dc false prev (c :: t) = try_prods productions dc false prev (c :: t).
Proof.
  intros c t dc prev H. unfold dx_production. apply miss_fails. apply fc_fails; [reflexivity|].
  unfold re_DX. cbn [fc nullable andb]. rewrite H. reflexivity.
Qed.

Lemma dx_function_example :
  try_prods (dx_production :: productions) true false None (s "progid:DXImageTransform.Microsoft.Alpha(opacity=50)") =
    Some (Step (s "FUNCTION") (s "progid:DXImageTransform.Microsoft.Alpha(") true) /\
  try_prods productions true false None (s "progid:DXImageTransform.Microsoft.Alpha(opacity=50)") =
    Some (Step (s "IDENT") (s "progid") true).
Proof. vm_compute. split; reflexivity. Qed.
