(* LexemeUri.v -- C09 extension 2: an exact account of the letter macros U R L (as regenerated), and from it
   the URI and UNICODE-RANGE lexeme classes, the identifiers / functions that begin with u, U or an escape,
   and the lone backslash delimiter.                                                                  *)
From CssV Require Import Base Regex RegexFacts LexemeRegex Gen.Productions Gen.TokTables Tokenizer
  TokenizerFacts Lexemes LexemeBase.

(* ------------------------------------------------------------------ exactness calculus *)
(* `Exact r t l`: on the text t the expression r hands to its continuation exactly the split points
   (consumed lengths) listed in l, in this priority order - whatever the continuation does          *)
Section Exactness.
Context {R : Type}.

Fixpoint tryl (k : cont R) (p : option N) (t : str) (ns : list nat) : option R :=
  match ns with
  | [] => None
  | n :: r => match k (lst p (firstn n t)) (skipn n t) with Some v => Some v | None => tryl k p t r end
  end.

Definition Exact (r : re) (t : str) (l : list nat) : Prop := forall p k, m r p t k = tryl k p t l.

Lemma tryl_app k p t l1 l2 :
  tryl k p t (l1 ++ l2) = match tryl k p t l1 with Some v => Some v | None => tryl k p t l2 end.
Proof. induction l1 as [|n l1 IH]; simpl; [reflexivity|]. destruct (k _ _); [reflexivity|exact IH]. Qed.

Lemma firstn_plus {A} n j (t : list A) : firstn (n + j) t = firstn n t ++ firstn j (skipn n t).
Proof. revert t. induction n as [|n IH]; intros t; [reflexivity|]. destruct t; simpl; [now destruct j|]. now rewrite IH. Qed.
Lemma skipn_plus {A} n j (t : list A) : skipn (n + j) t = skipn j (skipn n t).
Proof. revert t. induction n as [|n IH]; intros t; [reflexivity|]. destruct t; simpl; [now destruct j|]. apply IH. Qed.

Lemma tryl_shift k p t n l :
  tryl k (lst p (firstn n t)) (skipn n t) l = tryl k p t (map (Nat.add n) l).
Proof.
  induction l as [|j l IH]; simpl; [reflexivity|].
  rewrite firstn_plus, skipn_plus, lst_app. destruct (k _ _); [reflexivity|exact IH].
Qed.

Lemma exact_single a f t : chartest a = Some f ->
  Exact a t (match t with x :: _ => if f x then [1%nat] else [] | [] => [] end).
Proof.
  intros H p k. rewrite (m_single _ _ H). destruct t as [|x t]; [reflexivity|].
  destruct (f x); [|reflexivity]. simpl. now destruct (k (Some x) t).
Qed.

Lemma exact_alt a b t la lb : Exact a t la -> Exact b t lb -> Exact (Alt a b) t (la ++ lb).
Proof. intros Ha Hb p k. cbn [m]. now rewrite Ha, Hb, tryl_app. Qed.

Lemma exact_cat a b t la (lb : nat -> list nat) :
  Exact a t la -> (forall n, In n la -> Exact b (skipn n t) (lb n)) ->
  Exact (Cat a b) t (flat_map (fun n => map (Nat.add n) (lb n)) la).
Proof.
  intros Ha Hb p k. cbn [m]. rewrite Ha. clear Ha.
  induction la as [|n la IH]; [reflexivity|]. cbn [tryl flat_map]. rewrite tryl_app.
  rewrite (Hb n) by now left. rewrite tryl_shift.
  destruct (tryl k p t (map (Nat.add n) (lb n))); [reflexivity|]. apply IH. intros j Hj. apply Hb. now right.
Qed.

Lemma exact_ext r t l l' : l = l' -> Exact r t l -> Exact r t l'.
Proof. now intros ->. Qed.

(* ---- greedy repeat of a one-character expression, exactly ---- *)
Fixpoint bt (f : N -> bool) (K : cont R) (lo : nat) (hi : option nat) (p : option N) (t : str) : option R :=
  let stop := match lo with O => K p t | _ => None end in
  match hi with
  | Some O => stop
  | _ => match t with
         | x :: t' => if f x
                      then match bt f K (Nat.pred lo) (option_map Nat.pred hi) (Some x) t' with
                           | Some v => Some v | None => stop end
                      else stop
         | [] => stop
         end
  end.

Lemma rep_single_exact a f : chartest a = Some f -> forall t fuel lo hi p K, (length t < fuel)%nat ->
  rep_iter (m a) K fuel lo hi p t = bt f K lo hi p t.
Proof.
  intros Ha. induction t as [|x t IH]; intros fuel lo hi p K Hf; (destruct fuel as [|fu]; [simpl in Hf; lia|]).
  - cbn [rep_iter bt]. rewrite (m_single _ _ Ha). destruct hi as [[|h]|]; reflexivity.
  - cbn [rep_iter bt]. rewrite (m_single _ _ Ha). destruct hi as [[|h]|]; [reflexivity| |].
    + destruct (f x); [|reflexivity]. rewrite (ltb_len_S' x). rewrite IH by (simpl in Hf; lia). reflexivity.
    + destruct (f x); [|reflexivity]. rewrite (ltb_len_S' x). rewrite IH by (simpl in Hf; lia). reflexivity.
Qed.

(* zeros: the continuation cannot start at a '0', so only the longest run of zeros (at most n) is offered *)
Lemma bt_zeros (K : cont R) : (forall p' t', K p' (48%N :: t') = None) ->
  forall n p t, bt (fun x => N.eqb x 48) K 0 (Some n) p t =
                K (lst p (firstn (zeros_n n t) t)) (skipn (zeros_n n t) t).
Proof.
  intros HK. induction n as [|n IH]; intros p t.
  - destruct t; reflexivity.
  - destruct t as [|x t]; [reflexivity|]. cbn [bt zeros_n]. destruct (N.eqb_spec x 48) as [->|Hx].
    + cbn [Nat.pred option_map]. rewrite IH, HK. cbn [firstn skipn]. unfold lst. cbn [fold_left].
      now destruct (K _ _).
    + reflexivity.
Qed.

Lemma exact_zeros b t lb :
  (forall t', Exact b (48%N :: t') []) ->
  Exact b (skipn (zeros_n 4 t) t) lb ->
  Exact (Cat (Rep (Chr 48) 0 (Some 4%nat)) b) t (map (Nat.add (zeros_n 4 t)) lb).
Proof.
  intros H0 Hb p k.
  change (m (Cat (Rep (Chr 48) 0 (Some 4%nat)) b) p t k)
    with (rep_iter (m (Chr 48)) (fun p' t' => m b p' t' k) (S (length t)) 0 (Some 4%nat) p t).
  rewrite (rep_single_exact _ (fun x => N.eqb x 48)) by (reflexivity || lia).
  rewrite bt_zeros.
  - rewrite Hb. apply tryl_shift.
  - intros p' t'. now rewrite H0.
Qed.
End Exactness.

(* ------------------------------------------------------------------ the pieces of a letter macro *)
Section Letter.
Context {R : Type}.

Lemma tryl_ext (k1 k2 : cont R) p t la :
  (forall n, In n la -> k1 (lst p (firstn n t)) (skipn n t) = k2 (lst p (firstn n t)) (skipn n t)) ->
  tryl k1 p t la = tryl k2 p t la.
Proof.
  induction la as [|n la IH]; intros H; [reflexivity|]. cbn [tryl]. rewrite (H n) by now left.
  rewrite IH by (intros j Hj; apply H; now right). reflexivity.
Qed.

Lemma tryl_guard (k : cont R) f lo p t la : (forall n, In n la -> (1 <= n <= length t)%nat) ->
  tryl (fun p' t' => if Nat.ltb (length t') (length t) then rep_iter f k (length t) lo (Some 0%nat) p' t' else None)
       p t la =
  tryl (fun p' t' => match lo with O => k p' t' | _ => None end) p t la.
Proof.
  intros Hb. apply tryl_ext. intros n Hn. specialize (Hb n Hn).
  assert (L : Nat.ltb (length (skipn n t)) (length t) = true).
  { apply Nat.ltb_lt. rewrite skipn_length. lia. }
  rewrite L. destruct t as [|x t0]; [simpl in Hb; lia|]. cbn [length rep_iter]. reflexivity.
Qed.

(* an optional expression: its own split points, then the empty match *)
Lemma exact_opt a t la : Exact (R:=R) a t la -> (forall n, In n la -> (1 <= n <= length t)%nat) ->
  Exact (R:=R) (Rep a 0 (Some 1%nat)) t (la ++ [0%nat]).
Proof.
  intros Ha Hb p k. cbn [m rep_iter]. rewrite Ha. cbn [Nat.pred option_map].
  rewrite (tryl_guard k (m a) 0 p t la Hb). rewrite tryl_app. cbn [tryl firstn skipn].
  change (lst p []) with p.
  match goal with |- match ?A with _ => _ end = match ?B with _ => _ end => change A with B end.
  destruct (tryl k p t la); [reflexivity|]. now destruct (k p t).
Qed.

Lemma exact_chr c t : Exact (R:=R) (Chr c) t (single_len c t).
Proof. apply (exact_single (Chr c) (fun x => N.eqb x c)). reflexivity. Qed.

Definition cls_len (rs : list (N * N)) (t : str) : list nat :=
  match t with x :: _ => if in_ranges x rs then [1%nat] else [] | [] => [] end.
Lemma exact_cls rs t : Exact (R:=R) (Cls false rs) t (cls_len rs t).
Proof.
  eapply exact_ext; [|apply (exact_single (Cls false rs) (fun x => xorb false (in_ranges x rs))); reflexivity].
  destruct t as [|x t]; [reflexivity|]. unfold cls_len. now destruct (in_ranges x rs).
Qed.

Lemma exact_mterm t : Exact (R:=R) mterm_re t (term_lens t).
Proof.
  unfold mterm_re.
  pose proof (exact_opt _ t _
    (exact_alt _ _ t _ _
       (exact_cat (Chr 13) (Chr 10) t (single_len 13 t) (fun n => single_len 10 (skipn n t))
          (exact_chr 13 t) (fun n _ => exact_chr 10 (skipn n t)))
       (exact_cls mterm_rs t))) as H.
  eapply exact_ext; [|apply H].
  - unfold term_lens, single_len, cls_len. destruct t as [|c r]; [reflexivity|].
    destruct (N.eqb_spec c 13) as [->|Hc].
    + cbn [flat_map skipn app map]. destruct r as [|d r2]; [reflexivity|].
      destruct (N.eqb_spec d 10) as [->|Hd]; reflexivity.
    + cbn [flat_map app andb]. destruct (in_ranges c mterm_rs); reflexivity.
  - intros n Hn. unfold single_len, cls_len in Hn. destruct t as [|c r]; [destruct Hn|].
    apply in_app_or in Hn as [Hn|Hn].
    + destruct (N.eqb_spec c 13) as [->|Hc]; [|destruct Hn]. cbn [flat_map skipn app map] in Hn.
      destruct r as [|d r2]; [destruct Hn|]. destruct (N.eqb d 10); [|destruct Hn].
      destruct Hn as [<-|[]]. simpl. lia.
    + destruct (in_ranges c mterm_rs); [|destruct Hn]. destruct Hn as [<-|[]]. simpl. lia.
Qed.

Definition hh_len (hhb : N -> N -> bool) (t : str) : list nat :=
  match t with a :: b :: _ => if hhb a b then [2%nat] else [] | _ => [] end.

Lemma exact_hh a1 a2 x fb t : a1 <> a2 -> chartest x = Some fb ->
  Exact (R:=R) (hh_re a1 a2 x) t (hh_len (fun a b => (N.eqb a a1 || N.eqb a a2) && fb b) t).
Proof.
  intros Hne Hx. unfold hh_re.
  pose (xl := fun t' : str => match t' with y :: _ => if fb y then [1%nat] else [] | [] => [] end).
  pose proof (exact_alt _ _ t _ _
    (exact_cat (Chr a1) x t (single_len a1 t) (fun n => xl (skipn n t)) (exact_chr a1 t)
       (fun n _ => exact_single x fb (skipn n t) Hx))
    (exact_cat (Chr a2) x t (single_len a2 t) (fun n => xl (skipn n t)) (exact_chr a2 t)
       (fun n _ => exact_single x fb (skipn n t) Hx))) as H.
  eapply exact_ext; [|apply H]. unfold hh_len, single_len, xl.
  destruct t as [|a r]; [reflexivity|]. destruct r as [|b r2].
  - destruct (N.eqb a a1), (N.eqb a a2); reflexivity.
  - destruct (N.eqb_spec a a1) as [E1|H1]; destruct (N.eqb_spec a a2) as [E2|H2];
      [congruence| | |]; cbn [flat_map skipn app map orb andb]; destruct (fb b); reflexivity.
Qed.

Section OneLetter.
Variables (up lo : N) (hh : re) (hhb : N -> N -> bool).
Hypothesis Hhh : forall t, Exact (R:=R) hh t (hh_len hhb t).
Hypothesis Hz : forall b, hhb 48%N b = false.
Hypothesis Hul : up <> lo.
Hypothesis Hu92 : up <> 92%N.
Hypothesis Hl92 : lo <> 92%N.

Definition hexpart : re := Cat (Rep (Chr 48) 0 (Some 4%nat)) (Cat hh mterm_re).
Definition hm_len (t : str) : list nat :=
  flat_map (fun n => map (Nat.add n) (term_lens (skipn n t))) (hh_len hhb t).

Lemma exact_hm t : Exact (R:=R) (Cat hh mterm_re) t (hm_len t).
Proof. apply (exact_cat hh mterm_re t (hh_len hhb t) (fun n => term_lens (skipn n t))); [apply Hhh|]. intros n _. apply exact_mterm. Qed.

Lemma exact_hexpart t : Exact (R:=R) hexpart t (map (Nat.add (zeros_n 4 t)) (hm_len (skipn (zeros_n 4 t) t))).
Proof.
  apply exact_zeros; [|apply exact_hm]. intros t'. eapply exact_ext; [|apply exact_hm].
  unfold hm_len, hh_len. destruct t' as [|b r]; [reflexivity|]. now rewrite Hz.
Qed.

Theorem letter_exact t : Exact (R:=R) (letter_re up lo hh) t (lspell {| l_up := up; l_lo := lo; l_hhb := hhb |} t).
Proof.
  unfold letter_re. fold hexpart.
  pose proof (exact_alt _ _ t _ _ (exact_chr up t)
    (exact_alt _ _ t _ _ (exact_chr lo t)
      (exact_alt _ _ t _ _
        (exact_cat (Chr 92) hexpart t (single_len 92 t)
           (fun n => map (Nat.add (zeros_n 4 (skipn n t))) (hm_len (skipn (zeros_n 4 (skipn n t)) (skipn n t))))
           (exact_chr 92 t) (fun n _ => exact_hexpart (skipn n t)))
        (exact_alt _ _ t _ _
           (exact_cat (Chr 92) (Chr up) t (single_len 92 t) (fun n => single_len up (skipn n t))
              (exact_chr 92 t) (fun n _ => exact_chr up (skipn n t)))
           (exact_cat (Chr 92) (Chr lo) t (single_len 92 t) (fun n => single_len lo (skipn n t))
              (exact_chr 92 t) (fun n _ => exact_chr lo (skipn n t))))))) as H.
  eapply exact_ext; [|apply H]. clear H.
  unfold lspell, bs_hex_len, bs_lit_len, single_len. cbn [l_up l_lo l_hhb].
  destruct t as [|x r]; [reflexivity|].
  destruct (N.eqb_spec x 92) as [->|Hx].
  - cbn [flat_map skipn app map andb]. rewrite !app_nil_r.
    f_equal. f_equal. f_equal.
    + (* hex part *)
      unfold hm_len, hh_len. destruct (skipn (zeros_n 4 r) r) as [|a [|b r2]]; try reflexivity.
      destruct (hhb a b); [|reflexivity]. cbn [flat_map skipn app]. rewrite app_nil_r, !map_map.
      apply map_ext. intros n. lia.
    + destruct r as [|y r2]; [reflexivity|]. f_equal; destruct (N.eqb y up), (N.eqb y lo); reflexivity.
  - cbn [flat_map app andb]. destruct r; cbn [app]; rewrite ?app_nil_r; reflexivity.
Qed.
End OneLetter.
End Letter.

(* ------------------------------------------------------------------ the three macros of the URI / UNICODE-RANGE keywords *)
Lemma hh_len_ext f g t : (forall a b, f a b = g a b) -> hh_len f t = hh_len g t.
Proof. intros H. destruct t as [|a [|b r]]; simpl; auto. now rewrite H. Qed.

Lemma U_exact {R} t : Exact (R:=R) U_re t (lspell LU t).
Proof.
  apply (letter_exact 85 117 (hh_re 53 55 (Chr 53)) (l_hhb LU)); try discriminate; [|reflexivity].
  intros t'. apply (exact_hh 53 55 (Chr 53) (fun x => N.eqb x 53)); [discriminate|reflexivity].
Qed.
Lemma R_exact {R} t : Exact (R:=R) R_re t (lspell LR t).
Proof.
  apply (letter_exact 82 114 (hh_re 53 55 (Chr 50)) (l_hhb LR)); try discriminate; [|reflexivity].
  intros t'. apply (exact_hh 53 55 (Chr 50) (fun x => N.eqb x 50)); [discriminate|reflexivity].
Qed.
Lemma L_exact {R} t : Exact (R:=R) L_re t (lspell LL t).
Proof.
  apply (letter_exact 76 108 (hh_re 52 54 (Cls false cC_rs)) (l_hhb LL)); try discriminate; [|reflexivity].
  intros t'. eapply exact_ext; [|apply (exact_hh 52 54 (Cls false cC_rs) (fun x => xorb false (in_ranges x cC_rs)));
                                  [discriminate|reflexivity]].
  apply hh_len_ext. intros a b. cbn [l_hhb LL]. now rewrite xorb_false_l.
Qed.

Lemma shapes_uri : re_URI = Cat U_re (Cat R_re (Cat L_re uri_rest)) /\ re_UNICODE_RANGE = Cat U_re ur_rest.
Proof. split; reflexivity. Qed.

(* letter_macro_spec: what rmatch (the first path) returns is the first listed spelling *)
Lemma exact_rmatch r t l p : Exact (R:=nat) r t l ->
  rmatch r p t = match l with n :: _ => Some (length t - length (skipn n t))%nat | [] => None end.
Proof. intros H. unfold rmatch. rewrite H. destruct l; reflexivity. Qed.

Lemma term_lens_le r n : In n (term_lens r) -> (n <= length r)%nat.
Proof.
  unfold term_lens. destruct r as [|c r]; [intros [<-|[]]; simpl; lia|].
  destruct (N.eqb c 13 && match r with d :: _ => N.eqb d 10 | [] => false end) eqn:E.
  - destruct r as [|d r2]; [rewrite andb_false_r in E; discriminate|].
    intros [<-|[<-|[<-|[]]]]; simpl; lia.
  - destruct (in_ranges c mterm_rs); [intros [<-|[<-|[]]]|intros [<-|[]]]; simpl; lia.
Qed.

Lemma zeros_n_le k t : (zeros_n k t <= length t)%nat.
Proof.
  revert t. induction k as [|k IH]; intros [|x t]; simpl; try lia.
  destruct (N.eqb x 48); [pose proof (IH t); simpl; lia|lia].
Qed.

Lemma lspell_le lt t n : In n (lspell lt t) -> (n <= length t)%nat.
Proof.
  unfold lspell, single_len, bs_lit_len, bs_hex_len. intros H.
  destruct t as [|x r]; [simpl in H; tauto|].
  repeat (apply in_app_or in H as [H|H]).
  - destruct (N.eqb x (l_up lt)); [destruct H as [<-|[]]; simpl; lia|destruct H].
  - destruct (N.eqb x (l_lo lt)); [destruct H as [<-|[]]; simpl; lia|destruct H].
  - destruct (N.eqb x 92); [|destruct H]. pose proof (zeros_n_le 4 r) as Hz.
    destruct (skipn (zeros_n 4 r) r) as [|a [|b r2]] eqn:Es; try destruct H.
    destruct (l_hhb lt a b); [|destruct H]. apply in_map_iff in H as (j & <- & Hj).
    apply term_lens_le in Hj. assert (L : length (skipn (zeros_n 4 r) r) = (2 + length r2)%nat) by now rewrite Es.
    rewrite skipn_length in L. cbn [length]. lia.
  - destruct r as [|y r2]; [destruct H|]. destruct (N.eqb x 92 && N.eqb y (l_up lt)); [destruct H as [<-|[]]; simpl; lia|destruct H].
  - destruct r as [|y r2]; [destruct H|]. destruct (N.eqb x 92 && N.eqb y (l_lo lt)); [destruct H as [<-|[]]; simpl; lia|destruct H].
Qed.

Theorem letter_macro_spec_lemma : forall p t n,
  (rmatch U_re p t = Some n <-> hd_error (lspell LU t) = Some n) /\
  (rmatch R_re p t = Some n <-> hd_error (lspell LR t) = Some n) /\
  (rmatch L_re p t = Some n <-> hd_error (lspell LL t) = Some n).
Proof.
  intros p t n.
  assert (G : forall r lt, Exact (R:=nat) r t (lspell lt t) -> (rmatch r p t = Some n <-> hd_error (lspell lt t) = Some n)).
  { intros r lt H. rewrite (exact_rmatch _ _ _ p H). destruct (lspell lt t) as [|j l] eqn:E; [simpl; split; discriminate|].
    assert (Hj : (j <= length t)%nat) by (apply (lspell_le lt); rewrite E; now left).
    rewrite skipn_length. simpl. replace (length t - (length t - j))%nat with j by lia. reflexivity. }
  repeat split; apply G; [apply U_exact|apply U_exact|apply R_exact|apply R_exact|apply L_exact|apply L_exact].
Qed.

(* ------------------------------------------------------------------ from Exact to Fails / First *)
Lemma fails_cat_exact a b t la : Exact (R:=nat) a t la ->
  (forall n, In n la -> Fails (R:=nat) (m b) (skipn n t)) -> Fails (R:=nat) (m (Cat a b)) t.
Proof.
  intros Ha Hb p k. cbn [m]. rewrite Ha. clear Ha. induction la as [|n la IH]; [reflexivity|]. cbn [tryl].
  rewrite (Hb n) by now left. apply IH. intros j Hj. apply Hb. now right.
Qed.

Lemma first_exact a e rest l : Exact (R:=nat) a (e ++ rest) (length e :: l) -> First (R:=nat) (m a) e rest.
Proof.
  intros Ha p k v Hk. rewrite Ha. cbn [tryl]. now rewrite firstn_app_exact, skipn_app_exact, Hk.
Qed.

Lemma existsb_false {A} (f : A -> bool) l : existsb f l = false -> forall x, In x l -> f x = false.
Proof.
  induction l as [|y l IH]; intros H x Hx; [destruct Hx|]. simpl in H. apply orb_false_iff in H as [H1 H2].
  destruct Hx as [<-|Hx]; auto.
Qed.

Lemma url_open_fails t : url_open t = false -> Fails (R:=nat) (m uri_re) t.
Proof.
  intros H. unfold uri_re, url_open in *.
  apply (fails_cat_exact _ _ _ _ (U_exact t)). intros n1 H1. apply (existsb_false _ _ H) in H1.
  apply (fails_cat_exact _ _ _ _ (R_exact _)). intros n2 H2. apply (existsb_false _ _ H1) in H2.
  apply (fails_cat_exact _ _ _ _ (L_exact _)). intros n3 H3. apply (existsb_false _ _ H2) in H3.
  unfold uri_rest. apply fails_cat_chr_head. destruct (skipn n3 _) as [|c r]; [reflexivity|]. simpl. now rewrite H3.
Qed.

Lemma ur_open_fails t : ur_open t = false -> Fails (R:=nat) (m urange_re) t.
Proof.
  intros H. unfold urange_re, ur_open in *.
  apply (fails_cat_exact _ _ _ _ (U_exact t)). intros n1 H1. apply (existsb_false _ _ H) in H1.
  unfold ur_rest. apply fails_cat_chr_head. destruct (skipn n1 t) as [|c r]; [reflexivity|]. simpl. now rewrite H1.
Qed.

(* ------------------------------------------------------------------ the macros on canonical elements *)
Record good (lt : letter) : Prop := {
  g_ul : l_up lt <> l_lo lt;
  g_u92 : l_up lt <> 92%N;  g_l92 : l_lo lt <> 92%N;
  g_uhex : is_hex (l_up lt) = false;  g_lhex : is_hex (l_lo lt) = false;
  g_uws : is_ws (l_up lt) = false;  g_lws : is_ws (l_lo lt) = false;
  g_unm : nm_cont (l_up lt) = true;  g_lnm : nm_cont (l_lo lt) = true;
  g_hh : forall a b, l_hhb lt a b = true -> is_hex a = true /\ is_hex b = true /\ a <> 48%N
}.

Lemma good_LU : good LU.
Proof.
  constructor; try discriminate; try reflexivity. intros a b. cbn [l_hhb LU].
  unfold is_hex, hex_rs. cbn [in_ranges]. rewrite andb_true_iff, orb_true_iff, !N.eqb_eq.
  intros [[-> | ->] ->]; repeat split; discriminate || reflexivity.
Qed.
Lemma good_LR : good LR.
Proof.
  constructor; try discriminate; try reflexivity. intros a b. cbn [l_hhb LR].
  unfold is_hex, hex_rs. cbn [in_ranges]. rewrite andb_true_iff, orb_true_iff, !N.eqb_eq.
  intros [[-> | ->] ->]; repeat split; discriminate || reflexivity.
Qed.
Lemma good_LL : good LL.
Proof.
  constructor; try discriminate; try reflexivity. intros a b. cbn [l_hhb LL].
  unfold is_hex, hex_rs, cC_rs. cbn [in_ranges]. rewrite andb_true_iff, orb_true_iff, !N.eqb_eq.
  intros [[-> | ->] Hb]; (split; [reflexivity|split; [|discriminate]]); revert Hb; ranges.
Qed.

(* a text that begins with a character no spelling begins with *)
Lemma lspell_nil lt c t : N.eqb c (l_up lt) = false -> N.eqb c (l_lo lt) = false -> N.eqb c 92 = false ->
  lspell lt (c :: t) = [].
Proof.
  intros H1 H2 H3. unfold lspell, single_len, bs_hex_len, bs_lit_len. rewrite H1, H2, H3.
  destruct t; reflexivity.
Qed.
Lemma lspell_empty lt : lspell lt [] = [].
Proof. reflexivity. Qed.

Lemma mterm_is_ws c : in_ranges c mterm_rs = is_ws c.
Proof. unfold is_ws, ws_rs, mterm_rs. cbn [in_ranges]. ranges. Qed.

(* "dead": starts with a white-space character or a hex digit - no letter spelling, no '(' and no '+' there *)
Definition dead (t : str) : Prop := exists c r, t = c :: r /\ (is_ws c = true \/ is_hex c = true).

Lemma dead_lspell lt t : good lt -> dead t -> lspell lt t = [].
Proof.
  intros G (c & r & -> & Hc). apply lspell_nil.
  - apply N.eqb_neq. intros ->. destruct Hc as [Hc|Hc]; [rewrite (g_uws _ G) in Hc|rewrite (g_uhex _ G) in Hc]; discriminate.
  - apply N.eqb_neq. intros ->. destruct Hc as [Hc|Hc]; [rewrite (g_lws _ G) in Hc|rewrite (g_lhex _ G) in Hc]; discriminate.
  - apply N.eqb_neq. intros ->. destruct Hc as [Hc|Hc]; vm_compute in Hc; discriminate.
Qed.

Lemma dead_head t c : dead t -> is_ws c = false -> is_hex c = false ->
  match t with x :: _ => N.eqb x c | [] => false end = false.
Proof.
  intros (x & r & -> & Hx) H1 H2. apply N.eqb_neq. intros ->. destruct Hx; congruence.
Qed.

Definition bs_core (hhb : N -> N -> bool) (k : nat) (T : str) : option (nat * str) :=
  match skipn (zeros_n k T) T with
  | a :: b :: r2 => if hhb a b then Some (zeros_n k T, r2) else None
  | _ => None
  end.

Lemma hex_not_48_zero c : is_hex c = false -> N.eqb c 48 = false.
Proof. unfold is_hex, hex_rs. cbn [in_ranges]. ranges. Qed.

(* the hex part of a macro on a run of hex digits ds (an escape's digits) followed by `tail`:
   the two significant digits lie inside ds *)
Lemma core_run lt : good lt -> forall ds k tail z r2, forallb is_hex ds = true ->
  (hd_not is_hex tail = true \/ (k + 2 <= length ds)%nat) ->
  bs_core (l_hhb lt) k (ds ++ tail) = Some (z, r2) ->
  (z + 2 <= length ds)%nat /\ z = zeros_n k ds /\ r2 = skipn (z + 2) ds ++ tail /\
  exists a b, skipn z ds = a :: b :: skipn (z + 2) ds /\ l_hhb lt a b = true.
Proof.
  intros G. induction ds as [|d ds IH]; intros k tail z r2 Hds Hstop Hc.
  - exfalso. destruct Hstop as [Hs|Hs]; [|simpl in Hs; lia]. unfold bs_core in Hc. cbn [app] in Hc.
    destruct tail as [|c r]; [destruct k; discriminate|]. simpl in Hs. apply negb_true_iff in Hs.
    assert (Z : zeros_n k (c :: r) = O).
    { destruct k; [reflexivity|]. simpl. now rewrite (hex_not_48_zero _ Hs). }
    rewrite Z in Hc. cbn [skipn] in Hc. destruct r as [|b r]; [discriminate|].
    destruct (l_hhb lt c b) eqn:E; [|discriminate]. apply (g_hh _ G) in E. destruct E as [E _]. congruence.
  - simpl in Hds. apply andb_true_iff in Hds as [Hd Hds].
    destruct k as [|k].
    + (* no zero may be skipped any more *)
      unfold bs_core in Hc. cbn [zeros_n skipn app] in Hc.
      destruct ds as [|b ds].
      * exfalso. cbn [app] in Hc. destruct tail as [|b r]; [discriminate|].
        destruct (l_hhb lt d b) eqn:E; [|discriminate]. apply (g_hh _ G) in E. destruct E as (_ & E & _).
        destruct Hstop as [Hs|Hs]; [simpl in Hs; rewrite E in Hs; discriminate|simpl in Hs; lia].
      * cbn [app] in Hc. destruct (l_hhb lt d b) eqn:E; [|discriminate]. inversion Hc; subst z r2.
        repeat split; [simpl; lia|]. exists d, b. auto.
    + destruct (N.eqb_spec d 48) as [->|Hd48].
      * (* a zero is skipped *)
        assert (Hc' : bs_core (l_hhb lt) k (ds ++ tail) = match z with S z' => Some (z', r2) | O => None end).
        { unfold bs_core in *. cbn [app zeros_n] in Hc. rewrite N.eqb_refl in Hc. cbn [skipn] in Hc.
          destruct (skipn (zeros_n k (ds ++ tail)) (ds ++ tail)) as [|a [|b r]]; try discriminate.
          destruct (l_hhb lt a b); [|discriminate]. inversion Hc; subst. reflexivity. }
        destruct z as [|z']; [unfold bs_core in Hc; cbn [app zeros_n] in Hc; rewrite N.eqb_refl in Hc;
                              cbn [skipn] in Hc;
                              destruct (skipn (zeros_n k (ds ++ tail)) (ds ++ tail)) as [|a [|b r]]; try discriminate;
                              destruct (l_hhb lt a b); discriminate|].
        apply IH in Hc' as (L & Ez & Er & a & b & Es & Eh); [|assumption|destruct Hstop; [now left|right; simpl in *; lia]].
        repeat split.
        -- simpl. lia.
        -- cbn [zeros_n]. rewrite N.eqb_refl. now f_equal.
        -- exact Er.
        -- exists a, b. auto.
      * (* d is the first significant digit *)
        apply N.eqb_neq in Hd48. unfold bs_core in Hc. cbn [zeros_n app] in Hc. rewrite Hd48 in Hc. cbn [skipn] in Hc.
        destruct ds as [|b ds].
        -- exfalso. cbn [app] in Hc. destruct tail as [|b r]; [discriminate|].
           destruct (l_hhb lt d b) eqn:E; [|discriminate]. apply (g_hh _ G) in E. destruct E as (_ & E & _).
           destruct Hstop as [Hs|Hs]; [simpl in Hs; rewrite E in Hs; discriminate|simpl in Hs; lia].
        -- cbn [app] in Hc. destruct (l_hhb lt d b) eqn:E; [|discriminate]. inversion Hc; subst z r2.
           repeat split; [simpl; lia|cbn [zeros_n]; now rewrite Hd48|]. exists d, b. auto.
Qed.

(* ---- terminators ---- *)
Lemma term_lens_hex h r : is_hex h = true -> term_lens (h :: r) = [0%nat].
Proof.
  intros H. unfold term_lens. assert (E13 : N.eqb h 13 = false).
  { unfold is_hex, hex_rs in H. cbn [in_ranges] in H. revert H. ranges. }
  rewrite E13. cbn [andb]. rewrite mterm_is_ws.
  assert (Ew : is_ws h = false).
  { unfold is_hex, hex_rs, is_ws, ws_rs in *. cbn [in_ranges] in *. revert H. ranges. }
  now rewrite Ew.
Qed.

Lemma term_lens_nows t : hd_not is_ws t = true -> term_lens t = [0%nat].
Proof.
  destruct t as [|c r]; [reflexivity|]. cbn [hd_not]. intros H. apply negb_true_iff in H.
  assert (E13 : N.eqb c 13 = false).
  { unfold is_ws, ws_rs in H. cbn [in_ranges] in H. revert H. ranges. }
  unfold term_lens. rewrite mterm_is_ws, H, E13. reflexivity.
Qed.

Definition term_canon_ok (tm nxt : str) : bool :=
  match tm with [] => hd_not is_ws nxt | [13%N] => hd_not (is_c 10) nxt | _ => true end.

Lemma dead_ws c r : is_ws c = true -> dead (c :: r).
Proof. intros H. exists c, r. auto. Qed.

Lemma term_canon tm nxt : mem_str tm terms = true -> term_canon_ok tm nxt = true ->
  exists l, term_lens (tm ++ nxt) = length tm :: l /\ forall j, In j l -> dead (skipn j (tm ++ nxt)).
Proof.
  intros Ht Hc. apply in_terms in Ht. destruct Ht as [->|[->|[->|[->|[->|[->| ->]]]]]].
  - exists []. cbn [app length]. split; [now apply term_lens_nows|intros j []].
  - exists [0%nat]. split; [reflexivity|]. intros j [<-|[]]. now apply dead_ws.
  - exists [0%nat]. split; [reflexivity|]. intros j [<-|[]]. now apply dead_ws.
  - exists [0%nat]. split; [reflexivity|]. intros j [<-|[]]. now apply dead_ws.
  - exists [0%nat]. split; [reflexivity|]. intros j [<-|[]]. now apply dead_ws.
  - exists [0%nat]. split.
    + cbn [app length term_lens]. cbn [term_canon_ok] in Hc. destruct nxt as [|d r]; [reflexivity|].
      simpl in Hc. unfold is_c in Hc. apply negb_true_iff in Hc. now rewrite Hc.
    + intros j [<-|[]]. now apply dead_ws.
  - exists [1%nat; 0%nat]. split; [reflexivity|]. intros j [<-|[<-|[]]]; now apply dead_ws.
Qed.

(* ---- one canonical element under a letter macro ---- *)
Definition wfe (e : el) (nxt : str) : bool := wf_el (fun c => negb (N.eqb c 92)) false e nxt.

Lemma zeros_n_app k ds tail : skipn (zeros_n k ds) ds <> [] -> zeros_n k (ds ++ tail) = zeros_n k ds.
Proof.
  revert ds. induction k as [|k IH]; intros ds H; [reflexivity|].
  destruct ds as [|d ds]; [simpl in H; congruence|]. cbn [zeros_n app] in *.
  destruct (N.eqb d 48); [|reflexivity]. f_equal. apply IH. exact H.
Qed.

Lemma hex_stop ds tm nxt : wfe (H ds tm) nxt = true ->
  forallb is_hex ds = true /\ mem_str tm terms = true /\ term_canon_ok tm nxt = true /\
  (hd_not is_hex (tm ++ nxt) = true \/ (4 + 2 <= length ds)%nat) /\ (1 <= length ds <= 6)%nat.
Proof.
  unfold wfe. cbn [wf_el]. rewrite !andb_true_iff. intros [[[[H1 H6] Hh] Ht] Hn].
  apply Nat.leb_le in H1, H6. repeat split; auto; try lia.
  - unfold term_canon_ok. destruct tm as [|t0 [|t1 t2]]; auto. apply andb_true_iff in Hn. tauto.
  - destruct tm as [|t0 t1].
    + apply andb_true_iff in Hn as [_ Hn]. apply orb_true_iff in Hn as [Hn|Hn].
      * right. apply Nat.eqb_eq in Hn. lia.
      * now left.
    + left. apply term_not_hex; [assumption|discriminate].
Qed.

Lemma bs_hex_core hhb T : bs_hex_len hhb (92%N :: T) =
  match bs_core hhb 4 T with Some (z, r2) => map (fun n => (1 + (z + (2 + n)))%nat) (term_lens r2) | None => [] end.
Proof.
  unfold bs_hex_len, bs_core. rewrite N.eqb_refl.
  destruct (skipn (zeros_n 4 T) T) as [|a [|b r2]]; try reflexivity. now destruct (hhb a b).
Qed.

Lemma lspell_hex lt ds T : good lt -> (exists d r, ds = d :: r /\ is_hex d = true) ->
  lspell lt (92%N :: ds ++ T) = bs_hex_len (l_hhb lt) (92%N :: ds ++ T).
Proof.
  intros G (d & r & -> & Hd). unfold lspell, single_len, bs_lit_len. cbn [app].
  assert (E1 : N.eqb 92 (l_up lt) = false) by (apply N.eqb_neq; intros E; apply (g_u92 _ G); now rewrite E).
  assert (E2 : N.eqb 92 (l_lo lt) = false) by (apply N.eqb_neq; intros E; apply (g_l92 _ G); now rewrite E).
  assert (E3 : N.eqb d (l_up lt) = false) by (apply N.eqb_neq; intros ->; rewrite (g_uhex _ G) in Hd; discriminate).
  assert (E4 : N.eqb d (l_lo lt) = false) by (apply N.eqb_neq; intros ->; rewrite (g_lhex _ G) in Hd; discriminate).
  rewrite E1, E2, E3, E4, andb_false_r. cbn [app]. now rewrite !app_nil_r.
Qed.

Lemma skipn_text_hex {A} (x : A) ds tail z j : (z + 2 <= length ds)%nat ->
  skipn (1 + (z + (2 + j))) (x :: ds ++ tail) = skipn j (skipn (z + 2) ds ++ tail).
Proof.
  intros L. change (1 + (z + (2 + j)))%nat with (S (z + (2 + j))). cbn [skipn].
  replace (z + (2 + j))%nat with ((z + 2) + j)%nat by lia.
  rewrite skipn_plus, skipn_app_le by exact L. reflexivity.
Qed.

Theorem lspell_el lt e nxt : good lt -> wfe e nxt = true -> forall n, In n (lspell lt (render_el e ++ nxt)) ->
  (n = length (render_el e) /\ spells lt e = true) \/ dead (skipn n (render_el e ++ nxt)).
Proof.
  intros G W n Hn. destruct e as [c|ds tm|c|nl].
  - (* plain *)
    unfold wfe in W. cbn [wf_el] in W. apply negb_true_iff in W. cbn [render_el app] in *.
    unfold lspell, single_len, bs_hex_len, bs_lit_len in Hn. rewrite W in Hn. cbn [andb] in Hn.
    assert (Hn' : In n ((if N.eqb c (l_up lt) then [1%nat] else []) ++ (if N.eqb c (l_lo lt) then [1%nat] else []))).
    { destruct nxt; rewrite ?app_nil_r in Hn; exact Hn. }
    left. cbn [spells length]. apply in_app_or in Hn' as [H|H].
    + destruct (N.eqb c (l_up lt)); [|destruct H]. destruct H as [<-|[]]. auto.
    + destruct (N.eqb c (l_lo lt)); [|destruct H]. destruct H as [<-|[]]. rewrite orb_true_r. auto.
  - (* hex escape *)
    destruct (hex_stop _ _ _ W) as (Hds & Htm & Hcan & Hstop & Hlen).
    cbn [render_el] in *. change ((92%N :: ds ++ tm) ++ nxt) with (92%N :: (ds ++ tm) ++ nxt) in *.
    rewrite <- app_assoc in *.
    rewrite lspell_hex in Hn; [|assumption|].
    2:{ destruct ds as [|d r]; [simpl in Hlen; lia|]. simpl in Hds. apply andb_true_iff in Hds as [Hd _]. eauto. }
    rewrite bs_hex_core in Hn. destruct (bs_core (l_hhb lt) 4 (ds ++ tm ++ nxt)) as [[z r2]|] eqn:Ec; [|destruct Hn].
    apply (core_run lt G) in Ec as (L & Ez & Er & a & b & Es & Eh); [|assumption|assumption].
    apply in_map_iff in Hn as (j & <- & Hj).
    rewrite (skipn_text_hex 92%N ds (tm ++ nxt) z j L).
    destruct (skipn (z + 2) ds) as [|h rr] eqn:Esk.
    + (* the two digits end the escape *)
      cbn [app] in *. subst r2.
      assert (Ld : length ds = (z + 2)%nat).
      { assert (length (skipn (z + 2) ds) = O) by now rewrite Esk. rewrite skipn_length in H. lia. }
      destruct (term_canon tm nxt Htm Hcan) as (l & El & Hl). rewrite El in Hj. destruct Hj as [<-|Hj].
      * left. split; [cbn [length]; rewrite app_length; lia|]. cbn [spells]. rewrite <- Ez, Es. exact Eh.
      * right. now apply Hl.
    + (* further digits follow *)
      right. subst r2. cbn [app] in Hj.
      assert (Hh : is_hex h = true).
      { assert (In h ds). { apply (In_skipn (z + 2)). rewrite Esk. now left. } now apply (forallb_In is_hex ds). }
      rewrite (term_lens_hex _ _ Hh) in Hj. destruct Hj as [<-|[]]. cbn [skipn app]. exists h, (rr ++ tm ++ nxt). auto.
  - (* literal escape *)
    unfold wfe in W. cbn [wf_el] in W. apply andb_true_iff in W as [Hx Hh]. apply negb_true_iff in Hx, Hh.
    cbn [render_el app] in *. left.
    assert (E1 : N.eqb 92 (l_up lt) = false) by (apply N.eqb_neq; intros E; apply (g_u92 _ G); now rewrite E).
    assert (E2 : N.eqb 92 (l_lo lt) = false) by (apply N.eqb_neq; intros E; apply (g_l92 _ G); now rewrite E).
    unfold lspell, single_len, bs_hex_len, bs_lit_len in Hn. rewrite E1, E2, N.eqb_refl in Hn. cbn [app andb] in Hn.
    assert (Z : zeros_n 4 (c :: nxt) = O) by (cbn [zeros_n]; now rewrite (hex_not_48_zero _ Hh)).
    rewrite Z in Hn. cbn [skipn] in Hn.
    assert (Hn' : In n ((if N.eqb c (l_up lt) then [2%nat] else []) ++ (if N.eqb c (l_lo lt) then [2%nat] else []))).
    { destruct nxt as [|b r]; [exact Hn|]. destruct (l_hhb lt c b) eqn:E; [|exact Hn].
      apply (g_hh _ G) in E. destruct E as [E _]. congruence. }
    cbn [spells length]. apply in_app_or in Hn' as [H|H].
    + destruct (N.eqb c (l_up lt)); [|destruct H]. destruct H as [<-|[]]. auto.
    + destruct (N.eqb c (l_lo lt)); [|destruct H]. destruct H as [<-|[]]. rewrite orb_true_r. auto.
  - unfold wfe in W. cbn [wf_el] in W. discriminate.
Qed.

(* a canonical element that spells the letter is offered first, with its full length *)
Theorem lspell_head lt e nxt : good lt -> wfe e nxt = true -> spells lt e = true ->
  exists l, lspell lt (render_el e ++ nxt) = length (render_el e) :: l.
Proof.
  intros G W S. destruct e as [c|ds tm|c|nl].
  - unfold wfe in W. cbn [wf_el] in W. apply negb_true_iff in W. cbn [render_el app spells length] in *.
    unfold lspell, single_len, bs_hex_len, bs_lit_len. rewrite W. cbn [andb].
    destruct (N.eqb_spec c (l_up lt)) as [Eu|Eu].
    + eexists. reflexivity.
    + simpl in S. destruct (N.eqb c (l_lo lt)); [|discriminate]. eexists. reflexivity.
  - destruct (hex_stop _ _ _ W) as (Hds & Htm & Hcan & Hstop & Hlen).
    cbn [render_el spells] in *. change ((92%N :: ds ++ tm) ++ nxt) with (92%N :: (ds ++ tm) ++ nxt).
    rewrite <- app_assoc.
    rewrite lspell_hex; [|assumption|].
    2:{ destruct ds as [|d r]; [simpl in Hlen; lia|]. simpl in Hds. apply andb_true_iff in Hds as [Hd _]. eauto. }
    destruct (skipn (zeros_n 4 ds) ds) as [|a [|b [|? ?]]] eqn:Es; try discriminate.
    assert (Z : zeros_n 4 (ds ++ tm ++ nxt) = zeros_n 4 ds) by (apply zeros_n_app; rewrite Es; discriminate).
    unfold bs_hex_len. rewrite N.eqb_refl, Z.
    assert (Lz : (zeros_n 4 ds <= length ds)%nat) by apply zeros_n_le.
    rewrite skipn_app_le by exact Lz. rewrite Es. cbn [app]. rewrite S.
    destruct (term_canon tm nxt Htm Hcan) as (l & El & _). rewrite El. cbn [map].
    eexists. f_equal. cbn [length]. rewrite app_length.
    assert (length (skipn (zeros_n 4 ds) ds) = 2%nat) by now rewrite Es. rewrite skipn_length in H. lia.
  - unfold wfe in W. cbn [wf_el] in W. apply andb_true_iff in W as [Hx Hh]. apply negb_true_iff in Hx, Hh.
    cbn [render_el app spells length] in *.
    assert (E1 : N.eqb 92 (l_up lt) = false) by (apply N.eqb_neq; intros E; apply (g_u92 _ G); now rewrite E).
    assert (E2 : N.eqb 92 (l_lo lt) = false) by (apply N.eqb_neq; intros E; apply (g_l92 _ G); now rewrite E).
    unfold lspell, single_len, bs_hex_len, bs_lit_len. rewrite E1, E2, N.eqb_refl. cbn [app andb].
    assert (Z : zeros_n 4 (c :: nxt) = O) by (cbn [zeros_n]; now rewrite (hex_not_48_zero _ Hh)).
    rewrite Z. cbn [skipn].
    assert (Hhex : match nxt with b :: _ => l_hhb lt c b | [] => false end = false).
    { destruct nxt as [|b r]; [reflexivity|]. destruct (l_hhb lt c b) eqn:E; [|reflexivity].
      apply (g_hh _ G) in E. destruct E as [E _]. congruence. }
    destruct (N.eqb_spec c (l_up lt)) as [Eu|Eu].
    + destruct nxt as [|b r]; [eexists; reflexivity|]. rewrite Hhex. eexists. reflexivity.
    + simpl in S. destruct (N.eqb c (l_lo lt)); [|discriminate].
      destruct nxt as [|b r]; [eexists; reflexivity|]. rewrite Hhex. eexists. reflexivity.
  - discriminate.
Qed.

Lemma first_letter r lt e nxt : good lt -> (forall t, Exact (R:=nat) r t (lspell lt t)) ->
  wfe e nxt = true -> spells lt e = true -> First (R:=nat) (m r) (render_el e) nxt.
Proof.
  intros G Hx W S. destruct (lspell_head lt e nxt G W S) as [l El].
  apply (first_exact _ _ _ l). rewrite <- El. apply Hx.
Qed.

(* ------------------------------------------------------------------ first character u, U or backslash *)
Definition u_names : list str := [s "URI"; s "UNICODE-RANGE"; s "IDENT"; s "FUNCTION"; s "CHAR"].
Lemma range_U : range_ok 85 (Some 85%N) u_names = true. Proof. vm_compute. reflexivity. Qed.
Lemma range_u : range_ok 117 (Some 117%N) u_names = true. Proof. vm_compute. reflexivity. Qed.
Lemma range_bs : range_ok 92 (Some 92%N) u_names = true. Proof. vm_compute. reflexivity. Qed.
Lemma sel_u : sel u_names = [(s "URI", re_URI); (s "UNICODE-RANGE", re_UNICODE_RANGE); (s "IDENT", re_IDENT);
                             (s "FUNCTION", re_FUNCTION); (s "CHAR", re_CHAR)].
Proof. vm_compute. reflexivity. Qed.

Lemma u_dispatch c t dc prev : c = 85%N \/ c = 117%N \/ c = 92%N ->
  try_prods productions dc false prev (c :: t) = try_prods (sel u_names) dc false prev (c :: t).
Proof.
  intros [-> | [-> | ->]];
    [apply (dispatch_range _ _ _ range_U)|apply (dispatch_range _ _ _ range_u)|apply (dispatch_range _ _ _ range_bs)];
    reflexivity.
Qed.

(* the first character of a spelling *)
Lemma spelled_head lt e : good lt -> spells lt e = true ->
  exists c r, render_el e = c :: r /\ (c = l_up lt \/ c = l_lo lt \/ c = 92%N).
Proof.
  intros G S. destruct e as [c|ds tm|c|nl]; cbn [render_el spells] in *; try discriminate.
  - apply orb_true_iff in S. rewrite !N.eqb_eq in S. exists c, []. split; [reflexivity|tauto].
  - exists 92%N, (ds ++ tm). auto.
  - exists 92%N, [c]. auto.
Qed.

Lemma spelled_wfe lt e nxt : good lt -> spells lt e = true -> wf_el (fun _ => true) false e nxt = true -> wfe e nxt = true.
Proof.
  intros G S W. destruct e as [c|ds tm|c|nl]; unfold wfe; cbn [wf_el spells] in *; auto.
  apply negb_true_iff. apply N.eqb_neq. apply orb_true_iff in S. rewrite !N.eqb_eq in S.
  destruct S as [-> | ->]; [apply (g_u92 _ G)|apply (g_l92 _ G)].
Qed.

(* ------------------------------------------------------------------ URI *)
Lemma fc_urlch c : fc urlch_re c = url_cont c.
Proof.
  unfold url_cont, url_plain, urlch_re, nonascii_re, escape_re. cbn [fc nullable].
  unfold url_rs. cbn [in_ranges]. ranges.
Qed.

Lemma urlch_stops rest : hd_not url_cont rest = true -> Fails (R:=nat) (m urlch_re) rest.
Proof.
  intros H. apply fc_head_fails; [reflexivity|]. destruct rest as [|c rest]; [reflexivity|].
  cbn [fc_head hd_not] in *. rewrite fc_urlch. now apply negb_true_iff in H.
Qed.

Lemma firstseq_urlchars els rest : wf_els url_plain false els rest = true ->
  FirstSeq (R:=nat) (m urlch_re) (map render_el els) rest.
Proof.
  induction els as [|e els IH]; cbn [wf_els map FirstSeq]; [trivial|].
  rewrite andb_true_iff. intros [He Hels]. repeat split.
  - apply render_el_nonempty.
  - apply (first_nm_el url_rs url_plain); [reflexivity|reflexivity|exact He].
  - now apply IH.
Qed.

Lemma ws_run_first xs rest : forallb is_ws xs = true -> hd_not is_ws rest = true ->
  First (R:=nat) (m ws_re) xs rest.
Proof.
  intros Hx Hr. unfold ws_re. apply (first_run _ (fun x => xorb false (in_ranges x ws_rs))); [reflexivity| |lia|].
  - rewrite <- Hx. apply forallb_ext'. intros x. apply xorb_false_l.
  - rewrite (head_not_xorb (fun x => in_ranges x ws_rs)). exact Hr.
Qed.

Lemma bare_head_not_quote els w2 rest : forallb is_ws w2 = true ->
  wf_els url_plain false els (w2 ++ 41%N :: rest) = true ->
  hd_not is_ws (render els ++ w2 ++ 41%N :: rest) = true ->
  fc_head (Alt (quoted_re 34) (quoted_re 39)) (render els ++ w2 ++ 41%N :: rest) = false.
Proof.
  intros H2 Hw Hws. unfold fc_head. destruct els as [|e els].
  - cbn [render map concat app] in *. destruct w2 as [|c r]; [reflexivity|]. exfalso.
    simpl in H2. apply andb_true_iff in H2 as [H2 _]. simpl in Hws. rewrite H2 in Hws. discriminate.
  - cbn [wf_els] in Hw. apply andb_true_iff in Hw as [He _]. unfold render. cbn [map concat].
    destruct e as [c|ds tm|c|nl]; cbn [render_el app wf_el] in *; try discriminate; try reflexivity.
    unfold url_plain, url_rs in He. cbn [in_ranges] in He. unfold quoted_re. cbn [fc nullable andb orb].
    apply orb_true_iff in He as [He|He].
    + destruct (N.eqb_spec c 34) as [->|_]; [discriminate He|]. destruct (N.eqb_spec c 39) as [->|_]; [discriminate He|reflexivity].
    + apply N.leb_le in He. destruct (N.eqb_spec c 34) as [->|_]; [lia|]. destruct (N.eqb_spec c 39) as [->|_]; [lia|reflexivity].
Qed.

Lemma first_uri_body w1 body w2 rest :
  forallb is_ws w1 = true -> forallb is_ws w2 = true ->
  match body with
  | UQuoted q els => (N.eqb q 34 || N.eqb q 39) && wf_els (str_plain q) true els (q :: w2 ++ 41%N :: rest)
  | UBare els => wf_els url_plain false els (w2 ++ 41%N :: rest) &&
                 hd_not is_ws (render els ++ w2 ++ 41%N :: rest) && hd_not url_cont (w2 ++ 41%N :: rest)
  end = true ->
  First (R:=nat) (m uri_rest) (40%N :: w1 ++ ubody_text body ++ w2 ++ [41%N]) rest.
Proof.
  intros H1 H2 Hb. unfold uri_rest.
  change (40%N :: w1 ++ ubody_text body ++ w2 ++ [41%N]) with ([40%N] ++ w1 ++ ubody_text body ++ w2 ++ [41%N]).
  apply first_cat; [now apply (first_single _ (fun x => N.eqb x 40))|].
  assert (Hw2 : First (R:=nat) (m (Cat ws_re (Chr 41))) (w2 ++ [41%N]) rest).
  { apply first_cat; [now apply ws_run_first|now apply (first_single _ (fun x => N.eqb x 41))]. }
  destruct body as [q els|els]; cbn [ubody_text].
  - apply andb_true_iff in Hb as [Hq Hw]. apply orb_true_iff in Hq. rewrite !N.eqb_eq in Hq.
    apply first_cat.
    { apply ws_run_first; [exact H1|]. rewrite <- !app_assoc. cbn [app hd_not]. destruct Hq as [-> | ->]; reflexivity. }
    apply first_cat; [|exact Hw2]. apply first_alt_l. destruct Hq as [-> | ->].
    + apply first_alt_l. unfold quoted_re. apply first_quoted; [auto|rewrite <- app_assoc; exact Hw].
    + apply first_alt_r; [simpl app; apply fc_fails; reflexivity|]. unfold quoted_re.
      apply first_quoted; [auto|rewrite <- app_assoc; exact Hw].
  - rewrite !andb_true_iff in Hb. destruct Hb as [[Hw Hws] Hu].
    apply first_cat.
    { apply ws_run_first; [exact H1|]. now rewrite <- !app_assoc. }
    apply first_cat; [|exact Hw2]. apply first_alt_r.
    + apply fc_head_fails; [reflexivity|]. rewrite <- !app_assoc. now apply bare_head_not_quote.
    + unfold render. apply first_rep.
      * apply firstseq_urlchars. now rewrite <- app_assoc.
      * lia.
      * exact I.
      * right. rewrite <- app_assoc. now apply urlch_stops.
Qed.

Theorem uri_lexeme eu er el_ w1 body w2 rest :
  ok_follow (LUri eu er el_ w1 body w2) rest = true -> wins (LUri eu er el_ w1 body w2) rest.
Proof.
  cbn [ok_follow]. rewrite !andb_true_iff. intros [[[[[[Su Sr] Sl] Wl] H1] H2] Hb] dc prev. cbn [text cls].
  set (tail := 40%N :: w1 ++ ubody_text body ++ w2 ++ [41%N]).
  cbn [wf_els] in Wl. rewrite !andb_true_iff in Wl. destruct Wl as (Wu & Wr & Wll & _).
  assert (Et : tail ++ rest = 40%N :: w1 ++ ubody_text body ++ w2 ++ 41%N :: rest).
  { unfold tail. cbn [app]. rewrite <- !app_assoc. reflexivity. }
  unfold render in Wu, Wr. cbn [map concat] in Wu, Wr. rewrite app_nil_r in Wu, Wr. rewrite <- ?app_assoc in Wu.
  assert (F : First (R:=nat) (m re_URI) (render [eu; er; el_] ++ tail) rest).
  { destruct shapes_uri as [-> _]. unfold render. cbn [map concat]. rewrite app_nil_r, <- !app_assoc.
    apply first_cat; [|apply first_cat; [|apply first_cat]].
    - apply (first_letter U_re LU); [apply good_LU|apply U_exact| |exact Su].
      apply (spelled_wfe LU); [apply good_LU|exact Su|]. rewrite <- !app_assoc, Et. exact Wu.
    - apply (first_letter R_re LR); [apply good_LR|apply R_exact| |exact Sr].
      apply (spelled_wfe LR); [apply good_LR|exact Sr|]. rewrite <- !app_assoc, Et. exact Wr.
    - apply (first_letter L_re LL); [apply good_LL|apply L_exact| |exact Sl].
      apply (spelled_wfe LL); [apply good_LL|exact Sl|]. rewrite Et. exact Wll.
    - now apply first_uri_body. }
  destruct (spelled_head LU eu good_LU Su) as (c & r & Ec & Hc).
  assert (Etext : (render [eu; er; el_] ++ tail) ++ rest = c :: (r ++ render [er; el_] ++ tail) ++ rest).
  { unfold render. cbn [map concat]. rewrite Ec. rewrite <- !app_assoc. reflexivity. }
  rewrite Etext, u_dispatch by exact Hc. rewrite sel_u, <- Etext.
  apply hit_first; [exact F|reflexivity].
Qed.

(* ------------------------------------------------------------------ UNICODE-RANGE *)
Lemma existsb_all_false {A} (f : A -> bool) l : (forall x, In x l -> f x = false) -> existsb f l = false.
Proof.
  induction l as [|y l IH]; intros H; [reflexivity|]. simpl. rewrite (H y) by now left. apply IH.
  intros x Hx. apply H. now right.
Qed.

Lemma skipn_el_exact e nxt : skipn (length (render_el e)) (render_el e ++ nxt) = nxt.
Proof. apply skipn_app_exact. Qed.

(* after a u-spelling followed by something that no r-spelling begins with, the URI keyword cannot be read *)
Lemma url_open_after_u e nxt : wfe e nxt = true -> lspell LR nxt = [] -> url_open (render_el e ++ nxt) = false.
Proof.
  intros W Hr. unfold url_open. apply existsb_all_false. intros n1 H1.
  destruct (lspell_el LU e nxt good_LU W n1 H1) as [[-> _]|D].
  - rewrite skipn_el_exact, Hr. reflexivity.
  - rewrite (dead_lspell LR _ good_LR D). reflexivity.
Qed.

Lemma first_hexq_run a nxt : Nat.leb 1 (length a) = true -> Nat.leb (length a) 6 = true -> forallb is_hexq a = true ->
  (Nat.eqb (length a) 6 = true \/ hd_not is_hexq nxt = true) ->
  First (R:=nat) (m (Rep (Cls false hexq_rs) 1 (Some 6%nat))) a nxt.
Proof.
  intros H1 H6 Hh Hstop. rewrite <- (concat_singletons a). apply first_rep.
  - apply (firstseq_run _ (fun x => xorb false (in_ranges x hexq_rs))); [reflexivity|].
    rewrite <- Hh. apply forallb_ext'. intros x. apply xorb_false_l.
  - rewrite map_length. now apply Nat.leb_le.
  - simpl. rewrite map_length. now apply Nat.leb_le.
  - rewrite map_length. destruct Hstop as [E|Hn].
    + left. apply Nat.eqb_eq in E. now rewrite E.
    + right. apply (fails_head _ (fun x => xorb false (in_ranges x hexq_rs))); [reflexivity|].
      rewrite (head_not_xorb (fun x => in_ranges x hexq_rs)). exact Hn.
Qed.

Definition ur_group : re := Cat (Chr 45) (Rep (Cls false hex_rs) 1 (Some 6%nat)).

Theorem urange_lexeme eu a b rest : ok_follow (LUrange eu a b) rest = true -> wins (LUrange eu a b) rest.
Proof.
  cbn [ok_follow]. rewrite !andb_true_iff. intros [[[[[Su Wu] A1] A6] Ah] Hb] dc prev. cbn [text cls].
  pose proof (spelled_wfe LU eu (43%N :: a) good_LU Su Wu) as We.
  set (btxt := match b with Some bs => 45%N :: bs | None => [] end).
  (* the wf of the u-spelling only looks at the next character *)
  assert (We' : wfe eu ((43%N :: a ++ btxt) ++ rest) = true).
  { destruct eu as [c|ds tm|c|nl]; unfold wfe in *; cbn [wf_el] in *; auto. }
  destruct (spelled_head LU eu good_LU Su) as (c & r & Ec & Hc).
  assert (Etext : (render_el eu ++ 43%N :: a ++ btxt) ++ rest = c :: r ++ (43%N :: a ++ btxt) ++ rest).
  { rewrite Ec. rewrite <- !app_assoc. reflexivity. }
  rewrite Etext, u_dispatch by exact Hc. rewrite sel_u.
  assert (Eback : c :: r ++ (43%N :: a ++ btxt) ++ rest = render_el eu ++ (43%N :: a ++ btxt) ++ rest) by now rewrite Ec.
  rewrite Eback. destruct shapes_uri as [-> ->].
  rewrite miss_fails.
  2:{ apply (url_open_fails). apply url_open_after_u; [exact We'|]. apply lspell_nil; reflexivity. }
  rewrite app_assoc. apply hit_first; [|reflexivity].
  apply first_cat.
  { apply (first_letter U_re LU); [apply good_LU|apply U_exact|exact We'|exact Su]. }
  unfold ur_rest. change (43%N :: a ++ btxt) with ([43%N] ++ a ++ btxt).
  apply first_cat; [now apply (first_single _ (fun x => N.eqb x 43))|].
  fold ur_group. unfold btxt. destruct b as [bs|].
  - rewrite !andb_true_iff in Hb. destruct Hb as [[[B1 B6] Bh] Bstop].
    apply first_cat.
    + apply first_hexq_run; auto; right; reflexivity.
    + apply first_opt_one; [discriminate|]. unfold ur_group. change (45%N :: bs) with ([45%N] ++ bs). apply first_cat.
      * now apply (first_single _ (fun x => N.eqb x 45)).
      * apply (first_hexrun bs [] rest); auto. apply orb_true_iff in Bstop. cbn [app]. tauto.
  - rewrite andb_true_iff, negb_true_iff in Hb. destruct Hb as [Astop Hg]. rewrite app_nil_r.
    rewrite <- (app_nil_r a) at 1. apply first_cat.
    + apply first_hexq_run; auto. apply orb_true_iff in Astop. cbn [app]. tauto.
    + apply first_rep_none. unfold ur_group. destruct rest as [|x r0]; [apply fails_cat_l; now apply fails_nil|].
      destruct (N.eqb_spec x 45) as [->|Hx].
      * apply (fails_cat_single _ (fun y => N.eqb y 45)); [reflexivity|].
        apply fails_rep_pos; [|discriminate].
        apply (fails_head _ (fun y => xorb false (in_ranges y hex_rs))); [reflexivity|].
        rewrite (head_not_xorb (fun y => in_ranges y hex_rs)). destruct r0 as [|h r1]; [reflexivity|].
        cbn [head_not]. unfold is_hex in Hg. now rewrite Hg.
      * apply fails_cat_chr_head. simpl. apply N.eqb_neq in Hx. now rewrite Hx.
Qed.

(* ------------------------------------------------------------------ identifiers / functions beginning with u, U or an escape *)
Lemma kw_free_fails t : kw_free t = true ->
  Fails (R:=nat) (m re_URI) t /\ Fails (R:=nat) (m re_UNICODE_RANGE) t.
Proof.
  unfold kw_free. rewrite andb_true_iff, !negb_true_iff. intros [H1 H2]. destruct shapes_uri as [-> ->].
  split; [now apply url_open_fails|now apply ur_open_fails].
Qed.

Lemma first_plain_cases d e0 nxt : first_plain_ok d e0 nxt = true ->
  plain_first d e0 = true \/
  (d = false /\ kw_free (render_el e0 ++ nxt) = true /\
   exists c r, render_el e0 = c :: r /\ (c = 85%N \/ c = 117%N \/ c = 92%N)).
Proof.
  unfold first_plain_ok, plain_first. destruct d; [now left|]. cbn [orb].
  destruct e0 as [c|ds tm|c|nl]; cbn [render_el].
  - destruct (N.eqb_spec c 85) as [->|H1]; [intros H; right; repeat split; eauto 6|].
    destruct (N.eqb_spec c 117) as [->|H2]; [intros H; right; repeat split; eauto 6|]. now left.
  - intros H. right. repeat split; eauto 6.
  - intros H. right. repeat split; eauto 6.
  - intros H. right. repeat split; eauto 6.
Qed.

Theorem ident_lexeme d e0 els rest : ok_follow (LIdent d e0 els) rest = true -> wins (LIdent d e0 els) rest.
Proof.
  cbn [ok_follow]. rewrite !andb_true_iff. intros [[Hwf Hfirst] Hp] dc prev. cbn [text cls].
  destruct (first_plain_cases _ _ _ Hfirst) as [Hpl|(-> & Hk & c & r & Ec & Hc)].
  - now apply ident_lexeme_plain.
  - destruct (kw_free_fails _ Hk) as [F1 F2].
    assert (Et : ident_text false e0 els ++ rest = c :: r ++ render els ++ rest).
    { unfold ident_text, render. cbn [dash_text app map concat]. rewrite Ec, <- !app_assoc. reflexivity. }
    assert (Ek : render_el e0 ++ render els ++ rest = c :: r ++ render els ++ rest) by now rewrite Ec.
    rewrite Et, u_dispatch by exact Hc. rewrite sel_u. rewrite <- Ek.
    rewrite miss_fails by exact F1. rewrite miss_fails by exact F2.
    rewrite Ek, <- Et. now apply ident_hit.
Qed.

Theorem function_lexeme d e0 els rest : ok_follow (LFunction d e0 els) rest = true -> wins (LFunction d e0 els) rest.
Proof.
  cbn [ok_follow]. rewrite !andb_true_iff, negb_true_iff. intros [[Hwf Hfirst] Hand] dc prev. cbn [text cls].
  destruct (first_plain_cases _ _ _ Hfirst) as [Hpl|(-> & Hk & c & r & Ec & Hc)].
  - now apply function_lexeme_plain.
  - destruct (kw_free_fails _ Hk) as [F1 F2].
    assert (Et : (ident_text false e0 els ++ [40%N]) ++ rest = c :: r ++ render els ++ 40%N :: rest).
    { unfold ident_text, render. cbn [dash_text app map concat]. rewrite Ec, <- !app_assoc. reflexivity. }
    assert (Ek : render_el e0 ++ render els ++ 40%N :: rest = c :: r ++ render els ++ 40%N :: rest) by now rewrite Ec.
    rewrite Et, u_dispatch by exact Hc. rewrite sel_u. rewrite <- Ek.
    rewrite miss_fails by exact F1. rewrite miss_fails by exact F2.
    rewrite Ek, <- Et. now apply function_hit.
Qed.

(* ---- discharging kw_free: on an identifier the URI / UNICODE-RANGE keywords can only be read element by element ---- *)
Lemma wf_el_mono (p1 p2 : N -> bool) nl e nxt : (forall c, p1 c = true -> p2 c = true) ->
  wf_el p1 nl e nxt = true -> wf_el p2 nl e nxt = true.
Proof. intros H. destruct e; cbn [wf_el]; auto. Qed.

Lemma nmchar_not_bs c : nmchar_plain c = true -> negb (N.eqb c 92) = true.
Proof. unfold nmchar_plain, nmchar_rs. cbn [in_ranges]. ranges. Qed.
Lemma nmstart_nmchar c : nmstart_plain c = true -> nmchar_plain c = true.
Proof. unfold nmstart_plain, nmchar_plain, nmstart_rs, nmchar_rs. cbn [in_ranges]. ranges. Qed.

Section Walk.
Variable rest : str.
Hypothesis Hrest : hd_not nm_cont rest = true.

Definition GoodF (f : str -> bool) : Prop :=
  forall els, wf_els nmchar_plain false els rest = true -> f (render els ++ rest) = false.
Definition DeadF (f : str -> bool) : Prop := forall t, dead t -> f t = false.
Definition stepF (lt : letter) (f : str -> bool) (t : str) : bool :=
  existsb (fun n => f (skipn n t)) (lspell lt t).

Lemma rest_lspell lt : good lt -> lspell lt rest = [].
Proof.
  intros G. destruct rest as [|c r]; [reflexivity|]. simpl in Hrest. apply negb_true_iff in Hrest.
  assert (H92 : N.eqb c 92 = false).
  { unfold nm_cont in Hrest. now apply orb_false_iff in Hrest as [_ H92]. }
  apply lspell_nil; [| |exact H92]; apply N.eqb_neq; intros ->.
  - rewrite (g_unm _ G) in Hrest. discriminate.
  - rewrite (g_lnm _ G) in Hrest. discriminate.
Qed.

Lemma stepF_dead lt f : good lt -> DeadF (stepF lt f).
Proof. intros G t D. unfold stepF. now rewrite (dead_lspell lt t G D). Qed.

Lemma stepF_good lt f : good lt -> GoodF f -> DeadF f -> GoodF (stepF lt f).
Proof.
  intros G Hg Hd els Hw. unfold stepF. destruct els as [|e els].
  - cbn [render map concat app]. now rewrite (rest_lspell lt G).
  - cbn [wf_els] in Hw. apply andb_true_iff in Hw as [He Hels].
    change (render (e :: els) ++ rest) with ((render_el e ++ render els) ++ rest). rewrite <- app_assoc.
    apply existsb_all_false. intros n Hn.
    assert (We : wfe e (render els ++ rest) = true).
    { unfold wfe. apply (wf_el_mono nmchar_plain); [apply nmchar_not_bs|exact He]. }
    destruct (lspell_el lt e _ G We n Hn) as [[-> _]|D].
    + rewrite skipn_el_exact. now apply Hg.
    + now apply Hd.
Qed.

Definition head_is (c : N) (t : str) : bool := match t with x :: _ => N.eqb x c | [] => false end.

Lemma head_dead c : is_ws c = false -> is_hex c = false -> DeadF (head_is c).
Proof. intros H1 H2 t D. now apply dead_head. Qed.

Lemma head_good c : nm_cont c = false -> hd_not (is_c c) rest = true -> GoodF (head_is c).
Proof.
  intros Hc Hr els Hw. unfold head_is. destruct els as [|e els].
  - cbn [render map concat app]. destruct rest as [|x r]; [reflexivity|]. simpl in Hr. unfold is_c in Hr.
    now apply negb_true_iff in Hr.
  - cbn [wf_els] in Hw. apply andb_true_iff in Hw as [He _]. unfold render. cbn [map concat].
    destruct e as [x|ds tm|x|nl]; cbn [render_el app wf_el] in *; try discriminate.
    + apply N.eqb_neq. intros ->. unfold nm_cont in Hc. rewrite He in Hc. discriminate.
    + apply N.eqb_neq. intros <-. vm_compute in Hc. discriminate.
    + apply N.eqb_neq. intros <-. vm_compute in Hc. discriminate.
Qed.

(* every identifier that is not followed by '(' or '+' leaves both keywords unread *)
Theorem names_kw_free els : wf_els nmchar_plain false els rest = true ->
  hd_not (is_c 40) rest = true -> hd_not (is_c 43) rest = true -> kw_free (render els ++ rest) = true.
Proof.
  intros Hw H40 H43. unfold kw_free. apply andb_true_iff. split; apply negb_true_iff.
  - change (url_open (render els ++ rest)) with (stepF LU (stepF LR (stepF LL (head_is 40))) (render els ++ rest)).
    apply stepF_good; [apply good_LU| |apply stepF_dead, good_LR|exact Hw].
    apply stepF_good; [apply good_LR| |apply stepF_dead, good_LL].
    apply stepF_good; [apply good_LL|now apply head_good|now apply head_dead].
  - change (ur_open (render els ++ rest)) with (stepF LU (head_is 43) (render els ++ rest)).
    apply stepF_good; [apply good_LU|now apply head_good|now apply head_dead|exact Hw].
Qed.
End Walk.

(* an identifier (no dash) not followed by '(' or '+' always satisfies first_plain_ok: the restriction of
   ident_lexeme to names that do not begin with u / U / an escape is gone *)
Theorem ident_kw_free e0 els rest : wf_ident false e0 els rest = true ->
  hd_not (is_c 40) rest = true -> hd_not (is_c 43) rest = true ->
  first_plain_ok false e0 (render els ++ rest) = true.
Proof.
  unfold wf_ident. rewrite !andb_true_iff. intros [[H0 Hels] Hn] H40 H43.
  assert (K : kw_free (render (e0 :: els) ++ rest) = true).
  { apply names_kw_free; auto. cbn [wf_els]. rewrite Hels, andb_true_r.
    apply (wf_el_mono nmstart_plain); [apply nmstart_nmchar|exact H0]. }
  change (render (e0 :: els) ++ rest) with ((render_el e0 ++ render els) ++ rest) in K. rewrite <- app_assoc in K.
  unfold first_plain_ok. cbn [orb]. destruct e0 as [c| | |]; auto. now destruct (N.eqb c 85 || N.eqb c 117).
Qed.

Corollary ident_lexeme_full d e0 els rest : wf_ident d e0 els rest = true ->
  hd_not (is_c 40) rest = true -> hd_not (is_c 43) rest = true -> wins (LIdent d e0 els) rest.
Proof.
  intros Hwf H40 H43. apply ident_lexeme. cbn [ok_follow]. rewrite Hwf, H40. cbn [andb orb].
  rewrite andb_true_r. destruct d; [reflexivity|]. now apply ident_kw_free.
Qed.

(* ------------------------------------------------------------------ the lone backslash *)
Lemma lspell_bs_nl lt rest : good lt -> match rest with c2 :: _ => is_nlc c2 | [] => true end = true ->
  lspell lt (92%N :: rest) = [].
Proof.
  intros G H.
  assert (E1 : N.eqb 92 (l_up lt) = false) by (apply N.eqb_neq; intros E; apply (g_u92 _ G); now rewrite E).
  assert (E2 : N.eqb 92 (l_lo lt) = false) by (apply N.eqb_neq; intros E; apply (g_l92 _ G); now rewrite E).
  unfold lspell, single_len, bs_hex_len, bs_lit_len. rewrite E1, E2, N.eqb_refl. cbn [app andb].
  destruct rest as [|c2 r]; [reflexivity|].
  assert (Hh : is_hex c2 = false).
  { unfold is_nlc, is_hex, hex_rs in *. cbn [in_ranges] in *. revert H. ranges. }
  assert (Z : zeros_n 4 (c2 :: r) = O) by (cbn [zeros_n]; now rewrite (hex_not_48_zero _ Hh)).
  rewrite Z. cbn [skipn].
  assert (U1 : N.eqb c2 (l_up lt) = false).
  { apply N.eqb_neq. intros ->. pose proof (g_unm _ G) as Hn. unfold is_nlc in H. unfold nm_cont, nmchar_plain, nmchar_rs in Hn.
    cbn [in_ranges] in *. revert H Hn. ranges. }
  assert (U2 : N.eqb c2 (l_lo lt) = false).
  { apply N.eqb_neq. intros ->. pose proof (g_lnm _ G) as Hn. unfold is_nlc in H. unfold nm_cont, nmchar_plain, nmchar_rs in Hn.
    cbn [in_ranges] in *. revert H Hn. ranges. }
  rewrite U1, U2. destruct r as [|b r']; [reflexivity|].
  destruct (l_hhb lt c2 b) eqn:E; [|reflexivity]. apply (g_hh _ G) in E. destruct E as [E _]. congruence.
Qed.

Theorem backslash_delim rest : match rest with c2 :: _ => is_nlc c2 | [] => true end = true -> wins (LDelim 92) rest.
Proof.
  intros H dc prev. cbn [text cls app]. rewrite u_dispatch by auto. rewrite sel_u.
  assert (K : kw_free (92%N :: rest) = true).
  { unfold kw_free, url_open, ur_open. now rewrite (lspell_bs_nl LU rest good_LU H). }
  destruct (kw_free_fails _ K) as [F1 F2].
  rewrite miss_fails by exact F1. rewrite miss_fails by exact F2.
  destruct shapes_ok as (-> & -> & _).
  assert (Fi : forall b, Fails (R:=nat) (m (Cat dash_re (Cat nmstart_re b))) (92%N :: rest)).
  { intros b. apply ident_at_fails. cbn [ident_at nmstart_at]. destruct rest as [|c2 r]; [reflexivity|].
    now rewrite H. }
  rewrite miss_fails by apply Fi. rewrite miss_fails by apply Fi. now apply char_hit.
Qed.
