(* LexemeFacts.v -- C09: every lexeme wins (per-class lemmas of LexemeBase.v and LexemeUri.v), the tokenizer loop
   on a lexeme, lexeme_sequence.  Re-exports LexemeBase and LexemeUri.                                  *)
From CssV Require Import Base Regex RegexFacts LexemeRegex Gen.Productions Gen.TokTables Tokenizer
  TokenizerFacts Lexemes.
From CssV Require Export LexemeBase LexemeUri.

(* ------------------------------------------------------------------ every lexeme wins *)
Theorem lexeme_wins : forall l rest, ok_follow l rest = true -> wins l rest.
Proof.
  intros l rest H. destruct l.
  - now apply ident_lexeme.
  - now apply function_lexeme.
  - now apply hash_lexeme.
  - now apply at_lexeme.
  - now apply number_lexeme.
  - now apply percentage_lexeme.
  - now apply dimension_lexeme.
  - now apply string_lexeme.
  - now apply comment_lexeme.
  - now apply ws_lexeme.
  - apply op_lexeme.
  - cbn [ok_follow] in H. apply orb_true_iff in H as [H|H]; [apply orb_true_iff in H as [H|H]|].
    + intros dc prev. cbn [text cls app]. now apply fast_char_wins.
    + now apply pure_delim_lexeme.
    + destruct (N.eq_dec c 92) as [->|Hc]; [|now apply ctx_delim_lexeme].
      apply backslash_delim. exact H.
  - now apply uri_lexeme.
  - now apply urange_lexeme.
Qed.

Lemma finish_classify l rest : ok_follow l rest = true ->
  finish_token (cls l) (text l) rest = (fst (classify l), text l, snd (classify l)).
Proof.
  intros H. unfold classify. apply finish_tokval.
  destruct l; try (left; reflexivity).
  - right. cbn [ok_follow] in H. apply andb_true_iff in H as [_ H]. apply negb_true_iff in H.
    cbn [text]. change (s "@charset") with (64%N :: s "charset"). cbn [eqs]. rewrite N.eqb_refl. exact H.
  - left. destruct o; reflexivity.
Qed.

(* ------------------------------------------------------------------ one step of the tokenizer loop *)
Lemma text_nonempty l rest : ok_follow l rest = true -> exists ch f, text l = ch :: f.
Proof.
  destruct l; cbn [ok_follow text]; intros H.
  - unfold ident_text, render. destruct dash; cbn [dash_text app]; [eauto|].
    cbn [map concat]. destruct e0; cbn [render_el app]; eauto.
  - unfold ident_text, render. destruct dash; cbn [dash_text app]; [eauto|].
    cbn [map concat]. destruct e0; cbn [render_el app]; eauto.
  - eauto.
  - eauto.
  - rewrite !andb_true_iff in H. destruct H as [[[[Hwf _] _] _] _]. unfold num_text.
    unfold wf_num in Hwf. rewrite !andb_true_iff in Hwf. destruct Hwf as [[Hs _] Hf].
    destruct (nsign n) as [|c0 ?]; cbn [app]; [|eauto]. destruct (nint n) as [|d ?]; cbn [app]; [|eauto].
    destruct (nfrac n); [eauto|discriminate].
  - unfold num_text. destruct (nsign n) as [|c0 ?]; cbn [app]; [|eauto].
    destruct (nint n) as [|d ?]; cbn [app]; [|eauto]. destruct (nfrac n); cbn [app]; eauto.
  - unfold num_text. destruct (nsign n) as [|c0 ?]; cbn [app]; [|eauto].
    destruct (nint n) as [|d ?]; cbn [app]; [|eauto]. destruct (nfrac n); cbn [app]; [eauto|].
    unfold ident_text, render. destruct dash; cbn [dash_text app]; [eauto|].
    cbn [map concat]. destruct e0; cbn [render_el app]; eauto.
  - eauto.
  - eauto.
  - rewrite !andb_true_iff, negb_true_iff in H. destruct H as [[Hne _] _]. destruct xs; [discriminate|eauto].
  - destruct o; eexists _, _; reflexivity.
  - eauto.
  - rewrite !andb_true_iff in H. destruct H as [[[[[[Su _] _] _] _] _] _].
    destruct (spelled_head LU eu good_LU Su) as (c & r & Ec & _).
    unfold render. cbn [map concat]. rewrite Ec. cbn [app]. eauto.
  - rewrite !andb_true_iff in H. destruct H as [[[[[Su _] _] _] _] _].
    destruct (spelled_head LU eu good_LU Su) as (c & r & Ec & _). rewrite Ec. cbn [app]. eauto.
Qed.

Lemma loop_step l rest fu prev l0 c0 : ok_follow l rest = true ->
  exists p' l' c' t, tv t = classify l /\
    loop (S fu) true false prev (text l ++ rest) l0 c0 = option_map (cons t) (loop fu true false p' rest l' c').
Proof.
  intros H. pose proof (lexeme_wins l rest H true prev) as Hw. pose proof (finish_classify l rest H) as Hf.
  destruct (text_nonempty l rest H) as (ch & f & Et). rewrite Et in *. cbn [app] in *. cbn [loop].
  destruct (mem ch fastchars) eqn:Efast.
  - rewrite (fast_char_wins ch (f ++ rest) true prev Efast) in Hw. inversion Hw as [[Hc Hf0]].
    assert (f = []) by (destruct f; [reflexivity|discriminate]). subst f. cbn [app].
    eexists _, _, _, _. split; [|reflexivity]. unfold tv, classify. cbn [ty val]. rewrite <- Hc, Et.
    reflexivity.
  - rewrite Hw. change (ch :: f ++ rest) with ((ch :: f) ++ rest). rewrite skipn_app_exact. rewrite Hf.
    rewrite skipn_app_exact. destruct (upd_pos l0 c0 (ch :: f)) as [l' c'].
    eexists _, _, _, _. split; [|reflexivity]. unfold tv. cbn [ty val]. now destruct (classify l).
Qed.

Fixpoint adjacent (ls : list lexeme) : bool :=
  match ls with [] => true | l :: r => ok_follow l (concat (map text r)) && adjacent r end.

Lemma loop_seq : forall ls fuel prev l0 c0, adjacent ls = true ->
  (length (concat (map text ls)) < fuel)%nat ->
  exists toks, loop fuel true false prev (concat (map text ls)) l0 c0 = Some toks /\ map tv toks = map classify ls.
Proof.
  induction ls as [|l ls IH]; intros fuel prev l0 c0 Ha Hfu.
  - exists []. destruct fuel; split; reflexivity.
  - cbn [adjacent] in Ha. apply andb_true_iff in Ha as [Hl Hls]. cbn [map concat] in *.
    destruct fuel as [|fu]; [lia|].
    destruct (loop_step l (concat (map text ls)) fu prev l0 c0 Hl) as (p' & l' & c' & t & Ht & ->).
    destruct (text_nonempty l _ Hl) as (ch & f & Et). rewrite app_length, Et in Hfu. simpl in Hfu.
    destruct (IH fu p' l' c' Hls) as (toks & -> & Hm); [lia|].
    exists (t :: toks). split; [reflexivity|]. cbn [map]. now rewrite Ht, Hm.
Qed.

Definition start_ok (text : str) : bool :=
  match rmatch re_BOM None text with None => true | Some _ => false end && negb (starts (s "@charset ") text).

Theorem lexeme_sequence_lemma : forall ls, adjacent ls = true -> start_ok (concat (map text ls)) = true ->
  option_map (map tv) (tokenize true false (concat (map text ls))) = Some (map classify ls).
Proof.
  intros ls Ha Hs. unfold start_ok in Hs. apply andb_true_iff in Hs as [Hb Hc]. apply negb_true_iff in Hc.
  unfold tokenize. change (snd bom_production) with re_BOM.
  destruct (rmatch re_BOM None (concat (map text ls))); [discriminate|]. rewrite Hc.
  destruct (loop_seq ls (S (length (concat (map text ls)))) None 1 1 Ha) as (toks & -> & Hm); [lia|].
  cbn [option_map app]. now rewrite Hm.
Qed.
