(* CodecPyLib.v -- the fixed Gallina reading of the Python operations that
   translate/codec.py accepts (see its table).  Python str and bytes are both
   `str = list N`; Python ints are Z; a partial operation (indexing) is an
   option.                                                                  *)
From CssV Require Import Base Gen.PyTables.

(* str.lower(), per character; table generated from the running interpreter (Gen/PyTables.v).  Same definition
   as Tokenizer.lower, repeated here so that the codec cone does not depend on the tokenizer productions. *)
Fixpoint assoc_lower (c : N) (tb : list (N * str)) : str :=
  match tb with
  | [] => [c]
  | (k, v) :: r => if N.eqb k c then v else assoc_lower c r
  end.
Definition lower_char (c : N) : str :=
  if N.ltb c 128 then (if N.leb 65 c && N.leb c 90 then [N.add c 32] else [c])
  else assoc_lower c lower_table.
Definition lower (x : str) : str := flat_map lower_char x.

Local Open Scope Z_scope.

Definition py_len (x : str) : Z := Z.of_nat (length x).

(* Python's normalisation of a slice bound against a length *)
Definition clampi (len i : Z) : nat :=
  Z.to_nat (if i <? 0 then Z.max 0 (len + i) else Z.min i len).

Definition py_slice (x : str) (a b : option Z) : str :=
  let lo := match a with Some i => clampi (py_len x) i | None => 0%nat end in
  let hi := match b with Some i => clampi (py_len x) i | None => length x end in
  firstn (hi - lo) (skipn lo x).

(* x[i]; None = IndexError *)
Definition py_index (x : str) (i : Z) : option Z :=
  let j := if i <? 0 then py_len x + i else i in
  if j <? 0 then None else option_map Z.of_N (nth_error x (Z.to_nat j)).

(* index of the first occurrence of the character c in x *)
Fixpoint find_char (c : N) (x : str) : option nat :=
  match x with
  | [] => None
  | y :: r => if N.eqb y c then Some O
              else match find_char c r with Some k => Some (S k) | None => None end
  end.

(* x.find(chr(c), start)   (-1 when absent) *)
Definition py_find_char (x : str) (c : N) (start : Z) : Z :=
  let lo := clampi (py_len x) start in
  match find_char c (skipn lo x) with
  | Some k => Z.of_nat (lo + k)
  | None => -1
  end.

(* x.replace(chr(a), chr(b)) *)
Definition py_replace_char (x : str) (a b : N) : str :=
  map (fun c => if N.eqb c a then b else c) x.

Definition bind {A B} (a : option A) (f : A -> option B) : option B :=
  match a with Some v => f v | None => None end.

(* ------------------------------------------------------------------ lemmas *)

Lemma py_len_nonneg x : 0 <= py_len x.
Proof. unfold py_len; lia. Qed.

Lemma py_len_app x y : py_len (x ++ y) = py_len x + py_len y.
Proof. unfold py_len; rewrite app_length; lia. Qed.

Lemma py_len_cons c x : py_len (c :: x) = 1 + py_len x.
Proof. unfold py_len; simpl length; lia. Qed.

Lemma clampi_nonneg len i : 0 <= i -> i <= len -> clampi len i = Z.to_nat i.
Proof.
  intros H1 H2. unfold clampi. destruct (i <? 0) eqn:E; [lia|]. f_equal; lia.
Qed.

Lemma find_char_app c x y k : find_char c x = Some k -> find_char c (x ++ y) = Some k.
Proof.
  revert k; induction x as [|a x IH]; simpl; intros k H; [discriminate|].
  destruct (N.eqb a c); [exact H|].
  destruct (find_char c x) as [j|]; [|discriminate]. now rewrite (IH j eq_refl).
Qed.

Lemma find_char_lt c x k : find_char c x = Some k -> (k < length x)%nat.
Proof.
  revert k; induction x as [|a x IH]; simpl; intros k H; [discriminate|].
  destruct (N.eqb a c); [inversion H; lia|].
  destruct (find_char c x) as [j|]; [|discriminate]. inversion H; subst. specialize (IH j eq_refl). lia.
Qed.

Lemma find_char_nth c x k : find_char c x = Some k -> nth_error x k = Some c.
Proof.
  revert k; induction x as [|a x IH]; simpl; intros k H; [discriminate|].
  destruct (N.eqb a c) eqn:E.
  - inversion H; subst. apply N.eqb_eq in E. now subst.
  - destruct (find_char c x) as [j|]; [|discriminate]. inversion H; subst. simpl. now apply IH.
Qed.

Lemma find_char_none_notin c x : find_char c x = None -> ~ In c x.
Proof.
  induction x as [|a x IH]; simpl; intros H; [tauto|].
  destruct (N.eqb a c) eqn:E; [discriminate|].
  destruct (find_char c x); [discriminate|]. apply N.eqb_neq in E. intros [F|F]; [congruence|now apply IH].
Qed.

(* the first occurrence: nothing before it is c *)
Lemma find_char_first c x k : find_char c x = Some k -> ~ In c (firstn k x).
Proof.
  revert k; induction x as [|a x IH]; simpl; intros k H; [discriminate|].
  destruct (N.eqb a c) eqn:E.
  - inversion H; subst. simpl. tauto.
  - destruct (find_char c x) as [j|]; [|discriminate]. inversion H; subst. simpl.
    apply N.eqb_neq in E. intros [F|F]; [congruence|]. now apply (IH j eq_refl).
Qed.

Lemma find_char_skip c p x : ~ In c p -> find_char c (p ++ c :: x) = Some (length p).
Proof.
  induction p as [|a p IH]; simpl; intros H.
  - now rewrite N.eqb_refl.
  - destruct (N.eqb a c) eqn:E; [apply N.eqb_eq in E; tauto|]. rewrite IH; [reflexivity|tauto].
Qed.

Lemma starts_app pat x y : starts pat x = true -> starts pat (x ++ y) = true.
Proof.
  intros H. apply starts_spec in H as [r ->]. apply starts_spec. exists (r ++ y). now rewrite app_assoc.
Qed.

Lemma starts_length pat x : starts pat x = true -> (length pat <= length x)%nat.
Proof. intros H. apply starts_spec in H as [r ->]. rewrite app_length. lia. Qed.

(* once x is at least as long as pat the verdict no longer depends on what follows *)
Lemma starts_app_long pat x y : (length pat <= length x)%nat -> starts pat (x ++ y) = starts pat x.
Proof.
  revert x; induction pat as [|p pat IH]; intros x H; simpl; [reflexivity|].
  destruct x as [|c x]; simpl in *; [lia|]. rewrite IH; [reflexivity|lia].
Qed.

(* x is not a prefix of pat, hence no extension of x starts with pat or is a prefix of pat *)
Lemma not_prefix_ext pat x y : starts x pat = false -> starts (x ++ y) pat = false.
Proof.
  revert pat; induction x as [|c x IH]; intros pat H; simpl in *; [discriminate|].
  destruct pat as [|p pat]; [reflexivity|].
  destruct (N.eqb c p); simpl in *; [now apply IH|reflexivity].
Qed.

Lemma not_prefix_ext_starts pat x y :
  (length x <= length pat)%nat -> starts x pat = false -> starts pat (x ++ y) = false.
Proof.
  revert pat; induction x as [|c x IH]; intros pat L H; simpl in *; [discriminate|].
  destruct pat as [|p pat]; simpl in *; [lia|].
  rewrite N.eqb_sym. destruct (N.eqb c p); simpl in *; [apply IH; [lia|exact H]|reflexivity].
Qed.

Lemma starts_both_short pat x : starts pat x = true -> starts x pat = true -> x = pat.
Proof.
  revert x; induction pat as [|p pat IH]; intros [|c x]; simpl; try congruence.
  rewrite !andb_true_iff, !N.eqb_eq. intros [-> H1] [_ H2]. f_equal. now apply IH.
Qed.
