(* ParseSkelFacts.v -- C01 (extension): the skeleton layer of a parse returns for every token
   list; only the leaf parsers remain a hypothesis (leaves_total).                            *)
From CssV Require Import Base Regex Tokenizer TokenizerFacts Quote Gen.StrTokenValue Upto UptoFacts Skeleton SkeletonFacts
     ParseTotal ParseTotalFacts ParseSkel.
Local Open Scope nat_scope.

(* ------------------------------------------------------------------ contiguous pieces *)
Definition infix {A} (x ts : list A) : Prop := exists pre post, ts = pre ++ x ++ post.

Lemma infix_refl {A} (x : list A) : infix x x.
Proof. exists [], []. rewrite app_nil_r. reflexivity. Qed.
Lemma infix_trans {A} (x y z : list A) : infix x y -> infix y z -> infix x z.
Proof.
  intros (p1 & q1 & ->) (p2 & q2 & ->). exists (p2 ++ p1), (q1 ++ q2). rewrite !app_assoc. reflexivity.
Qed.
Lemma infix_length {A} (x ts : list A) : infix x ts -> length x <= length ts.
Proof. intros (p & q & ->). rewrite !app_length. lia. Qed.
Lemma infix_Forall {A} (P : A -> Prop) (x ts : list A) : infix x ts -> Forall P ts -> Forall P x.
Proof. intros (p & q & ->) H. apply Forall_app in H as [_ H]. apply Forall_app in H as [H _]. exact H. Qed.
Lemma infix_prefix {A} (x y : list A) : infix x (x ++ y).
Proof. exists [], y. reflexivity. Qed.
Lemma infix_suffix {A} (x y : list A) : infix y (x ++ y).
Proof. exists x, []. rewrite app_nil_r. reflexivity. Qed.
Lemma infix_cons {A} (a : A) (x ts : list A) : infix x ts -> infix x (a :: ts).
Proof. intros (p & q & ->). exists (a :: p), q. reflexivity. Qed.
Lemma infix_removelast {A} (x : list A) : infix (removelast x) x.
Proof.
  destruct x as [|a x]; [apply infix_refl|].
  rewrite (app_removelast_last a (l := a :: x)) at 2 by discriminate. apply infix_prefix.
Qed.
Lemma infix_nil_inv {A} (x : list A) : infix x [] -> x = [].
Proof. intros (p & q & H). destruct p; [destruct x; [reflexivity|discriminate]|discriminate]. Qed.

(* ------------------------------------------------------------------ the dispatch loops *)
(* "#statements <= #tokens" *)
Lemma disp_count up km cls ts : forall n, length (disp_gen up km cls ts n) <= length ts.
Proof.
  induction ts as [|t r IH]; intros n; [destruct n; simpl; lia|].
  destruct n as [|n]; cbn [disp_gen length].
  - destruct (cls t) as [| |k].
    + specialize (IH 0). lia.
    + cbn [length]. specialize (IH 0). lia.
    + destruct (pull up km k t r) as [run rest]. cbn [length]. specialize (IH (length run - 1)). lia.
  - specialize (IH n). lia.
Qed.

Lemma pull_run k t r run rest :
  pull upto kmode k t r = (run, rest) -> exists run', run = t :: run' /\ run' ++ rest = r.
Proof.
  unfold pull. destruct (kmode_facts k) as (Hws & _ & _). destruct (kmode k) as [fl ws]. cbn [snd] in Hws. subst ws.
  apply c01_upto_start_partition.
Qed.

(* every statement the loop hands to a rule object is a non-empty contiguous piece of the tokens *)
Lemma disp_run_infix cls ts : forall n k run,
  In (IStmt k run) (disp cls ts n) -> run <> [] /\ infix run ts.
Proof.
  unfold disp. induction ts as [|t r IH]; intros n k run H; [destruct n; destruct H|].
  destruct n as [|n]; cbn [disp_gen] in H.
  - destruct (cls t) as [| |k'].
    + destruct (IH _ _ _ H) as [Hne Hi]. split; [exact Hne|apply infix_cons; exact Hi].
    + destruct H as [H|H]; [discriminate|]. destruct (IH _ _ _ H) as [Hne Hi]. split; [exact Hne|apply infix_cons; exact Hi].
    + destruct (pull upto kmode k' t r) as [run0 rest0] eqn:E. destruct H as [H|H].
      * injection H as <- <-. apply pull_run in E as (run' & -> & <-). split; [discriminate|].
        change (t :: run' ++ rest0) with ((t :: run') ++ rest0). apply infix_prefix.
      * destruct (IH _ _ _ H) as [Hne Hi]. split; [exact Hne|apply infix_cons; exact Hi].
  - destruct (IH _ _ _ H) as [Hne Hi]. split; [exact Hne|apply infix_cons; exact Hi].
Qed.

Lemma upto_none_partition fl ts run rest : upto fl None ts = (run, rest) -> run ++ rest = ts.
Proof. intros H. apply upto_partition_lemma in H as [H _]. exact H. Qed.

Lemma separate_end_infix (rl body : list tok) e : separate_end rl = (body, e) -> infix body rl.
Proof.
  unfold separate_end. destruct rl as [|x r]; intros H; injection H as <- <-; [apply infix_refl|].
  exact (infix_removelast (x :: r)).
Qed.

(* the inner rules of an @media rule are dispatched over a contiguous piece of its tokens *)
Lemma media_inner_infix ts items :
  mp_inner (media_split ts) = Some items -> exists body, items = media_inner body /\ infix body ts.
Proof.
  unfold media_split.
  destruct (upto FMQEnd None ts) as [m r1] eqn:E1. apply upto_none_partition in E1.
  match goal with |- context[if ?b then upto FBlockStart None r1 else ([], r1)] => destruct b end.
  - destruct (upto FBlockStart None r1) as [nm r2] eqn:E2. apply upto_none_partition in E2.
    match goal with |- context[if negb ?b then _ else _] => destruct (negb b) end; [discriminate|].
    destruct (upto FMediaEnd None r2) as [rl r3] eqn:E3. apply upto_none_partition in E3.
    destruct (separate_end rl) as [body e3] eqn:E4. apply separate_end_infix in E4. cbn [mp_inner].
    match goal with |- (if ?c then _ else _) = _ -> _ => destruct c end; [|discriminate].
    intros H. injection H as <-. eexists. split; [reflexivity|].
    assert (Hrl : infix rl ts).
    { subst ts r1 r2. eapply infix_trans; [apply infix_prefix|]. eapply infix_trans; [apply infix_suffix|]. apply infix_suffix. }
    match goal with |- infix (if ?c then _ else _) _ => destruct c end; [exact Hrl|eapply infix_trans; eauto].
  - match goal with |- context[if negb ?b then _ else _] => destruct (negb b) end; [discriminate|].
    destruct (upto FMediaEnd None r1) as [rl r3] eqn:E3. apply upto_none_partition in E3.
    destruct (separate_end rl) as [body e3] eqn:E4. apply separate_end_infix in E4. cbn [mp_inner].
    match goal with |- (if ?c then _ else _) = _ -> _ => destruct c end; [|discriminate].
    intros H. injection H as <-. eexists. split; [reflexivity|].
    assert (Hrl : infix rl ts).
    { subst ts r1. eapply infix_trans; [apply infix_prefix|]. apply infix_suffix. }
    match goal with |- infix (if ?c then _ else _) _ => destruct c end; [exact Hrl|eapply infix_trans; eauto].
Qed.

(* ------------------------------------------------------------------ evaluation returns *)
Section SkelFacts.
  Variable St : Type.
  Variable leaf : leafkind -> St -> list tok -> outcome St.
  Variable flag : St -> St.
  Variable add_comment : St -> tok -> St.
  Variable on_unknown : St -> option (tok * list uitem) -> St.
  Variable charset_commit : St -> charset_result -> St.
  Variable st0 : St.

  (* the remaining hypothesis: each leaf parser returns on every finite token run *)
  Definition leaves_total : Prop := forall k st run, exists st', leaf k st run = Returned st'.
  Hypothesis Hleaf : leaves_total.

  Notation seqi := (seq_items St).
  Notation edecl := (eval_decl St leaf flag add_comment on_unknown).
  Notation eruleset := (eval_ruleset St leaf flag add_comment on_unknown).
  Notation estmt := (eval_stmt St leaf flag add_comment on_unknown charset_commit).

  Lemma seq_items_total f items :
    (forall it, In it items -> forall st, exists st', f st it = Returned st') ->
    forall st, exists st', seqi f items st = Returned st'.
  Proof.
    unfold seq_items. induction items as [|it items IH]; intros Hf st; [cbn; eauto|].
    cbn [fold_left bind]. destruct (Hf it (or_introl eq_refl) st) as [st1 H1]. rewrite H1.
    apply IH. intros it' Hin. apply Hf. right. exact Hin.
  Qed.

  Lemma eval_decl_total st it : exists st', edecl st it = Returned st'.
  Proof. destruct it as [t|k run]; [cbn; eauto|]. destruct k; cbn; eauto. Qed.

  Lemma eval_ruleset_total st run : exists st', eruleset st run = Returned st'.
  Proof.
    unfold eval_ruleset. destruct (rs_gate (ruleset_split run)); [|eauto].
    destruct (Hleaf LSelector st (removelast (rs_selector (ruleset_split run)))) as [st1 H1]. rewrite H1. cbn [bind].
    destruct (rs_decls (ruleset_split run)) as [items|]; [|eauto].
    apply seq_items_total. intros it _ st2. apply eval_decl_total.
  Qed.

  Definition item_ok (fuel : nat) (inmedia : bool) (it : item) : Prop :=
    match it with
    | IComment _ => True
    | IStmt _ run => run <> [] /\ length run <= fuel /\ (inmedia = false -> Forall tokinv run)
    end.

  Lemma eval_stmt_total : forall fuel inmedia st it,
    item_ok fuel inmedia it -> exists st', estmt fuel inmedia st it = Returned st'.
  Proof.
    induction fuel as [|f IH]; intros inmedia st it Hok.
    - destruct it as [t|k run]; [cbn; eauto|]. destruct Hok as (Hne & Hlen & Htok).
      destruct run; [congruence|cbn [length] in Hlen; lia].
    - destruct it as [t|k run]; [cbn; eauto|]. destruct Hok as (Hne & Hlen & Htok).
      destruct k; cbn [eval_stmt]; try (destruct inmedia; eauto); eauto using eval_ruleset_total.
      + (* KCharset at the top level *)
        destruct (charset_rule_total_lemma run (Htok eq_refl)) as [r Hr]. rewrite Hr. cbn [bind]. eauto.
      + (* KMedia, inside @media *)
        destruct (Hleaf LMediaQuery st (mp_media (media_split (tl run)))) as [st1 H1]. rewrite H1. cbn [bind].
        destruct (mp_inner (media_split (tl run))) as [items|] eqn:Ei; [|eauto].
        apply media_inner_infix in Ei as (body & -> & Hb).
        apply seq_items_total. intros it Hin st2. apply IH.
        destruct it as [t|k run1]; [exact I|].
        destruct (disp_run_infix cls_media body 0 k run1 Hin) as [Hne1 Hi1].
        split; [exact Hne1|]. split; [|discriminate].
        pose proof (infix_length _ _ (infix_trans _ _ _ Hi1 Hb)) as Hl.
        destruct run as [|t0 run']; [congruence|]. cbn [tl] in Hl. cbn [length] in Hlen. lia.
      + (* KMedia, top level *)
        destruct (Hleaf LMediaQuery st (mp_media (media_split (tl run)))) as [st1 H1]. rewrite H1. cbn [bind].
        destruct (mp_inner (media_split (tl run))) as [items|] eqn:Ei; [|eauto].
        apply media_inner_infix in Ei as (body & -> & Hb).
        apply seq_items_total. intros it Hin st2. apply IH.
        destruct it as [t|k run1]; [exact I|].
        destruct (disp_run_infix cls_media body 0 k run1 Hin) as [Hne1 Hi1].
        split; [exact Hne1|]. split; [|discriminate].
        pose proof (infix_length _ _ (infix_trans _ _ _ Hi1 Hb)) as Hl.
        destruct run as [|t0 run']; [congruence|]. cbn [tl] in Hl. cbn [length] in Hlen. lia.
  Qed.

  (* skeleton_total: the top-level dispatch, every rule-set split and declaration loop, every
     @media split and (nested) inner dispatch return, for EVERY token list whose STRING tokens
     are quoted -- the fuel (= number of tokens) is never exhausted                          *)
  Theorem skeleton_total_lemma : forall ts, Forall tokinv ts ->
    exists st', eval_sheet St leaf flag add_comment on_unknown charset_commit st0 ts = Returned st'.
  Proof.
    intros ts Hall. unfold eval_sheet. apply seq_items_total. intros it Hin st. apply eval_stmt_total.
    destruct it as [t|k run]; [exact I|].
    destruct (disp_run_infix cls_sheet ts 0 k run Hin) as [Hne Hi].
    split; [exact Hne|]. split; [apply infix_length; exact Hi|]. intros _. eapply infix_Forall; eauto.
  Qed.

  Theorem style_total_lemma : forall ts,
    exists st', eval_style St leaf flag add_comment on_unknown st0 ts = Returned st'.
  Proof. intros ts. unfold eval_style. apply seq_items_total. intros it _ st. apply eval_decl_total. Qed.

  Notation poutcome := (parse_outcome_skel St leaf flag add_comment on_unknown charset_commit st0).

  Definition parse_never_raises_skel_statement : Prop :=
    forall api dc text, exists st, poutcome api dc text = Returned st.

  Theorem parse_never_raises_skeleton_lemma : parse_never_raises_skel_statement.
  Proof.
    intros api dc text. unfold parse_outcome_skel.
    destruct (tokenize_total_lemma dc api text) as [toks Htk]. rewrite Htk.
    destruct api; [|apply style_total_lemma].
    apply skeleton_total_lemma. apply Forall_forall. intros t Ht Hty. eapply string_tokens_quoted_lemma; eauto.
  Qed.
End SkelFacts.

(* non-vacuity: a concrete instance (state = number of leaf calls), nested @media *)
Example skeleton_example :
  parse_outcome_skel nat (fun _ n _ => Returned (S n)) (fun n => n) (fun n _ => n) (fun n _ => n) (fun n _ => n) 0
                     true true (s "@media print{@media tv{a{x:1;y:2}}b{z:3}}c{w:4}") = Returned 9.
Proof. vm_compute. reflexivity. Qed.

Example leaves_total_example : leaves_total nat (fun _ n _ => Returned (S n)).
Proof. intros k st run. eauto. Qed.
