(* ProdParserFacts.v -- proofs about the production-engine model ProdParser.v, for ALL production trees,
   environments and token lists:
     next_*            Sequence/Choice.nextProd on well-formed frames: never spins, never crashes, a returned nested
                       production matches the token
     find_total        the inner `while True` of parse ends within find_fuel steps
     loop_total        the main loop never runs out of its fuel (one token per iteration; sub-parsers only consume)
     parse_suffix      the tokens left over are a suffix of the input
     stash_*           what is left in savedTokens                                                          *)
From CssV Require Import Base Regex Tokenizer ProdParser.
Local Open Scope nat_scope.

(* ------------------------------------------------------------------ well-formed production trees
   the trees on which the Python loops end: a Sequence has productions, max is not 0, and an unbounded Sequence
   has a production that is not optional (else `while self._round < self._max` runs sys.maxsize times) *)
(* a production that can only match a COMMENT token is never asked: parse appends comments itself (l.516-519), so
   PreDef.comment and the Sequence(PreDef.comment(), minmax=(0, None)) of MediaList are dead *)
Definition is_c (m : mcode) : bool := match m with MTy x => eqs x (s "COMMENT") | MFalse => true | _ => false end.
Fixpoint dead (t : ptree) : bool :=
  match t with
  | PProd p => is_c (p_match p)
  | PSeq ps _ _ | PCho ps _ => (fix all (l : list ptree) : bool := match l with [] => true | c :: r => dead c && all r end) ps
  end.

Fixpoint wf_tree (t : ptree) : bool :=
  match t with
  | PProd _ => true
  | PSeq ps lo hi =>
      negb (match ps with [] => true | _ => false end) &&
      (fix all (l : list ptree) : bool := match l with [] => true | c :: r => (wf_tree c || dead c) && all r end) ps &&
      match hi with
      | Some h => negb (Nat.eqb h 0)
      | None => (fix ex (l : list ptree) : bool := match l with [] => false | c :: r => negb (topt c) || ex r end) ps
      end
  | PCho ps _ => (fix all (l : list ptree) : bool := match l with [] => true | c :: r => (wf_tree c || dead c) && all r end) ps
  end.
Definition wfd (c : ptree) : bool := wf_tree c || dead c.

Lemma wf_all_forallb ps :
  (fix all (l : list ptree) : bool := match l with [] => true | c :: r => (wf_tree c || dead c) && all r end) ps = forallb wfd ps.
Proof. induction ps as [|c r IH]; cbn; [reflexivity|]. now rewrite IH. Qed.
Lemma dead_all_forallb ps :
  (fix all (l : list ptree) : bool := match l with [] => true | c :: r => dead c && all r end) ps = forallb dead ps.
Proof. induction ps as [|c r IH]; cbn; [reflexivity|]. now rewrite IH. Qed.
Lemma ex_nonopt_existsb ps :
  (fix ex (l : list ptree) : bool := match l with [] => false | c :: r => negb (topt c) || ex r end) ps
  = existsb (fun c => negb (topt c)) ps.
Proof. induction ps as [|c r IH]; cbn; [reflexivity|]. now rewrite IH. Qed.
Lemma tmatches_seq ps lo hi tk :
  tmatches (PSeq ps lo hi) tk =
  (fix go (l : list ptree) : bool :=
     match l with [] => false | c :: r => if tmatches c tk then true else if topt c then go r else false end) ps.
Proof. reflexivity. Qed.

Fixpoint seq_scan (l : list ptree) (tk : option tok) : bool :=
  match l with [] => false | c :: r => if tmatches c tk then true else if topt c then seq_scan r tk else false end.
Lemma tmatches_seq_scan ps lo hi tk : tmatches (PSeq ps lo hi) tk = seq_scan ps tk.
Proof. cbn. induction ps as [|c r IH]; cbn; [reflexivity|]. now rewrite IH. Qed.
Lemma tmatches_cho ps o tk : tmatches (PCho ps o) tk = existsb (fun c => tmatches c tk) ps.
Proof. cbn. induction ps as [|c r IH]; cbn; [reflexivity|]. now rewrite IH. Qed.

Definition notc (tk : tok) : Prop := eqs (ty tk) (s "COMMENT") = false.
Lemma dead_nomatch t tk : dead t = true -> notc tk -> tmatches t (Some tk) = false.
Proof.
  unfold notc. intros Hd Hn. revert t Hd. fix F 1. intros t. destruct t as [p|ps lo hi|ps o]; intros Hd.
  - cbn in Hd |- *. destruct (p_match p); cbn in Hd |- *; try discriminate; [reflexivity|].
    apply eqs_spec in Hd. subst t. exact Hn.
  - rewrite tmatches_seq_scan. cbn [dead] in Hd. rewrite dead_all_forallb in Hd.
    induction ps as [|c r IHp]; [reflexivity|]. cbn in Hd |- *. apply andb_true_iff in Hd. destruct Hd as [H1 H2].
    rewrite (F c H1). destruct (topt c); auto.
  - rewrite tmatches_cho. cbn [dead] in Hd. rewrite dead_all_forallb in Hd.
    induction ps as [|c r IHp]; [reflexivity|]. cbn in Hd |- *. apply andb_true_iff in Hd. destruct Hd as [H1 H2].
    rewrite (F c H1). cbn. auto.
Qed.

Definition wf_seq (ps : list ptree) (hi : option nat) : Prop :=
  ps <> [] /\ forallb wfd ps = true /\
  match hi with Some h => h <> 0 | None => existsb (fun c => negb (topt c)) ps = true end.

Lemma wf_tree_seq ps lo hi : wf_tree (PSeq ps lo hi) = true <-> wf_seq ps hi.
Proof.
  cbn [wf_tree]. rewrite wf_all_forallb, ex_nonopt_existsb, !andb_true_iff, negb_true_iff. unfold wf_seq.
  split.
  - intros [[H1 H2] H3]. repeat split; [destruct ps; congruence|exact H2|].
    destruct hi as [h|]; [|exact H3]. apply negb_true_iff, Nat.eqb_neq in H3. exact H3.
  - intros [H1 [H2 H3]]. repeat split; [destruct ps; congruence|exact H2|].
    destruct hi as [h|]; [|exact H3]. apply negb_true_iff, Nat.eqb_neq. exact H3.
Qed.
Lemma wf_tree_cho ps o : wf_tree (PCho ps o) = true <-> forallb wfd ps = true.
Proof. cbn [wf_tree]. now rewrite wf_all_forallb. Qed.

Definition wf_frame (f : frame) : Prop :=
  match f with
  | FSeq ps lo hi i rnd st => wf_seq ps hi /\ i < length ps
  | FCho ps o exh => forallb wfd ps = true
  end.

Definition children (f : frame) : list ptree := match f with FSeq ps _ _ _ _ _ | FCho ps _ _ => ps end.

Lemma enter_wf t f : wf_tree t = true -> enter t = Some f -> wf_frame f /\ children f = match t with PSeq ps _ _ | PCho ps _ => ps | _ => [] end.
Proof.
  destruct t as [p|ps lo hi|ps o]; cbn [enter]; intros Hw He; inversion He; subst; clear He.
  - apply wf_tree_seq in Hw. split; [|reflexivity]. split; [exact Hw|]. destruct Hw as [Hne _]. destruct ps; [congruence|cbn; lia].
  - apply wf_tree_cho in Hw. split; [exact Hw|reflexivity].
Qed.

(* ------------------------------------------------------------------ Sequence.nextProd *)
Definition nxt (n i : nat) : nat := if Nat.eqb (S i) n then 0 else S i.
Lemma nxt_lt n i : i < n -> nxt n i < n.
Proof. unfold nxt. intros H. destruct (Nat.eqb (S i) n) eqn:E; [lia|]. apply Nat.eqb_neq in E. lia. Qed.

(* the position reached after j steps *)
Fixpoint steps (n i j : nat) : nat := match j with O => i | S j' => steps n (nxt n i) j' end.

Definition is_ret (r : nres) (ps : list ptree) (tk : option tok) : Prop :=
  match r with
  | NProd p => In (PProd p) ps /\ tmatches (PProd p) tk = true
  | NNest t => In t ps /\ tmatches t tk = true /\ (forall p, t <> PProd p)
  | NSpin | NCrash => False
  | _ => True
  end.

Lemma ret_is_ret c ps tk : In c ps -> tmatches c tk = true -> is_ret (ret c) ps tk.
Proof. destruct c; cbn; intros; repeat split; auto; congruence. Qed.

Lemma seq_frame_shape k ps lo hi i rnd st tk :
  exists i' rnd' st', snd (seq_loop k ps lo hi i rnd st tk) = FSeq ps lo hi i' rnd' st'.
Proof.
  revert i rnd st. induction k as [|k IH]; intros i rnd st; cbn [seq_loop].
  - destruct (below rnd hi); [destruct hi|]; cbn; eauto.
  - destruct (below rnd hi); [|cbn; eauto]. destruct (nth_error ps i) as [p|]; [|cbn; eauto].
    destruct (tmatches p tk); [cbn; eauto|]. destruct (topt p); [apply IH|].
    destruct (_ || _); [cbn; eauto|]. destruct tk; cbn; eauto.
Qed.

(* within k steps there is a production that is not optional: the loop returns without spinning *)
Lemma seq_loop_ok k ps lo hi i rnd st tk :
  ps <> [] -> i < length ps ->
  (hi = None -> exists j c, j < k /\ nth_error ps (steps (length ps) i j) = Some c /\ topt c = false) ->
  let '(r, f) := seq_loop k ps lo hi i rnd st tk in
  is_ret r ps tk /\ exists i' rnd' st', f = FSeq ps lo hi i' rnd' st' /\ i' < length ps.
Proof.
  intros Hne. revert i rnd st. induction k as [|k IH]; intros i rnd st Hi Hnone; cbn [seq_loop].
  - destruct (below rnd hi) eqn:Hb.
    + destruct hi as [h|].
      * split; [destruct tk; exact I|]. exists 0, h, false. split; [reflexivity|]. destruct ps; [congruence|cbn; lia].
      * destruct (Hnone eq_refl) as [j [c [Hj _]]]. lia.
    + split; [destruct tk; exact I|]. eauto.
  - destruct (below rnd hi) eqn:Hb.
    2:{ split; [destruct tk; exact I|]. eauto. }
    destruct (nth_error ps i) as [p|] eqn:Hn.
    2:{ apply nth_error_None in Hn. lia. }
    assert (Hin : In p ps) by (eapply nth_error_In; eauto).
    pose proof (nxt_lt (length ps) i Hi) as Hlt. unfold nxt in Hlt.
    destruct (tmatches p tk) eqn:Hm.
    { split; [apply ret_is_ret; auto|]. eauto. }
    destruct (topt p) eqn:Ho.
    { apply IH; [exact Hlt|]. intros Hh. destruct (Hnone Hh) as [j [c [Hj [Hc Hoc]]]].
      destruct j as [|j]; [cbn in Hc; rewrite Hn in Hc; inversion Hc; subst; congruence|].
      exists j, c. split; [lia|]. split; [exact Hc|exact Hoc]. }
    destruct (_ || _).
    { split; [exact I|]. eauto. }
    split; [destruct tk; exact I|]. eauto.
Qed.

(* from any position, a given index is reached within length ps steps *)
Lemma steps_reach n i t : i < n -> t < n -> exists j, j < n /\ steps n i j = t.
Proof.
  intros Hi Ht.
  assert (Hgen : forall d i, i < n -> i + d < n -> steps n i d = i + d).
  { induction d as [|d IH]; intros i0 H0 H1; cbn; [lia|]. unfold nxt. destruct (Nat.eqb (S i0) n) eqn:E.
    - apply Nat.eqb_eq in E. lia.
    - rewrite IH; [lia| |]; apply Nat.eqb_neq in E; lia. }
  destruct (le_lt_dec i t) as [Hle|Hgt].
  - exists (t - i). split; [lia|]. rewrite Hgen; lia.
  - (* wrap: n - i steps lead to 0, then t more *)
    assert (Hwrap : steps n i (n - i) = 0).
    { assert (Hw : forall d i, i < n -> i + d = n -> d <> 0 -> steps n i d = 0).
      { induction d as [|d IH]; intros i0 H0 H1 H2; [lia|]. cbn. unfold nxt. destruct (Nat.eqb (S i0) n) eqn:E.
        - apply Nat.eqb_eq in E. assert (d = 0) by lia. subst d. reflexivity.
        - apply Nat.eqb_neq in E. apply IH; lia. }
      apply Hw; lia. }
    assert (Hadd : forall a b i, steps n i (a + b) = steps n (steps n i a) b).
    { induction a as [|a IH]; intros b i0; cbn; [reflexivity|]. apply IH. }
    exists ((n - i) + t). split; [lia|]. rewrite Hadd, Hwrap. rewrite Hgen; lia.
Qed.

Lemma next_seq_ok ps lo hi i rnd st tk :
  wf_frame (FSeq ps lo hi i rnd st) ->
  let '(r, f) := next tk (FSeq ps lo hi i rnd st) in
  is_ret r ps tk /\ wf_frame f /\ children f = ps.
Proof.
  intros [[Hne [Hall Hhi]] Hi]. cbn [next]. destruct ps as [|c0 ps0] eqn:Eps; [congruence|]. rewrite <- Eps in *.
  assert (Hne' : ps <> []) by (subst; congruence).
  pose proof (seq_loop_ok (length ps) ps lo hi i rnd st tk Hne' Hi) as H.
  destruct (seq_loop (length ps) ps lo hi i rnd st tk) as [r f].
  destruct H as [Hr [i' [rnd' [st' [Hf Hi']]]]].
  - intros Hh. subst hi. apply existsb_exists in Hhi. destruct Hhi as [c [Hin Hc]].
    apply In_nth_error in Hin. destruct Hin as [t Ht].
    assert (Htl : t < length ps) by (apply nth_error_Some; congruence).
    destruct (steps_reach (length ps) i t Hi Htl) as [j [Hj Hs]].
    exists j, c. rewrite Hs. repeat split; auto. now apply negb_true_iff in Hc.
  - subst f. split; [exact Hr|]. split; [|reflexivity]. split; [|exact Hi']. repeat split; auto.
Qed.

Lemma cho_scan_spec ps tk a :
  match cho_scan ps tk a with
  | (Some c, _) => In c ps /\ tmatches c tk = true
  | (None, _) => True
  end.
Proof.
  revert a. induction ps as [|c r IH]; intros a; cbn; [exact I|].
  destruct (tmatches c tk) eqn:Hm; [split; auto|]. specialize (IH (a || topt c)).
  destruct (cho_scan r tk (a || topt c)) as [[x|] y]; [|exact I]. destruct IH. split; auto.
Qed.

Lemma next_ok tk f :
  wf_frame f ->
  let '(r, f') := next tk f in is_ret r (children f) tk /\ wf_frame f' /\ children f' = children f.
Proof.
  destruct f as [ps lo hi i rnd st|ps o exh]; intros Hw.
  - exact (next_seq_ok ps lo hi i rnd st tk Hw).
  - cbn [next]. destruct exh.
    + repeat split; auto. destruct tk; exact I.
    + pose proof (cho_scan_spec ps tk false) as Hs. destruct (cho_scan ps tk false) as [[c|] [|]].
      * destruct Hs. repeat split; auto. apply ret_is_ret; auto.
      * destruct Hs. repeat split; auto. apply ret_is_ret; auto.
      * repeat split; auto.
      * repeat split; auto.
Qed.

(* a fresh frame of a production that matches the token returns a matching production *)
Lemma seq_loop_fresh k pre suf lo hi rnd st tk :
  seq_scan suf (Some tk) = true -> length suf <= k -> below rnd hi = true ->
  exists c f, seq_loop k (pre ++ suf) lo hi (length pre) rnd st (Some tk) = (ret c, f) /\
              In c suf /\ tmatches c (Some tk) = true.
Proof.
  revert pre k st. induction suf as [|c suf IH]; intros pre k st Hs Hk Hb; [discriminate|].
  destruct k as [|k]; [cbn in Hk; lia|]. cbn [seq_loop]. rewrite Hb.
  assert (Hn : nth_error (pre ++ c :: suf) (length pre) = Some c).
  { rewrite nth_error_app2, Nat.sub_diag; [reflexivity|lia]. }
  rewrite Hn. cbn [seq_scan] in Hs. destruct (tmatches c (Some tk)) eqn:Hm.
  - eexists c, _. split; [reflexivity|]. split; [left; reflexivity|exact Hm].
  - destruct (topt c) eqn:Ho; [|discriminate].
    destruct suf as [|c' suf']; [discriminate|].
    assert (Hlen : Nat.eqb (S (length pre)) (length (pre ++ c :: c' :: suf')) = false).
    { apply Nat.eqb_neq. rewrite app_length. cbn. lia. }
    rewrite Hlen.
    specialize (IH (pre ++ [c]) k (if Nat.eqb (length pre) 0 then false else st) Hs).
    rewrite <- app_assoc in IH. cbn [app] in IH. rewrite app_length in IH. cbn [length] in IH.
    rewrite Nat.add_1_r in IH. destruct IH as [x [f [H1 [H2 H3]]]]; [cbn in Hk |- *; lia|exact Hb|].
    exists x, f. split; [exact H1|]. split; [right; exact H2|exact H3].
Qed.

Lemma next_fresh t f tk :
  wf_tree t = true -> enter t = Some f -> tmatches t (Some tk) = true ->
  exists c f', next (Some tk) f = (ret c, f') /\ In c (children f) /\ tmatches c (Some tk) = true.
Proof.
  destruct t as [p|ps lo hi|ps o]; cbn [enter]; intros Hw He Hm; inversion He; subst; clear He.
  - apply wf_tree_seq in Hw. destruct Hw as [Hne [_ Hhi]]. rewrite tmatches_seq_scan in Hm.
    cbn [next]. destruct ps as [|c0 ps0] eqn:Eps; [congruence|]. rewrite <- Eps in *.
    destruct (seq_loop_fresh (length ps) [] ps lo hi 0 false tk Hm (le_n _)) as [c [f [H1 [H2 H3]]]].
    { destruct hi as [h|]; [|reflexivity]. cbn. destruct h; [congruence|reflexivity]. }
    cbn in H1. exists c, f. repeat split; auto.
  - rewrite tmatches_cho in Hm. cbn [next].
    pose proof (cho_scan_spec ps (Some tk) false) as Hs.
    assert (Hsome : exists c a, cho_scan ps (Some tk) false = (Some c, a)).
    { clear Hs Hw. generalize false. induction ps as [|c r IH]; intros a; [discriminate|]. cbn in Hm |- *.
      destruct (tmatches c (Some tk)); [eauto|]. cbn in Hm. apply IH. exact Hm. }
    destruct Hsome as [c [a Hc]]. rewrite Hc in Hs |- *. destruct Hs. exists c. eexists. repeat split; auto.
Qed.

(* ------------------------------------------------------------------ the inner loop of parse *)
Definition wf_stack (stack : list frame) : Prop := stack <> [] /\ Forall wf_frame stack.

Lemma forallb_In {A} (f : A -> bool) l x : forallb f l = true -> In x l -> f x = true.
Proof. intros H Hin. rewrite forallb_forall in H. auto. Qed.

Lemma wf_frame_children f c tk : wf_frame f -> In c (children f) -> tmatches c (Some tk) = true -> notc tk -> wf_tree c = true.
Proof.
  intros Hw Hin Hm Hn.
  assert (H : wfd c = true).
  { destruct f; cbn in Hw, Hin.
    - destruct Hw as [[_ [Hall _]] _]. eapply forallb_In; eauto.
    - eapply forallb_In; eauto. }
  unfold wfd in H. apply orb_true_iff in H. destruct H as [H|H]; [exact H|].
  rewrite (dead_nomatch c tk H Hn) in Hm. discriminate.
Qed.

Lemma theight_child f c : In c (children f) -> theight c < fheight f.
Proof.
  destruct f as [ps lo hi i rnd st|ps o exh]; cbn [children fheight]; intros Hin;
    (induction ps as [|x r IH]; [destruct Hin|]; cbn [fold_right]; destruct Hin as [->|Hin]; [lia|specialize (IH Hin); lia]).
Qed.

Lemma fheight_enter t f : enter t = Some f -> fheight f = theight t.
Proof.
  destruct t as [p|ps lo hi|ps o]; cbn [enter]; intros He; inversion He; subst; cbn [fheight theight]; f_equal;
    induction ps as [|x r IH]; cbn; auto.
Qed.

Definition found_ok (r : fres) : Prop :=
  match r with
  | FFound _ stack | FNoMatch stack | FParseErr stack => wf_stack stack
  | FSpin | FCrash => False
  end.

(* descent: a fresh frame of a matching production leads to a Prod *)
Lemma find_descend fu t f rest tk :
  wf_tree t = true -> enter t = Some f -> tmatches t (Some tk) = true -> Forall wf_frame rest -> notc tk ->
  theight t <= fu ->
  exists p stack, find fu (f :: rest) tk = FFound p stack /\ wf_stack stack /\ length stack >= S (length rest).
Proof.
  revert t f rest. induction fu as [|fu IH]; intros t f rest Hw He Hm Hrest Hnc Hfu.
  - destruct t; cbn in He; [discriminate|cbn in Hfu; lia|cbn in Hfu; lia].
  - destruct (enter_wf t f Hw He) as [Hwf Hch].
    destruct (next_fresh t f tk Hw He Hm) as [c [f' [Hn [Hin Hmc]]]].
    pose proof (next_ok (Some tk) f Hwf) as Hok. rewrite Hn in Hok. destruct Hok as [_ [Hwf' Hch']].
    cbn [find]. rewrite Hn.
    assert (Hwc : wf_tree c = true) by (exact (wf_frame_children f c tk Hwf Hin Hmc Hnc)).
    destruct c as [p|ps lo hi|ps o]; cbn [ret].
    + exists p, (f' :: rest). split; [reflexivity|]. split; [split; [congruence|constructor; auto]|cbn; lia].
    + pose proof (theight_child f _ Hin) as Hh. rewrite (fheight_enter _ _ He) in Hh.
      cbn [enter]. destruct (IH (PSeq ps lo hi) _ (f' :: rest) Hwc eq_refl Hmc) as [p [stack [H1 [H2 H3]]]];
        [constructor; auto|exact Hnc|lia|]. exists p, stack. split; [exact H1|]. split; [exact H2|cbn in H3 |- *; lia].
    + pose proof (theight_child f _ Hin) as Hh. rewrite (fheight_enter _ _ He) in Hh.
      cbn [enter]. destruct (IH (PCho ps o) _ (f' :: rest) Hwc eq_refl Hmc) as [p [stack [H1 [H2 H3]]]];
        [constructor; auto|exact Hnc|lia|]. exists p, stack. split; [exact H1|]. split; [exact H2|cbn in H3 |- *; lia].
Qed.

Lemma stack_height_cons f rest : stack_height (f :: rest) = Nat.max (fheight f) (stack_height rest).
Proof. reflexivity. Qed.

Theorem find_total fu stack tk :
  wf_stack stack -> notc tk -> length stack + stack_height stack < fu -> found_ok (find fu stack tk).
Proof.
  intros Hws Hnc. revert stack Hws. induction fu as [|fu IH]; intros stack [Hne Hall] Hfu; [lia|].
  destruct stack as [|fr rest]; [congruence|]. inversion Hall as [|? ? Hfr Hrest]; subst.
  cbn [find]. pose proof (next_ok (Some tk) fr Hfr) as Hok.
  destruct (next (Some tk) fr) as [r fr'] eqn:Hn. destruct Hok as [Hr [Hwf' Hch']].
  rewrite stack_height_cons in Hfu. cbn [length] in Hfu.
  assert (Hpop : found_ok (match rest with [] => FNoMatch [fr'] | _ :: _ => find fu rest tk end)).
  { destruct rest as [|f2 r2]; [cbn; split; [congruence|constructor; auto]|].
    apply IH; [split; [congruence|exact Hrest]|]. cbn [length] in *. lia. }
  destruct r; cbn [is_ret] in Hr; try exact Hpop; try (cbn; split; [congruence|constructor; auto]); try contradiction.
  destruct Hr as [Hin [Hm Hnp]].
  assert (Hwc : wf_tree t = true) by (exact (wf_frame_children fr t tk Hfr Hin Hm Hnc)).
  destruct (enter t) as [nf|] eqn:He.
  2:{ destruct t; cbn in He; try discriminate. exfalso. eapply Hnp. reflexivity. }
  pose proof (theight_child fr t Hin) as Hh.
  destruct (find_descend fu t nf (fr' :: rest) tk Hwc He Hm) as [p [st [H1 [H2 _]]]]; [constructor; auto|exact Hnc|lia|].
  rewrite H1. exact H2.
Qed.

(* the closing loop never spins or crashes on a well-formed stack *)
Lemma final_ok stack strict wf : Forall wf_frame stack -> exists b, final stack strict wf = FinOk b.
Proof.
  revert wf. induction stack as [|fr rest IH]; intros wf Hall; [cbn; eauto|].
  inversion Hall as [|? ? Hfr Hrest]; subst. cbn [final].
  pose proof (next_ok None fr Hfr) as Hok. destruct (next None fr) as [r fr']. destruct Hok as [Hr _]. cbn [fst].
  destruct r; cbn [is_ret] in Hr; try (apply IH; assumption); try contradiction.
  - destruct Hr as [_ Hm]. cbn in Hm. discriminate.
  - destruct Hr as [_ [Hm _]]. exfalso. clear - Hm. revert Hm. generalize t.
    fix F 1. intros t0. destruct t0 as [p|ps lo hi|ps o]; intros Hm.
    + discriminate.
    + rewrite tmatches_seq_scan in Hm. induction ps as [|c r IHp]; [discriminate|]. cbn in Hm.
      destruct (tmatches c None) eqn:Hc; [exact (F c Hc)|]. destruct (topt c); [auto|discriminate].
    + rewrite tmatches_cho in Hm. induction ps as [|c r IHp]; [discriminate|]. cbn in Hm.
      destruct (tmatches c None) eqn:Hc; [exact (F c Hc)|]. auto.
Qed.

(* ------------------------------------------------------------------ streams only consume *)
Definition suffix {A} (a b : list A) : Prop := exists pre, b = pre ++ a.
Lemma suffix_refl {A} (a : list A) : suffix a a. Proof. exists []. reflexivity. Qed.
Lemma suffix_trans {A} (a b c : list A) : suffix a b -> suffix b c -> suffix a c.
Proof. intros [p ->] [q ->]. exists (q ++ p). now rewrite app_assoc. Qed.
Lemma suffix_cons {A} (x : A) a b : suffix a b -> suffix a (x :: b).
Proof. intros [p ->]. exists (x :: p). reflexivity. Qed.
Lemma suffix_len {A} (a b : list A) : suffix a b -> length a <= length b.
Proof. intros [p ->]. rewrite app_length. lia. Qed.
Lemma suffix_In {A} (a b : list A) x : suffix a b -> In x a -> In x b.
Proof. intros [p ->] H. apply in_or_app. now right. Qed.
Lemma suffix_tail {A} (x : A) a b : suffix a (x :: b) -> length a <= length b -> suffix a b.
Proof.
  intros [p Hp] Hl. destruct p as [|y p]; cbn in Hp.
  - subst a. cbn in Hl. lia.
  - inversion Hp; subst. exists p. reflexivity.
Qed.

Lemma dropS_suffix l : suffix (dropS l) l.
Proof. induction l as [|t r IH]; cbn; [apply suffix_refl|]. destruct (isS t); [apply suffix_cons, IH|apply suffix_refl]. Qed.

Definition optl {A} (o : option A) : list A := match o with Some x => [x] | None => [] end.
Definition pendl (m : smode) : list tok := match m with SPend x => [x] | _ => [] end.

Lemma sor_raw_spec l t on pend l' :
  sor_raw l = Some (t, on, pend, l') ->
  suffix (optl pend ++ l') l /\ length (optl pend ++ l') < length l /\ In t l.
Proof.
  destruct l as [|a r]; [discriminate|]. cbn [sor_raw]. destruct (isS a).
  - pose proof (dropS_suffix r) as Hs. destruct (dropS r) as [|n r'] eqn:Hd.
    + intros H; inversion H; subst. cbn. split; [eexists; rewrite app_nil_r; reflexivity|]. split; [lia|now left].
    + pose proof (suffix_len _ _ Hs) as Hl. cbn [length] in Hl.
      assert (Hn : In n r) by (eapply suffix_In; [exact Hs|now left]).
      destruct (is_sub (val n) until).
      * intros H; inversion H; subst. cbn. split; [apply suffix_cons; eapply suffix_trans; [|exact Hs]; apply suffix_cons, suffix_refl|].
        split; [lia|now right].
      * destruct (isC n); intros H; inversion H; subst; cbn.
        -- split; [apply suffix_cons; eapply suffix_trans; [|exact Hs]; apply suffix_cons, suffix_refl|]. split; [lia|now right].
        -- split; [apply suffix_cons; exact Hs|]. split; [lia|now left].
  - destruct (isC a); intros H; inversion H; subst; cbn; (split; [apply suffix_cons, suffix_refl|]; split; [lia|now left]).
Qed.

Lemma spull_spec own anc l t own' anc' l' :
  spull own anc l = Some (t, own', anc', l') ->
  suffix (pendl own' ++ l') (pendl own ++ l) /\ length (pendl own' ++ l') < length (pendl own ++ l) /\ In t (pendl own ++ l).
Proof.
  destruct own as [| |x]; cbn [spull pendl app].
  - destruct anc.
    + destruct (sor_raw l) as [[[[t0 on] pend] l0]|] eqn:Hs; [|discriminate]. intros H; inversion H; subst. cbn [pendl app].
      destruct (sor_raw_spec _ _ _ _ _ Hs) as [H1 [H2 H3]]. destruct pend; cbn [optl app] in *; auto.
    + destruct l as [|a r]; [discriminate|]. intros H; inversion H; subst. cbn. split; [apply suffix_cons, suffix_refl|]. split; [lia|now left].
  - destruct (sor_raw l) as [[[[t0 on] pend] l0]|] eqn:Hs; [|discriminate]. intros H; inversion H; subst.
    destruct (sor_raw_spec _ _ _ _ _ Hs) as [H1 [H2 H3]].
    destruct pend; cbn [optl pendl app] in *; [auto|]. destruct on; cbn; auto.
  - intros H; inversion H; subst. cbn. split; [apply suffix_cons, suffix_refl|]. split; [lia|now left].
Qed.

(* ------------------------------------------------------------------ the main loop: measure, suffix, stash *)
Definition full (st : lstate) : list tok := pendl (l_own st) ++ l_rest st.
Definition meas (st : lstate) : nat := length (saved (l_stash st)) + length (full st).
Definition rfull (r : result) : list tok := pendl (r_own r) ++ r_rest r.
Definition rmeas (r : result) : nat := length (saved (r_stash r)) + length (rfull r).

(* contract of the sub-parser: it returns (no loop-fuel failure), it only consumes, it hands back at most one token *)
Definition sub_ok (sub : nat -> bool -> tok -> list tok -> out) : Prop :=
  forall g anc t l,
    sub g anc t l <> OutOfFuel /\
    forall r, sub g anc t l = Ret r ->
      suffix (r_rest r) l /\ length (saved (r_stash r)) + length (r_rest r) <= length l /\
      length (saved (r_stash r)) <= 1 /\ Forall (fun x => In x (t :: l)) (saved (r_stash r)).

Section LoopFacts.
  Variable o : opts.
  Variable sub : nat -> bool -> tok -> list tok -> out.
  Variable postof : nat -> option postcode.
  Hypothesis Hsub : sub_ok sub.

  (* what one step may do to the cells (saved, own, rest): consume, and hand back tokens it has seen *)
  Definition step_ok (pool : list tok) (st st' : lstate) : Prop :=
    suffix (full st') (full st) /\ length (saved (l_stash st')) + length (full st') <= length (full st) /\
    length (saved (l_stash st')) <= 1 /\ Forall (fun x => In x pool) (saved (l_stash st')).

  Lemma process_ok p t st :
    saved (l_stash st) = [] ->
    match process sub postof p t st with
    | LCont st' | LBreak st' => step_ok (t :: full st) st st'
    | LOut x => x <> OutOfFuel /\ forall r, x <> Ret r
    end.
  Proof.
    intros Hsv. unfold process.
    assert (Hsame : forall st', saved (l_stash st') = saved (l_stash st) -> full st' = full st -> step_ok (t :: full st) st st').
    { intros st' H1 H2. unfold step_ok. rewrite H1, H2, Hsv. cbn. repeat split; [apply suffix_refl|lia|lia|constructor]. }
    (* the part after toSeq preserves step_ok *)
    assert (Htail : forall st2, step_ok (t :: full st) st st2 ->
              match (if p_stop p then LBreak st2
                     else if p_stopkeep p then LBreak (set_stopall (set_keep (set_stash st2 (push_pushed t (l_stash st2))) t))
                     else if p_nextsor p then
                       LCont (set_defaultS (set_stream st2 SOn (l_anc st2)
                                (match l_own st2 with SPend x => x :: l_rest st2 | _ => l_rest st2 end)) false)
                     else LCont (set_defaultS st2 true)) with
              | LCont st' | LBreak st' => step_ok (t :: full st) st st'
              | LOut x => x <> OutOfFuel /\ forall r, x <> Ret r
              end).
    { intros st2 H2. destruct (p_stop p); [exact H2|]. destruct (p_stopkeep p); [exact H2|].
      destruct (p_nextsor p); [|exact H2].
      unfold step_ok, full in *. cbn. destruct (l_own st2); cbn in *; exact H2. }
    destruct (p_stopkeep p) eqn:Hk.
    { apply Htail. apply Hsame; reflexivity. }
    destruct (p_toseq p) eqn:Ha;
      try (cbn [aplain]; apply Htail; apply Hsame; reflexivity);
      try (destruct (aplain _ t) as [[ty' v']|]; [apply Htail; apply Hsame; reflexivity|split; [discriminate|intros; discriminate]]).
    - (* ASub *)
      set (l := match l_own st with SPend x => x :: l_rest st | _ => l_rest st end).
      assert (Hl : l = full st) by (unfold l, full; destruct (l_own st); reflexivity).
      destruct (Hsub g (l_anc st || match l_own st with SOn => true | _ => false end) t l) as [Hne Hret].
      destruct (sub g _ t l) as [r| | | |] eqn:Hs; try (split; [discriminate|intros; discriminate]); try congruence.
      destruct (postof g) as [pc|]; [|split; [discriminate|intros; discriminate]].
      destruct (post pc r) as [w its mt|]; [|split; [discriminate|intros; discriminate]].
      destruct (Hret r eq_refl) as [H1 [H2 [H3 H4]]].
      apply Htail. unfold step_ok, full. cbn. rewrite Hl in *. unfold full in *.
      destruct (l_own st); cbn; try destruct (r_anc r); cbn; repeat split; auto.
    - split; [discriminate|intros; discriminate].
  Qed.

  Lemma body_ok t st :
    saved (l_stash st) = [] ->
    match body o sub postof t st with
    | LCont st' => step_ok (t :: full st) st st'
    | LBreak st' =>
        suffix (full st') (full st) /\ length (saved (l_stash st')) + length (full st') <= length (full st) + (if l_stopnm st then 1 else 0) /\
        length (saved (l_stash st')) <= 1 /\ Forall (fun x => In x (t :: full st)) (saved (l_stash st'))
    | LOut x => x <> OutOfFuel /\ forall r, x <> Ret r
    end.
  Proof.
    intros Hsv.
    assert (Hsame : forall st', saved (l_stash st') = saved (l_stash st) -> full st' = full st -> step_ok (t :: full st) st st').
    { intros st' H1 H2. unfold step_ok. rewrite H1, H2, Hsv. cbn. repeat split; [apply suffix_refl|lia|lia|constructor]. }
    assert (Hweak : forall st', step_ok (t :: full st) st st' ->
              suffix (full st') (full st) /\ length (saved (l_stash st')) + length (full st') <= length (full st) + (if l_stopnm st then 1 else 0) /\
              length (saved (l_stash st')) <= 1 /\ Forall (fun x => In x (t :: full st)) (saved (l_stash st'))).
    { intros st' [H1 [H2 [H3 H4]]]. repeat split; auto. lia. }
    unfold body.
    destruct (o_checkS o && negb (eqs (ty t) (s "COMMENT")) && eqs (ty t) (s "S") && l_afterS st); [apply Hsame; reflexivity|].
    set (st1 := if o_checkS o && negb (eqs (ty t) (s "COMMENT")) then set_afterS st (eqs (ty t) (s "S")) else st).
    assert (Hst1 : saved (l_stash st1) = saved (l_stash st) /\ full st1 = full st /\ l_stopnm st1 = l_stopnm st).
    { unfold st1. destruct (_ && _); repeat split. }
    destruct Hst1 as [E1 [E2 E3]].
    destruct (eqs (ty t) (s "COMMENT")); [apply Hsame; [rewrite <- E1|rewrite <- E2]; reflexivity|].
    destruct (l_defaultS st1 && eqs (ty t) (s "S") && negb (o_checkS o)).
    { destruct (_ || _); apply Hsame; try (rewrite <- E1; reflexivity); rewrite <- E2; reflexivity. }
    destruct (eqs (ty t) (s "INVALID")); [apply Hweak, Hsame; [rewrite <- E1|rewrite <- E2]; reflexivity|].
    destruct (eqs (ty t) (s "EOF")); [apply Hsame; [rewrite <- E1|rewrite <- E2]; reflexivity|].
    cbn [l_stack set_started].
    destruct (find _ (l_stack st1) t) as [p stack|stack|stack| |] eqn:Hf; try (split; [discriminate|intros; discriminate]).
    - (* found *)
      pose proof (process_ok p t (set_found (set_started st1) stack (negb (p_mayend p)) (p_stopnm p || l_stopnm (set_started st1)))) as Hp.
      assert (Hfull : full (set_found (set_started st1) stack (negb (p_mayend p)) (p_stopnm p || l_stopnm (set_started st1))) = full st)
        by (rewrite <- E2; reflexivity).
      rewrite Hfull in Hp. specialize (Hp ltac:(cbn; rewrite E1; exact Hsv)).
      destruct (process _ _ _ _ _) as [st'|st'|x]; [| |exact Hp].
      + destruct Hp as [H1 [H2 [H3 H4]]]. unfold step_ok. rewrite <- Hfull. repeat split; auto; rewrite Hfull; auto.
      + apply Hweak. destruct Hp as [H1 [H2 [H3 H4]]]. unfold step_ok. rewrite <- Hfull. repeat split; auto; rewrite Hfull; auto.
    - (* NoMatch *)
      cbn. rewrite E3. destruct (l_stopnm st).
      + unfold full. cbn. fold (full st1). fold (full st). rewrite E1, E2, Hsv. cbn. repeat split; [apply suffix_refl|lia|lia|].
        constructor; [now left|constructor].
      + apply Hweak, Hsame; [cbn; rewrite E1|unfold full; cbn; fold (full st1); rewrite E2]; reflexivity.
    - (* ParseError *)
      apply Hweak, Hsame; [cbn; rewrite E1; reflexivity|unfold full; cbn; fold (full st1); rewrite E2; reflexivity].
  Qed.

  Lemma finish_ret st x : finish o st = x -> x <> OutOfFuel /\
    forall r, x = Ret r -> r_own r = l_own st /\ r_rest r = l_rest st /\ r_stash r = l_stash st /\ r_anc r = l_anc st.
  Proof.
    unfold finish. intros <-. destruct (l_stopall st).
    - split; [discriminate|]. intros r H; inversion H; subst; cbn; auto.
    - destruct (final _ _ _) as [wf| |]; [|split; [discriminate|intros r H; discriminate]..].
      destruct (_ && _); (split; [discriminate|]); intros r H; inversion H; subst; cbn; auto.
  Qed.

  (* the pull at the head of an iteration (l.495-502) *)
  Definition pull (st : lstate) : option (tok * lstate) :=
    match saved (l_stash st) with
    | t :: sv => Some (t, set_stash st (mkStash sv (pushed (l_stash st))))
    | [] => match spull (l_own st) (l_anc st) (l_rest st) with
            | Some (t, own, anc, l) => Some (t, set_stream st own anc l)
            | None => None
            end
    end.

  Lemma loop_unfold n st :
    loop o sub postof (S n) st =
    match pull st with
    | None => finish o st
    | Some (t, st1) => match body o sub postof t st1 with
                       | LCont st2 => loop o sub postof n st2
                       | LBreak st2 => finish o st2
                       | LOut x => x
                       end
    end.
  Proof. unfold pull. cbn [loop]. destruct (saved (l_stash st)); [|reflexivity]. destruct (spull _ _ _) as [[[[? ?] ?] ?]|]; reflexivity. Qed.

  Lemma pull_spec st t st1 :
    length (saved (l_stash st)) <= 1 -> pull st = Some (t, st1) ->
    saved (l_stash st1) = [] /\ suffix (full st1) (full st) /\ meas st1 < meas st /\
    In t (saved (l_stash st) ++ full st) /\ l_stopnm st1 = l_stopnm st.
  Proof.
    intros Hs. unfold pull, meas. destruct (saved (l_stash st)) as [|a sv] eqn:Hsv.
    - destruct (spull _ _ _) as [[[[t0 own] anc] l]|] eqn:Hp; [|discriminate]. intros H; inversion H; subst.
      destruct (spull_spec _ _ _ _ _ _ _ Hp) as [H1 [H2 H3]]. unfold full. cbn. rewrite Hsv. cbn. repeat split; auto. 
    - intros H; inversion H; subst. destruct sv; [|cbn in Hs; lia]. unfold full. cbn. repeat split; [apply suffix_refl|lia|now left].
  Qed.

  (* the loop never exhausts its fuel; what it leaves is a suffix; at most one token is handed back *)
  Theorem loop_ok n st :
    length (saved (l_stash st)) <= 1 -> meas st < n ->
    loop o sub postof n st <> OutOfFuel /\
    forall r, loop o sub postof n st = Ret r ->
      suffix (rfull r) (full st) /\ rmeas r <= meas st /\ length (saved (r_stash r)) <= 1 /\
      Forall (fun x => In x (saved (l_stash st) ++ full st)) (saved (r_stash r)).
  Proof.
    revert st. induction n as [|n IH]; intros st Hs Hm; [lia|]. rewrite loop_unfold.
    destruct (pull st) as [[t st1]|] eqn:Hp.
    2:{ destruct (finish_ret st _ eq_refl) as [H1 H2]. split; [exact H1|]. intros r Hr. destruct (H2 r Hr) as [E1 [E2 [E3 E4]]].
        unfold rfull, rmeas, rfull, meas, full. rewrite E1, E2, E3. repeat split; [apply suffix_refl|lia|exact Hs|].
        apply Forall_forall. intros x Hx. apply in_or_app. now left. }
    destruct (pull_spec st t st1 Hs Hp) as [Hsv1 [Hsuf1 [Hm1 [Hin1 Hnm1]]]].
    assert (Hpool : forall x, In x (t :: full st1) -> In x (saved (l_stash st) ++ full st)).
    { intros x [<-|Hx]; [exact Hin1|]. apply in_or_app. right. eapply suffix_In; eauto. }
    pose proof (body_ok t st1 Hsv1) as Hb.
    destruct (body o sub postof t st1) as [st2|st2|x].
    - destruct Hb as [H1 [H2 [H3 H4]]].
      destruct (IH st2 H3) as [G1 G2]; [unfold meas in *; rewrite Hsv1 in Hm1; cbn in Hm1; lia|].
      split; [exact G1|]. intros r Hr. destruct (G2 r Hr) as [K1 [K2 [K3 K4]]].
      repeat split; auto.
      + eapply suffix_trans; [exact K1|]. eapply suffix_trans; eauto.
      + unfold meas in *. rewrite Hsv1 in Hm1. cbn in Hm1. lia.
      + apply Forall_forall. intros x Hx. rewrite Forall_forall in K4. specialize (K4 x Hx).
        apply in_app_or in K4. destruct K4 as [K4|K4].
        * rewrite Forall_forall in H4. apply Hpool. auto.
        * apply Hpool. right. eapply suffix_In; eauto.
    - destruct Hb as [H1 [H2 [H3 H4]]].
      destruct (finish_ret st2 _ eq_refl) as [F1 F2]. split; [exact F1|]. intros r Hr. destruct (F2 r Hr) as [E1 [E2 [E3 E4]]].
      unfold rfull, rmeas, rfull. rewrite E1, E2, E3. fold (full st2). repeat split; auto.
      + eapply suffix_trans; eauto.
      + unfold meas in *. rewrite Hsv1 in Hm1. cbn in Hm1. destruct (l_stopnm st1); lia.
      + apply Forall_forall. intros x Hx. rewrite Forall_forall in H4. apply Hpool. auto.
    - destruct Hb as [Hb1 Hb2]. split; [exact Hb1|]. intros r Hr. exfalso. exact (Hb2 r Hr).
  Qed.
End LoopFacts.

(* ------------------------------------------------------------------ every parse of every environment *)
Lemma sub_ok_depth0 : sub_ok (fun _ _ _ _ => DepthOut).
Proof. intros g anc t l. split; [discriminate|intros r H; discriminate]. Qed.

Lemma init_full t anc first toks sh st :
  init_state t anc first toks sh = Some st ->
  full st = optl first ++ toks /\ l_stash st = sh /\ l_stopnm st = false.
Proof.
  unfold init_state. destruct (enter t); [|discriminate]. intros H; inversion H; subst. unfold full. cbn.
  destruct first; auto.
Qed.

(* a parse that starts on pushtoken(t, tokens) with an empty stash consumes t *)
Lemma parse_tree_sub_ok sub postof o tr anc t l :
  sub_ok sub ->
  parse_tree sub postof true o tr anc (Some t) l stash0 <> OutOfFuel /\
  forall r, parse_tree sub postof true o tr anc (Some t) l stash0 = Ret r ->
    suffix (r_rest r) l /\ length (saved (r_stash r)) + length (r_rest r) <= length l /\
    length (saved (r_stash r)) <= 1 /\ Forall (fun x => In x (t :: l)) (saved (r_stash r)).
Proof.
  intros Hsub. unfold parse_tree. destruct (init_state tr anc (Some t) l stash0) as [st|] eqn:Hi.
  2:{ split; [discriminate|intros r H; discriminate]. }
  destruct (init_full _ _ _ _ _ _ Hi) as [Hf [Hs Hnm]]. cbn [optl app] in Hf.
  unfold loop_fuel. cbn [stash0 saved length Nat.add]. rewrite loop_unfold.
  assert (Hsv : saved (l_stash st) = []) by (rewrite Hs; reflexivity).
  assert (Hpull : pull st = Some (t, set_stream st SOff (l_anc st) l)).
  { unfold pull. rewrite Hsv. unfold init_state in Hi. destruct (enter tr); [|discriminate]. inversion Hi; subst. reflexivity. }
  rewrite Hpull. set (st1 := set_stream st SOff (l_anc st) l).
  assert (Hf1 : full st1 = l) by reflexivity.
  assert (Hsv1 : saved (l_stash st1) = []) by exact Hsv.
  assert (Hnm1 : l_stopnm st1 = false) by exact Hnm.
  pose proof (body_ok o sub postof Hsub t st1 Hsv1) as Hb.
  destruct (body o sub postof t st1) as [st2|st2|x].
  - destruct Hb as [H1 [H2 [H3 H4]]]. rewrite Hf1 in *.
    destruct (loop_ok o sub postof Hsub (S (S (length l))) st2 H3) as [G1 G2]; [unfold meas; lia|].
    split; [exact G1|]. intros r Hr. destruct (G2 r Hr) as [K1 [K2 [K3 K4]]].
    assert (Hrr : suffix (r_rest r) (rfull r)) by (exists (pendl (r_own r)); reflexivity).
    unfold rmeas, meas, rfull in *. rewrite app_length in K2. repeat split; auto.
    + eapply suffix_trans; [exact Hrr|]. eapply suffix_trans; eauto.
    + lia.
    + apply Forall_forall. intros x Hx. rewrite Forall_forall in K4, H4. specialize (K4 x Hx). apply in_app_or in K4.
      destruct K4 as [K4|K4]; [auto|]. right. eapply suffix_In; eauto.
  - destruct Hb as [H1 [H2 [H3 H4]]]. rewrite Hf1, Hnm1 in *.
    destruct (finish_ret o st2 _ eq_refl) as [F1 F2]. split; [exact F1|]. intros r Hr. destruct (F2 r Hr) as [E1 [E2 [E3 E4]]].
    rewrite E2, E3. unfold full in *. rewrite app_length in H2. repeat split; auto; [|lia].
    eapply suffix_trans; [|exact H1]. exists (pendl (l_own st2)). reflexivity.
  - destruct Hb as [Hb1 Hb2]. split; [exact Hb1|]. intros r Hr. exfalso. exact (Hb2 r Hr).
Qed.

Theorem pparse_sub_ok d env : sub_ok (fun g a t l => pparse_sub d env g a (Some t) l).
Proof.
  induction d as [|d IH]; [exact sub_ok_depth0|]. intros g anc t l. cbn [pparse_sub].
  destruct (nth_error env g) as [gr|]; [|split; [discriminate|intros r H; discriminate]].
  exact (parse_tree_sub_ok _ _ _ _ _ _ _ IH).
Qed.

(* pparse_total: the loop fuel  |stash| + |tokens| + 3  always suffices -- for every tree, environment, option set
   and token list; (clear = false is the pinned ProdParser(): then the stash must hold at most one token) *)
Theorem pparse_total_lemma d env clear o t toks sh :
  clear = true \/ length (saved sh) <= 1 ->
  pparse d env clear o t toks sh <> OutOfFuel.
Proof.
  intros Hc. unfold pparse, parse_tree.
  set (sh0 := if clear then stash0 else sh).
  assert (Hsh : length (saved sh0) <= 1) by (unfold sh0; destruct clear; [cbn; lia|destruct Hc; [discriminate|assumption]]).
  destruct (init_state t false None toks sh0) as [st|] eqn:Hi; [|discriminate].
  destruct (init_full _ _ _ _ _ _ Hi) as [Hf [Hs _]]. cbn [optl app] in Hf.
  apply (loop_ok o _ _ (pparse_sub_ok d env)); [rewrite Hs; exact Hsh|].
  unfold meas, loop_fuel. rewrite Hf, Hs. lia.
Qed.

(* stash_discipline + pparse_consumes_prefix (stream part): after a parse savedTokens holds at most one token, it is a
   token of the input, and the tokens not consumed are a suffix of the input *)
Theorem pparse_stash_suffix_lemma d env clear o t toks sh r :
  clear = true \/ length (saved sh) <= 1 ->
  pparse d env clear o t toks sh = Ret r ->
  suffix (rfull r) toks /\
  length (saved (r_stash r)) <= 1 /\
  Forall (fun x => In x ((if clear then [] else saved sh) ++ toks)) (saved (r_stash r)) /\
  length (saved (r_stash r)) + length (rfull r) <= length (if clear then [] else saved sh) + length toks.
Proof.
  intros Hc. unfold pparse, parse_tree.
  set (sh0 := if clear then stash0 else sh).
  assert (Hsh : length (saved sh0) <= 1) by (unfold sh0; destruct clear; [cbn; lia|destruct Hc; [discriminate|assumption]]).
  assert (Hsv0 : saved sh0 = if clear then [] else saved sh) by (unfold sh0; destruct clear; reflexivity).
  destruct (init_state t false None toks sh0) as [st|] eqn:Hi; [|discriminate].
  destruct (init_full _ _ _ _ _ _ Hi) as [Hf [Hs _]]. cbn [optl app] in Hf. intros Hr.
  destruct (loop_ok o _ (postof_env env) (pparse_sub_ok d env) (loop_fuel sh0 toks) st) as [_ G]; [rewrite Hs; exact Hsh| |].
  { unfold meas, loop_fuel. rewrite Hf, Hs. lia. }
  destruct (G r Hr) as [K1 [K2 [K3 K4]]]. rewrite Hf, Hs, Hsv0 in *. unfold rmeas, meas in K2. rewrite Hf, Hs, Hsv0 in K2.
  repeat split; auto.
Qed.
