(* Tokenizer.v -- hand-written model of css_parser.tokenize2.Tokenizer.tokenize
   (tokenize2.py:103-253) over the generated productions and tables.
   Line references are to /repo/src/css_parser/tokenize2.py.               *)
From CssV Require Import Base Regex Gen.Productions Gen.TokTables Gen.PyTables.

Record tok := mkTok { ty : str; raw : str; val : str; line : nat; col : nat }.

(* ---- str.lower(), per character, table generated from the interpreter ---- *)
Fixpoint assoc_lower (c : N) (tb : list (N * str)) : str :=
  match tb with
  | [] => [c]
  | (k, v) :: r => if N.eqb k c then v else assoc_lower c r
  end.
Definition lower_char (c : N) : str :=
  if N.ltb c 128 then (if N.leb 65 c && N.leb c 90 then [N.add c 32] else [c])
  else assoc_lower c lower_table.
Definition lower (x : str) : str := flat_map lower_char x.

(* ---- unicodesub / cleanstring / normalize (l.37-38, 113-123; helper.py:44-63) *)
Definition hexval (c : N) : option N :=
  if N.leb 48 c && N.leb c 57 then Some (N.sub c 48)
  else if N.leb 97 c && N.leb c 102 then Some (N.sub c 87)
  else if N.leb 65 c && N.leb c 70 then Some (N.sub c 55)
  else None.
Definition hex_num (t : str) : N :=     (* int(t, 16) for t = hexdigits ++ optional whitespace *)
  fold_left (fun acc c => match hexval c with Some d => N.add (N.mul acc 16) d | None => acc end) t 0%N.
Definition repl (mt : str) : str :=
  let num := hex_num (tl mt) in if N.leb num maxunicode then [num] else mt.
Definition unicodesub (x : str) : str := sub_all re_unicodesub repl x.
Definition cleanstring (x : str) : str := sub_all re_cleanstring (fun _ => []) x.
Definition normalize (x : str) : str :=
  match x with [] => [] | _ => lower (sub_all re_simpleescapes (fun mt => tl mt) x) end.
Definition normalize_u (x : str) : str := normalize (unicodesub x).

(* ---- line / column bookkeeping (l.243-248) ---- *)
Fixpoint count_nl (t : str) : nat :=
  match t with [] => O | c :: r => (if N.eqb c 10 then 1 else 0) + count_nl r end.
Fixpoint after_last_nl (t : str) : option nat :=   (* number of characters after the last \n *)
  match t with
  | [] => None
  | c :: r => match after_last_nl r with
              | Some k => Some k
              | None => if N.eqb c 10 then Some (length r) else None
              end
  end.
Definition upd_pos (l c : nat) (found : str) : nat * nat :=
  let nls := count_nl found in
  (l + nls,
   match nls with
   | O => c + length found
   | _ => match after_last_nl found with Some k => S k | None => c end  (* len(found[rfind:]) *)
   end).

Fixpoint mem_str (x : str) (l : list str) : bool :=
  match l with [] => false | y :: r => eqs x y || mem_str x r end.
Fixpoint assoc_str (x : str) (l : list (str * str)) : option str :=
  match l with [] => None | (k, v) :: r => if eqs k x then Some v else assoc_str x r end.

Definition last_opt (prev : option N) (t : str) : option N :=
  match t with [] => prev | x :: r => Some (last r x) end.

(* ---- one iteration of the production loop (l.160-250) ---- *)
Inductive stepres :=
| Step (name found : str) (posupd : bool).   (* posupd=false: the unterminated-comment case *)

Fixpoint first_uri_end (rest : str) (ends : list str) : option str :=
  match ends with
  | [] => None
  | e :: es => match rmatch re_URI None (rest ++ e) with
               | Some k => Some (firstn k (rest ++ e))
               | None => first_uri_end rest es
               end
  end.

Fixpoint try_prods (ps : list (str * re)) (dc fs : bool) (prev : option N) (rest : str)
  : option stepres :=
  match ps with
  | [] => None
  | (name, r) :: ps' =>
    let pc := rest ++ s "*/" in
    if fs && eqs name (s "CHAR") && starts (s "/*") rest &&
       (match rmatch re_COMMENT None pc with Some _ => true | None => false end) && dc
    then Some (Step (s "COMMENT") pc false)                               (* l.163-172 *)
    else
    match rmatch r prev rest with
    | None => try_prods ps' dc fs prev rest
    | Some n =>
      let found := firstn n rest in
      if eqs name (s "IDENT") && negb (eqs (lower found) (s "and")) &&
         (match skipn n rest with c :: _ => N.eqb c 40 | [] => false end)
      then try_prods ps' dc fs prev rest                                   (* l.186-190 *)
      else if fs && eqs name (s "INVALID") && eqs rest found
      then Some (Step (s "STRING") (found ++ [hd 0%N found]) true)         (* l.193-196 *)
      else if fs && eqs name (s "FUNCTION") && eqs (normalize_u found) (s "url(")
      then match first_uri_end rest uri_ends with                          (* l.198-207 *)
           | Some f => Some (Step (s "URI") f true)
           | None => Some (Step name found true)
           end
      else Some (Step name found true)
    end
  end.

(* value and final name of a matched token (l.209-236); returns (name, found, value) *)
Definition finish_token (name found after : str) : str * str * str :=
  if mem_str name resolved_types then
    let v := unicodesub found in
    (name, found, if mem_str name clean_types then cleanstring v else v)
  else if eqs name (s "ATKEYWORD") then
    match assoc_str (normalize_u found) atkeywords with
    | Some sym => (sym, found, found)
    | None => if eqs found (s "@charset") && starts (s " ") after
              then (charset_sym, found ++ s " ", found ++ s " ")
              else (s "ATKEYWORD", found, unicodesub found)   (* unknown at-keyword: escapes resolved *)
    end
  else (name, found, found).

Fixpoint loop (fuel : nat) (dc fs : bool) (prev : option N) (rest : str) (l c : nat)
  : option (list tok) :=
  match rest with
  | [] => Some (if fs then [mkTok (s "EOF") [] [] l c] else [])
  | ch :: rest1 =>
    match fuel with
    | O => None
    | S fu =>
      if mem ch fastchars then                                             (* l.155-158 *)
        option_map (cons (mkTok (s "CHAR") [ch] [ch] l c)) (loop fu dc fs (Some ch) rest1 l (c + 1))
      else
      match try_prods productions dc fs prev rest with
      | None => None                                 (* Python: the while loop would spin *)
      | Some (Step name found false) =>
          Some (mkTok name found found l c :: (if fs then [mkTok (s "EOF") [] [] l c] else []))
      | Some (Step name found true) =>
          let '(name', found', value) := finish_token name found (skipn (length found) rest) in
          let rest' := skipn (length found') rest in
          let '(l', c') := upd_pos l c found' in
          let t := mkTok name' found' value l c in
          option_map (fun ts => if dc || negb (eqs name' (s "COMMENT")) then t :: ts else ts)
                     (loop fu dc fs (last_opt prev found') rest' l' c')
      end
    end
  end.

Definition tokenize (dc fs : bool) (text : str) : option (list tok) :=
  (* BOM (l.131-136): pos advances, col does not *)
  let '(t0, rest0, prev0) :=
    match rmatch (snd bom_production) None text with
    | Some n => ([mkTok (fst bom_production) (firstn n text) (firstn n text) 1 1],
                 skipn n text, last_opt None (firstn n text))
    | None => ([], text, None)
    end in
  (* '@charset ' at the very start (l.138-143) *)
  let cs := s "@charset " in
  let '(t1, rest1, prev1, c1) :=
    if starts cs rest0 then ([mkTok charset_sym cs cs 1 1], skipn (length cs) rest0, Some 32%N, 1 + length cs)
    else ([], rest0, prev0, 1) in
  option_map (fun ts => t0 ++ t1 ++ ts) (loop (S (length rest1)) dc fs prev1 rest1 1 c1).
