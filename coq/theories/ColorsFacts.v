(* ColorsFacts.v -- proofs about Colors.v (C17): hex colours for all strings, hash shortening, the name table *)
From Coq Require Import QArith Lia.
From CssV Require Import Base Regex Numbers NumbersFacts Gen.Colors Colors.
Local Open Scope Z_scope.

Definition hex_ranges : list (N * N) :=
  [(48%N, 57%N); (97%N, 97%N); (98%N, 98%N); (99%N, 99%N); (100%N, 100%N); (101%N, 101%N); (102%N, 102%N);
   (65%N, 65%N); (66%N, 66%N); (67%N, 67%N); (68%N, 68%N); (69%N, 69%N); (70%N, 70%N)].

Lemma cls_hex x : in_ranges x hex_ranges = is_hex x.
Proof.
  apply Bool.eq_true_iff_eq. unfold hex_ranges. cbn [in_ranges].
  rewrite !orb_true_iff, !andb_true_iff, !N.leb_le.
  unfold is_hex, hexdig.
  destruct (N.leb_spec 48 x), (N.leb_spec x 57), (N.leb_spec 97 x), (N.leb_spec x 102), (N.leb_spec 65 x), (N.leb_spec x 70);
    cbn [andb]; split; intros HH; try reflexivity; try discriminate; lia.
Qed.

(* the shape reHexcolor accepts, written out *)
Definition hex_shape (v : str) : bool :=
  match v with
  | [h; a; b; c] => N.eqb h 35 && is_hex a && is_hex b && is_hex c
  | [h; a1; a2; b1; b2; c1; c2] =>
    N.eqb h 35 && is_hex a1 && is_hex a2 && is_hex b1 && is_hex b2 && is_hex c1 && is_hex c2
  | _ => false
  end.

Lemma re_hexcolor_body_eq :
  re_hexcolor_body = Cat (Chr 35%N) (Alt (Rep (Cls false hex_ranges) 3 (Some 3%nat)) (Rep (Cls false hex_ranges) 6 (Some 6%nat))).
Proof. reflexivity. Qed.
Lemma hex_end_strict_eq : hex_end_strict = true.
Proof. reflexivity. Qed.

Ltac hex_cases :=
  repeat match goal with
         | |- context [N.eqb ?c 35] => destruct (N.eqb c 35)
         | |- context [is_hex ?c] => destruct (is_hex c)
         end; cbn; try reflexivity.

Theorem hexmatch_shape v : hexmatch v = hex_shape v.
Proof.
  unfold hexmatch. rewrite re_hexcolor_body_eq, hex_end_strict_eq.
  destruct v as [|c0 [|c1 [|c2 [|c3 [|c4 [|c5 [|c6 [|c7 r]]]]]]]];
    cbn -[in_ranges hex_ranges is_hex]; rewrite ?cls_hex; rewrite ?Nat.leb_refl; hex_cases.
  all: destruct r; reflexivity.
Qed.

Lemma hexdig_hv c : is_hex c = true -> hexdig c = Some (hv c).
Proof. unfold is_hex, hv. destruct (hexdig c); [reflexivity|discriminate]. Qed.

Lemma int16_pair a b : is_hex a = true -> is_hex b = true -> int16 [a; b] = Some (16 * hv a + hv b).
Proof.
  intros Ha Hb. unfold int16. cbn [int16_from]. rewrite (hexdig_hv a Ha), (hexdig_hv b Hb). f_equal; lia.
Qed.

(* #rgb: every string the regex accepts with three digits *)
Theorem hex3_rgb_thm a b c :
  is_hex a = true -> is_hex b = true -> is_hex c = true ->
  color_of_hash [35%N; a; b; c] = Rgba (css3_hex3 a b c) 1.
Proof.
  intros Ha Hb Hc. unfold color_of_hash. rewrite hexmatch_shape. cbn [hex_shape]. rewrite Ha, Hb, Hc. cbn [N.eqb Pos.eqb andb].
  unfold hex_rgb. cbn [length Nat.eqb hex_short_len hex_short_idx map idx skipn firstn app].
  rewrite !int16_pair by assumption. cbn [triple]. unfold css3_hex3.
  replace (16 * hv a + hv a) with (17 * hv a) by lia.
  replace (16 * hv b + hv b) with (17 * hv b) by lia.
  replace (16 * hv c + hv c) with (17 * hv c) by lia. reflexivity.
Qed.

Theorem hex6_rgb_thm a1 a2 b1 b2 c1 c2 :
  is_hex a1 = true -> is_hex a2 = true -> is_hex b1 = true -> is_hex b2 = true -> is_hex c1 = true -> is_hex c2 = true ->
  color_of_hash [35%N; a1; a2; b1; b2; c1; c2] = Rgba (css3_hex6 a1 a2 b1 b2 c1 c2) 1.
Proof.
  intros H1 H2 H3 H4 H5 H6. unfold color_of_hash. rewrite hexmatch_shape. cbn [hex_shape].
  rewrite H1, H2, H3, H4, H5, H6. cbn [N.eqb Pos.eqb andb].
  unfold hex_rgb. cbn [length Nat.eqb hex_short_len hex_long_slices map slice skipn firstn fst snd Nat.sub].
  rewrite !int16_pair by assumption. reflexivity.
Qed.

(* the converse direction: nothing else is a hex colour *)
Theorem hex_only_shapes v :
  hexmatch v = true ->
  (exists a b c, v = [35%N; a; b; c] /\ is_hex a = true /\ is_hex b = true /\ is_hex c = true) \/
  (exists a1 a2 b1 b2 c1 c2, v = [35%N; a1; a2; b1; b2; c1; c2] /\ is_hex a1 = true /\ is_hex a2 = true /\
     is_hex b1 = true /\ is_hex b2 = true /\ is_hex c1 = true /\ is_hex c2 = true).
Proof.
  rewrite hexmatch_shape.
  destruct v as [|c0 [|c1 [|c2 [|c3 [|c4 [|c5 [|c6 [|c7 r]]]]]]]]; cbn [hex_shape]; try discriminate.
  - rewrite !andb_true_iff, N.eqb_eq. intros (((-> & ?) & ?) & ?). left. eauto 10.
  - rewrite !andb_true_iff, N.eqb_eq. intros ((((((-> & ?) & ?) & ?) & ?) & ?) & ?). right.
    exists c1, c2, c3, c4, c5, c6. tauto.
Qed.

(* minimizeColorHash never changes the components, whatever the string *)
Theorem hash_min_same_rgb_thm mz v :
  hexmatch v = true -> hexmatch (hash_min mz v) = true /\ hex_rgb (hash_min mz v) = hex_rgb v.
Proof.
  intros H. pose proof H as Hs. rewrite hexmatch_shape in Hs.
  destruct v as [|c0 [|c1 [|c2 [|c3 [|c4 [|c5 [|c6 [|c7 r]]]]]]]]; cbn [hex_shape] in Hs; try discriminate.
  - unfold hash_min. cbn [length Nat.eqb hash_len]. rewrite andb_false_r. cbn [andb]. tauto.
  - unfold hash_min. cbn [length Nat.eqb hash_len hash_pairs forallb idx skipn firstn fst snd eqs].
    rewrite !andb_true_r.
    destruct mz; cbn [andb]; [|tauto].
    destruct (N.eqb_spec c1 c2) as [->|]; cbn [andb]; [|tauto].
    destruct (N.eqb_spec c3 c4) as [->|]; cbn [andb]; [|tauto].
    destruct (N.eqb_spec c5 c6) as [->|]; cbn [andb]; [|tauto].
    cbn [hash_pick flat_map idx skipn firstn app].
    rewrite !andb_true_iff in Hs. destruct Hs as ((((((H0 & H1) & _) & H3) & _) & H5) & _).
    split.
    + rewrite hexmatch_shape. cbn [hex_shape]. rewrite H1, H3, H5. reflexivity.
    + unfold hex_rgb. cbn [length Nat.eqb hex_short_len hex_short_idx hex_long_slices map idx slice skipn firstn app fst snd Nat.sub].
      reflexivity.
Qed.

(* ------------------------------------------------------------------ colour names *)
Lemma tables_agree_true : tables_agree = true.
Proof. vm_compute. reflexivity. Qed.

Lemma assoc_notin {A} k (l : list (str * A)) : ~ In k (map fst l) -> assoc_s k l = None.
Proof.
  induction l as [|[k' v] l IH]; intros Hn; [reflexivity|]. cbn [assoc_s].
  destruct (eqs k' k) eqn:E.
  - apply eqs_spec in E. exfalso. apply Hn. left. exact E.
  - apply IH. intros Hin. apply Hn. right. exact Hin.
Qed.

(* every name: the table of /repo and the CSS3 table agree (both present with equal components, or both absent) *)
Theorem named_rgb_thm name : rgba_eqb (named_color name) (assoc_s name css3_named) = true.
Proof.
  destruct (in_dec (list_eq_dec N.eq_dec) name (map fst colors_table ++ map fst css3_named)) as [Hin|Hnot].
  - pose proof tables_agree_true as T. unfold tables_agree in T. rewrite forallb_forall in T. exact (T _ Hin).
  - rewrite in_app_iff in Hnot. unfold named_color. rewrite !assoc_notin by tauto. reflexivity.
Qed.

(* ------------------------------------------------------------------ rgb() *)
Local Open Scope Q_scope.
(* integer arguments are reported as written: the CSS3 value when 0 <= n <= 255 ... *)
Theorem rgb_fn_numbers dbl r g b :
  fn_color dbl (s "rgb(") [CNum (PyInt r); CNum (PyInt g); CNum (PyInt b)]
  = FRgba (inject_Z r) (inject_Z g) (inject_Z b) 1 true.
Proof. reflexivity. Qed.
Theorem rgba_fn_numbers dbl r g b a :
  fn_color dbl (s "rgba(") [CNum (PyInt r); CNum (PyInt g); CNum (PyInt b); CNum a]
  = FRgba (inject_Z r) (inject_Z g) (inject_Z b) (pyq a) true.
Proof. reflexivity. Qed.
(* ... but nothing is clipped (CSS3 Color 4.2.1: rgb(300,0,0) is rgb(255,0,0)) *)
Theorem rgb_fn_clip_refuted :
  exists r g b, fn_color dbl_exec (s "rgb(") [CNum (PyInt r); CNum (PyInt g); CNum (PyInt b)]
                = FRgba (300 # 1) (- (5 # 1)) 0 1 true /\ ~ (clip 0 (255 # 1) (inject_Z r) == 300 # 1).
Proof. exists 300%Z, (-5)%Z, 0%Z. split; [reflexivity|]. vm_compute. discriminate. Qed.

Lemma rgb_fn_in_range dbl r g b :
  (0 <= r <= 255)%Z -> (0 <= g <= 255)%Z -> (0 <= b <= 255)%Z ->
  fn_color dbl (s "rgb(") [CNum (PyInt r); CNum (PyInt g); CNum (PyInt b)]
  = FRgba (clip 0 (255 # 1) (inject_Z r)) (clip 0 (255 # 1) (inject_Z g)) (clip 0 (255 # 1) (inject_Z b)) 1 true.
Proof.
  intros Hr Hg Hb. rewrite rgb_fn_numbers.
  assert (C : forall z, (0 <= z <= 255)%Z -> clip 0 (255 # 1) (inject_Z z) = inject_Z z).
  { intros z Hz. unfold clip.
    assert (E1 : Qlt_b (inject_Z z) 0 = false) by (apply Qlt_b_false; unfold Qle; cbn; lia).
    assert (E2 : Qlt_b (255 # 1) (inject_Z z) = false) by (apply Qlt_b_false; unfold Qle; cbn; lia).
    rewrite E1, E2. reflexivity. }
  rewrite !C by assumption. reflexivity.
Qed.

(* ------------------------------------------------------------------ hsl(): colorsys = CSS3 over exact rationals *)
From Coq Require Import Qround Lqa.
Lemma Qfloor_unique x k : inject_Z k <= x -> x < inject_Z (k + 1) -> Qfloor x = k.
Proof.
  intros H1 H2. pose proof (Qfloor_le x) as F1. pose proof (Qlt_floor x) as F2.
  assert (A : inject_Z (Qfloor x) < inject_Z (k + 1)) by (eapply Qle_lt_trans; eassumption).
  assert (B : inject_Z k < inject_Z (Qfloor x + 1)) by (eapply Qle_lt_trans; eassumption).
  rewrite <- Zlt_Qlt in A, B. lia.
Qed.

Ltac qb :=
  repeat match goal with
         | |- context [Qlt_b ?a ?b] =>
           lazymatch a with context [Qlt_b] => fail | _ => idtac end;
           lazymatch b with context [Qlt_b] => fail | _ => idtac end;
           let E := fresh "E" in destruct (Qlt_b a b) eqn:E;
           [apply Qlt_b_true in E | apply Qlt_b_false in E]
         end.

Lemma hue_same m1 m2 x : - (1 # 3) <= x -> x < 4 # 3 -> hue_v m1 m2 x == css3_hue m1 m2 x.
Proof.
  intros Hlo Hhi. unfold hue_v, css3_hue, qmod1. cbv zeta.
  destruct (Qlt_le_dec x 0) as [Hn|Hp].
  - assert (F : Qfloor x = (-1)%Z).
    { apply Qfloor_unique; [change (inject_Z (-1)) with (- (1 # 1)); lra|change (inject_Z (-1 + 1)) with 0; lra]. }
    rewrite F. change (inject_Z (-1)) with (- (1 # 1)).
    qb; lra.
  - destruct (Qlt_le_dec x 1) as [H1|H1].
    + assert (F : Qfloor x = 0%Z).
      { apply Qfloor_unique; [change (inject_Z 0) with 0; lra|change (inject_Z (0 + 1)) with 1; lra]. }
      rewrite F. change (inject_Z 0) with 0.
      qb; lra.
    + assert (F : Qfloor x = 1%Z).
      { apply Qfloor_unique; [change (inject_Z 1) with 1; lra|change (inject_Z (1 + 1)) with (2 # 1); lra]. }
      rewrite F. change (inject_Z 1) with 1.
      qb; try lra; assert (Hx1 : x == 1) by lra; rewrite Hx1; ring.
Qed.

Theorem hls_is_css3 h sat l :
  0 <= h -> h < 1 ->
  let '(r, g, b) := hls_to_rgb h l sat in let '(r', g', b') := css3_hsl h sat l in
  r == r' /\ g == g' /\ b == b'.
Proof.
  intros H0 H1. unfold hls_to_rgb, css3_hsl.
  destruct (Qeq_bool sat 0) eqn:Es.
  - apply Qeq_bool_iff in Es.
    assert (Hc : forall x, css3_hue (l * 2 - (if Qle_bool l (1 # 2) then l * (sat + 1) else l + sat - l * sat))
                                    (if Qle_bool l (1 # 2) then l * (sat + 1) else l + sat - l * sat) x == l).
    { intros x. unfold css3_hue. destruct (Qle_bool l (1 # 2)); qb; rewrite Es; ring. }
    rewrite !Hc. repeat split; reflexivity.
  - assert (Em1 : forall m2, 2 * l - m2 == l * 2 - m2) by (intros; ring).
    destruct (Qle_bool l (1 # 2)).
    + repeat split; rewrite hue_same by lra; unfold css3_hue; qb; lra.
    + repeat split; rewrite hue_same by lra; unfold css3_hue; qb; lra.
Qed.
