(* ColorsFacts.v -- proofs about Colors.v (C17): hex colours for all strings, hash shortening, the name table *)
From Coq Require Import QArith Qabs Qround Qpower Lqa Lia Morphisms.
From CssV Require Import Base Regex Numbers NumbersFacts Gen.Colors Colors.
Local Open Scope Z_scope.

Definition hex_ranges : list (N * N) :=
  [(48%N, 57%N); (97%N, 97%N); (98%N, 98%N); (99%N, 99%N); (100%N, 100%N); (101%N, 101%N); (102%N, 102%N);
   (65%N, 65%N); (66%N, 66%N); (67%N, 67%N); (68%N, 68%N); (69%N, 69%N); (70%N, 70%N)].

Lemma cls_hex x : in_ranges x hex_ranges = is_hex x.
Proof.
  apply Bool.eq_true_iff_eq. unfold hex_ranges. cbn [in_ranges].
  rewrite !orb_true_iff, !andb_true_iff, !N.leb_le.
  unfold is_hex, hexdig.
  destruct (N.leb_spec 48 x), (N.leb_spec x 57), (N.leb_spec 97 x), (N.leb_spec x 102), (N.leb_spec 65 x), (N.leb_spec x 70);
    cbn [andb]; split; intros HH; try reflexivity; try discriminate; lia.
Qed.

(* the shape reHexcolor accepts, written out *)
Definition hex_shape (v : str) : bool :=
  match v with
  | [h; a; b; c] => N.eqb h 35 && is_hex a && is_hex b && is_hex c
  | [h; a1; a2; b1; b2; c1; c2] =>
    N.eqb h 35 && is_hex a1 && is_hex a2 && is_hex b1 && is_hex b2 && is_hex c1 && is_hex c2
  | _ => false
  end.

Lemma re_hexcolor_body_eq :
  re_hexcolor_body = Cat (Chr 35%N) (Alt (Rep (Cls false hex_ranges) 3 (Some 3%nat)) (Rep (Cls false hex_ranges) 6 (Some 6%nat))).
Proof. reflexivity. Qed.
Lemma hex_end_strict_eq : hex_end_strict = true.
Proof. reflexivity. Qed.

Ltac hex_cases :=
  repeat match goal with
         | |- context [N.eqb ?c 35] => destruct (N.eqb c 35)
         | |- context [is_hex ?c] => destruct (is_hex c)
         end; cbn; try reflexivity.

Theorem hexmatch_shape v : hexmatch v = hex_shape v.
Proof.
  unfold hexmatch. rewrite re_hexcolor_body_eq, hex_end_strict_eq.
  destruct v as [|c0 [|c1 [|c2 [|c3 [|c4 [|c5 [|c6 [|c7 r]]]]]]]];
    cbn -[in_ranges hex_ranges is_hex]; rewrite ?cls_hex; rewrite ?Nat.leb_refl; hex_cases.
  all: destruct r; reflexivity.
Qed.

Lemma hexdig_hv c : is_hex c = true -> hexdig c = Some (hv c).
Proof. unfold is_hex, hv. destruct (hexdig c); [reflexivity|discriminate]. Qed.

Lemma int16_pair a b : is_hex a = true -> is_hex b = true -> int16 [a; b] = Some (16 * hv a + hv b).
Proof.
  intros Ha Hb. unfold int16. cbn [int16_from]. rewrite (hexdig_hv a Ha), (hexdig_hv b Hb). f_equal; lia.
Qed.

(* #rgb: every string the regex accepts with three digits *)
Theorem hex3_rgb_thm a b c :
  is_hex a = true -> is_hex b = true -> is_hex c = true ->
  color_of_hash [35%N; a; b; c] = Rgba (css3_hex3 a b c) 1.
Proof.
  intros Ha Hb Hc. unfold color_of_hash. rewrite hexmatch_shape. cbn [hex_shape]. rewrite Ha, Hb, Hc. cbn [N.eqb Pos.eqb andb].
  unfold hex_rgb. cbn [length Nat.eqb hex_short_len hex_short_idx map idx skipn firstn app].
  rewrite !int16_pair by assumption. cbn [triple]. unfold css3_hex3.
  replace (16 * hv a + hv a) with (17 * hv a) by lia.
  replace (16 * hv b + hv b) with (17 * hv b) by lia.
  replace (16 * hv c + hv c) with (17 * hv c) by lia. reflexivity.
Qed.

Theorem hex6_rgb_thm a1 a2 b1 b2 c1 c2 :
  is_hex a1 = true -> is_hex a2 = true -> is_hex b1 = true -> is_hex b2 = true -> is_hex c1 = true -> is_hex c2 = true ->
  color_of_hash [35%N; a1; a2; b1; b2; c1; c2] = Rgba (css3_hex6 a1 a2 b1 b2 c1 c2) 1.
Proof.
  intros H1 H2 H3 H4 H5 H6. unfold color_of_hash. rewrite hexmatch_shape. cbn [hex_shape].
  rewrite H1, H2, H3, H4, H5, H6. cbn [N.eqb Pos.eqb andb].
  unfold hex_rgb. cbn [length Nat.eqb hex_short_len hex_long_slices map slice skipn firstn fst snd Nat.sub].
  rewrite !int16_pair by assumption. reflexivity.
Qed.

(* the converse direction: nothing else is a hex colour *)
Theorem hex_only_shapes v :
  hexmatch v = true ->
  (exists a b c, v = [35%N; a; b; c] /\ is_hex a = true /\ is_hex b = true /\ is_hex c = true) \/
  (exists a1 a2 b1 b2 c1 c2, v = [35%N; a1; a2; b1; b2; c1; c2] /\ is_hex a1 = true /\ is_hex a2 = true /\
     is_hex b1 = true /\ is_hex b2 = true /\ is_hex c1 = true /\ is_hex c2 = true).
Proof.
  rewrite hexmatch_shape.
  destruct v as [|c0 [|c1 [|c2 [|c3 [|c4 [|c5 [|c6 [|c7 r]]]]]]]]; cbn [hex_shape]; try discriminate.
  - rewrite !andb_true_iff, N.eqb_eq. intros (((-> & ?) & ?) & ?). left. eauto 10.
  - rewrite !andb_true_iff, N.eqb_eq. intros ((((((-> & ?) & ?) & ?) & ?) & ?) & ?). right.
    exists c1, c2, c3, c4, c5, c6. tauto.
Qed.

(* minimizeColorHash never changes the components, whatever the string *)
Theorem hash_min_same_rgb_thm mz v :
  hexmatch v = true -> hexmatch (hash_min mz v) = true /\ hex_rgb (hash_min mz v) = hex_rgb v.
Proof.
  intros H. pose proof H as Hs. rewrite hexmatch_shape in Hs.
  destruct v as [|c0 [|c1 [|c2 [|c3 [|c4 [|c5 [|c6 [|c7 r]]]]]]]]; cbn [hex_shape] in Hs; try discriminate.
  - unfold hash_min. cbn [length Nat.eqb hash_len]. rewrite andb_false_r. cbn [andb]. tauto.
  - unfold hash_min. cbn [length Nat.eqb hash_len hash_pairs forallb idx skipn firstn fst snd eqs].
    rewrite !andb_true_r.
    destruct mz; cbn [andb]; [|tauto].
    destruct (N.eqb_spec c1 c2) as [->|]; cbn [andb]; [|tauto].
    destruct (N.eqb_spec c3 c4) as [->|]; cbn [andb]; [|tauto].
    destruct (N.eqb_spec c5 c6) as [->|]; cbn [andb]; [|tauto].
    cbn [hash_pick flat_map idx skipn firstn app].
    rewrite !andb_true_iff in Hs. destruct Hs as ((((((H0 & H1) & _) & H3) & _) & H5) & _).
    split.
    + rewrite hexmatch_shape. cbn [hex_shape]. rewrite H1, H3, H5. reflexivity.
    + unfold hex_rgb. cbn [length Nat.eqb hex_short_len hex_short_idx hex_long_slices map idx slice skipn firstn app fst snd Nat.sub].
      reflexivity.
Qed.

(* ------------------------------------------------------------------ colour names *)
Lemma tables_agree_true : tables_agree = true.
Proof. vm_compute. reflexivity. Qed.

Lemma assoc_notin {A} k (l : list (str * A)) : ~ In k (map fst l) -> assoc_s k l = None.
Proof.
  induction l as [|[k' v] l IH]; intros Hn; [reflexivity|]. cbn [assoc_s].
  destruct (eqs k' k) eqn:E.
  - apply eqs_spec in E. exfalso. apply Hn. left. exact E.
  - apply IH. intros Hin. apply Hn. right. exact Hin.
Qed.

(* every name: the table of /repo and the CSS3 table agree (both present with equal components, or both absent) *)
Theorem named_rgb_thm name : rgba_eqb (named_color name) (assoc_s name css3_named) = true.
Proof.
  destruct (in_dec (list_eq_dec N.eq_dec) name (map fst colors_table ++ map fst css3_named)) as [Hin|Hnot].
  - pose proof tables_agree_true as T. unfold tables_agree in T. rewrite forallb_forall in T. exact (T _ Hin).
  - rewrite in_app_iff in Hnot. unfold named_color. rewrite !assoc_notin by tauto. reflexivity.
Qed.

(* ------------------------------------------------------------------ rgb() *)
Local Open Scope Q_scope.
(* integer arguments are reported as written: the CSS3 value when 0 <= n <= 255 ... *)
Theorem rgb_fn_numbers dbl r g b :
  fn_color dbl (s "rgb(") [CNum (PyInt r); CNum (PyInt g); CNum (PyInt b)]
  = FRgba (inject_Z r) (inject_Z g) (inject_Z b) 1 true.
Proof. reflexivity. Qed.
Theorem rgba_fn_numbers dbl r g b a :
  fn_color dbl (s "rgba(") [CNum (PyInt r); CNum (PyInt g); CNum (PyInt b); CNum a]
  = FRgba (inject_Z r) (inject_Z g) (inject_Z b) (pyq a) true.
Proof. reflexivity. Qed.
(* ... but nothing is clipped (CSS3 Color 4.2.1: rgb(300,0,0) is rgb(255,0,0)) *)
Theorem rgb_fn_clip_refuted :
  exists r g b, fn_color dbl_exec (s "rgb(") [CNum (PyInt r); CNum (PyInt g); CNum (PyInt b)]
                = FRgba (300 # 1) (- (5 # 1)) 0 1 true /\ ~ (clip 0 (255 # 1) (inject_Z r) == 300 # 1).
Proof. exists 300%Z, (-5)%Z, 0%Z. split; [reflexivity|]. vm_compute. discriminate. Qed.

Lemma rgb_fn_in_range dbl r g b :
  (0 <= r <= 255)%Z -> (0 <= g <= 255)%Z -> (0 <= b <= 255)%Z ->
  fn_color dbl (s "rgb(") [CNum (PyInt r); CNum (PyInt g); CNum (PyInt b)]
  = FRgba (clip 0 (255 # 1) (inject_Z r)) (clip 0 (255 # 1) (inject_Z g)) (clip 0 (255 # 1) (inject_Z b)) 1 true.
Proof.
  intros Hr Hg Hb. rewrite rgb_fn_numbers.
  assert (C : forall z, (0 <= z <= 255)%Z -> clip 0 (255 # 1) (inject_Z z) = inject_Z z).
  { intros z Hz. unfold clip.
    assert (E1 : Qlt_b (inject_Z z) 0 = false) by (apply Qlt_b_false; unfold Qle; cbn; lia).
    assert (E2 : Qlt_b (255 # 1) (inject_Z z) = false) by (apply Qlt_b_false; unfold Qle; cbn; lia).
    rewrite E1, E2. reflexivity. }
  rewrite !C by assumption. reflexivity.
Qed.

(* ------------------------------------------------------------------ hsl(): colorsys = CSS3 over exact rationals *)
From Coq Require Import Qround Lqa.
Lemma Qfloor_unique x k : inject_Z k <= x -> x < inject_Z (k + 1) -> Qfloor x = k.
Proof.
  intros H1 H2. pose proof (Qfloor_le x) as F1. pose proof (Qlt_floor x) as F2.
  assert (A : inject_Z (Qfloor x) < inject_Z (k + 1)) by (eapply Qle_lt_trans; eassumption).
  assert (B : inject_Z k < inject_Z (Qfloor x + 1)) by (eapply Qle_lt_trans; eassumption).
  rewrite <- Zlt_Qlt in A, B. lia.
Qed.

Ltac qb :=
  repeat match goal with
         | |- context [Qlt_b ?a ?b] =>
           lazymatch a with context [Qlt_b] => fail | _ => idtac end;
           lazymatch b with context [Qlt_b] => fail | _ => idtac end;
           let E := fresh "E" in destruct (Qlt_b a b) eqn:E;
           [apply Qlt_b_true in E | apply Qlt_b_false in E]
         end.

Lemma hue_same m1 m2 x : - (1 # 3) <= x -> x < 4 # 3 -> hue_v m1 m2 x == css3_hue m1 m2 x.
Proof.
  intros Hlo Hhi. unfold hue_v, css3_hue, qmod1. cbv zeta.
  destruct (Qlt_le_dec x 0) as [Hn|Hp].
  - assert (F : Qfloor x = (-1)%Z).
    { apply Qfloor_unique; [change (inject_Z (-1)) with (- (1 # 1)); lra|change (inject_Z (-1 + 1)) with 0; lra]. }
    rewrite F. change (inject_Z (-1)) with (- (1 # 1)).
    qb; lra.
  - destruct (Qlt_le_dec x 1) as [H1|H1].
    + assert (F : Qfloor x = 0%Z).
      { apply Qfloor_unique; [change (inject_Z 0) with 0; lra|change (inject_Z (0 + 1)) with 1; lra]. }
      rewrite F. change (inject_Z 0) with 0.
      qb; lra.
    + assert (F : Qfloor x = 1%Z).
      { apply Qfloor_unique; [change (inject_Z 1) with 1; lra|change (inject_Z (1 + 1)) with (2 # 1); lra]. }
      rewrite F. change (inject_Z 1) with 1.
      qb; try lra; assert (Hx1 : x == 1) by lra; rewrite Hx1; ring.
Qed.

Theorem hls_is_css3 h sat l :
  0 <= h -> h < 1 ->
  let '(r, g, b) := hls_to_rgb h l sat in let '(r', g', b') := css3_hsl h sat l in
  r == r' /\ g == g' /\ b == b'.
Proof.
  intros H0 H1. unfold hls_to_rgb, css3_hsl.
  destruct (Qeq_bool sat 0) eqn:Es.
  - apply Qeq_bool_iff in Es.
    assert (Hc : forall x, css3_hue (l * 2 - (if Qle_bool l (1 # 2) then l * (sat + 1) else l + sat - l * sat))
                                    (if Qle_bool l (1 # 2) then l * (sat + 1) else l + sat - l * sat) x == l).
    { intros x. unfold css3_hue. destruct (Qle_bool l (1 # 2)); qb; rewrite Es; ring. }
    rewrite !Hc. repeat split; reflexivity.
  - assert (Em1 : forall m2, 2 * l - m2 == l * 2 - m2) by (intros; ring).
    destruct (Qle_bool l (1 # 2)).
    + repeat split; rewrite hue_same by lra; unfold css3_hue; qb; lra.
    + repeat split; rewrite hue_same by lra; unfold css3_hue; qb; lra.
Qed.

(* ------------------------------------------------------------------ hsl(): the exact stage for any hue *)
Lemma qmod1_range x : 0 <= qmod1 x /\ qmod1 x < 1.
Proof.
  unfold qmod1. pose proof (Qfloor_le x). pose proof (Qlt_floor x).
  rewrite inject_Z_plus in H0. change (inject_Z 1) with 1 in H0. split; lra.
Qed.

Lemma qmod1_shift y k : qmod1 (y - inject_Z k) == qmod1 y.
Proof.
  unfold qmod1. assert (F : Qfloor (y - inject_Z k) = (Qfloor y - k)%Z).
  { pose proof (Qfloor_le y). pose proof (Qlt_floor y). rewrite inject_Z_plus in H0.
    apply Qfloor_unique.
    - unfold Z.sub. rewrite inject_Z_plus, inject_Z_opp. lra.
    - unfold Z.sub. rewrite !inject_Z_plus, inject_Z_opp. lra. }
  rewrite F. unfold Z.sub. rewrite inject_Z_plus, inject_Z_opp. ring.
Qed.

Global Instance qmod1_comp : Proper (Qeq ==> Qeq) qmod1.
Proof. intros x y E. unfold qmod1. rewrite (Qfloor_comp x y E). rewrite E. reflexivity. Qed.

Lemma Qlt_b_comp a a' b : a == a' -> Qlt_b a b = Qlt_b a' b.
Proof.
  intros E. destruct (Qlt_b a' b) eqn:H.
  - apply Qlt_b_true. apply Qlt_b_true in H. rewrite E. exact H.
  - apply Qlt_b_false. apply Qlt_b_false in H. rewrite E. exact H.
Qed.

Lemma hue_v_periodic m1 m2 y y' : qmod1 y == qmod1 y' -> hue_v m1 m2 y == hue_v m1 m2 y'.
Proof.
  intros E. unfold hue_v. cbv zeta.
  rewrite (Qlt_b_comp _ _ (1 # 6) E), (Qlt_b_comp _ _ (1 # 2) E), (Qlt_b_comp _ _ (2 # 3) E).
  destruct (Qlt_b (qmod1 y') (1 # 6)); [rewrite E; reflexivity|].
  destruct (Qlt_b (qmod1 y') (1 # 2)); [reflexivity|].
  destruct (Qlt_b (qmod1 y') (2 # 3)); [rewrite E; reflexivity|reflexivity].
Qed.

Lemma hue_v_norm m1 m2 x c : hue_v m1 m2 (x + c) == hue_v m1 m2 (qmod1 x + c).
Proof.
  apply hue_v_periodic.
  transitivity (qmod1 (x + c - inject_Z (Qfloor x))).
  - symmetry. apply qmod1_shift.
  - apply qmod1_comp. unfold qmod1. ring.
Qed.

(* colorsys on the raw hue (any rational, e.g. 480/360 or -120/360) = CSS3 4.2.4 on the hue normalised to [0,1) *)
Theorem hls_any_hue_is_css3 h sat l :
  let '(r, g, b) := hls_to_rgb h l sat in let '(r', g', b') := css3_hsl (qmod1 h) sat l in
  r == r' /\ g == g' /\ b == b'.
Proof.
  destruct (qmod1_range h) as [H0 H1].
  pose proof (hls_is_css3 (qmod1 h) sat l H0 H1) as H.
  unfold hls_to_rgb in *. destruct (Qeq_bool sat 0); [exact H|].
  destruct (css3_hsl (qmod1 h) sat l) as [[r' g'] b'].
  destruct H as (Hr & Hg & Hb).
  repeat split.
  - rewrite <- Hr. apply hue_v_norm.
  - rewrite <- Hg. apply hue_v_periodic. symmetry. exact (qmod1_shift h (Qfloor h)).
  - rewrite <- Hb. unfold Qminus. apply hue_v_norm.
Qed.

(* what fn_color computes for hsl(): the exact components before int(round(.)) *)
Theorem hsl_fn_model dbl h sat l :
  fn_color dbl (s "hsl(") [CNum h; CPct sat; CPct l] =
  let '(r, g, b) := hls_to_rgb (pyq h / inject_Z 360) (pyq l / inject_Z 100) (pyq sat / inject_Z 100) in
  FRgba (r * inject_Z 255) (g * inject_Z 255) (b * inject_Z 255) 1 false.
Proof. reflexivity. Qed.

(* rounding stage: int(round(x)) for any sign *)
Lemma rhe_err_all x : Qabs (inject_Z (rhe x) - x) <= 1 # 2.
Proof.
  destruct (Qlt_le_dec x 0) as [Hn|Hp]; [|apply rhe_err; assumption].
  destruct x as [a b]. unfold Qlt in Hn. cbn in Hn. unfold rhe. cbn [Qnum Qden].
  destruct (Z.ltb_spec a 0); [|lia].
  pose proof (rne_div_err (- a) (Zpos b) ltac:(lia) ltac:(lia)) as E.
  apply Qabs_Qle_condition. unfold Qle, Qminus, Qplus, Qopp, inject_Z. cbn [Qnum Qden]. split; lia.
Qed.

(* DESIGN hsl_fn_spec, in two stages: whatever binary64 evaluation x of r*255 the code rounds, if it is within
   delta of the exact value X = 255 * css3 component, the reported integer is within 1/2 + delta of X *)
Theorem hsl_round_stage x X delta :
  Qabs (x - X) <= delta -> Qabs (inject_Z (rhe x) - X) <= (1 # 2) + delta.
Proof.
  intros H. pose proof (rhe_err_all x) as E.
  apply Qabs_Qle_condition in H. apply Qabs_Qle_condition in E. apply Qabs_Qle_condition. split; lra.
Qed.

(* ------------------------------------------------------------------ rgb() percentages *)
Theorem pct255_int z :
  pct255 dbl_exec (PyInt z) = inject_Z (qtrunc (dbl_exec (inject_Z (255 * z) / inject_Z 100))).
Proof. reflexivity. Qed.
Theorem pct255_float v :
  pct255 dbl_exec (PyFloat v) = inject_Z (qtrunc (dbl_exec (dbl_exec (inject_Z 255 * v) / inject_Z 100))).
Proof. reflexivity. Qed.

(* a fractional percentage: the stored binary64 value v goes through two more roundings and a truncation *)
Theorem pct_float_spec v :
  0 <= v -> v <= inject_Z (10 ^ 12) ->
  let w := inject_Z 255 * v / inject_Z 100 in
  let t := pct255 dbl_exec (PyFloat v) in
  w - 1 - w * (1 # 2251799813685248) - tiny * (3 # 1) < t /\ t <= w + w * (1 # 2251799813685248) + tiny * (3 # 1).
Proof.
  intros Hv0 Hv w t. unfold t. rewrite pct255_float.
  destruct dbl_exec_binary64 as (Herr & Hpos & _ & _).
  change (inject_Z 255) with (255 # 1) in *. change (inject_Z 100) with (100 # 1) in *.
  change (inject_Z (10 ^ 12)) with (1000000000000 # 1) in Hv.
  set (y1 := dbl_exec ((255 # 1) * v)).
  assert (Hx1 : 0 <= (255 # 1) * v) by lra.
  assert (Hm1 : Qabs ((255 # 1) * v) <= maxq).
  { rewrite Qabs_pos by assumption. unfold maxq. change (inject_Z (10 ^ 308)) with (inject_Z (10 ^ 308 - 10 ^ 15) + (1000000000000000 # 1)).
    assert (0 <= inject_Z (10 ^ 308 - 10 ^ 15)) by (vm_compute; discriminate). lra. }
  pose proof (Herr _ Hm1) as E1. rewrite (Qabs_pos _ Hx1) in E1. apply Qabs_Qle_condition in E1. fold y1 in E1.
  pose proof (Hpos _ Hx1) as Hy1. fold y1 in Hy1.
  assert (Ht : 0 <= tiny) by discriminate.
  assert (Htiny : tiny <= 1 # 1000) by (vm_compute; discriminate).
  set (x2 := y1 / (100 # 1)).
  assert (Ex2 : x2 == y1 * (1 # 100)) by (unfold x2; field).
  assert (Hx2 : 0 <= x2) by lra.
  assert (Hm2 : Qabs x2 <= maxq).
  { rewrite Qabs_pos by assumption. unfold maxq. change (inject_Z (10 ^ 308)) with (inject_Z (10 ^ 308 - 10 ^ 15) + (1000000000000000 # 1)).
    assert (0 <= inject_Z (10 ^ 308 - 10 ^ 15)) by (vm_compute; discriminate). unfold eps53 in *. lra. }
  pose proof (Herr _ Hm2) as E2. rewrite (Qabs_pos _ Hx2) in E2. apply Qabs_Qle_condition in E2.
  pose proof (Hpos _ Hx2) as Hy2.
  set (y2 := dbl_exec x2) in *.
  destruct (qtrunc_bounds y2 Hy2) as [T1 T2]. rewrite inject_Z_plus in T2. change (inject_Z 1) with 1 in T2.
  assert (Ew : w == v * (255 # 100)) by (unfold w; field).
  unfold eps53 in *. split; lra.
Qed.
