(* Codec.v -- executable model of css_parser._codec3 (line numbers: /repo/src/css_parser/_codec3.py).

   Generated (translate/codec.py -> Gen/CodecFns.v): detectencoding_str, detectencoding_unicode,
   fixencoding (= _fixencoding).
   Hand-written here: one-shot decode / encode (l.206-239) and IncrementalDecoder.decode /
   IncrementalEncoder.encode (l.281-316, 373-404) as state machines over an abstract
   underlying codec (Section variables), plus concrete Gallina codecs (strict error handling) used to
   run the model against the implementation.

   Python str and bytes are both `str = list N`.  Exceptions are one enum; an exception ends a run. *)
From CssV Require Import Base CodecPyLib Gen.CodecFns.

Inductive err :=
| EUnicode   (* UnicodeError / UnicodeDecodeError / UnicodeEncodeError *)
| ELookup    (* LookupError: unknown encoding *)
| EValue     (* ValueError: css not allowed as encoding name *)
| EAttr      (* AttributeError (None has no .replace) *)
| EType      (* TypeError (None passed where str/bytes is needed) *)
| EIndex.    (* IndexError inside detectencoding_str (proved impossible: detect_total) *)

Inductive res (A : Type) := Ok (a : A) | Err (e : err).
Arguments Ok {A} a.
Arguments Err {A} e.

Definition isnone {A} (o : option A) : bool := match o with None => true | Some _ => false end.

(* encoding.replace("_", "-").lower() == "utf-8-sig"   (l.195, 232, 308, 379, 394) *)
Definition is_sig (e : str) : bool := eqs (lower (py_replace_char e 95%N 45%N)) (s "utf-8-sig").
Definition nosig (e : str) : str := if is_sig e then s "utf-8" else e.
Definition css_name : str := s "css".

(* _is_css(name): codecs.lookup(name).name == "css".  The css codec is found under every spelling that CPython's
   lookup normalisation (_Py_normalize_encoding: ASCII letters lowered, digits and '.' kept, every other run of
   characters -- non-ASCII included -- becomes one '_', none at the start or end) maps to "css". *)
Definition is_alnum_dot (c : N) : bool :=
  (N.leb 48 c && N.leb c 57) || (N.leb 65 c && N.leb c 90) || (N.leb 97 c && N.leb c 122) || N.eqb c 46.
Definition lower_ascii (c : N) : N := if N.leb 65 c && N.leb c 90 then N.add c 32 else c.
Fixpoint css_norm (x : str) (punct started : bool) : str :=
  match x with
  | [] => []
  | c :: r =>
    if is_alnum_dot c then
      (if punct && started then [95%N] else []) ++ lower_ascii c :: css_norm r false true
    else css_norm r true started
  end.
Definition is_css (e : str) : bool := eqs (css_norm e false false) css_name.

(* which encoding is used: l.216-221 (one-shot, final = true) and l.290-298 (incremental) *)
Inductive pick := PBuffer | PFail (e : err) | PEnc (e : str).

Definition pick_encoding (encoding : option str) (force : bool) (input : str) (final : bool) : pick :=
  let use_detect := match encoding with None => true | Some _ => negb force end in
  if use_detect then
    match detectencoding_str input final with
    | None => PFail EIndex
    | Some (None, _) => PBuffer
    | Some (Some e, explicit) =>
      if is_css e then PFail EValue
      else match encoding with
           | None => PEnc e
           | Some e' => if explicit && negb force then PEnc e else PEnc e'
           end
    end
  else match encoding with Some e' => PEnc e' | None => PFail EType end.

Section Model.
  (* the underlying codecs, for one fixed `errors` argument *)
  Variable dst : Type.                                   (* state of an incremental decoder *)
  Variable dinit : str -> option dst.                    (* codecs.getincrementaldecoder(name)(errors); None = LookupError *)
  Variable dstep : dst -> str -> bool -> dst * res str.  (* .decode(bytes, final) *)
  Variable dshot : str -> str -> res str.                (* codecs.getdecoder(name)(bytes, errors)[0] *)
  Variable est : Type.
  Variable einit : str -> option est.
  Variable estep : est -> str -> bool -> est * res str.
  Variable eshot : str -> str -> res str.

  (* ---------------------------------------------------------------- one-shot decode, l.206-225 *)
  Definition decode (input : str) (encoding : option str) (force : bool) : res str :=
    match pick_encoding encoding force input true with
    | PBuffer => Err EType                      (* codecs.getdecoder(None) *)
    | PFail e => Err e
    | PEnc e =>
      match dshot e input with
      | Err x => Err x
      | Ok t => match fixencoding t e true with Some r => Ok r | None => Err EType end
      end
    end.

  (* ---------------------------------------------------------------- one-shot encode, l.228-239 *)
  Definition encode_with (e : str) (oi : option str) : res str :=
    if is_css e then Err EValue
    else match oi with None => Err EType | Some i => eshot e i end.

  Definition encode (input : str) (encoding : option str) : res str :=
    match encoding with
    | None =>
      let e := match fst (detectencoding_unicode input true) with Some e => e | None => s "utf-8" end in
      encode_with e (if is_sig e then fixencoding input (s "utf-8") true else Some input)
    | Some e => encode_with e (fixencoding input e true)
    end.

  (* ---------------------------------------------------------------- IncrementalDecoder, l.260-316 *)
  Record dstate := mkD { ds_dec : option dst; ds_enc : option str; ds_force : bool;
                         ds_buf : str; ds_fixed : bool }.

  Definition dec_init (encoding : option str) (force : bool) : dstate :=
    mkD None encoding force [] false.

  (* l.302-316: a decoder exists *)
  Definition dec_with (st : dstate) (d : dst) (input : str) (final : bool) : dstate * res str :=
    match ds_enc st with
    | None => (st, Err EAttr)
    | Some enc =>
      let '(d', r) := dstep d input final in
      match r with
      | Err e => (mkD (Some d') (ds_enc st) (ds_force st) (ds_buf st) (ds_fixed st), Err e)
      | Ok o =>
        if ds_fixed st then (mkD (Some d') (ds_enc st) (ds_force st) (ds_buf st) true, Ok o)
        else
          let output := ds_buf st ++ o in
          match fixencoding output (nosig enc) final with
          | None => (mkD (Some d') (ds_enc st) (ds_force st) output false, Ok [])
          | Some r => (mkD (Some d') (ds_enc st) (ds_force st) (ds_buf st) true, Ok r)
          end
      end
    end.

  Definition dec_step (st : dstate) (input : str) (final : bool) : dstate * res str :=
    match ds_dec st with
    | Some d => dec_with st d input final
    | None =>
      let input := ds_buf st ++ input in
      match pick_encoding (ds_enc st) (ds_force st) input final with
      | PBuffer => (mkD None (ds_enc st) (ds_force st) input (ds_fixed st), Ok [])
      | PFail e => (st, Err e)
      | PEnc e =>
        match dinit e with
        | None => (mkD None (Some e) (ds_force st) [] (ds_fixed st), Err ELookup)
        | Some d => dec_with (mkD (Some d) (Some e) (ds_force st) [] (ds_fixed st)) d input final
        end
      end
    end.

  (* chunks are fed with final=False, `last` with final=True; an exception ends the run *)
  Fixpoint dec_feed (st : dstate) (chunks : list str) (last : str) : res str :=
    match chunks with
    | [] => snd (dec_step st last true)
    | c :: r =>
      match dec_step st c false with
      | (st', Ok o) => match dec_feed st' r last with Ok o' => Ok (o ++ o') | Err e => Err e end
      | (_, Err e) => Err e
      end
    end.

  (* the same run, call by call: the result of every call up to and including the first one that raises *)
  Fixpoint dec_trace (st : dstate) (chunks : list str) (last : str) : list (res str) :=
    match chunks with
    | [] => [snd (dec_step st last true)]
    | c :: r =>
      match dec_step st c false with
      | (st', Ok o) => Ok o :: dec_trace st' r last
      | (_, Err e) => [Err e]
      end
    end.

  (* ---------------------------------------------------------------- IncrementalEncoder, l.354-404 *)
  Record estate := mkE { es_enc : option est; es_encoding : option str; es_buf : str }.

  Definition enc_init (encoding : option str) : estate := mkE None encoding [].

  Definition enc_step (st : estate) (input : str) (final : bool) : estate * res str :=
    match es_enc st with
    | Some e => let '(e', r) := estep e input final in (mkE (Some e') (es_encoding st) (es_buf st), r)
    | None =>
      let input := es_buf st ++ input in
      let r1 : option (option str * str) :=          (* None: `return b""` at l.384 *)
        match es_encoding st with
        | Some enc => match fixencoding input (nosig enc) final with
                      | None => None
                      | Some ni => Some (Some enc, ni)
                      end
        | None =>
          let d := fst (detectencoding_unicode input final) in
          Some (match d with None => if final then Some (s "utf-8") else None | Some _ => d end, input)
        end in
      match r1 with
      | None => (mkE None (es_encoding st) input, Ok [])
      | Some (None, input) => (mkE None None input, Ok [])
      | Some (Some enc, input) =>
        if is_css enc then (mkE None (Some enc) (es_buf st), Err EValue)
        else match einit enc with
             | None => (mkE None (Some enc) (es_buf st), Err ELookup)
             | Some e =>
               match (if is_sig enc then fixencoding input (s "utf-8") true else Some input) with
               | None => (mkE (Some e) (Some enc) [], Err EType)
               | Some input =>
                 let '(e', r) := estep e input final in (mkE (Some e') (Some enc) [], r)
               end
             end
      end
    end.

  Fixpoint enc_feed (st : estate) (chunks : list str) (last : str) : res str :=
    match chunks with
    | [] => snd (enc_step st last true)
    | c :: r =>
      match enc_step st c false with
      | (st', Ok o) => match enc_feed st' r last with Ok o' => Ok (o ++ o') | Err e => Err e end
      | (_, Err e) => Err e
      end
    end.
  Fixpoint enc_trace (st : estate) (chunks : list str) (last : str) : list (res str) :=
    match chunks with
    | [] => [snd (enc_step st last true)]
    | c :: r =>
      match enc_step st c false with
      | (st', Ok o) => Ok o :: enc_trace st' r last
      | (_, Err e) => [Err e]
      end
    end.
  (* ---------------------------------------------------------------- StreamReader *)
  (* codecs.StreamReader.read (CPython) keeps the not yet consumed bytes, appends what the stream delivers and calls
     the css class's stateless  decode(data)  -> (text, consumed); there is no `final`.  The css decode answers
     ("", 0) = "call me again with more" until the encoding is known AND _fixencoding has an answer, creating a fresh
     underlying reader every time; then it keeps that reader and delegates (l.~503-525).
     The underlying reader is modelled by the incremental machine dstep with final = False: its state carries the
     bytes CPython keeps in bytebuffer.  An empty `data` is never decoded (`if not data: break`). *)
  Record rstate := mkR { rs_dec : option dst; rs_enc : option str; rs_force : bool; rs_bytes : str }.

  Definition sr_init (encoding : option str) (force : bool) : rstate := mkR None encoding force [].

  Definition sr_step (st : rstate) (newdata : str) : rstate * res str :=
    match rs_dec st with
    | Some d => let '(d', r) := dstep d newdata false in (mkR (Some d') (rs_enc st) (rs_force st) [], r)
    | None =>
      match rs_bytes st ++ newdata with
      | [] => (st, Ok [])
      | data =>
        match pick_encoding (rs_enc st) (rs_force st) data false with
        | PBuffer => (mkR None (rs_enc st) (rs_force st) data, Ok [])
        | PFail e => (st, Err e)
        | PEnc e =>
          match dinit e with
          | None => (mkR None (Some e) (rs_force st) data, Err ELookup)
          | Some d0 =>
            let '(d', r) := dstep d0 data false in
            match r with
            | Err x => (mkR None (Some e) (rs_force st) data, Err x)
            | Ok o =>
              match fixencoding o (nosig e) false with
              | None => (mkR None (Some e) (rs_force st) data, Ok [])      (* the reader is thrown away *)
              | Some t => (mkR (Some d') (Some e) (rs_force st) [], Ok t)
              end
            end
          end
        end
      end
    end.

  (* one read(): the stream delivers the (non-empty) chunks, then b"" -- the result of every decode call *)
  Fixpoint sr_trace (st : rstate) (chunks : list str) : list (res str) :=
    match chunks with
    | [] => [snd (sr_step st [])]
    | c :: r =>
      match sr_step st c with
      | (st', Ok o) => Ok o :: sr_trace st' r
      | (_, Err e) => [Err e]
      end
    end.

  (* StreamWriter.encode (l.~455-485) is a copy of IncrementalEncoder.encode that is never told about the end of the
     text: every write is enc_step with final = False.  The run of a StreamWriter, call by call: *)
  Fixpoint enc_trace_nf (st : estate) (chunks : list str) : list (res str) :=
    match chunks with
    | [] => []
    | c :: r =>
      match enc_step st c false with
      | (st', Ok o) => Ok o :: enc_trace_nf st' r
      | (_, Err e) => [Err e]
      end
    end.
End Model.

(* what a caller that joins the outputs observes of a trace *)
Fixpoint collapse (tr : list (res str)) : res str :=
  match tr with
  | [] => Ok []
  | Ok o :: r => match collapse r with Ok o' => Ok (o ++ o') | Err e => Err e end
  | Err e :: _ => Err e
  end.
