(* ProdParserItems.v -- pparse_consumes_prefix: the seq items, the token handed back and the unused tokens are, IN
   ORDER, a subsequence of the input: every item is made from its own input token (by one of the toSeq callbacks, as
   a comment, as kept whitespace, or as the object of a sub-parser started on that token), tokens are only dropped
   (S / COMMENT handling, toSeq=False, tokens eaten by sub-parsers, the token on which the parse failed), never
   invented, duplicated or reordered.  For all trees, environments, options, token lists. *)
From CssV Require Import Base Regex Tokenizer ProdParser ProdParserFacts.
Local Open Scope nat_scope.

Inductive Sub {A} : list A -> list A -> Prop :=
| Sub_nil l : Sub [] l
| Sub_cons x a b : Sub a b -> Sub (x :: a) (x :: b)
| Sub_skip x a b : Sub a b -> Sub a (x :: b).

Lemma Sub_refl {A} (l : list A) : Sub l l.
Proof. induction l; constructor; auto. Qed.
Lemma Sub_trans {A} (a b c : list A) : Sub a b -> Sub b c -> Sub a c.
Proof.
  intros H1 H2. revert a H1. induction H2; intros a0 H1.
  - inversion H1; constructor.
  - inversion H1; subst; [constructor|constructor; auto|apply Sub_skip; auto].
  - apply Sub_skip; auto.
Qed.
Lemma Sub_app_l {A} (p a b : list A) : Sub a b -> Sub a (p ++ b).
Proof. intros H. induction p; cbn; [exact H|apply Sub_skip; exact IHp]. Qed.
Lemma Sub_app {A} (a b c d : list A) : Sub a b -> Sub c d -> Sub (a ++ c) (b ++ d).
Proof. intros H1 H2. induction H1; cbn; [apply Sub_app_l; exact H2|constructor; auto|apply Sub_skip; auto]. Qed.
Lemma Sub_suffix {A} (a b : list A) : suffix a b -> Sub a b.
Proof. intros [p ->]. apply Sub_app_l, Sub_refl. Qed.
Lemma Sub_drop {A} (x : A) a b c : Sub (a ++ x :: b) c -> Sub (a ++ b) c.
Proof. intros H. eapply Sub_trans; [|exact H]. apply Sub_app; [apply Sub_refl|apply Sub_skip, Sub_refl]. Qed.
Lemma Sub_same_prefix {A} (p a b : list A) : Sub a b -> Sub (p ++ a) (p ++ b).
Proof. intros H. apply Sub_app; [apply Sub_refl|exact H]. Qed.

Lemma sor_raw_sub l t on pend l' :
  sor_raw l = Some (t, on, pend, l') -> Sub (t :: optl pend ++ l') l.
Proof.
  destruct l as [|a r]; [discriminate|]. cbn [sor_raw]. destruct (isS a).
  - pose proof (dropS_suffix r) as Hs. destruct (dropS r) as [|n r'] eqn:Hd.
    + intros H; inversion H; subst. cbn. constructor. constructor.
    + destruct (is_sub (val n) until).
      * intros H; inversion H; subst. cbn. apply Sub_skip. apply Sub_suffix. exact Hs.
      * destruct (isC n); intros H; inversion H; subst; cbn.
        -- apply Sub_skip. apply Sub_suffix. exact Hs.
        -- constructor. apply Sub_suffix. exact Hs.
  - destruct (isC a); intros H; inversion H; subst; cbn; apply Sub_refl.
Qed.

Lemma spull_sub own anc l t own' anc' l' :
  spull own anc l = Some (t, own', anc', l') -> Sub (t :: pendl own' ++ l') (pendl own ++ l).
Proof.
  destruct own as [| |x]; cbn [spull pendl app].
  - destruct anc.
    + destruct (sor_raw l) as [[[[t0 on] pend] l0]|] eqn:Hs; [|discriminate]. intros H; inversion H; subst. cbn [pendl app].
      pose proof (sor_raw_sub _ _ _ _ _ Hs) as H1. destruct pend; cbn [optl app] in *; exact H1.
    + destruct l as [|a r]; [discriminate|]. intros H; inversion H; subst. apply Sub_refl.
  - destruct (sor_raw l) as [[[[t0 on] pend] l0]|] eqn:Hs; [|discriminate]. intros H; inversion H; subst.
    pose proof (sor_raw_sub _ _ _ _ _ Hs) as H1. destruct pend; cbn [optl pendl app] in *; [exact H1|]. destruct on; exact H1.
  - intros H; inversion H; subst. apply Sub_refl.
Qed.

(* an item and the input token it is made from *)
Definition anchor (it : item) (t : tok) : Prop :=
  it = IStr (s "CSSComment") (val t) \/ it = IStr (ty t) (val t) \/
  (exists a ty' v', aplain a t = Some (ty', v') /\ it = IStr ty' v') \/
  (exists lab g w its mt, it = IObj lab g w its mt).

Definition sub_seq (sub : nat -> bool -> tok -> list tok -> out) : Prop :=
  forall g anc t l r, sub g anc t l = Ret r -> Sub (saved (r_stash r) ++ r_rest r) l.

Section Items.
  Variable o : opts.
  Variable sub : nat -> bool -> tok -> list tok -> out.
  Variable postof : nat -> option postcode.
  Hypothesis Hsub : sub_seq sub.
  Variable input : list tok.

  (* ts: the anchors of the items so far; they, the stash and the stream are a subsequence of the input *)
  Definition inv (st : lstate) : Prop :=
    exists ts, Forall2 anchor (rev (l_seq st)) ts /\ Sub (ts ++ saved (l_stash st) ++ full st) input.
  (* while the token t is being processed it sits between the anchors and the rest *)
  Definition inv_at (t : tok) (st : lstate) : Prop :=
    exists ts, Forall2 anchor (rev (l_seq st)) ts /\ Sub (ts ++ t :: saved (l_stash st) ++ full st) input.

  Lemma inv_at_drop t st : inv_at t st -> inv st.
  Proof. intros [ts [H1 H2]]. exists ts. split; [exact H1|]. eapply Sub_drop. exact H2. Qed.

  Lemma inv_at_item t st it st' :
    inv_at t st -> anchor it t -> l_seq st' = it :: l_seq st -> l_stash st' = l_stash st -> full st' = full st -> inv st'.
  Proof.
    intros [ts [H1 H2]] Ha E1 E2 E3. exists (ts ++ [t]). rewrite E1, E2, E3. cbn [rev]. split.
    - apply Forall2_app; [exact H1|constructor; [exact Ha|constructor]].
    - rewrite <- app_assoc. exact H2.
  Qed.

  Lemma inv_same st st' : inv st -> l_seq st' = l_seq st -> saved (l_stash st') = saved (l_stash st) -> full st' = full st -> inv st'.
  Proof. intros [ts [H1 H2]] E1 E2 E3. exists ts. rewrite E1, E2, E3. auto. Qed.

  Lemma process_inv p t st :
    saved (l_stash st) = [] -> inv_at t st ->
    match process sub postof p t st with
    | LCont st' | LBreak st' => inv st'
    | LOut _ => True
    end.
  Proof.
    intros Hsv Hat. unfold process.
    assert (Htail : forall st2, inv st2 ->
              match (if p_stop p then LBreak st2
                     else if p_stopkeep p then LBreak (set_stopall (set_keep (set_stash st2 (push_pushed t (l_stash st2))) t))
                     else if p_nextsor p then
                       LCont (set_defaultS (set_stream st2 SOn (l_anc st2)
                                (match l_own st2 with SPend x => x :: l_rest st2 | _ => l_rest st2 end)) false)
                     else LCont (set_defaultS st2 true)) with
              | LCont st' | LBreak st' => inv st'
              | LOut _ => True
              end).
    { intros st2 H2. destruct (p_stop p); [exact H2|]. destruct (p_stopkeep p); [exact H2|].
      destruct (p_nextsor p); [|exact H2].
      eapply inv_same; [exact H2|reflexivity|reflexivity|]. unfold full. cbn. destruct (l_own st2); reflexivity. }
    destruct (p_stopkeep p) eqn:Hk; [apply Htail, inv_at_drop with t, Hat|].
    destruct (p_toseq p) eqn:Ha;
      try (apply Htail; eapply inv_at_item; [exact Hat| |reflexivity|reflexivity|reflexivity];
           right; right; left; eexists _, _, _; split; [|reflexivity]; rewrite <- Ha; reflexivity);
      try (apply Htail, inv_at_drop with t, Hat); try exact I.
    - (* ADefault *) cbn [aplain]. apply Htail. eapply inv_at_item; [exact Hat| |reflexivity|reflexivity|reflexivity]. right. left. reflexivity.
    - destruct (aplain ANorm t) as [[ty' v']|] eqn:E; [|exact I]. apply Htail.
      eapply inv_at_item; [exact Hat| |reflexivity|reflexivity|reflexivity]. right; right; left. eauto.
    - destruct (aplain ALower t) as [[ty' v']|] eqn:E; [|exact I]. apply Htail.
      eapply inv_at_item; [exact Hat| |reflexivity|reflexivity|reflexivity]. right; right; left. eauto.
    - destruct (aplain AStrVal t) as [[ty' v']|] eqn:E; [|exact I]. apply Htail.
      eapply inv_at_item; [exact Hat| |reflexivity|reflexivity|reflexivity]. right; right; left. eauto.
    - destruct (aplain AUriVal t) as [[ty' v']|] eqn:E; [|exact I]. apply Htail.
      eapply inv_at_item; [exact Hat| |reflexivity|reflexivity|reflexivity]. right; right; left. eauto.
    - destruct (aplain (AConstTy ty) t) as [[ty' v']|] eqn:E; [|exact I]. apply Htail.
      eapply inv_at_item; [exact Hat| |reflexivity|reflexivity|reflexivity]. right; right; left. eauto.
    - (* ASub *)
      set (l := match l_own st with SPend x => x :: l_rest st | _ => l_rest st end).
      assert (Hl : l = full st) by (unfold l, full; destruct (l_own st); reflexivity).
      destruct (sub g _ t l) as [r| | | |] eqn:Hs; try exact I.
      destruct (postof g) as [pc|]; [|exact I]. destruct (post pc r) as [w its mt|]; [|exact I].
      apply Htail. destruct Hat as [ts [H1 H2]]. exists (ts ++ [t]). cbn. split.
      + apply Forall2_app; [exact H1|constructor; [|constructor]]. right; right; right. eauto 6.
      + rewrite <- app_assoc. cbn [app]. eapply Sub_trans; [|exact H2]. apply Sub_same_prefix. constructor.
        rewrite Hsv. cbn [app]. pose proof (Hsub _ _ _ _ _ Hs) as Hx. rewrite Hl in Hx.
        unfold full at 1. cbn. destruct (l_own st); cbn; try destruct (r_anc r); cbn; exact Hx.
  Qed.

  Lemma body_inv t st :
    saved (l_stash st) = [] -> inv_at t st ->
    match body o sub postof t st with
    | LCont st' | LBreak st' => inv st'
    | LOut _ => True
    end.
  Proof.
    intros Hsv Hat. unfold body.
    destruct (o_checkS o && negb (eqs (ty t) (s "COMMENT")) && eqs (ty t) (s "S") && l_afterS st); [exact (inv_at_drop t st Hat)|].
    set (st1 := if o_checkS o && negb (eqs (ty t) (s "COMMENT")) then set_afterS st (eqs (ty t) (s "S")) else st).
    assert (Hat1 : inv_at t st1) by (unfold st1; destruct (_ && _); exact Hat).
    assert (Hsv1 : saved (l_stash st1) = []) by (unfold st1; destruct (_ && _); exact Hsv).
    clearbody st1.
    destruct (eqs (ty t) (s "COMMENT")).
    { eapply inv_at_item; [exact Hat1| |reflexivity|reflexivity|reflexivity]. left. reflexivity. }
    destruct (l_defaultS st1 && eqs (ty t) (s "S") && negb (o_checkS o)).
    { destruct (_ || _); [exact (inv_at_drop t st1 Hat1)|].
      eapply inv_at_item; [exact Hat1| |reflexivity|reflexivity|reflexivity]. right. left. reflexivity. }
    destruct (eqs (ty t) (s "INVALID")); [eapply inv_same; [exact (inv_at_drop t st1 Hat1)|reflexivity..]|].
    destruct (eqs (ty t) (s "EOF")); [eapply inv_same; [exact (inv_at_drop t st1 Hat1)|reflexivity..]|].
    cbn [l_stack set_started].
    destruct (find _ (l_stack st1) t) as [p stack|stack|stack| |]; try exact I.
    - apply process_inv; [exact Hsv1|]. destruct Hat1 as [ts [H1 H2]]. exists ts. split; [exact H1|exact H2].
    - cbn. destruct (l_stopnm st1); cbn.
      + destruct Hat1 as [ts [H1 H2]]. exists ts. split; [exact H1|]. cbn. exact H2.
      + eapply inv_same; [exact (inv_at_drop t st1 Hat1)|reflexivity..].
    - cbn. eapply inv_same; [exact (inv_at_drop t st1 Hat1)|reflexivity..].
  Qed.

  Lemma rstripS_prefix l : exists q, rev l = rev (rstripS l) ++ q.
  Proof.
    induction l as [|it r IH]; cbn [rstripS]; [exists []; reflexivity|].
    destruct (eqs (item_ty it) (s "S")).
    - destruct IH as [q Hq]. exists (q ++ [it]). cbn [rev]. rewrite Hq, app_assoc. reflexivity.
    - exists []. now rewrite app_nil_r.
  Qed.

  Lemma Forall2_prefix {A B} (R : A -> B -> Prop) a q ts :
    Forall2 R (a ++ q) ts -> exists ts1 ts2, ts = ts1 ++ ts2 /\ Forall2 R a ts1.
  Proof. intros H. apply Forall2_app_inv_l in H. destruct H as [t1 [t2 [H1 [_ ->]]]]. eauto. Qed.

  Definition res_ok (r : result) : Prop :=
    exists ts, Forall2 anchor (r_items r) ts /\ Sub (ts ++ saved (r_stash r) ++ rfull r) input.

  Lemma finish_inv st r : inv st -> finish o st = Ret r -> res_ok r.
  Proof.
    intros [ts [H1 H2]]. unfold finish.
    assert (Hmk : forall (wf none : bool),
      res_ok (mkRes (if none : bool then false else wf) (if none then [] else rev (rstripS (l_seq st))) (if none then [] else l_store st)
                    none (l_keep st) (l_own st) (l_anc st) (l_rest st) (l_stash st))).
    { intros wf none. unfold res_ok, rfull. cbn. fold (full st). destruct none.
      - exists []. split; [constructor|]. cbn. eapply Sub_trans; [|exact H2]. apply Sub_app_l, Sub_refl.
      - destruct (rstripS_prefix (l_seq st)) as [q Hq]. rewrite Hq in H1.
        destruct (Forall2_prefix _ _ _ _ H1) as [t1 [t2 [-> Hf]]]. exists t1. split; [exact Hf|].
        eapply Sub_trans; [|exact H2]. rewrite <- app_assoc. apply Sub_same_prefix. apply Sub_app_l, Sub_refl. }
    destruct (l_stopall st); [intros H; inversion H; subst; exact (Hmk (l_wf st) false)|].
    destruct (final _ _ _) as [wf| |]; try discriminate.
    destruct (_ && _); intros H; inversion H; subst; [exact (Hmk false true)|exact (Hmk wf false)].
  Qed.

  Lemma loop_inv n st r :
    length (saved (l_stash st)) <= 1 -> sub_ok sub -> inv st -> loop o sub postof n st = Ret r -> res_ok r.
  Proof.
    intros Hs Hok. revert st Hs. induction n as [|n IH]; intros st Hs Hi; [discriminate|]. rewrite loop_unfold.
    destruct (pull st) as [[t st1]|] eqn:Hp; [|apply finish_inv; exact Hi].
    destruct (pull_spec st t st1 Hs Hp) as [Hsv1 _].
    assert (Hat : inv_at t st1).
    { destruct Hi as [ts [H1 H2]]. unfold pull in Hp. destruct (saved (l_stash st)) as [|a sv] eqn:Hsv.
      - destruct (spull _ _ _) as [[[[t0 own] anc] l]|] eqn:Hsp; [|discriminate]. inversion Hp; subst. exists ts.
        split; [exact H1|]. unfold full in *. cbn. rewrite Hsv. cbn [app] in *.
        eapply Sub_trans; [|exact H2]. apply Sub_same_prefix. exact (spull_sub _ _ _ _ _ _ _ Hsp).
      - inversion Hp; subst. exists ts. split; [exact H1|]. exact H2. }
    pose proof (body_inv t st1 Hsv1 Hat) as Hb.
    pose proof (body_ok o sub postof Hok t st1 Hsv1) as Hb2.
    destruct (body o sub postof t st1) as [st2|st2|x].
    - destruct Hb2 as [_ [_ [H3 _]]]. apply IH; assumption.
    - apply finish_inv. exact Hb.
    - destruct Hb2 as [_ Hb2]. intros H. exfalso. exact (Hb2 r H).
  Qed.
End Items.

(* the stash and the stream alone: what is left is an ordered subsequence of what was there *)
Section Seq.
  Variable o : opts.
  Variable sub : nat -> bool -> tok -> list tok -> out.
  Variable postof : nat -> option postcode.
  Hypothesis Hsub : sub_seq sub.
  Definition SS (st : lstate) : list tok := saved (l_stash st) ++ full st.

  Lemma process_seq p t st :
    saved (l_stash st) = [] ->
    match process sub postof p t st with
    | LCont st' | LBreak st' => Sub (SS st') (SS st)
    | LOut _ => True
    end.
  Proof.
    intros Hsv. unfold process.
    assert (Htail : forall st2, Sub (SS st2) (SS st) ->
              match (if p_stop p then LBreak st2
                     else if p_stopkeep p then LBreak (set_stopall (set_keep (set_stash st2 (push_pushed t (l_stash st2))) t))
                     else if p_nextsor p then
                       LCont (set_defaultS (set_stream st2 SOn (l_anc st2)
                                (match l_own st2 with SPend x => x :: l_rest st2 | _ => l_rest st2 end)) false)
                     else LCont (set_defaultS st2 true)) with
              | LCont st' | LBreak st' => Sub (SS st') (SS st)
              | LOut _ => True
              end).
    { intros st2 H2. destruct (p_stop p); [exact H2|]. destruct (p_stopkeep p); [exact H2|].
      destruct (p_nextsor p); [|exact H2].
      unfold SS, full in *. cbn. destruct (l_own st2); cbn in *; exact H2. }
    destruct (p_stopkeep p) eqn:Hk; [apply Htail, Sub_refl|].
    destruct (p_toseq p) eqn:Ha;
      try (cbn [aplain]; apply Htail, Sub_refl);
      try (destruct (aplain _ t) as [[ty' v']|]; [apply Htail, Sub_refl|exact I]); try exact I.
    set (l := match l_own st with SPend x => x :: l_rest st | _ => l_rest st end).
    assert (Hl : l = full st) by (unfold l, full; destruct (l_own st); reflexivity).
    destruct (sub g _ t l) as [r| | | |] eqn:Hs; try exact I.
    destruct (postof g) as [pc|]; [|exact I]. destruct (post pc r) as [w its mt|]; [|exact I].
    apply Htail. pose proof (Hsub _ _ _ _ _ Hs) as Hx. rewrite Hl in Hx.
    unfold SS at 2. rewrite Hsv. cbn [app]. unfold SS, full at 1. cbn.
    destruct (l_own st); cbn; try destruct (r_anc r); cbn; exact Hx.
  Qed.

  Lemma body_seq t st :
    saved (l_stash st) = [] ->
    match body o sub postof t st with
    | LCont st' => Sub (SS st') (SS st)
    | LBreak st' => Sub (SS st') ((if l_stopnm st then [t] else []) ++ SS st)
    | LOut _ => True
    end.
  Proof.
    intros Hsv.
    assert (Hw : forall st', Sub (SS st') (SS st) -> Sub (SS st') ((if l_stopnm st then [t] else []) ++ SS st))
      by (intros st' H; apply Sub_app_l; exact H).
    unfold body.
    destruct (o_checkS o && negb (eqs (ty t) (s "COMMENT")) && eqs (ty t) (s "S") && l_afterS st); [apply Sub_refl|].
    set (st1 := if o_checkS o && negb (eqs (ty t) (s "COMMENT")) then set_afterS st (eqs (ty t) (s "S")) else st).
    assert (E1 : SS st1 = SS st /\ saved (l_stash st1) = [] /\ l_stopnm st1 = l_stopnm st)
      by (unfold st1; destruct (_ && _); repeat split; assumption).
    destruct E1 as [E1 [E2 E3]]. clearbody st1.
    destruct (eqs (ty t) (s "COMMENT")); [rewrite <- E1; apply Sub_refl|].
    destruct (l_defaultS st1 && eqs (ty t) (s "S") && negb (o_checkS o)).
    { destruct (_ || _); rewrite <- E1; apply Sub_refl. }
    destruct (eqs (ty t) (s "INVALID")); [apply Hw; rewrite <- E1; apply Sub_refl|].
    destruct (eqs (ty t) (s "EOF")); [rewrite <- E1; apply Sub_refl|].
    cbn [l_stack set_started].
    destruct (find _ (l_stack st1) t) as [p stack|stack|stack| |]; try exact I.
    - pose proof (process_seq p t (set_found (set_started st1) stack (negb (p_mayend p)) (p_stopnm p || l_stopnm (set_started st1))) E2) as Hp.
      change (SS (set_found (set_started st1) stack (negb (p_mayend p)) (p_stopnm p || l_stopnm (set_started st1)))) with (SS st1) in Hp.
      rewrite E1 in Hp. destruct (process _ _ _ _ _); [exact Hp|apply Hw; exact Hp|exact I].
    - cbn. rewrite E3. destruct (l_stopnm st); cbn.
      + unfold SS. cbn. constructor. change (Sub (SS st1) (SS st)). rewrite E1. apply Sub_refl.
      + change (Sub (SS st1) (SS st)). rewrite E1. apply Sub_refl.
    - cbn. apply Hw. change (Sub (SS st1) (SS st)). rewrite E1. apply Sub_refl.
  Qed.

  Lemma loop_seq n st r :
    length (saved (l_stash st)) <= 1 -> sub_ok sub ->
    loop o sub postof n st = Ret r -> Sub (saved (r_stash r) ++ rfull r) (SS st).
  Proof.
    intros Hs Hok. revert st Hs. induction n as [|n IH]; intros st Hs; [discriminate|]. rewrite loop_unfold.
    assert (Hfin : forall st', finish o st' = Ret r -> saved (r_stash r) ++ rfull r = SS st').
    { intros st' H. destruct (finish_ret o st' _ H) as [_ F]. destruct (F r eq_refl) as [E1 [E2 [E3 _]]].
      unfold SS, rfull, full. now rewrite E1, E2, E3. }
    destruct (pull st) as [[t st1]|] eqn:Hp.
    2:{ intros H. rewrite (Hfin _ H). apply Sub_refl. }
    destruct (pull_spec st t st1 Hs Hp) as [Hsv1 _].
    assert (Hpull : Sub (t :: SS st1) (SS st)).
    { unfold pull in Hp. unfold SS. destruct (saved (l_stash st)) as [|a sv] eqn:Hsv.
      - destruct (spull _ _ _) as [[[[t0 own] anc] l]|] eqn:Hsp; [|discriminate]. inversion Hp; subst. cbn. rewrite Hsv. cbn [app].
        exact (spull_sub _ _ _ _ _ _ _ Hsp).
      - inversion Hp; subst. cbn. apply Sub_refl. }
    pose proof (body_seq t st1 Hsv1) as Hb.
    pose proof (body_ok o sub postof Hok t st1 Hsv1) as Hb2.
    destruct (body o sub postof t st1) as [st2|st2|x].
    - destruct Hb2 as [_ [_ [H3 _]]]. intros H. eapply Sub_trans; [apply (IH st2 H3 H)|].
      eapply Sub_trans; [exact Hb|]. eapply Sub_trans; [|exact Hpull]. apply Sub_skip, Sub_refl.
    - intros H. rewrite (Hfin _ H). eapply Sub_trans; [exact Hb|]. eapply Sub_trans; [|exact Hpull].
      destruct (l_stopnm st1); cbn [app]; [apply Sub_refl|apply Sub_skip, Sub_refl].
    - destruct Hb2 as [_ Hb2]. intros H. exfalso. exact (Hb2 r H).
  Qed.
End Seq.

Lemma pparse_sub_seq d env : sub_seq (fun g a t l => pparse_sub d env g a (Some t) l).
Proof.
  induction d as [|d IH]; intros g anc t l r; [discriminate|]. cbn [pparse_sub].
  destruct (nth_error env g) as [gr|]; [|discriminate]. unfold parse_tree.
  destruct (init_state _ _ _ _ _) as [st|] eqn:Hi; [|discriminate].
  destruct (init_full _ _ _ _ _ _ Hi) as [Hf [Hs Hnm]]. cbn [optl app] in Hf.
  unfold loop_fuel. cbn [stash0 saved length Nat.add]. rewrite loop_unfold.
  assert (Hsv : saved (l_stash st) = []) by (rewrite Hs; reflexivity).
  assert (Hpull : pull st = Some (t, set_stream st SOff (l_anc st) l)).
  { unfold pull. rewrite Hsv. unfold init_state in Hi. destruct (enter _); [|discriminate]. inversion Hi; subst. reflexivity. }
  rewrite Hpull. set (st1 := set_stream st SOff (l_anc st) l).
  assert (HS1 : SS st1 = l) by (unfold SS, st1; cbn; rewrite Hsv; reflexivity).
  assert (Hsv1 : saved (l_stash st1) = []) by exact Hsv.
  assert (Hnm1 : l_stopnm st1 = false) by exact Hnm.
  pose proof (body_seq (g_opts gr) _ (postof_env env) IH t st1 Hsv1) as Hb.
  pose proof (body_ok (g_opts gr) _ (postof_env env) (pparse_sub_ok d env) t st1 Hsv1) as Hb2.
  destruct (body _ _ _ t st1) as [st2|st2|x].
  - destruct Hb2 as [_ [_ [H3 _]]]. intros H.
    pose proof (loop_seq _ _ _ IH _ st2 r H3 (pparse_sub_ok d env) H) as Hq. rewrite HS1 in Hb.
    eapply Sub_trans; [|exact Hb]. eapply Sub_trans; [|exact Hq].
    apply Sub_same_prefix. unfold rfull. apply Sub_app_l, Sub_refl.
  - intros H. destruct (finish_ret _ st2 _ H) as [_ F]. destruct (F r eq_refl) as [E1 [E2 [E3 _]]].
    rewrite Hnm1, HS1 in Hb. cbn [app] in Hb. eapply Sub_trans; [|exact Hb]. unfold SS, full. rewrite E2, E3.
    apply Sub_same_prefix. apply Sub_app_l, Sub_refl.
  - destruct Hb2 as [_ Hb2]. intros H. exfalso. exact (Hb2 r H).
Qed.

(* pparse_consumes_prefix *)
Theorem pparse_items_in_order d env clear o t toks sh r :
  clear = true \/ length (saved sh) <= 1 ->
  pparse d env clear o t toks sh = Ret r ->
  exists ts, Forall2 anchor (r_items r) ts /\
             Sub (ts ++ saved (r_stash r) ++ rfull r) ((if clear then [] else saved sh) ++ toks).
Proof.
  intros Hc. unfold pparse, parse_tree. set (sh0 := if clear then stash0 else sh).
  assert (Hsh : length (saved sh0) <= 1) by (unfold sh0; destruct clear; [cbn; lia|destruct Hc; [discriminate|assumption]]).
  assert (Hsv0 : saved sh0 = if clear then [] else saved sh) by (unfold sh0; destruct clear; reflexivity).
  destruct (init_state t false None toks sh0) as [st|] eqn:Hi; [|discriminate]. intros H.
  destruct (init_full _ _ _ _ _ _ Hi) as [Hf [Hs _]]. cbn [optl app] in Hf.
  assert (Hseq : l_seq st = []) by (unfold init_state in Hi; destruct (enter _); [inversion Hi; reflexivity|discriminate]).
  rewrite <- Hsv0.
  apply (loop_inv o _ (postof_env env) (pparse_sub_seq d env) (saved sh0 ++ toks) (loop_fuel sh0 toks) st r); [rewrite Hs; exact Hsh|apply pparse_sub_ok| |exact H].
  exists []. rewrite Hseq, Hs, Hf. cbn. split; [constructor|apply Sub_refl].
Qed.
