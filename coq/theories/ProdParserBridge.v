(* ProdParserBridge.v -- the engine theorems restated against the definitions of the property builders.

   C06 (coq/theories/Globals.v) treats the token stash abstractly: a call body is an arbitrary strategy that emits the
   primitive events EvInit / EvPop / EvSave / EvPush on the cells `saved` / `pushed`.  What C06 trusts is the SHAPE of
   these events.  Here: every effect of the engine model on the two cells is a sequence of exactly these events
   (stash_events), and C06's do_ev executes them the same way on the regenerated bracket table (stash_events_globals). *)
From CssV Require Import Base Regex Tokenizer ProdParser ProdParserFacts.
From CssV Require Globals Gen.GlobalSites.
Local Open Scope nat_scope.

Inductive sev := SInit | SPop | SSave (t : tok) | SPush (t : tok).
Definition sdo (sh : stash) (e : sev) : stash :=
  match e with
  | SInit => stash0
  | SPop => mkStash (tl (saved sh)) (pushed sh)
  | SSave t => push_saved t sh
  | SPush t => push_pushed t sh
  end.
Definition srun (evs : list sev) (sh : stash) : stash := fold_left sdo evs sh.
Lemma srun_app a b sh : srun (a ++ b) sh = srun b (srun a sh).
Proof. unfold srun. apply fold_left_app. Qed.

Definition sub_ev (sub : nat -> bool -> tok -> list tok -> out) : Prop :=
  forall g anc t l r, sub g anc t l = Ret r -> exists evs, srun (SInit :: evs) stash0 = r_stash r.

Section Events.
  Variable o : opts.
  Variable sub : nat -> bool -> tok -> list tok -> out.
  Variable postof : nat -> option postcode.
  Hypothesis Hsub : sub_ev sub.

  Definition evs_to (sh sh' : stash) : Prop := exists evs, srun evs sh = sh'.
  Lemma evs_refl sh : evs_to sh sh. Proof. exists []. reflexivity. Qed.
  Lemma evs_trans a b c : evs_to a b -> evs_to b c -> evs_to a c.
  Proof. intros [x Hx] [y Hy]. exists (x ++ y). rewrite srun_app, Hx. exact Hy. Qed.
  Lemma evs_one e sh : evs_to sh (sdo sh e). Proof. exists [e]. reflexivity. Qed.

  Lemma process_ev p t st :
    match process sub postof p t st with
    | LCont st' | LBreak st' => evs_to (l_stash st) (l_stash st')
    | LOut x => forall r, x <> Ret r
    end.
  Proof.
    unfold process.
    assert (Htail : forall st2, evs_to (l_stash st) (l_stash st2) ->
              match (if p_stop p then LBreak st2
                     else if p_stopkeep p then LBreak (set_stopall (set_keep (set_stash st2 (push_pushed t (l_stash st2))) t))
                     else if p_nextsor p then
                       LCont (set_defaultS (set_stream st2 SOn (l_anc st2)
                                (match l_own st2 with SPend x => x :: l_rest st2 | _ => l_rest st2 end)) false)
                     else LCont (set_defaultS st2 true)) with
              | LCont st' | LBreak st' => evs_to (l_stash st) (l_stash st')
              | LOut x => forall r, x <> Ret r
              end).
    { intros st2 H2. destruct (p_stop p); [exact H2|]. destruct (p_stopkeep p).
      - cbn. eapply evs_trans; [exact H2|]. apply (evs_one (SPush t)).
      - destruct (p_nextsor p); exact H2. }
    destruct (p_stopkeep p) eqn:Hk; [apply Htail, evs_refl|].
    destruct (p_toseq p) eqn:Ha;
      try (cbn [aplain]; apply Htail, evs_refl);
      try (destruct (aplain _ t) as [[ty' v']|]; [apply Htail, evs_refl|intros ? ?; discriminate]).
    - destruct (sub g _ t _) as [r| | | |] eqn:Hs; try (intros ? ?; discriminate).
      destruct (postof g) as [pc|]; [|intros ? ?; discriminate]. destruct (post pc r) as [w its mt|]; [|intros ? ?; discriminate].
      apply Htail. cbn. destruct (Hsub _ _ _ _ _ Hs) as [evs He]. exists (SInit :: evs).
      unfold srun in *. cbn [fold_left sdo] in *. exact He.
    - intros ? ?; discriminate.
  Qed.

  Lemma body_ev t st :
    match body o sub postof t st with
    | LCont st' | LBreak st' => evs_to (l_stash st) (l_stash st')
    | LOut x => forall r, x <> Ret r
    end.
  Proof.
    unfold body.
    destruct (o_checkS o && negb (eqs (ty t) (s "COMMENT")) && eqs (ty t) (s "S") && l_afterS st); [apply evs_refl|].
    set (st1 := if o_checkS o && negb (eqs (ty t) (s "COMMENT")) then set_afterS st (eqs (ty t) (s "S")) else st).
    assert (E1 : l_stash st1 = l_stash st) by (unfold st1; destruct (_ && _); reflexivity).
    destruct (eqs (ty t) (s "COMMENT")); [cbn; rewrite E1; apply evs_refl|].
    destruct (l_defaultS st1 && eqs (ty t) (s "S") && negb (o_checkS o)).
    { destruct (_ || _); cbn; rewrite ?E1; apply evs_refl. }
    destruct (eqs (ty t) (s "INVALID")); [cbn; rewrite E1; apply evs_refl|].
    destruct (eqs (ty t) (s "EOF")); [cbn; rewrite E1; apply evs_refl|].
    cbn [l_stack set_started].
    destruct (find _ (l_stack st1) t) as [p stack|stack|stack| |]; try (intros ? ?; discriminate).
    - pose proof (process_ev p t (set_found (set_started st1) stack (negb (p_mayend p)) (p_stopnm p || l_stopnm (set_started st1)))) as Hp.
      cbn [l_stash set_found set_started] in Hp. rewrite E1 in Hp. exact Hp.
    - cbn. destruct (l_stopnm st1); cbn; rewrite E1; [apply (evs_one (SSave t))|apply evs_refl].
    - cbn. rewrite E1. apply evs_refl.
  Qed.

  Lemma loop_ev n st r : loop o sub postof n st = Ret r -> evs_to (l_stash st) (r_stash r).
  Proof.
    revert st. induction n as [|n IH]; intros st; [discriminate|]. rewrite loop_unfold.
    assert (Hfin : forall st', finish o st' = Ret r -> l_stash st' = r_stash r).
    { intros st' H. destruct (finish_ret o st' _ H) as [_ F]. destruct (F r eq_refl) as [_ [_ [E _]]]. now rewrite E. }
    unfold pull. destruct (saved (l_stash st)) as [|a sv] eqn:Hsv.
    - destruct (spull _ _ _) as [[[[t own] anc] l]|].
      + pose proof (body_ev t (set_stream st own anc l)) as Hb. cbn [l_stash set_stream] in Hb.
        destruct (body _ _ _ _ _) as [st2|st2|x].
        * intros H. eapply evs_trans; [exact Hb|]. apply IH. exact H.
        * intros H. rewrite <- (Hfin _ H). exact Hb.
        * intros H. exfalso. exact (Hb r H).
      + intros H. rewrite <- (Hfin _ H). apply evs_refl.
    - pose proof (body_ev a (set_stash st (mkStash sv (pushed (l_stash st))))) as Hb. cbn [l_stash set_stash] in Hb.
      assert (Hpop : evs_to (l_stash st) (mkStash sv (pushed (l_stash st)))).
      { exists [SPop]. unfold srun. cbn. rewrite Hsv. reflexivity. }
      destruct (body _ _ _ _ _) as [st2|st2|x].
      + intros H. eapply evs_trans; [exact Hpop|]. eapply evs_trans; [exact Hb|]. apply IH. exact H.
      + intros H. rewrite <- (Hfin _ H). eapply evs_trans; eauto.
      + intros H. exfalso. exact (Hb r H).
  Qed.
End Events.

Lemma pparse_sub_ev d env : sub_ev (fun g a t l => pparse_sub d env g a (Some t) l).
Proof.
  induction d as [|d IH]; intros g anc t l r; [discriminate|]. cbn [pparse_sub].
  destruct (nth_error env g) as [gr|]; [|discriminate]. unfold parse_tree.
  destruct (init_state _ _ _ _ _) as [st|] eqn:Hi; [|discriminate]. intros H.
  destruct (init_full _ _ _ _ _ _ Hi) as [_ [Hs _]].
  destruct (loop_ev _ _ _ IH _ _ _ H) as [evs He]. rewrite Hs in He. exists evs. exact He.
Qed.

(* every effect of a parse on savedTokens / tokenizer._pushed is a sequence of the four primitive events; a parse by a
   fresh ProdParser() starts with the clearing event *)
Theorem stash_events d env clear o t toks sh r :
  pparse d env clear o t toks sh = Ret r ->
  exists evs, srun ((if clear then [SInit] else []) ++ evs) sh = r_stash r.
Proof.
  unfold pparse, parse_tree. destruct (init_state _ _ _ _ _) as [st|] eqn:Hi; [|discriminate]. intros H.
  destruct (init_full _ _ _ _ _ _ Hi) as [_ [Hs _]].
  destruct (loop_ev _ _ _ (pparse_sub_ev d env) _ _ _ H) as [evs He]. rewrite Hs in He. exists evs.
  rewrite srun_app. destruct clear; exact He.
Qed.

(* ---- against C06's definitions: tokens are N there (any injective numbering) *)
Section Globals.
  Import Globals.
  Variable enc : tok -> N.
  Definition embed (g : G) (sh : ProdParser.stash) : G :=
    Globals.set_stash (map enc (ProdParser.saved sh)) (map enc (ProdParser.pushed sh)) g.
  Definition ev_of (e : sev) : ev :=
    match e with SInit => EvInit | SPop => EvPop | SSave t => EvSave (enc t) | SPush t => EvPush (enc t) end.

  (* C06's do_ev performs the event of the engine on the embedded cells -- for every bracket table whose
     ProdParser() clears both cells (the regenerated table of the current source does: see current_clears) *)
  Lemma do_ev_sdo st g sh e :
    pp_clears_saved st = true -> pp_clears_pushed st = true ->
    exists ob, do_ev st true (ev_of e) (embed g sh) = Some (embed g (sdo sh e), ob, true).
  Proof.
    intros H1 H2. destruct e; cbn [ev_of do_ev].
    - rewrite H1, H2. eexists. reflexivity.
    - destruct sh as [sv pu]. destruct sv; eexists; reflexivity.
    - eexists. reflexivity.
    - eexists. reflexivity.
  Qed.
End Globals.

Example current_clears :
  Globals.pp_clears_saved Gen.GlobalSites.current = true /\ Globals.pp_clears_pushed Gen.GlobalSites.current = true.
Proof. split; reflexivity. Qed.

(* ---- against C01's definitions (coq/theories/ParseTotal.v, ParseSkel.v, ParseSkelFacts.v):
   ParseSkelFacts.leaves_total assumes  forall k st run, exists st', leaf k st run = Returned st'.
   For the leaf LMediaQuery (MediaList.mediaText = the head of an @media rule) the engine model gives the leaf and the
   theorem: the constructor returns on every token run the tokenizer can produce (sane: a STRING token is not empty). *)
From CssV Require ParseTotal ParseSkel ProdParserSafe.
From CssV Require Import Gen.ProdTrees.
Section C01.
  Variable St : Type.
  Variable commit : St -> bool -> list item -> St.    (* what the caller does with wellformed / seq *)

  Definition exn_of_out (x : out) : ParseTotal.exn :=
    match x with DepthOut => ParseTotal.ValueError (* RecursionError *) | _ => ParseTotal.IndexError end.

  Definition media_leaf (st : St) (run : list tok) : ParseTotal.outcome St :=
    match build 6 env_real gid_MediaList run with
    | Some (PRet w its _) => ParseTotal.Returned (commit st w its)
    | Some PCrash => ParseTotal.Raised ParseTotal.IndexError
    | None => match pparse_env 6 env_real gid_MediaList run with
              | OutOfFuel => ParseTotal.OutOfFuel
              | x => ParseTotal.Raised (exn_of_out x)
              end
    end.

  Theorem media_leaf_returns :
    forall st run, ProdParserSafe.sane_toks run -> exists st', media_leaf st run = ParseTotal.Returned st'.
  Proof.
    intros st run Hs. destruct (ProdParserSafe.media_leaf_total run Hs) as [w [its [mt H]]].
    unfold media_leaf. rewrite H. eauto.
  Qed.

  (* the shape C01 needs: a leaf table that uses media_leaf for LMediaQuery satisfies the LMediaQuery instance of
     leaves_total on sane runs *)
  Corollary leaves_total_media (leaf : ParseSkel.leafkind -> St -> list tok -> ParseTotal.outcome St) :
    (forall st run, leaf ParseSkel.LMediaQuery st run = media_leaf st run) ->
    forall st run, ProdParserSafe.sane_toks run -> exists st', leaf ParseSkel.LMediaQuery st run = ParseTotal.Returned st'.
  Proof. intros H st run Hs. rewrite H. apply media_leaf_returns. exact Hs. Qed.
End C01.

(* ---- the side condition `sane` holds for every token list the tokenizer produces (model: Tokenizer.tokenize), so
   the media leaf returns on every run cut out of a tokenized text.  STRING tokens: C01's string_tokens_quoted_lemma;
   S tokens: the S production matches only characters of its character set, which holds neither + nor -. *)
From CssV Require Import Gen.Productions Gen.TokTables TokenizerFacts ParseTotalFacts.

Definition s_prod_ok (p : str * re) : bool :=
  if eqs (fst p) (s "S") then negb (cset (snd p) 43) && negb (cset (snd p) 45) else true.
Lemma productions_S_ok : forallb s_prod_ok productions = true.
Proof. vm_compute. reflexivity. Qed.

Definition not_sign (v : str) : Prop := mem_s v [s "+"; s "-"] = false.

Lemma try_prods_S ps dc fs prev rest name found pu :
  forallb s_prod_ok ps = true ->
  try_prods ps dc fs prev rest = Some (Step name found pu) -> name = s "S" -> not_sign found.
Proof.
  induction ps as [|[nm r] ps IH]; intros Hs H Hn; [discriminate|].
  cbn [forallb] in Hs. apply andb_true_iff in Hs as [Hp Hs]. unfold s_prod_ok in Hp. cbn [fst snd] in Hp.
  cbn [try_prods] in H.
  match type of H with (if ?b then _ else _) = _ => destruct b end.
  { inversion H; subst. discriminate. }
  destruct (rmatch r prev rest) as [n|] eqn:E; [|apply IH; assumption].
  match type of H with (if ?b then _ else _) = _ => destruct b; [apply IH; assumption|] end.
  match type of H with (if ?b then _ else _) = _ => destruct b eqn:Ei end.
  - inversion H; subst. discriminate.
  - match type of H with (if ?b then _ else _) = _ => destruct b eqn:Eu end.
    + repeat (apply andb_true_iff in Eu as [Eu ?]).
      match goal with Hq : eqs nm (s "FUNCTION") = true |- _ => apply eqs_spec in Hq; subst nm end.
      destruct (first_uri_end rest uri_ends); inversion H; subst; discriminate.
    + inversion H; subst. rewrite eqs_refl in Hp. apply andb_true_iff in Hp as [H43 H45].
      apply negb_true_iff in H43, H45.
      destruct (rmatch_cset _ _ _ _ E) as [Hall _]. unfold not_sign.
      destruct (firstn n rest) as [|c [|c2 r2]]; [reflexivity| |].
      * inversion Hall as [|? ? Hc _]; subst. cbn. 
        destruct (N.eqb c 43) eqn:E1; [apply N.eqb_eq in E1; subst; congruence|].
        destruct (N.eqb c 45) eqn:E2; [apply N.eqb_eq in E2; subst; congruence|]. reflexivity.
      * cbn. destruct (N.eqb c 43), (N.eqb c 45); reflexivity.
Qed.

Lemma atkeywords_not_S : forallb (fun p => negb (eqs (snd p) (s "S"))) atkeywords = true.
Proof. vm_compute. reflexivity. Qed.
Lemma assoc_str_not_S x tb sym :
  forallb (fun p => negb (eqs (snd p) (s "S"))) tb = true -> assoc_str x tb = Some sym -> sym <> s "S".
Proof.
  induction tb as [|[k v] tb IH]; intros Hf H; [discriminate|]. cbn [forallb snd] in Hf.
  apply andb_true_iff in Hf as [Hv Hf]. cbn [assoc_str] in H. destruct (eqs k x).
  - inversion H; subst. intros ->. rewrite eqs_refl in Hv. discriminate.
  - apply IH; assumption.
Qed.
Lemma S_not_resolved : mem_str (s "S") resolved_types = false. Proof. vm_compute. reflexivity. Qed.
Lemma charset_sym_not_S : charset_sym <> s "S". Proof. vm_compute. discriminate. Qed.

Lemma finish_token_S name found after name' found' value :
  finish_token name found after = (name', found', value) -> name' = s "S" -> name = s "S" /\ value = found.
Proof.
  unfold finish_token. intros H Hn.
  destruct (mem_str name resolved_types) eqn:Er.
  - injection H as <- <- <-. subst name. rewrite S_not_resolved in Er. discriminate.
  - destruct (eqs name (s "ATKEYWORD")) eqn:Ea.
    + exfalso. destruct (assoc_str (normalize_u found) atkeywords) as [sym|] eqn:Es.
      * injection H as <- <- <-. exact (assoc_str_not_S _ _ _ atkeywords_not_S Es Hn).
      * match type of H with (if ?b then _ else _) = _ => destruct b end; injection H as <- <- <-.
        -- exact (charset_sym_not_S Hn).
        -- discriminate.
    + injection H as <- <- <-. split; [exact Hn|reflexivity].
Qed.

Lemma loop_S_not_sign fuel : forall dc fs prev rest l c toks,
  Tokenizer.loop fuel dc fs prev rest l c = Some toks ->
  forall t, In t toks -> ty t = s "S" -> not_sign (val t).
Proof.
  induction fuel as [|fu IH]; intros dc fs prev rest l c toks H t Ht Hty.
  - destruct rest; [|discriminate]. cbn [Tokenizer.loop] in H. injection H as <-.
    destruct fs; simpl in Ht; [destruct Ht as [<-|[]]; discriminate|tauto].
  - destruct rest as [|ch rest1].
    { cbn [Tokenizer.loop] in H. injection H as <-.
      destruct fs; simpl in Ht; [destruct Ht as [<-|[]]; discriminate|tauto]. }
    cbn [Tokenizer.loop] in H. destruct (mem ch fastchars).
    + destruct (Tokenizer.loop fu dc fs (Some ch) rest1 l (c + 1)%nat) as [ts|] eqn:E; [|discriminate].
      cbn [option_map] in H. injection H as <-. destruct Ht as [<-|Ht]; [discriminate|].
      eapply IH; eauto.
    + destruct (try_prods productions dc fs prev (ch :: rest1)) as [[name found pu]|] eqn:E; [|discriminate].
      destruct pu.
      * destruct (finish_token name found (skipn (length found) (ch :: rest1))) as [[name' found'] value] eqn:Ef.
        destruct (upd_pos l c found') as [l' c'].
        destruct (Tokenizer.loop fu dc fs (last_opt prev found') (skipn (length found') (ch :: rest1)) l' c') as [ts|] eqn:El;
          [|discriminate].
        cbn [option_map] in H. injection H as <-.
        assert (Hhead : ty (mkTok name' found' value l c) = s "S" -> not_sign value).
        { cbn [ty]. intros Hn. destruct (finish_token_S _ _ _ _ _ _ Ef Hn) as [Hname ->].
          eapply try_prods_S; eauto using productions_S_ok. }
        match type of Ht with context[if ?b then _ else _] => destruct b end.
        -- destruct Ht as [<-|Ht]; [apply Hhead; exact Hty|eapply IH; eauto].
        -- eapply IH; eauto.
      * injection H as <-.
        apply try_prods_false_comment in E. subst name.
        destruct Ht as [<-|Ht]; [cbn [ty] in Hty; discriminate|].
        destruct fs; simpl in Ht; [destruct Ht as [<-|[]]; discriminate|tauto].
Qed.

Lemma bom_not_S : fst bom_production <> s "S". Proof. vm_compute. discriminate. Qed.

Theorem tokenize_sane : forall dc fs text toks, tokenize dc fs text = Some toks -> ProdParserSafe.sane_toks toks.
Proof.
  intros dc fs text toks H. apply Forall_forall. intros t Ht. split.
  - intros Hty. apply eqs_spec in Hty.
    destruct (string_tokens_quoted_lemma dc fs text toks H t Ht Hty) as [q [body [_ Hv]]]. rewrite Hv. discriminate.
  - intros Hv. destruct (eqs (ty t) (s "S")) eqn:Hty; [|reflexivity]. exfalso. apply eqs_spec in Hty.
    assert (Hns : not_sign (val t)).
    { apply tokenize_split in H as (bom & cs & rest1 & prev1 & c1 & ts & -> & Hb & _ & _ & Hcs & Hl).
      apply in_app_or in Ht as [Ht|Ht].
      - exfalso. destruct Hb as [->|(b & -> & Hbt & _)]; [destruct Ht|].
        destruct Ht as [<-|[]]. rewrite Hty in Hbt. exact (bom_not_S (eq_sym Hbt)).
      - apply in_app_or in Ht as [Ht|Ht].
        + exfalso. destruct Hcs as [[-> _]|[-> _]]; [destruct Ht|].
          destruct Ht as [<-|[]]. cbn [ty] in Hty. exact (charset_sym_not_S Hty).
        + eapply loop_S_not_sign; eauto. }
    unfold not_sign in Hns. congruence.
Qed.

(* the form C01 can use: every run cut out of a tokenized text (a sublist) is sane, so the media leaf returns on it *)
Corollary media_leaf_returns_tokenized (St : Type) (commit : St -> bool -> list item -> St) :
  forall dc fs text toks run st,
  tokenize dc fs text = Some toks -> (forall t, In t run -> In t toks) ->
  exists st', media_leaf St commit st run = ParseTotal.Returned st'.
Proof.
  intros dc fs text toks run st H Hsub. apply media_leaf_returns.
  pose proof (tokenize_sane _ _ _ _ H) as Hs. apply Forall_forall. intros t Ht.
  unfold ProdParserSafe.sane_toks in Hs. rewrite Forall_forall in Hs. auto.
Qed.

(* ---- the value half of C01's leaf LProperty: PropertyValue(cssText = the value run) with the interpreter's depth
   budget above the number of tokens (the nesting of sub-parsers cannot exceed it: ProdParserDepth) *)
From CssV Require ProdParserDepth.
Section C01Value.
  Variable St : Type.
  Variable commit : St -> bool -> list item -> St.
  Definition value_leaf (st : St) (run : list tok) : ParseTotal.outcome St :=
    match pparse_env (S (length run)) env_real gid_PropertyValue run with
    | Ret r => match post PostPV r with
               | PRet w its _ => ParseTotal.Returned (commit st w its)
               | PCrash => ParseTotal.Raised ParseTotal.IndexError
               end
    | OutOfFuel => ParseTotal.OutOfFuel
    | x => ParseTotal.Raised (exn_of_out x)
    end.
  Theorem value_leaf_returns :
    forall st run, ProdParserSafe.sane_toks run -> exists st', value_leaf st run = ParseTotal.Returned st'.
  Proof.
    intros st run Hs. destruct (ProdParserDepth.property_value_total run (S (length run)) Hs (Nat.lt_succ_diag_r _)) as [r [H1 H2]].
    unfold value_leaf. rewrite H1. destruct (post PostPV r) as [w its mt|]; [eauto|congruence].
  Qed.
  Corollary value_leaf_returns_tokenized :
    forall dc fs text toks run st,
    tokenize dc fs text = Some toks -> (forall t, In t run -> In t toks) ->
    exists st', value_leaf st run = ParseTotal.Returned st'.
  Proof.
    intros dc fs text toks run st H Hsub. apply value_leaf_returns.
    pose proof (tokenize_sane _ _ _ _ H) as Hs. apply Forall_forall. intros t Ht.
    unfold ProdParserSafe.sane_toks in Hs. rewrite Forall_forall in Hs. auto.
  Qed.
End C01Value.
