(* EscapeEncBackslash.v -- C13: texts WITH literal backslashes.  For every text (any number of backslashes before
   an unencodable character included) the tokenizer's escape resolution of the escaped spelling equals its escape
   resolution of the text itself:  unicodesub (escape_unenc t) = unicodesub t.  Hence the text comes back exactly
   when it was a fixpoint of unicodesub to begin with -- no backslash-parity condition at HEAD (unicodesub ignores
   parity; seeded C13-4 introduced one and broke this).  Reuses the C09 lemmas about one match of the escape regex. *)
From CssV Require Import Base Regex RegexFacts LexemeRegex Gen.TokTables Tokenizer TokenizerFacts.
From CssV Require Import Lexemes LexemeFacts LexemeEscape EscapeEnc EscapeEncFacts EscapeEncLexemes.

(* the longest hex run of at most n characters, and the optional terminator *)
Fixpoint take_hex (n : nat) (t : str) : str * str :=
  match n, t with
  | S k, c :: r => if Lexemes.is_hex c then let '(a, b) := take_hex k r in (c :: a, b) else ([], t)
  | _, _ => ([], t)
  end.
Definition take_term (t : str) : str * str :=
  match t with
  | [] => ([], [])
  | c :: r =>
    if N.eqb c 13 then
      match r with
      | d :: r' => if N.eqb d 10 then ([13%N; 10%N], r') else ([13%N], r)
      | [] => ([13%N], [])
      end
    else if is_ws c then ([c], r) else ([], t)
  end.

Lemma take_hex_spec n : forall t a b, take_hex n t = (a, b) ->
  t = a ++ b /\ forallb Lexemes.is_hex a = true /\ (length a <= n)%nat /\
  (length a = n \/ hd_not Lexemes.is_hex b = true).
Proof.
  induction n as [|k IH]; intros t a b H.
  - simpl in H. destruct t; injection H as <- <-; repeat split; auto.
  - destruct t as [|c r]; [injection H as <- <-; repeat split; simpl; auto; lia|].
    cbn [take_hex] in H. destruct (Lexemes.is_hex c) eqn:Ec.
    + destruct (take_hex k r) as [a' b'] eqn:E. injection H as <- <-.
      destruct (IH _ _ _ E) as (-> & Hh & Hl & Hs). repeat split; simpl; auto; try lia.
      * now rewrite Ec, Hh.
      * destruct Hs; [left; lia|right; assumption].
    + injection H as <- <-. repeat split; simpl; auto; try lia. right. now rewrite Ec.
Qed.

Lemma take_term_spec t a b : take_term t = (a, b) ->
  t = a ++ b /\ mem_str a terms = true /\
  match a with [] => hd_not is_ws b = true | [13%N] => hd_not (is_c 10) b = true | _ => True end.
Proof.
  unfold take_term. destruct t as [|c r]; [intros H; injection H as <- <-; auto|].
  destruct (N.eqb_spec c 13) as [->|Hc].
  - destruct r as [|d r'].
    + intros H. injection H as <- <-. repeat split; reflexivity.
    + destruct (N.eqb d 10) eqn:Ed; intros H; injection H as <- <-.
      * apply N.eqb_eq in Ed. subst d. repeat split; reflexivity.
      * repeat split; try reflexivity. simpl. unfold is_c. now rewrite Ed.
  - destruct (is_ws c) eqn:Ew; intros H; injection H as <- <-.
    + unfold is_ws, ws_rs in Ew. cbn [in_ranges] in Ew.
      rewrite !orb_true_iff, !andb_true_iff, !N.leb_le in Ew.
      assert (Hcase : c = 9%N \/ c = 10%N \/ c = 12%N \/ c = 32%N) by lia.
      destruct Hcase as [->|[->|[->| ->]]]; repeat split; reflexivity.
    + repeat split; auto. simpl. now rewrite Ew.
Qed.

Section Backslash.
  Variable encc : N -> option (list N).
  Hypothesis Hasc : forall c, (c < 128)%N -> encodable encc c = true.
  Notation Esc := (escape_unenc encc).

  Lemma Esc_cons c r : Esc (c :: r) = (if encodable encc c then [c] else esc_or_nil c) ++ Esc r.
  Proof. reflexivity. Qed.

  (* the head of the escaped text is the head of the text, or a backslash *)
  Lemma hd_not_Esc (f : N -> bool) t : f 92%N = false -> hd_not f t = true -> hd_not f (Esc t) = true.
  Proof.
    intros H92 H. destruct t as [|c r]; [reflexivity|]. rewrite Esc_cons.
    destruct (encodable encc c); [exact H|].
    destruct (esc_or_nil_shape c) as (h & _ & ->). simpl. now rewrite H92.
  Qed.

  Lemma hex_ascii_run a : forallb Lexemes.is_hex a = true -> forallb (fun c => N.ltb c 128) a = true.
  Proof.
    intros H. apply forallb_forall. intros x Hx. rewrite forallb_forall in H. apply H in Hx.
    rewrite <- is_hex_same in Hx. apply N.ltb_lt. now apply is_hex_ascii.
  Qed.
  Lemma term_ascii a : mem_str a terms = true -> forallb (fun c => N.ltb c 128) a = true.
  Proof. intros H. apply in_terms in H. destruct H as [->|[->|[->|[->|[->|[->| ->]]]]]]; reflexivity. Qed.

  Lemma resolves_general : forall n t fuel fuel2 prev prev2, (length t <= n)%nat -> valid t ->
    (length (Esc t) < fuel)%nat -> (length t < fuel2)%nat ->
    sub_all_fuel fuel usub_re repl prev (Esc t) = sub_all_fuel fuel2 usub_re repl prev2 t.
  Proof.
    induction n as [|n IH]; intros t fuel fuel2 prev prev2 Hn Hv Hf Hf2.
    - destruct t; [|simpl in Hn; lia]. destruct fuel, fuel2; reflexivity.
    - destruct t as [|c r]; [destruct fuel, fuel2; reflexivity|].
      assert (Hv' : valid r) by (intros x Hx; apply Hv; right; exact Hx).
      simpl in Hn. destruct fuel as [|fu]; [lia|]. destruct fuel2 as [|fu2]; [simpl in Hf2; lia|]. simpl in Hf2.
      rewrite Esc_cons in *. destruct (encodable encc c) eqn:Ec.
      + cbn [app] in *. destruct (N.eqb_spec c 92) as [->|Hc].
        * (* a literal backslash *)
          destruct (take_hex 6 r) as [ds r1] eqn:Eh. destruct (take_hex_spec _ _ _ _ Eh) as (Hr & Hhex & Hl6 & Hstop).
          destruct ds as [|d0 ds'].
          { (* no hex digit follows: no match on either side *)
            simpl in Hr. subst r1. assert (Hnh : hd_not Lexemes.is_hex r = true) by (destruct Hstop as [H|H]; [discriminate|exact H]).
            rewrite sub_step_none by (apply usub_none_nohex; apply hd_not_Esc; [reflexivity|exact Hnh]).
            rewrite (sub_step_none _ _ fu2) by (now apply usub_none_nohex).
            f_equal. apply IH; auto; try lia. simpl in Hf. lia. }
          destruct (take_term r1) as [tm r2] eqn:Et. destruct (take_term_spec _ _ _ Et) as (Hr1 & Htm & Hnext).
          set (ds := d0 :: ds') in *.
          assert (Hwf : forall nxt, (hd_not is_ws r2 = true -> hd_not is_ws nxt = true) ->
                                    (hd_not Lexemes.is_hex r2 = true -> hd_not Lexemes.is_hex nxt = true) ->
                                    (hd_not (is_c 10) r2 = true -> hd_not (is_c 10) nxt = true) ->
                                    wf_el (fun _ => false) false (H ds tm) nxt = true).
          { intros nxt Hw Hx H10. cbn [wf_el]. rewrite Hhex, Htm.
            replace (Nat.leb 1 (length ds)) with true by (symmetry; apply Nat.leb_le; simpl; lia).
            replace (Nat.leb (length ds) 6) with true by (symmetry; apply Nat.leb_le; exact Hl6).
            cbn [andb]. destruct tm as [|t0 tm'].
            - rewrite (Hw Hnext). cbn [andb]. simpl in Hr1. subst r1.
              destruct Hstop as [Hs|Hs]; [rewrite Hs; reflexivity|]. rewrite (Hx Hs). apply orb_true_r.
            - destruct tm' as [|t1 t2]; [|destruct t0 as [|p]; try reflexivity; do 4 (destruct p as [p|p|]; try reflexivity)].
              destruct (N.eqb_spec t0 13) as [->|Hn13]; [apply H10; exact Hnext|].
              destruct t0 as [|p]; try reflexivity. do 4 (destruct p as [p|p|]; try reflexivity).
              exfalso. apply Hn13. reflexivity. }
          assert (Ha : forallb (fun c => N.ltb c 128) (ds ++ tm) = true)
            by (rewrite forallb_app, (hex_ascii_run _ Hhex), (term_ascii _ Htm); reflexivity).
          assert (HE : Esc r = (ds ++ tm) ++ Esc r2).
          { rewrite Hr, Hr1, app_assoc, Esc_app, (Esc_ascii encc Hasc _ Ha). reflexivity. }
          assert (Hrr : r = (ds ++ tm) ++ r2) by (rewrite Hr, Hr1; apply app_assoc).
          rewrite HE. change (92%N :: (ds ++ tm) ++ Esc r2) with ((92%N :: ds ++ tm) ++ Esc r2).
          rewrite sub_step_hit by (apply first_usub; apply Hwf; intros Hq; apply hd_not_Esc; auto).
          rewrite Hrr. change (92%N :: (ds ++ tm) ++ r2) with ((92%N :: ds ++ tm) ++ r2).
          rewrite (sub_step_hit _ _ fu2) by (apply first_usub; apply Hwf; auto).
          f_equal.
          assert (Hlen : (length r2 <= n)%nat).
          { rewrite Hrr, !app_length in Hn. simpl in Hn. lia. }
          assert (Hv2 : valid r2) by (intros x Hx; apply Hv'; rewrite Hrr; apply in_or_app; right; exact Hx).
          apply IH; auto.
          -- rewrite HE in Hf. simpl in Hf. rewrite app_length in Hf. lia.
          -- rewrite Hrr, app_length in Hf2. lia.
        * rewrite sub_step_none by (apply usub_none_nobs; now apply N.eqb_neq).
          rewrite (sub_step_none _ _ fu2) by (apply usub_none_nobs; now apply N.eqb_neq).
          f_equal. apply IH; auto; try lia. simpl in Hf. lia.
      + (* an unencodable character: not ASCII, in particular not a backslash *)
        assert (Hc : c <> 92%N) by (intros ->; rewrite Hasc in Ec; [discriminate|lia]).
        rewrite (sub_step_none _ _ fu2) by (apply usub_none_nobs; now apply N.eqb_neq).
        destruct (esc_or_nil_shape c) as (h & Hh & Hesc). rewrite Hesc in *.
        destruct (hexdigits_spec true c) as (h' & Hh' & Hl1 & Hx & _). rewrite Hh in Hh'. injection Hh' as <-.
        assert (Hl6 : (length h <= 6)%nat) by (eapply hexdigits_len; [apply Hv; left; reflexivity|exact Hh]).
        assert (Hw : wf_el (fun _ => false) false (H h [32%N]) (Esc r) = true).
        { cbn [wf_el]. replace (Nat.leb 1 (length h)) with true by (symmetry; now apply Nat.leb_le).
          replace (Nat.leb (length h) 6) with true by (symmetry; now apply Nat.leb_le).
          replace (forallb Lexemes.is_hex h) with true; [reflexivity|].
          symmetry. rewrite (forallb_ext' Lexemes.is_hex EscapeEncFacts.is_hex h); [exact Hx|].
          intros x. symmetry. apply is_hex_same. }
        replace ((92%N :: h ++ [32%N]) ++ Esc r) with ((92%N :: h ++ [32%N]) ++ Esc r) by reflexivity.
        rewrite sub_step_hit by (apply first_usub; exact Hw).
        unfold repl at 1. cbn [tl]. rewrite (hexdigits_value true c h Hh).
        assert (Hle : N.leb c maxunicode = true) by (apply N.leb_le, Hv; left; reflexivity).
        rewrite Hle. cbn [app]. f_equal. apply IH; auto; try lia.
        cbn [length app] in Hf. rewrite app_length in Hf. lia.
  Qed.

  Theorem escape_resolves_general_lemma t : valid t -> unicodesub (Esc t) = unicodesub t.
  Proof.
    intros Hv. unfold unicodesub, sub_all. rewrite usub_shape.
    apply (resolves_general (length t)); auto.
  Qed.

  (* what exactly round-trips: the text comes back iff it contains no hex escape of its own *)
  Corollary roundtrip_iff_fixpoint_lemma t : valid t -> (unicodesub (Esc t) = t <-> unicodesub t = t).
  Proof. intros Hv. rewrite (escape_resolves_general_lemma t Hv). tauto. Qed.

  (* texts in which no backslash is directly followed by a hex digit (so: any number of backslashes directly before
     an unencodable character, the trigger of seeded C13-4, is fine) come back unchanged *)
  Fixpoint bs_ok (t : str) : bool :=
    match t with
    | [] => true
    | c :: r => (negb (N.eqb c 92) || hd_not Lexemes.is_hex r) && bs_ok r
    end.

  Lemma unicodesub_bs_ok : forall t fuel prev, bs_ok t = true -> sub_all_fuel fuel usub_re repl prev t = t.
  Proof.
    induction t as [|c r IH]; intros fuel prev H; [destruct fuel; reflexivity|].
    destruct fuel as [|fu]; [reflexivity|]. cbn [bs_ok] in H. apply andb_true_iff in H as [Hc Hr].
    rewrite sub_step_none; [f_equal; now apply IH|].
    destruct (N.eqb_spec c 92) as [->|Hn]; [|apply usub_none_nobs; now apply N.eqb_neq].
    apply usub_none_nohex. exact Hc.
  Qed.

  Corollary escape_resolves_backslash_lemma t : valid t -> bs_ok t = true -> unicodesub (Esc t) = t.
  Proof.
    intros Hv Hb. rewrite (escape_resolves_general_lemma t Hv). unfold unicodesub, sub_all. rewrite usub_shape.
    now apply unicodesub_bs_ok.
  Qed.
End Backslash.
