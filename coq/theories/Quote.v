(* Quote.v -- C03: the fixed Gallina reading of the Python operations that
   translate/quote.py accepts (it regenerates helper.string, helper.stringvalue and
   util.Base._stringtokenvalue into Gen/Quote.v on every run), and the "first token"
   observation of the shared tokenizer model.

     Python                          Gallina
     ------------------------------  -------------------------------------------------
     x.replace(a, b)  (a non-empty)  py_replace x a b   leftmost, non-overlapping
     x.endswith(y)                   py_endswith x y
     x[a:-b] x[a:] x[:-b] (consts)   py_slice_nn a b x  (Python clamping for a >= 0, b >= 0)
     x[0]                            py_index0 x : res N   (Crash = IndexError)
     '"%s"' % v                      [34] ++ v ++ [34]   (folded by the translator)
     token[1]                        val t
     if token: ... else: ...         match token with Some t => ... | None => ... end

   Definitions only; the proofs are in QuoteFacts.v.                                    *)
From CssV Require Import Base Regex Tokenizer.

(* outcome of a partial Python expression *)
Inductive res (A : Type) : Type :=
| Ok (a : A)
| Crash.                 (* IndexError *)
Arguments Ok {A} a.
Arguments Crash {A}.

Definition py_index0 (x : str) : res N :=
  match x with c :: _ => Ok c | [] => Crash end.

(* x.replace(a, b) for non-empty a: scan left to right, replace the leftmost occurrence,
   continue after it (occurrences do not overlap).  Fuel = S (length x); never exhausted. *)
Fixpoint py_replace_fuel (fuel : nat) (x a b : str) : str :=
  match fuel with
  | O => x
  | S f =>
    match x with
    | [] => []
    | c :: x' => if starts a x then b ++ py_replace_fuel f (skipn (length a) x) a b
                 else c :: py_replace_fuel f x' a b
    end
  end.
Definition py_replace (x a b : str) : str := py_replace_fuel (S (length x)) x a b.

Definition py_endswith (x suf : str) : bool := starts (rev suf) (rev x).

(* x[a : len(x)-b] with Python's clamping (constants a, b >= 0) *)
Definition py_slice_nn (a b : nat) (x : str) : str := firstn (length x - a - b) (skipn a x).

(* ---- observation used by the round-trip theorems: the first token the tokenizer
        model yields for a text *)
Definition first_token (dc fs : bool) (text : str) : option tok :=
  match tokenize dc fs text with
  | Some (t :: _) => Some t
  | _ => None
  end.

(* the code point lists of the texts the theorems talk about *)
Definition no_backslash (v : str) : Prop := ~ In 92%N v.
