(* Base.v -- shared conventions: a Python str is a list of code points (N).      *)
From Coq Require Export String Ascii.
From Coq Require Export NArith ZArith Bool Arith Lia List.
Export ListNotations.

Definition str := list N.

(* ASCII literal -> str;   s "@charset "  *)
Fixpoint s_of_string (x : string) : str :=
  match x with
  | EmptyString => []
  | String a r => N_of_ascii a :: s_of_string r
  end.
Notation s := s_of_string.

Fixpoint eqs (a b : str) : bool :=
  match a, b with
  | [], [] => true
  | x :: a', y :: b' => N.eqb x y && eqs a' b'
  | _, _ => false
  end.

Lemma eqs_spec a b : eqs a b = true <-> a = b.
Proof.
  revert b; induction a as [|x a IH]; intros [|y b]; simpl; split; try congruence; intros H.
  - apply andb_true_iff in H as [H1 H2]. apply N.eqb_eq in H1. apply IH in H2. congruence.
  - inversion H; subst. rewrite N.eqb_refl. simpl. now apply IH.
Qed.

Lemma eqs_refl a : eqs a a = true.
Proof. now apply eqs_spec. Qed.

Fixpoint starts (pat text : str) : bool :=      (* text.startswith(pat) *)
  match pat, text with
  | [], _ => true
  | p :: pat', c :: text' => N.eqb p c && starts pat' text'
  | _ :: _, [] => false
  end.

Lemma starts_spec pat text : starts pat text = true <-> exists r, text = pat ++ r.
Proof.
  revert text; induction pat as [|p pat IH]; intros text; simpl.
  - split; eauto.
  - destruct text as [|c text]; [split; [discriminate|intros [r Hr]; discriminate]|].
    rewrite andb_true_iff, N.eqb_eq, IH. split.
    + intros [-> [r ->]]. eauto.
    + intros [r Hr]. inversion Hr; subst. eauto.
Qed.

Fixpoint mem (c : N) (l : str) : bool :=
  match l with [] => false | x :: r => N.eqb x c || mem c r end.

Lemma mem_In c l : mem c l = true <-> In c l.
Proof.
  induction l as [|x r IH]; simpl; [split; [discriminate|tauto]|].
  rewrite orb_true_iff, N.eqb_eq, IH. tauto.
Qed.

Definition orelse {A} (a b : option A) : option A :=
  match a with Some _ => a | None => b end.

Lemma orelse_some {A} (a b : option A) v :
  orelse a b = Some v -> a = Some v \/ (a = None /\ b = Some v).
Proof. destruct a; simpl; intros H; [left|right]; auto. Qed.

Lemma firstn_skipn_len {A} n (l : list A) : (n <= length l)%nat -> length (firstn n l) = n.
Proof. intros; rewrite firstn_length; lia. Qed.
