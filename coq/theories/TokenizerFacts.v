(* TokenizerFacts.v -- proofs about the tokenizer model (C08, used by C01/C09). *)
From CssV Require Import Base Regex RegexFacts RegexTotal Gen.Productions Gen.TokTables Gen.PyTables Tokenizer.

(* ------------------------------------------------------------------ facts about the generated tables *)
Lemma prods_nonnullable : forallb (fun p => negb (nullable (snd p))) productions = true.
Proof. vm_compute. reflexivity. Qed.
Lemma bom_nonnullable : nullable (snd bom_production) = false.
Proof. vm_compute. reflexivity. Qed.
Lemma uri_nonnullable : nullable re_URI = false.
Proof. vm_compute. reflexivity. Qed.
Lemma rep_bodies_consume :
  forallb (fun p => rep_bodies_ok (snd p)) (bom_production :: dx_production :: productions) = true.
Proof. vm_compute. reflexivity. Qed.
Lemma uri_ends_short : forallb (fun e => Nat.leb (length e) 2) uri_ends = true.
Proof. vm_compute. reflexivity. Qed.
Lemma linesep_is_nl : linesep = [10%N].
Proof. reflexivity. Qed.
Lemma fastchars_no_nl : mem 10%N fastchars = false.
Proof. vm_compute. reflexivity. Qed.

(* some production other than IDENT matches every text starting with c *)
Definition covers (ps : list (str * re)) (c : N) : bool :=
  existsb (fun p => negb (eqs (fst p) (s "IDENT")) && total1 (snd p) c) ps.

Lemma covers_dq : covers productions 34%N = true.
Proof. vm_compute. reflexivity. Qed.
Lemma covers_sq : covers productions 39%N = true.
Proof. vm_compute. reflexivity. Qed.

Lemma char_is_last : exists pre, productions = pre ++ [(s "CHAR", re_CHAR)].
Proof. exists (removelast productions). vm_compute. reflexivity. Qed.

Lemma char_total c : c <> 34%N -> c <> 39%N -> total1 re_CHAR c = true.
Proof.
  intros H1 H2. unfold re_CHAR. cbn [total1 in_ranges].
  destruct (N.leb_spec 34 c), (N.leb_spec c 34), (N.leb_spec 39 c), (N.leb_spec c 39); simpl; try reflexivity; lia.
Qed.

Lemma covers_all c : covers productions c = true.
Proof.
  destruct (N.eq_dec c 34) as [->|H1]; [apply covers_dq|].
  destruct (N.eq_dec c 39) as [->|H2]; [apply covers_sq|].
  destruct char_is_last as [pre ->]. unfold covers. rewrite existsb_app. apply orb_true_iff. right.
  cbn [existsb fst snd]. rewrite (char_total c H1 H2). reflexivity.
Qed.

(* ------------------------------------------------------------------ the production loop *)
Lemma try_prods_some ps dc fs prev c rest :
  covers ps c = true -> try_prods ps dc fs prev (c :: rest) <> None.
Proof.
  induction ps as [|[name r] ps IH]; [discriminate|]. intros H.
  unfold covers in H. cbn [existsb fst snd] in H. fold (covers ps c) in H.
  cbn [try_prods].
  match goal with |- (if ?b then _ else _) <> None => destruct b; [discriminate|] end.
  destruct (rmatch r prev (c :: rest)) as [n|] eqn:E.
  - destruct (eqs name (s "IDENT")) eqn:EI.
    + cbn [negb andb orb] in H.
      match goal with |- (if ?b then _ else _) <> None => destruct b; [apply IH; exact H|] end.
      repeat match goal with
             | |- (if ?b then _ else _) <> None => destruct b
             | |- match ?x with _ => _ end <> None => destruct x
             end; discriminate.
    + cbn [andb].
      repeat match goal with
             | |- (if ?b then _ else _) <> None => destruct b
             | |- match ?x with _ => _ end <> None => destruct x
             end; discriminate.
  - apply orb_true_iff in H as [H|H]; [|apply IH; exact H].
    apply andb_true_iff in H as [_ H]. destruct (rmatch_total1 r c prev rest H) as [n Hn]. congruence.
Qed.

(* shape of what one iteration consumes *)
Inductive fshape (fs : bool) (rest found : str) : Prop :=
| FPrefix n : (0 < n <= length rest)%nat -> found = firstn n rest -> fshape fs rest found
| FOver c : fs = true -> found = rest ++ c -> c <> [] -> (length c <= 2)%nat ->
            (forall x, In x c -> In x rest \/ In x (s "*/'"")")) -> fshape fs rest found.

Lemma In_firstn {A} n (l : list A) x : In x (firstn n l) -> In x l.
Proof. revert l; induction n as [|n IH]; intros [|y l]; simpl; auto; try tauto. intros [H|H]; auto. Qed.
Lemma In_skipn {A} n (l : list A) x : In x (skipn n l) -> In x l.
Proof. revert l; induction n as [|n IH]; intros [|y l]; simpl; auto. Qed.

Lemma firstn_app_over {A} k (a b : list A) :
  (length a < k)%nat -> firstn k (a ++ b) = a ++ firstn (k - length a) b.
Proof. intros H. rewrite firstn_app. rewrite firstn_all2 by lia. reflexivity. Qed.

Lemma first_uri_end_shape rest es f :
  rest <> [] -> forallb (fun e => Nat.leb (length e) 2) es = true ->
  (forall e x, In e es -> In x e -> In x (s "*/'"")")) ->
  first_uri_end rest es = Some f -> fshape true rest f.
Proof.
  intros Hne. induction es as [|e es IH]; intros Hs Hc H; [discriminate|]. cbn [first_uri_end] in H.
  cbn [forallb] in Hs. apply andb_true_iff in Hs as [He Hs]. apply Nat.leb_le in He.
  destruct (rmatch re_URI None (rest ++ e)) as [k|] eqn:E.
  - inversion H; subst f. apply (rmatch_pos _ _ _ _ uri_nonnullable) in E. rewrite app_length in E.
    destruct (Nat.le_gt_cases k (length rest)) as [Hk|Hk].
    + apply (FPrefix _ _ _ k); [lia|]. rewrite firstn_app. replace (k - length rest)%nat with O by lia.
      cbn [firstn]. apply app_nil_r.
    + apply (FOver _ _ _ (firstn (k - length rest) e)); auto.
      * apply firstn_app_over; lia.
      * destruct (k - length rest)%nat eqn:Ek; [lia|]. destruct e; [simpl in E; lia|discriminate].
      * rewrite firstn_length. lia.
      * intros x Hx. right. apply (Hc e x); [left; reflexivity|]. eapply In_firstn; eauto.
  - apply IH; auto. intros e' x He' Hx. apply (Hc e' x); [right; exact He'|exact Hx].
Qed.

Lemma uri_ends_chars : forall e x, In e uri_ends -> In x e -> In x (s "*/'"")").
Proof.
  assert (H : forallb (fun e => forallb (fun x => mem x (s "*/'"")")) e) uri_ends = true) by (vm_compute; reflexivity).
  intros e x He Hx. rewrite forallb_forall in H. specialize (H e He). rewrite forallb_forall in H.
  apply mem_In. apply H. exact Hx.
Qed.

Lemma try_prods_shape ps dc fs prev rest name found pu :
  rest <> [] -> forallb (fun p => negb (nullable (snd p))) ps = true ->
  try_prods ps dc fs prev rest = Some (Step name found pu) ->
  (pu = true -> fshape fs rest found) /\
  (pu = false -> fs = true /\ found = rest ++ s "*/").
Proof.
  intros Hne. induction ps as [|[nm r] ps IH]; intros Hn H; [discriminate|].
  cbn [forallb snd] in Hn. apply andb_true_iff in Hn as [Hr Hn]. apply negb_true_iff in Hr.
  cbn [try_prods] in H.
  match type of H with (if ?b then _ else _) = _ => destruct b eqn:Eb end.
  - inversion H; subst. split; [discriminate|]. intros _. split; [|reflexivity].
    repeat (apply andb_true_iff in Eb as [Eb ?]). exact Eb.
  - destruct (rmatch r prev rest) as [n|] eqn:E; [|apply IH; assumption].
    pose proof (rmatch_pos _ _ _ _ Hr E) as Hpos.
    assert (Hpre : fshape fs rest (firstn n rest)) by (apply (FPrefix _ _ _ n); auto).
    match type of H with (if ?b then _ else _) = _ => destruct b; [apply IH; assumption|] end.
    match type of H with (if ?b then _ else _) = _ => destruct b eqn:Ei end.
    + inversion H; subst. split; [|discriminate]. intros _.
      repeat (apply andb_true_iff in Ei as [Ei ?]). subst.
      match goal with Hq : eqs rest _ = true |- _ => apply eqs_spec in Hq; rename Hq into Hq' end.
      apply (FOver _ _ _ [hd 0%N (firstn n rest)]); auto.
      * rewrite <- Hq'. reflexivity.
      * discriminate.
      * intros x [<-|[]]. left. destruct rest as [|y rest']; [congruence|].
        destruct n; [lia|]. simpl. auto.
    + match type of H with (if ?b then _ else _) = _ => destruct b eqn:Eu end.
      * destruct (first_uri_end rest uri_ends) as [f|] eqn:Ef; inversion H; subst; (split; [|discriminate]); intros _.
        -- repeat (apply andb_true_iff in Eu as [Eu ?]). subst.
           eapply first_uri_end_shape; eauto using uri_ends_short, uri_ends_chars.
        -- exact Hpre.
      * inversion H; subst. split; [|discriminate]. intros _. exact Hpre.
Qed.

Lemma finish_token_shape fs rest name found name' found' value :
  fshape fs rest found ->
  finish_token name found (skipn (length found) rest) = (name', found', value) ->
  fshape fs rest found'.
Proof.
  intros Hs H. unfold finish_token in H.
  destruct (mem_str name resolved_types); [inversion H; subst; exact Hs|].
  destruct (eqs name (s "ATKEYWORD")); [|inversion H; subst; exact Hs].
  destruct (assoc_str (normalize_u found) atkeywords); [inversion H; subst; exact Hs|].
  match type of H with (if ?b then _ else _) = _ => destruct b eqn:Eb end; [|inversion H; subst; exact Hs].
  inversion H; subst. apply andb_true_iff in Eb as [_ Eb]. apply starts_spec in Eb as [r Hr].
  destruct Hs as [n Hn Hf|c Hfs Hf Hc Hl Hi].
  - subst found. rewrite firstn_length in Hr. replace (Nat.min n (length rest)) with n in Hr by lia.
    apply (FPrefix _ _ _ (S n)).
    + assert (length (skipn n rest) = length rest - n)%nat by apply skipn_length.
      rewrite Hr in H0. simpl in H0. lia.
    + rewrite <- (firstn_skipn n rest) at 2. rewrite Hr.
      replace (S n) with (length (firstn n rest) + 1)%nat by (rewrite firstn_length; lia).
      rewrite firstn_app_2. reflexivity.
  - subst found. rewrite skipn_all2 in Hr by (rewrite app_length; lia). discriminate.
Qed.

Lemma fshape_progress fs rest found :
  rest <> [] -> fshape fs rest found -> (length (skipn (length found) rest) < length rest)%nat.
Proof.
  intros Hne [n Hn ->|c _ -> Hc _ _]; rewrite skipn_length.
  - rewrite firstn_length. lia.
  - rewrite app_length. destruct rest; [congruence|simpl; lia].
Qed.

Lemma loop_nil fuel dc fs prev l c :
  loop fuel dc fs prev [] l c = Some (if fs then [mkTok (s "EOF") [] [] l c] else []).
Proof. destruct fuel; reflexivity. Qed.

(* ------------------------------------------------------------------ totality (C01, C08) *)
Lemma loop_total fuel : forall dc fs prev rest l c,
  (length rest < fuel)%nat -> exists toks, loop fuel dc fs prev rest l c = Some toks.
Proof.
  induction fuel as [|fu IH]; intros dc fs prev rest l c Hf; [lia|].
  destruct rest as [|ch rest1]; [cbn [loop]; eauto|]. cbn [loop].
  destruct (mem ch fastchars).
  - destruct (IH dc fs (Some ch) rest1 l (c + 1)%nat) as [ts Hts]; [simpl in Hf; lia|].
    rewrite Hts. cbn [option_map]. eauto.
  - destruct (try_prods productions dc fs prev (ch :: rest1)) as [[name found pu]|] eqn:E;
      [|exfalso; revert E; apply try_prods_some, covers_all].
    destruct pu; [|eauto].
    destruct (finish_token name found (skipn (length found) (ch :: rest1))) as [[name' found'] value] eqn:Ef.
    destruct (upd_pos l c found') as [l' c'].
    apply try_prods_shape in E as [Hs _]; [|discriminate|apply prods_nonnullable]. specialize (Hs eq_refl).
    pose proof (finish_token_shape _ _ _ _ _ _ _ Hs Ef) as Hs'.
    assert (Hne : ch :: rest1 <> []) by discriminate.
    pose proof (fshape_progress _ _ _ Hne Hs') as Hp.
    destruct (IH dc fs (last_opt prev found') (skipn (length found') (ch :: rest1)) l' c') as [ts Hts];
      [simpl in Hf, Hp |- *; lia|].
    rewrite Hts. cbn [option_map]. eauto.
Qed.

Theorem tokenize_total_lemma : forall dc fs text, exists toks, tokenize dc fs text = Some toks.
Proof.
  intros dc fs text. unfold tokenize.
  destruct (match rmatch (snd bom_production) None text with
            | Some n => _ | None => _ end) as [[t0 rest0] prev0].
  destruct (if starts (s "@charset ") rest0 then _ else _) as [[[t1 rest1] prev1] c1].
  destruct (loop_total (S (length rest1)) dc fs prev1 rest1 1 c1) as [ts Hts]; [lia|].
  rewrite Hts. cbn [option_map]. eauto.
Qed.

(* ------------------------------------------------------------------ partition (C08) *)
Definition completion_ok (rest cmp : str) : Prop :=
  (length cmp <= 2)%nat /\ forall x, In x cmp -> In x rest \/ In x (s "*/'"")").

Lemma loop_partition fuel : forall fs prev rest l c toks,
  loop fuel true fs prev rest l c = Some toks ->
  exists cmp, concat (map raw toks) = rest ++ cmp /\ (fs = false -> cmp = []) /\ completion_ok rest cmp.
Proof.
  induction fuel as [|fu IH]; intros fs prev rest l c toks H.
  - destruct rest; [|discriminate]. cbn [loop] in H. inversion H; subst.
    exists []. split; [destruct fs; reflexivity|]. split; [auto|]. split; simpl; [lia|tauto].
  - destruct rest as [|ch rest1].
    { cbn [loop] in H. inversion H; subst.
      exists []. split; [destruct fs; reflexivity|]. split; [auto|]. split; simpl; [lia|tauto]. }
    cbn [loop] in H. destruct (mem ch fastchars).
    + destruct (loop fu true fs (Some ch) rest1 l (c + 1)%nat) as [ts|] eqn:E; [|discriminate].
      cbn [option_map] in H. inversion H; subst. apply IH in E as (cmp & Hc & Hf & Hl & Hi).
      exists cmp. cbn [map concat raw]. rewrite Hc. split; [reflexivity|]. split; [exact Hf|].
      split; [exact Hl|]. intros x Hx. destruct (Hi x Hx); [left; right; assumption|right; assumption].
    + destruct (try_prods productions true fs prev (ch :: rest1)) as [[name found pu]|] eqn:E; [|discriminate].
      apply try_prods_shape in E as [Hs Hu]; [|discriminate|apply prods_nonnullable].
      destruct pu.
      * specialize (Hs eq_refl).
        destruct (finish_token name found (skipn (length found) (ch :: rest1))) as [[name' found'] value] eqn:Ef.
        pose proof (finish_token_shape _ _ _ _ _ _ _ Hs Ef) as Hs'.
        destruct (upd_pos l c found') as [l' c'].
        destruct (loop fu true fs (last_opt prev found') (skipn (length found') (ch :: rest1)) l' c') as [ts|] eqn:El;
          [|discriminate].
        cbn [option_map orb] in H. inversion H; subst. cbn [map concat raw].
        destruct Hs' as [n Hn Hf'|cm Hfs Hf' Hc Hl Hi].
        -- apply IH in El as (cmp & Hc & Hf & Hl & Hi). rewrite Hc.
           assert (Hlen : length found' = n) by (subst found'; rewrite firstn_length; lia).
           rewrite Hlen. exists cmp. split.
           { rewrite app_assoc. subst found'. rewrite firstn_skipn. reflexivity. }
           split; [exact Hf|]. split; [exact Hl|].
           intros x Hx. destruct (Hi x Hx) as [Hin|Hin]; [left; eapply In_skipn; eauto|right; assumption].
        -- rewrite skipn_all2 in El by (subst found'; rewrite app_length; lia).
           rewrite loop_nil in El. injection El as <-. exists cm. split.
           { destruct fs; cbn [map concat raw]; rewrite ?app_nil_r; assumption. }
           split; [intros; congruence|]. split; assumption.
      * destruct (Hu eq_refl) as [Hfs ->]. inversion H; subst. exists (s "*/"). split.
        { cbn [map concat raw]. rewrite app_nil_r. reflexivity. }
        split; [discriminate|]. split; [simpl; lia|]. intros x Hx. right. simpl in Hx |- *. tauto.
Qed.

(* ------------------------------------------------------------------ positions (C08) *)
Fixpoint advance (l c : nat) (t : str) : nat * nat :=
  match t with
  | [] => (l, c)
  | x :: r => if N.eqb x 10 then advance (S l) 1 r else advance l (S c) r
  end.

Lemma after_last_nl_none r : count_nl r = O <-> after_last_nl r = None.
Proof.
  induction r as [|x r IH]; simpl; [tauto|]. destruct (N.eqb x 10); simpl.
  - split; [discriminate|]. destruct (after_last_nl r); discriminate.
  - rewrite IH. destruct (after_last_nl r); split; congruence.
Qed.

Lemma upd_pos_advance found : forall l c, upd_pos l c found = advance l c found.
Proof.
  induction found as [|x r IH]; intros l c.
  - unfold upd_pos. simpl. f_equal; lia.
  - cbn [advance]. destruct (N.eqb x 10) eqn:E.
    + rewrite <- IH. unfold upd_pos. cbn [count_nl after_last_nl length]. rewrite E.
      destruct (count_nl r) eqn:Ec.
      * apply after_last_nl_none in Ec. rewrite Ec. simpl. f_equal; lia.
      * destruct (after_last_nl r) eqn:Ea; [simpl; f_equal; lia|].
        apply after_last_nl_none in Ea. congruence.
    + rewrite <- IH. unfold upd_pos. cbn [count_nl after_last_nl length]. rewrite E.
      destruct (count_nl r) eqn:Ec; simpl.
      * f_equal; lia.
      * destruct (after_last_nl r) eqn:Ea; [f_equal; lia|].
        apply after_last_nl_none in Ea. congruence.
Qed.

(* every token starts where the raw text of its predecessors ends; the one exception the
   code makes: the EOF token after a comment completed in full-sheet mode repeats the
   comment's own position (tokenize2.py:170-172 breaks without advancing line/col) *)
Fixpoint pos_ok (l c : nat) (toks : list tok) : Prop :=
  match toks with
  | [] => True
  | t :: ts => line t = l /\ col t = c /\
               ((let '(l', c') := advance l c (raw t) in pos_ok l' c' ts) \/
                (ty t = s "COMMENT" /\ ts = [mkTok (s "EOF") [] [] l c]))
  end.

Lemma loop_positions fuel : forall fs prev rest l c toks,
  loop fuel true fs prev rest l c = Some toks -> pos_ok l c toks.
Proof.
  induction fuel as [|fu IH]; intros fs prev rest l c toks H.
  - destruct rest; [|discriminate]. cbn [loop] in H. injection H as <-.
    destruct fs; simpl; auto.
  - destruct rest as [|ch rest1].
    { cbn [loop] in H. injection H as <-. destruct fs; simpl; auto. }
    cbn [loop] in H. destruct (mem ch fastchars) eqn:Em.
    + destruct (loop fu true fs (Some ch) rest1 l (c + 1)%nat) as [ts|] eqn:E; [|discriminate].
      cbn [option_map] in H. injection H as <-. apply IH in E.
      cbn [pos_ok line col raw advance]. split; [reflexivity|]. split; [reflexivity|]. left.
      assert (Hn : N.eqb ch 10 = false).
      { destruct (N.eqb ch 10) eqn:E10; [|reflexivity]. apply N.eqb_eq in E10. subst.
        rewrite fastchars_no_nl in Em. discriminate. }
      rewrite Hn. replace (S c) with (c + 1)%nat by lia. exact E.
    + destruct (try_prods productions true fs prev (ch :: rest1)) as [[name found pu]|] eqn:E; [|discriminate].
      destruct pu.
      * destruct (finish_token name found (skipn (length found) (ch :: rest1))) as [[name' found'] value] eqn:Ef.
        destruct (upd_pos l c found') as [l' c'] eqn:Eu.
        destruct (loop fu true fs (last_opt prev found') (skipn (length found') (ch :: rest1)) l' c') as [ts|] eqn:El;
          [|discriminate].
        cbn [option_map orb] in H. injection H as <-. apply IH in El.
        cbn [pos_ok line col raw]. split; [reflexivity|]. split; [reflexivity|]. left.
        rewrite <- upd_pos_advance, Eu. exact El.
      * injection H as <-. cbn [pos_ok line col raw ty]. split; [reflexivity|]. split; [reflexivity|]. right.
        pose proof E as E'.
        apply try_prods_shape in E' as [_ Hu]; [|discriminate|apply prods_nonnullable].
        destruct (Hu eq_refl) as [-> _].
        assert (Hname : name = s "COMMENT").
        { clear - E. revert E. generalize productions. intros ps. induction ps as [|[nm r] ps IHp]; [discriminate|].
          cbn [try_prods]. 
          match goal with |- (if ?b then _ else _) = _ -> _ => destruct b end; [intros H; injection H; auto|].
          destruct (rmatch r prev (ch :: rest1)); [|exact IHp].
          repeat match goal with
                 | |- (if ?b then _ else _) = _ -> _ => destruct b
                 | |- match ?x with _ => _ end = _ -> _ => destruct x
                 end; try exact IHp; intros H; discriminate. }
        split; [exact Hname|reflexivity].
Qed.

(* ------------------------------------------------------------------ values of escape-free tokens (C08) *)
Lemma rmatch_bs_none r' prev x t : x <> 92%N -> rmatch (Cat (Chr 92) r') prev (x :: t) = None.
Proof.
  intros H. unfold rmatch. cbn [m]. destruct (N.eqb x 92) eqn:E; [apply N.eqb_eq in E; congruence|reflexivity].
Qed.

Lemma sub_all_fuel_nobs r' f : forall fuel prev t,
  ~ In 92%N t -> sub_all_fuel fuel (Cat (Chr 92) r') f prev t = t.
Proof.
  induction fuel as [|fu IH]; intros prev t H; [reflexivity|]. destruct t as [|x t']; [reflexivity|].
  cbn [sub_all_fuel]. rewrite rmatch_bs_none by (intros ->; apply H; left; reflexivity).
  f_equal. apply IH. intros Hin. apply H. right. exact Hin.
Qed.

Lemma unicodesub_nobs t : ~ In 92%N t -> unicodesub t = t.
Proof. intros H. unfold unicodesub, sub_all, re_unicodesub. apply sub_all_fuel_nobs; exact H. Qed.
Lemma cleanstring_nobs t : ~ In 92%N t -> cleanstring t = t.
Proof. intros H. unfold cleanstring, sub_all, re_cleanstring. apply sub_all_fuel_nobs; exact H. Qed.

Lemma finish_token_val name found after name' found' value :
  finish_token name found after = (name', found', value) -> ~ In 92%N found' -> value = found'.
Proof.
  unfold finish_token. intros H Hn.
  destruct (mem_str name resolved_types).
  - injection H as <- <- <-. rewrite (unicodesub_nobs _ Hn).
    match goal with |- (if ?b then _ else _) = _ => destruct b end; [apply cleanstring_nobs; exact Hn|reflexivity].
  - destruct (eqs name (s "ATKEYWORD")); [|injection H as <- <- <-; reflexivity].
    destruct (assoc_str (normalize_u found) atkeywords); [injection H as <- <- <-; reflexivity|].
    match type of H with (if ?b then _ else _) = _ => destruct b end; injection H as <- <- <-;
      [reflexivity|apply unicodesub_nobs; exact Hn].
Qed.

Lemma loop_raw_is_val fuel : forall dc fs prev rest l c toks,
  loop fuel dc fs prev rest l c = Some toks ->
  forall t, In t toks -> ~ In 92%N (raw t) -> val t = raw t.
Proof.
  induction fuel as [|fu IH]; intros dc fs prev rest l c toks H t Ht Hn.
  - destruct rest; [|discriminate]. cbn [loop] in H. injection H as <-.
    destruct fs; simpl in Ht; [destruct Ht as [<-|[]]; reflexivity|tauto].
  - destruct rest as [|ch rest1].
    { cbn [loop] in H. injection H as <-.
      destruct fs; simpl in Ht; [destruct Ht as [<-|[]]; reflexivity|tauto]. }
    cbn [loop] in H. destruct (mem ch fastchars).
    + destruct (loop fu dc fs (Some ch) rest1 l (c + 1)%nat) as [ts|] eqn:E; [|discriminate].
      cbn [option_map] in H. injection H as <-. destruct Ht as [<-|Ht]; [reflexivity|].
      eapply IH; eauto.
    + destruct (try_prods productions dc fs prev (ch :: rest1)) as [[name found pu]|] eqn:E; [|discriminate].
      destruct pu.
      * destruct (finish_token name found (skipn (length found) (ch :: rest1))) as [[name' found'] value] eqn:Ef.
        destruct (upd_pos l c found') as [l' c'].
        destruct (loop fu dc fs (last_opt prev found') (skipn (length found') (ch :: rest1)) l' c') as [ts|] eqn:El;
          [|discriminate].
        cbn [option_map] in H. injection H as <-.
        match type of Ht with context[if ?b then _ else _] => destruct b end.
        -- destruct Ht as [<-|Ht]; [|eapply IH; eauto].
           cbn [val raw] in *. eapply finish_token_val; eauto.
        -- eapply IH; eauto.
      * injection H as <-. destruct Ht as [<-|Ht]; [reflexivity|].
        destruct fs; simpl in Ht; [destruct Ht as [<-|[]]; reflexivity|tauto].
Qed.

(* ------------------------------------------------------------------ the whole tokenizer *)
Definition is_bom_prefix (bom : list tok) : Prop :=
  bom = [] \/ exists b, bom = [b] /\ ty b = fst bom_production /\ line b = 1%nat /\ col b = 1%nat.

Lemma tokenize_split dc fs text toks :
  tokenize dc fs text = Some toks ->
  exists bom cs rest1 prev1 c1 ts,
    toks = bom ++ cs ++ ts /\ is_bom_prefix bom /\
    text = concat (map raw bom) ++ concat (map raw cs) ++ rest1 /\
    (forall t, In t (bom ++ cs) -> val t = raw t) /\
    (cs = [] /\ c1 = 1%nat \/
     cs = [mkTok charset_sym (s "@charset ") (s "@charset ") 1 1] /\ c1 = 10%nat) /\
    loop (S (length rest1)) dc fs prev1 rest1 1 c1 = Some ts.
Proof.
  unfold tokenize. intros H.
  set (cst := mkTok charset_sym (s "@charset ") (s "@charset ") 1 1) in *.
  destruct (rmatch (snd bom_production) None text) as [n|] eqn:Eb.
  - set (bt := mkTok (fst bom_production) (firstn n text) (firstn n text) 1 1) in *.
    destruct (starts (s "@charset ") (skipn n text)) eqn:Ec.
    + destruct (loop _ dc fs (Some 32%N) (skipn (length (s "@charset ")) (skipn n text)) 1 _) as [ts|] eqn:El; [|discriminate].
      cbn [option_map] in H. injection H as <-.
      exists [bt], [cst], (skipn (length (s "@charset ")) (skipn n text)), (Some 32%N), 10%nat, ts.
      split; [reflexivity|]. split; [right; exists bt; repeat split|].
      split.
      { cbn [map concat raw bt cst]. rewrite !app_nil_r. apply starts_spec in Ec as [r Hr].
        rewrite <- (firstn_skipn n text) at 1. f_equal. rewrite Hr. rewrite skipn_app.
        rewrite skipn_all. replace (length (s "@charset ") - length (s "@charset "))%nat with O by lia. reflexivity. }
      split; [intros t [<-|[<-|[]]]; reflexivity|]. split; [right; split; reflexivity|exact El].
    + destruct (loop _ dc fs _ (skipn n text) 1 1) as [ts|] eqn:El; [|discriminate].
      cbn [option_map] in H. injection H as <-.
      exists [bt], [], (skipn n text), (last_opt None (firstn n text)), 1%nat, ts.
      split; [reflexivity|]. split; [right; exists bt; repeat split|].
      split.
      { cbn [map concat raw bt]. rewrite !app_nil_r. cbn [app]. symmetry. apply firstn_skipn. }
      split; [intros t [<-|[]]; reflexivity|]. split; [left; split; reflexivity|exact El].
  - destruct (starts (s "@charset ") text) eqn:Ec.
    + destruct (loop _ dc fs (Some 32%N) (skipn (length (s "@charset ")) text) 1 _) as [ts|] eqn:El; [|discriminate].
      cbn [option_map] in H. injection H as <-.
      exists [], [cst], (skipn (length (s "@charset ")) text), (Some 32%N), 10%nat, ts.
      split; [reflexivity|]. split; [left; reflexivity|]. split.
      { cbn [map concat raw app cst]. rewrite app_nil_r. apply starts_spec in Ec as [r Hr]. rewrite Hr.
        rewrite skipn_app, skipn_all. replace (length (s "@charset ") - length (s "@charset "))%nat with O by lia. reflexivity. }
      split; [intros t [<-|[]]; reflexivity|]. split; [right; split; reflexivity|exact El].
    + destruct (loop _ dc fs None text 1 1) as [ts|] eqn:El; [|discriminate].
      cbn [option_map] in H. injection H as <-.
      exists [], [], text, None, 1%nat, ts. split; [reflexivity|]. split; [left; reflexivity|].
      split; [reflexivity|]. split; [intros t []|]. split; [left; split; reflexivity|exact El].
Qed.

Lemma loop_ends_eof fuel : forall dc prev rest l c toks,
  loop fuel dc true prev rest l c = Some toks ->
  exists pre l' c', toks = pre ++ [mkTok (s "EOF") [] [] l' c'].
Proof.
  induction fuel as [|fu IH]; intros dc prev rest l c toks H.
  - destruct rest; [|discriminate]. cbn [loop] in H. injection H as <-. exists [], l, c. reflexivity.
  - destruct rest as [|ch rest1].
    { cbn [loop] in H. injection H as <-. exists [], l, c. reflexivity. }
    cbn [loop] in H. destruct (mem ch fastchars).
    + destruct (loop fu dc true (Some ch) rest1 l (c + 1)%nat) as [ts|] eqn:E; [|discriminate].
      cbn [option_map] in H. injection H as <-. apply IH in E as (pre & l' & c' & ->).
      eexists (_ :: pre), l', c'. reflexivity.
    + destruct (try_prods productions dc true prev (ch :: rest1)) as [[name found pu]|] eqn:E; [|discriminate].
      destruct pu.
      * destruct (finish_token name found (skipn (length found) (ch :: rest1))) as [[name' found'] value] eqn:Ef.
        destruct (upd_pos l c found') as [l' c'].
        destruct (loop fu dc true (last_opt prev found') (skipn (length found') (ch :: rest1)) l' c') as [ts|] eqn:El;
          [|discriminate].
        cbn [option_map] in H. injection H as <-. apply IH in El as (pre & l2 & c2 & ->).
        match goal with |- context[if ?b then _ else _] => destruct b end.
        -- eexists (_ :: pre), l2, c2. reflexivity.
        -- exists pre, l2, c2. reflexivity.
      * injection H as <-. eexists [_], l, c. reflexivity.
Qed.

Theorem tokenize_partition_lemma : forall text toks,
  tokenize true false text = Some toks -> concat (map raw toks) = text.
Proof.
  intros text toks H. apply tokenize_split in H as (bom & cs & rest1 & prev1 & c1 & ts & -> & _ & Ht & _ & _ & Hl).
  apply loop_partition in Hl as (cmp & Hc & Hf & _). rewrite (Hf eq_refl), app_nil_r in Hc.
  rewrite !map_app, !concat_app, Hc. symmetry. exact Ht.
Qed.

Theorem tokenize_partition_full_lemma : forall text toks,
  tokenize true true text = Some toks ->
  exists cmp, concat (map raw toks) = text ++ cmp /\ completion_ok text cmp /\
              exists pre l c, toks = pre ++ [mkTok (s "EOF") [] [] l c].
Proof.
  intros text toks H. apply tokenize_split in H as (bom & cs & rest1 & prev1 & c1 & ts & -> & _ & Ht & _ & _ & Hl).
  pose proof (loop_ends_eof _ _ _ _ _ _ _ Hl) as (pre & l & c & Hpre).
  apply loop_partition in Hl as (cmp & Hc & _ & Hl2 & Hi). exists cmp. split; [|split].
  - rewrite !map_app, !concat_app, Hc, Ht, !app_assoc. reflexivity.
  - split; [exact Hl2|]. intros x Hx. destruct (Hi x Hx) as [Hin|Hin]; [left|right; exact Hin].
    rewrite Ht. apply in_or_app. right. apply in_or_app. right. exact Hin.
  - exists (bom ++ cs ++ pre), l, c. rewrite Hpre, !app_assoc. reflexivity.
Qed.

Theorem raw_is_val_lemma : forall dc fs text toks,
  tokenize dc fs text = Some toks -> forall t, In t toks -> ~ In 92%N (raw t) -> val t = raw t.
Proof.
  intros dc fs text toks H t Ht Hn.
  apply tokenize_split in H as (bom & cs & rest1 & prev1 & c1 & ts & -> & _ & _ & Hv & _ & Hl).
  rewrite app_assoc in Ht. apply in_app_or in Ht as [Ht|Ht]; [apply Hv; exact Ht|].
  eapply loop_raw_is_val; eauto.
Qed.

Lemma concat_map_ext {A} (f g : A -> str) l : (forall x, In x l -> f x = g x) -> concat (map f l) = concat (map g l).
Proof. induction l as [|a l IH]; intros H; simpl; [reflexivity|]. rewrite H, IH; auto; [intros; apply H; right; auto|left; auto]. Qed.

Lemma in_concat_raw x t toks : In t toks -> In x (raw t) -> In x (concat (map raw toks)).
Proof. intros Ht Hx. apply in_concat. exists (raw t). split; [apply in_map; exact Ht|exact Hx]. Qed.

(* the statement of the property about token *values* of escape-free text *)
Theorem tokenize_values_lemma : forall text toks,
  ~ In 92%N text -> tokenize true false text = Some toks -> concat (map val toks) = text.
Proof.
  intros text toks Hn H. transitivity (concat (map raw toks)); [|apply tokenize_partition_lemma; exact H].
  apply concat_map_ext. intros t Ht. eapply raw_is_val_lemma; eauto.
  intros H92. apply Hn. rewrite <- (tokenize_partition_lemma _ _ H). eapply in_concat_raw; eauto.
Qed.

Theorem tokenize_values_full_lemma : forall text toks,
  ~ In 92%N text -> tokenize true true text = Some toks ->
  exists cmp, concat (map val toks) = text ++ cmp /\ completion_ok text cmp.
Proof.
  intros text toks Hn H. destruct (tokenize_partition_full_lemma _ _ H) as (cmp & Hc & Hok & _).
  exists cmp. split; [|exact Hok]. rewrite <- Hc. apply concat_map_ext. intros t Ht.
  eapply raw_is_val_lemma; eauto. intros H92.
  assert (Hin : In 92%N (text ++ cmp)) by (rewrite <- Hc; eapply in_concat_raw; eauto).
  apply in_app_or in Hin as [Hin|Hin]; [auto|]. destruct Hok as [_ Hi]. destruct (Hi _ Hin) as [Hx|Hx]; [auto|].
  simpl in Hx. repeat destruct Hx as [Hx|Hx]; try discriminate; auto.
Qed.

Theorem tokenize_positions_lemma : forall fs text toks,
  tokenize true fs text = Some toks ->
  exists bom rest, toks = bom ++ rest /\ is_bom_prefix bom /\ pos_ok 1 1 rest.
Proof.
  intros fs text toks H.
  apply tokenize_split in H as (bom & cs & rest1 & prev1 & c1 & ts & -> & Hb & _ & _ & Hcs & Hl).
  exists bom, (cs ++ ts). split; [reflexivity|]. split; [exact Hb|].
  apply loop_positions in Hl. destruct Hcs as [[-> ->]|[-> ->]]; [exact Hl|].
  cbn [app pos_ok line col raw]. split; [reflexivity|]. split; [reflexivity|]. left. exact Hl.
Qed.

(* non-vacuity: concrete runs (a completion, a BOM + @charset + newline) *)
Example tokenize_example_completion :
  option_map (map (fun t => (ty t, val t, line t, col t))) (tokenize true true (s "a{b:url(x")) =
  Some [(s "IDENT", s "a", 1, 1); (s "CHAR", s "{", 1, 2); (s "IDENT", s "b", 1, 3); (s "CHAR", s ":", 1, 4);
        (s "URI", s "url(x)", 1, 5); (s "EOF", [], 1, 11)]%nat.
Proof. vm_compute. reflexivity. Qed.

Example tokenize_example_bom :
  option_map (map (fun t => (ty t, line t, col t)))
             (tokenize true false ([239; 187; 191]%N ++ s "@charset " ++ [34; 120; 34; 59; 10; 97]%N)) =
  Some [(s "BOM", 1, 1); (s "CHARSET_SYM", 1, 1); (s "STRING", 1, 10); (s "CHAR", 1, 13); (s "S", 1, 14);
        (s "IDENT", 2, 1)]%nat.
Proof. vm_compute. reflexivity. Qed.
