(* Imports.v -- executable model of @import loading (property C20).

   Modelled by hand (line numbers of /repo/src/css_parser at the time of writing):
     util.urljoin                           util.py:1092-1142        -> urljoin / unparse
     util._readUrl                          util.py:889-972          -> readurl (ladder = Gen.Import.ladder, generated)
     CSSImportRule._loadImport (+ _setHref = _loadImport; _commitHref, and _setCssText loading before it commits)
                                            css/cssimportrule.py:272-355 -> set_href
     CSSStyleSheet._resolveImport, _setCssTextWithEncodingOverride, _setEncoding,
       the import/namespace/... handlers of _setCssText, the retry at the end of insertRule
                                            css/cssstylesheet.py     -> items_loop / parse_src / parse_string
     css_parser.resolveImports              __init__.py:298-415      -> resolve
   Generated on every run (Gen/Import.v): ladder, decode_caught, caught, raised_on_none, join_guarded, split_enc,
   charset_init_safe, resolve_inherits_fetcher, wrap_allowed, the exception subclass table, urllib's scheme tables.

   External behaviour is a record `world` (fetcher, codec, text parser): the theorems quantify over all worlds.
   The fetcher may depend on the calls made before (`fetch W history url`), so flaky fetchers are covered.       *)
From CssV Require Import Base.
From CssV.Gen Require Import Import.

(* ------------------------------------------------------------------ exceptions *)
Definition exn_eqb (a b : exn) : bool := N.eqb (exn_id a) (exn_id b).
Definition subclass (e c : exn) : bool := existsb (exn_eqb c) (bases e).       (* issubclass(e, c) *)
Definition is_caught (e : exn) : bool := existsb (subclass e) caught.          (* except (...) of _setHref *)
Definition decode_tolerated (e : exn) : bool := existsb (subclass e) decode_caught.

(* ------------------------------------------------------------------ URLs *)
(* urlparse(x, allow_fragments=False) of a URL without ';' : (scheme, netloc, path, query); params and fragment are '' *)
Record purl := { u_scheme : str; u_netloc : str; u_path : str; u_query : str }.
(* a URL string together with what urlparse makes of it (None: urlparse raises ValueError) *)
Record url := { raw : str; parsed : option purl }.

Definition nonempty (x : str) : bool := match x with [] => false | _ => true end.
Definition mem_str (x : str) (l : list str) : bool := existsb (eqs x) l.
Definition slash : N := 47%N.

Fixpoint split_on (c : N) (cur : str) (p : str) : list str :=        (* p.split(c), cur = reversed current piece *)
  match p with
  | [] => [rev cur]
  | x :: r => if N.eqb x c then rev cur :: split_on c [] r else split_on c (x :: cur) r
  end.
Definition split_slash (p : str) : list str := split_on slash [] p.

Fixpoint join_slash (l : list str) : str :=                         (* '/'.join(l) *)
  match l with
  | [] => []
  | [x] => x
  | x :: r => x ++ slash :: join_slash r
  end.

Definition dot : str := s ".".
Definition dotdot : str := s "..".

Fixpoint resolve_segs (segs : list str) (stack : list str) : list str :=     (* stack = resolved_path reversed *)
  match segs with
  | [] => rev stack
  | seg :: r =>
      if eqs seg dotdot then
        match stack with
        | _ :: st => resolve_segs r st
        | [] => resolve_segs r [dotdot]
        end
      else if eqs seg dot then resolve_segs r stack
      else resolve_segs r (seg :: stack)
  end.

(* segments[1:-1] = filter(None, segments[1:-1]) *)
Definition filter_middle (l : list str) : list str :=
  match l with
  | [] => []
  | h :: t => match t with
              | [] => [h]
              | _ => h :: filter nonempty (removelast t) ++ [last t []]
              end
  end.

(* urlunparse((scheme, netloc, path, '', query, '')) *)
Definition unparse (p : purl) : str :=
  let u := u_path p in
  let u := if nonempty (u_netloc p)
              || (nonempty (u_scheme p) && mem_str (u_scheme p) uses_netloc && negb (starts (s "//") u))
           then s "//" ++ u_netloc p ++ (if nonempty u && negb (starts (s "/") u) then slash :: u else u)
           else u in
  let u := if nonempty (u_scheme p) then u_scheme p ++ s ":" ++ u else u in
  if nonempty (u_query p) then u ++ s "?" ++ u_query p else u.

(* what urlparse makes of (unparse p): a path that follows a netloc gets its leading '/' *)
Definition norm_purl (p : purl) : purl :=
  let u := u_path p in
  if (nonempty (u_netloc p)
      || (nonempty (u_scheme p) && mem_str (u_scheme p) uses_netloc && negb (starts (s "//") u)))
     && nonempty u && negb (starts (s "/") u)
  then {| u_scheme := u_scheme p; u_netloc := u_netloc p; u_path := slash :: u; u_query := u_query p |}
  else p.

(* the joined URL as a string, with the record urlparse gives for that string (trusted: urlparse/urlunparse
   round trip on joined URLs, checked by the harness on every joined URL) *)
Definition mk_url (p : purl) : url := {| raw := unparse p; parsed := Some (norm_purl p) |}.

Definition join_parsed (pa pb0 : purl) (b : url) : url :=
  let pb := if nonempty (u_scheme pb0) then pb0
            else {| u_scheme := u_scheme pa; u_netloc := u_netloc pb0; u_path := u_path pb0; u_query := u_query pb0 |} in
  if negb (eqs (u_scheme pa) (u_scheme pb)) || negb (mem_str (u_scheme pa) uses_relative) then b
  else
    let in_netloc := mem_str (u_scheme pb) uses_netloc in
    if in_netloc && nonempty (u_netloc pb) then mk_url pb
    else
      let netloc := if in_netloc then u_netloc pa else u_netloc pb in
      if negb (nonempty (u_path pb)) then
        mk_url {| u_scheme := u_scheme pb; u_netloc := netloc; u_path := u_path pa;
                  u_query := if nonempty (u_query pb) then u_query pb else u_query pa |}
      else
        let base_parts := split_slash (u_path pa) in
        let base_parts := if nonempty (last base_parts []) then removelast base_parts else base_parts in
        let segments := if starts (s "/") (u_path pb) then split_slash (u_path pb)
                        else filter_middle (base_parts ++ split_slash (u_path pb)) in
        let resolved := resolve_segs segments [] in
        let lastseg := last segments [] in
        let resolved := if eqs lastseg dot || eqs lastseg dotdot then resolved ++ [[]] else resolved in
        let path := join_slash resolved in
        mk_url {| u_scheme := u_scheme pb; u_netloc := netloc;
                  u_path := if nonempty path then path else s "/"; u_query := u_query pb |}.

(* util.urljoin(a, b); None = ValueError raised by urlparse *)
Definition urljoin (a b : url) : option url :=
  match parsed a, parsed b with
  | Some pa, Some pb => Some (join_parsed pa pb b)
  | _, _ => None
  end.

(* the text of util.urljoin this model was written against (the translator pins it) *)
Definition urljoin_modelled_sha : str := s "5fade202be4d931a".

(* ------------------------------------------------------------------ sheets, worlds, results *)
Inductive item :=
  | IImport (h : url) (media : str)        (* @import "h" media;     media = "all" when absent *)
  | INamespace (uri : str)
  | IStyle (sel payload : str)
  | IComment (text : str).

(* what the parser makes of a text: a valid @charset rule at the very start (lower-cased), then the statements *)
Record src := { s_charset : option str; s_items : list item }.

Inductive content := CText (t : N) | CBytes (b : N).
Inductive outcome :=
  | ONothing                               (* a falsy value: None, (), '' *)
  | OWrongLen                              (* not a 2-sequence, or a mistyped one: 5, 'ab', (None, 123), (b'utf-8', b'..') *)
  | ONoContent                             (* (x, None) *)
  | OContent (http : enc) (c : content)    (* (http, text) or (http, bytes) *)
  | ORaise (e : exn).
Inductive dec_result := DecText (t : N) | DecRaise (e : exn).

Record world := {
  fetch : list str -> str -> outcome;      (* calls made so far (latest first) -> url -> what the fetcher does *)
  detect : content -> enc * bool;          (* codec.detectencoding_unicode / detectencoding_str *)
  decode : N -> enc -> dec_result;         (* codecs.lookup("css")[1](bytes, encoding=...) *)
  parse : N -> src;                        (* text -> statements *)
  enc_norm : str -> option str             (* CSSCharsetRule's validation: None = rejected, Some = lower-cased name *)
}.

Inductive rrule :=
  | RCharset (e : str)
  | RImport (h media : str) (found : bool) (sheet_href : option str) (rules : list rrule)
  | RNamespace (uri : str)
  | RStyle (sel payload : str)
  | RComment (t : str).

Definition trace := list str.              (* fetcher calls, latest first *)

Inductive res (A : Type) :=
  | Normal (a : A)
  | Escapes (e : exn) (tr : trace)         (* an exception leaves the parse *)
  | OutOfDepth.                            (* nesting deeper than the fuel (the implementation: RecursionError) *)
Arguments Normal {A} a.
Arguments Escapes {A} e tr.
Arguments OutOfDepth {A}.

Definition sheet_encoding (rules : list rrule) : str :=      (* CSSStyleSheet.encoding *)
  match rules with RCharset e :: _ => e | _ => s "utf-8" end.

Definition opt_truthy (e : enc) : enc := if truthy e then e else None.

(* ------------------------------------------------------------------ _readUrl *)
Inductive rd := RdNone | RdOk (used : enc) (enctype : N) (t : N) | RdRaise (e : exn).

Definition readurl (W : world) (override parent : enc) (o : outcome) : rd :=
  match o with
  | ORaise e => RdRaise e
  | ONothing | OWrongLen | ONoContent => RdNone
  | OContent http c =>
      let '(cenc, explicit) := detect W c in
      let '(enctype, encoding) := ladder override http explicit cenc parent in
      match c with
      | CText t => RdOk encoding enctype t
      | CBytes b =>
          match decode W b encoding with
          | DecText t => RdOk encoding enctype t
          | DecRaise e => if decode_tolerated e then RdNone else RdRaise e
          end
      end
  end.

(* ------------------------------------------------------------------ CSSStyleSheet._setEncoding *)
(* None = AttributeError ('_encoding') out of insertRule *)
Definition set_encoding (W : world) (e : str) (rules : list rrule) : option (list rrule) :=
  match rules with
  | RCharset old :: r => Some (match enc_norm W e with Some n => RCharset n :: r | None => rules end)
  | _ => match enc_norm W e with
         | Some n => Some (RCharset n :: rules)
         | None => if charset_init_safe then Some rules else None
         end
  end.

(* the tail of _setCssTextWithEncodingOverride *)
Definition finish_encoding (W : world) (eo en : enc) (rules : list rrule) : option (list rrule) :=
  match opt_truthy eo, opt_truthy en with
  | Some e, _ => set_encoding W e rules
  | None, Some e => set_encoding W e rules
  | None, None => Some rules
  end.

(* ------------------------------------------------------------------ _setHref *)
Record loaded := { l_found : bool; l_href : option str; l_rules : list rrule }.
Definition not_loaded : loaded := {| l_found := false; l_href := None; l_rules := [] |}.

(* parse of an imported sheet: href of the sheet, the hrefs of the import chain (this sheet first), its
   __encodingOverride, its __newEncoding, the text, the trace *)
Definition loader := url -> list str -> enc -> enc -> src -> trace -> res (list rrule * trace).

(* anc: the hrefs of the sheets of the import chain, innermost (the sheet that contains the rule) first:
   parentStyleSheet.href, parentStyleSheet.ownerRule.parentStyleSheet.href, ... *)
Definition set_href (ld : loader) (W : world) (cwd : url) (base : option url) (anc : list str) (override parent : enc)
           (h : url) (tr : trace) : res (loaded * trace) :=
  if negb (nonempty (raw h)) then Normal (not_loaded, tr) else
  let b := match base with Some b => b | None => cwd end in
  let raise (e : exn) (tr' : trace) (l : loaded) : res (loaded * trace) :=
      if is_caught e then Normal (l, tr') else Escapes e tr' in
  match urljoin b h with
  | None => if join_guarded then raise E_ValueError tr not_loaded else Escapes E_ValueError tr
  | Some full =>
      if cycle_guard && mem_str (raw full) anc then raise raised_on_cycle tr not_loaded else
      let tr1 := raw full :: tr in
      match readurl W override parent (fetch W tr (raw full)) with
      | RdRaise e => raise e tr1 not_loaded
      | RdNone => raise raised_on_none tr1 not_loaded
      | RdOk used enctype t =>
          let '(eo, en) := split_enc enctype used in
          match ld full (raw full :: anc) (opt_truthy eo) (opt_truthy en) (parse W t) tr1 with
          | OutOfDepth => OutOfDepth
          | Escapes e tr2 => raise e tr2 {| l_found := false; l_href := Some (raw full); l_rules := [] |}
          | Normal (rules, tr2) =>
              match finish_encoding W eo en rules with
              | None => raise E_AttributeError tr2 {| l_found := false; l_href := Some (raw full); l_rules := rules |}
              | Some rules' => Normal ({| l_found := true; l_href := Some (raw full); l_rules := rules' |}, tr2)
              end
          end
      end
  end.

(* ------------------------------------------------------------------ CSSStyleSheet._setCssText (statement level) *)
Definition mk_import (h : url) (media : str) (l : loaded) : rrule :=
  RImport (raw h) media (l_found l) (l_href l) (l_rules l).

(* _resolveImport: __newEncoding if set, else the @charset rule at index 0, else None *)
Definition parent_encoding (newenc : enc) (acc : list rrule) : enc :=
  match newenc with
  | Some e => Some e
  | None => match acc with RCharset e :: _ => Some e | _ => None end
  end.

Fixpoint items_loop (ld : loader) (W : world) (cwd : url) (base : option url) (anc : list str) (override newenc : enc)
         (items : list item) (expected : N) (acc : list rrule) (tr : trace) : res (list rrule * trace) :=
  match items with
  | [] => Normal (acc, tr)
  | it :: rest =>
      let continue := items_loop ld W cwd base anc override newenc rest in
      match it with
      | IComment t => continue (N.max 1 expected) (acc ++ [RComment t]) tr
      | INamespace u => if N.ltb 2 expected then continue expected acc tr
                        else continue 2%N (acc ++ [RNamespace u]) tr
      | IStyle sel p => continue 3%N (acc ++ [RStyle sel p]) tr
      | IImport h media =>
          let penc := parent_encoding newenc acc in
          (* rule.cssText = ... -> self.href = new['href'] : first load *)
          match set_href ld W cwd base anc override penc h tr with
          | OutOfDepth => OutOfDepth
          | Escapes e tr1 => Escapes e tr1
          | Normal (l, tr1) =>
              if negb (nonempty (raw h)) then continue expected acc tr1        (* not well-formed: dropped *)
              else if N.ltb 1 expected then continue expected acc tr1          (* misplaced: loaded, then dropped *)
              else if l_found l then continue 1%N (acc ++ [mk_import h media l]) tr1
              else
                (* insertRule: `rule.href = rule.href` retries an unloaded import *)
                match set_href ld W cwd base anc override (parent_encoding newenc (acc ++ [mk_import h media l])) h tr1 with
                | OutOfDepth => OutOfDepth
                | Escapes e tr2 => Escapes e tr2
                | Normal (l2, tr2) => continue 1%N (acc ++ [mk_import h media l2]) tr2
                end
          end
      end
  end.

Definition initial_rules (sr : src) : list rrule :=
  match s_charset sr with Some e => [RCharset e] | None => [] end.
Definition initial_expected (sr : src) : N :=
  match s_charset sr with Some _ => 1%N | None => 0%N end.

(* parse of one sheet; fuel bounds the nesting depth of imports (the implementation has no bound) *)
Fixpoint parse_src (fuel : nat) (W : world) (cwd : url) (base : option url) (anc : list str) (override newenc : enc)
         (sr : src) (tr : trace) : res (list rrule * trace) :=
  match fuel with
  | O => OutOfDepth
  | S f =>
      items_loop (fun full anc' o n sr' tr' => parse_src f W cwd (Some full) anc' o n sr' tr')
                 W cwd base anc override newenc (s_items sr) (initial_expected sr) (initial_rules sr) tr
  end.

(* the chain of a top-level sheet: its own href (None when it has none: the cwd fallback is not its href) *)
Definition top_chain (base : option url) : list str := match base with Some b => [raw b] | None => [] end.

(* CSSParser(fetcher=...).parseString(text, encoding=override, href=base) *)
Definition parse_string (fuel : nat) (W : world) (cwd : url) (base : option url) (override : enc) (sr : src)
  : res (list rrule * trace) :=
  match parse_src fuel W cwd base (top_chain base) (opt_truthy override) None sr [] with
  | Normal (rules, tr) =>
      match finish_encoding W override None rules with
      | Some r => Normal (r, tr)
      | None => Escapes E_AttributeError tr
      end
  | r => r
  end.

(* the loader used at depth `fuel` (for statements about a single assignment of href) *)
Definition loader_at (fuel : nat) (W : world) (cwd : url) : loader :=
  fun full anc o n sr tr => parse_src fuel W cwd (Some full) anc o n sr tr.

(* ------------------------------------------------------------------ resolveImports *)
Inductive frule :=
  | FComment (t : str)
  | FImport (h media : str)
  | FStyle (sel payload : str)
  | FNamespace (uri : str)
  | FMedia (media : str) (rules : list frule).

Definition fkind (r : frule) : kind :=
  match r with
  | FComment _ => K_COMMENT | FImport _ _ => K_IMPORT | FStyle _ _ => K_STYLE
  | FNamespace _ => K_NAMESPACE | FMedia _ _ => K_MEDIA
  end.
Definition kind_eqb (a b : kind) : bool :=
  match a, b with
  | K_COMMENT, K_COMMENT | K_STYLE, K_STYLE | K_IMPORT, K_IMPORT | K_MEDIA, K_MEDIA
  | K_NAMESPACE, K_NAMESPACE | K_CHARSET, K_CHARSET => true
  | _, _ => false
  end.
Definition is_kind (k : kind) (r : frule) : bool := kind_eqb k (fkind r).

(* index after the last rule satisfying p, if any *)
Fixpoint after_last (p : frule -> bool) (l : list frule) : option nat :=
  match l with
  | [] => None
  | x :: r => match after_last p r with
              | Some i => Some (S i)
              | None => if p x then Some 1%nat else None
              end
  end.
Definition insert_at {A} (i : nat) (x : A) (l : list A) : list A := firstn i l ++ x :: skipn i l.
Fixpoint first_index (p : frule -> bool) (l : list frule) : option nat :=
  match l with
  | [] => None
  | x :: r => if p x then Some 0%nat else option_map S (first_index p r)
  end.

(* CSSStyleSheet.add(rule) = insertRule(rule, inOrder=True) on a sheet made of the kinds above (no @charset) *)
Definition add (r : frule) (tg : list frule) : list frule :=
  match r with
  | FImport _ _ =>
      match after_last (is_kind K_IMPORT) tg with
      | Some i => insert_at i r tg
      | None => match tg with
                | FComment _ :: _ => insert_at 1 r tg
                | _ => r :: tg
                end
      end
  | FNamespace _ =>
      match after_last (is_kind K_NAMESPACE) tg with
      | Some i => insert_at i r tg
      | None =>
          let start := match after_last (is_kind K_IMPORT) tg with Some i => i | None => 0%nat end in
          match first_index (fun x => negb (is_kind K_IMPORT x) && negb (is_kind K_NAMESPACE x)) (skipn start tg) with
          | Some i => insert_at (start + i) r tg
          | None => tg ++ [r]
          end
      end
  | _ => tg ++ [r]
  end.

Definition wrappable (r : frule) : bool := existsb (fun k => kind_eqb k (fkind r)) wrap_allowed.

Definition is_all (media : str) : bool := eqs media (s "all").

(* which fetcher re-resolves an unloaded @import that add() puts into the new target sheet *)
Inductive fetcher_used := Configured | DefaultFetcher.
Definition resolve_fetcher : fetcher_used := if resolve_inherits_fetcher then Configured else DefaultFetcher.

(* None: HierarchyRequestErr leaves resolveImports (an @import added to the @media wrapper) *)
Fixpoint resolve_rule (r : rrule) (tg : list frule) : option (list frule) :=
  match r with
  | RCharset _ => Some tg
  | RNamespace u => Some (add (FNamespace u) tg)
  | RStyle a b => Some (add (FStyle a b) tg)
  | RComment t => Some (add (FComment t) tg)
  | RImport h media found _ rules =>
      if negb found then Some (add (FImport h media) tg)
      else
        let tg1 := add (FComment (s " START @import """ ++ h ++ s """ ")) tg in
        let inner := (fix go (l : list rrule) (acc : list frule) : option (list frule) :=
                        match l with
                        | [] => Some acc
                        | x :: xs => match resolve_rule x acc with Some acc' => go xs acc' | None => None end
                        end) rules [] in
        match inner with
        | None => Some (add (FImport h media) tg1)          (* except HierarchyRequestErr: keep the rule *)
        | Some imported =>
            if is_all media then Some (fold_left (fun t x => add x t) imported tg1)
            else if forallb wrappable imported then
              if existsb (is_kind K_IMPORT) imported then None
              else Some (add (FMedia media imported) tg1)
            else Some (add (FImport h media) tg1)
        end
  end.

Fixpoint resolve_rules (l : list rrule) (acc : list frule) : option (list frule) :=
  match l with
  | [] => Some acc
  | x :: xs => match resolve_rule x acc with Some acc' => resolve_rules xs acc' | None => None end
  end.

Definition resolve (rules : list rrule) : option (list frule) := resolve_rules rules [].

(* ---- the readable specification of resolveImports.
   Every rule contributes, in document order, a list of rules that are handed to add() one after the other:
     @charset                    nothing
     comment / style / @namespace   itself
     an @import that is not loaded  itself (KEPT)
     a loaded @import               the START comment, then
        media `all`                 the rules of its flattened sheet
        media-restricted            one @media rule holding the flattened sheet when that consists of rules which
                                    may stand inside @media (wrap_allowed), otherwise the @import itself (kept)        *)
Definition start_comment (h : str) : frule := FComment (s " START @import """ ++ h ++ s """ ").
Definition place (l : list frule) (tg : list frule) : list frule := fold_left (fun t x => add x t) l tg.

Fixpoint contrib (r : rrule) : list frule :=
  match r with
  | RCharset _ => []
  | RNamespace u => [FNamespace u]
  | RStyle a b => [FStyle a b]
  | RComment t => [FComment t]
  | RImport h media found _ rules =>
      if negb found then [FImport h media]
      else
        let flat := place (flat_map contrib rules) [] in
        start_comment h ::
          (if is_all media then flat
           else if forallb wrappable flat then [FMedia media flat]
           else [FImport h media])
  end.

Definition flatten (rules : list rrule) : list frule := place (flat_map contrib rules) [].

(* the URLs re-requested by add() for unloaded imports kept at the top level of the result, in order *)
Definition kept_unloaded (rules : list rrule) : list str :=
  flat_map (fun r => match r with RImport h _ false _ _ => [h] | _ => [] end) rules.
