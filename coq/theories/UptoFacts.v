(* UptoFacts.v -- proofs about the model of _tokensupto2 (Upto.v) *)
From CssV Require Import Base Tokenizer Gen.UptoGen Upto.
Open Scope Z_scope.

(* ---------------------------------------------------------------- partition *)
Lemma upto_loop_partition md ts : forall c run rest,
  upto_loop md c ts = (run, rest) ->
  run ++ rest = ts /\ (ts <> [] -> (length rest < length ts)%nat).
Proof.
  induction ts as [|t r IH]; intros c run rest H; simpl in H.
  - inversion H; subst. split; [reflexivity|congruence].
  - destruct (is_eof t) eqn:Eeof.
    + inversion H; subst. split; [reflexivity|intros _; simpl; lia].
    + destruct (stops md (bump c t) t) eqn:Est.
      * inversion H; subst. split; [reflexivity|intros _; simpl; lia].
      * destruct (upto_loop md (bump c t) r) as [run' rest'] eqn:Eloop.
        inversion H; subst. destruct (IH _ _ _ Eloop) as [Hp Hl]. split.
        -- simpl. now rewrite Hp.
        -- intros _. simpl. destruct r as [|x r']; [simpl in Eloop; inversion Eloop; simpl; lia|].
           assert (x :: r' <> []) as Hne by congruence. specialize (Hl Hne). simpl in *. lia.
Qed.

Lemma upto_md_partition md sc start ts run rest :
  upto_md md sc start ts = (run, rest) ->
  run ++ rest = (match start with Some t => [t] | None => [] end) ++ ts /\
  (ts <> [] -> (length rest < length ts)%nat).
Proof.
  unfold upto_md. destruct start as [t|].
  - destruct (upto_loop md (sc (c0 md) t) ts) as [run' rest'] eqn:E. intros H; inversion H; subst.
    destruct (upto_loop_partition _ _ _ _ _ E) as [Hp Hl]. split; [simpl; now rewrite Hp|exact Hl].
  - intros H. destruct (upto_loop_partition _ _ _ _ _ H) as [Hp Hl]. split; [exact Hp|exact Hl].
Qed.

Lemma upto_partition_lemma fl start ts run rest :
  upto fl start ts = (run, rest) ->
  run ++ rest = (match start with Some t => [t] | None => [] end) ++ ts /\
  (ts <> [] -> (length rest < length ts)%nat).
Proof. apply upto_md_partition. Qed.

(* ---------------------------------------------------------------- closed runs *)
Lemma after_cons c t r : after c (t :: r) = after (bump c t) r.
Proof. reflexivity. Qed.

Lemma after_app c x y : after c (x ++ y) = after (after c x) y.
Proof. unfold after. apply fold_left_app. Qed.

Lemma closed_app md x : forall c y, closed md c (x ++ y) = closed md c x && closed md (after c x) y.
Proof.
  induction x as [|t x IH]; intros c y; [reflexivity|].
  cbn [closed app]. rewrite IH, after_cons. now rewrite !andb_assoc.
Qed.

Lemma upto_closed_run_lemma md run : forall c e rest,
  closed md c run = true ->
  (is_eof e = true \/ stops md (bump (after c run) e) e = true) ->
  upto_loop md c (run ++ e :: rest) = (run ++ [e], rest).
Proof.
  induction run as [|t run IH]; intros c e rest Hc He; simpl.
  - destruct (is_eof e) eqn:E; [reflexivity|]. destruct He as [He|He]; [discriminate|].
    simpl in He. now rewrite He.
  - simpl in Hc. apply andb_true_iff in Hc as [Hc Hc3]. apply andb_true_iff in Hc as [Hc1 Hc2].
    apply negb_true_iff in Hc1, Hc2. rewrite Hc1, Hc2.
    rewrite (IH (bump c t) e rest Hc3 He). reflexivity.
Qed.

(* the loop runs through a closed run and continues behind it *)
Lemma upto_closed_prefix md run : forall c rest,
  closed md c run = true ->
  upto_loop md c (run ++ rest) =
  (let '(r1, r2) := upto_loop md (after c run) rest in (run ++ r1, r2)).
Proof.
  induction run as [|t run IH]; intros c rest Hc.
  - simpl. now destruct (upto_loop md c rest).
  - cbn [app upto_loop]. simpl in Hc. apply andb_true_iff in Hc as [Hc Hc3]. apply andb_true_iff in Hc as [Hc1 Hc2].
    apply negb_true_iff in Hc1, Hc2. rewrite Hc1, Hc2, (IH _ _ Hc3), after_cons.
    now destruct (upto_loop md (after (bump c t) run) rest).
Qed.

(* ---------------------------------------------------------------- token classes *)
Lemma eqs_true a b : eqs a b = true -> a = b.
Proof. apply eqs_spec. Qed.

Ltac ladder v :=
  repeat match goal with
         | |- context [eqs v ?k] =>
           let E := fresh "E" in destruct (eqs v k) eqn:E;
           [apply eqs_true in E; subst v; simpl; try reflexivity; try discriminate|]
         end.

Lemma bump_class c t :
  bump c t = match bclass_of t with
             | BOpen k => shift k 1 c | BClose k => shift k (-1) c | BAtom => c end.
Proof.
  destruct c as [[br bk] pa]. unfold bump, bclass_of, is_function, is_ident. destruct t as [y rw v l cl]; cbn [val ty]. cbv zeta.
  destruct (eqs y (s "IDENT")) eqn:E0; [reflexivity|].
  destruct (eqs v (s "{")) eqn:E1; [reflexivity|].
  destruct (eqs v (s "}")) eqn:E2; [reflexivity|].
  destruct (eqs v (s "[")) eqn:E3; [reflexivity|].
  destruct (eqs v (s "]")) eqn:E4; [reflexivity|].
  destruct (eqs v (s "(") || eqs y (s "FUNCTION")) eqn:E5; [reflexivity|].
  destruct (eqs v (s ")")) eqn:E6; reflexivity.
Qed.

Lemma start_count_class c t :
  (forall k, bclass_of t <> BClose k) ->
  start_count c t = bump c t.
Proof.
  destruct c as [[br bk] pa]. unfold start_count, bump, bclass_of, is_function, is_ident.
  destruct t as [y rw v l cl]; cbn [val ty]. cbv zeta. intros H.
  destruct (eqs y (s "IDENT")) eqn:E0; [reflexivity|].
  destruct (eqs v (s "{")) eqn:E1.
  { apply eqs_true in E1; subst v. reflexivity. }
  destruct (eqs v (s "}")) eqn:E2; [exfalso; eapply H; reflexivity|].
  destruct (eqs v (s "[")) eqn:E3; [reflexivity|].
  destruct (eqs v (s "]")) eqn:E4; [exfalso; eapply H; reflexivity|].
  destruct (eqs v (s "(") || eqs y (s "FUNCTION")) eqn:E5; [reflexivity|].
  destruct (eqs v (s ")")) eqn:E6; [exfalso; eapply H; reflexivity|reflexivity].
Qed.

Definition nonneg (c : counters) : Prop := let '(br, bk, pa) := c in 0 <= br /\ 0 <= bk /\ 0 <= pa.
Definition pos (c : counters) : Prop := nonneg c /\ let '(br, bk, pa) := c in 0 < br + bk + pa.

Lemma pos_shift k c : nonneg c -> pos (shift k 1 c).
Proof.
  destruct c as [[br bk] pa]. unfold pos, nonneg, shift.
  destruct k as [|[|k]]; intros (H1 & H2 & H3); repeat split; lia.
Qed.

Lemma shift_back k c : shift k (-1) (shift k 1 c) = c.
Proof.
  destruct c as [[br bk] pa]. unfold shift. destruct k as [|[|k]]; f_equal; try f_equal; lia.
Qed.

Lemma stops_pos md c t : mq md = false -> pos c -> stops md c t = false.
Proof.
  intros Hmq [Hn Hp]. unfold stops. rewrite Hmq. simpl. rewrite orb_false_r.
  destruct c as [[br bk] pa]. unfold zero, nonneg in *. destruct Hn as (H1 & H2 & H3).
  destruct (Z.eqb_spec br 0); simpl; [|reflexivity].
  destruct (Z.eqb_spec bk 0); simpl; [|reflexivity].
  destruct (Z.eqb_spec pa 0); simpl; [lia|reflexivity].
Qed.

Lemma stops_zero md t : mq md = false -> stops md (0, 0, 0) t = isendtok md t.
Proof. intros Hmq. unfold stops. rewrite Hmq. simpl. now rewrite orb_false_r. Qed.

(* ---------------------------------------------------------------- tie to the generated tables *)
(* the flags of the model are exactly the keyword parameters of the current source, in order *)
Lemma flags_generated : map flag_name all_flags = gen_flags.
Proof. reflexivity. Qed.

Lemma modes_generated :
  forallb (fun fl => match assoc_s (flag_name fl) gen_modes with Some _ => true | None => false end) all_flags = true
  /\ length gen_modes = length all_flags.
Proof. split; reflexivity. Qed.

(* the hand-written counter updates are the generated bracket chains (characters, the FUNCTION disjunct, which
   counter, which delta, in source order) behind the generated IDENT guard *)
Lemma bump_generated c t :
  bump c t = if gen_ident_guard && is_ident t then c
             else ladder_apply gen_loop_ladder (val t) (is_function t) c.
Proof.
  destruct c as [[br bk] pa]. unfold bump. destruct (is_ident t); [reflexivity|].
  unfold gen_ident_guard, gen_loop_ladder. cbn [andb ladder_apply]. cbv zeta.
  destruct (eqs (val t) (s "{")); [reflexivity|].
  destruct (eqs (val t) (s "}")); [reflexivity|].
  destruct (eqs (val t) (s "[")); [reflexivity|].
  destruct (eqs (val t) (s "]")); [reflexivity|].
  destruct (eqs (val t) (s "(")); destruct (is_function t); try reflexivity.
  all: destruct (eqs (val t) (s ")")); reflexivity.
Qed.

Lemma start_count_generated c t :
  start_count c t = if gen_ident_guard && is_ident t then c
                    else ladder_apply gen_start_ladder (val t) (is_function t) c.
Proof.
  destruct c as [[br bk] pa]. unfold start_count. destruct (is_ident t); [reflexivity|].
  unfold gen_ident_guard, gen_start_ladder. cbn [andb ladder_apply]. cbv zeta.
  destruct (eqs (val t) (s "[")); [reflexivity|].
  destruct (eqs (val t) (s "{")); [reflexivity|].
  destruct (eqs (val t) (s "(")); destruct (is_function t); reflexivity.
Qed.

(* ---------------------------------------------------------------- Balanced *)
Lemma Balanced_app x y : Balanced x -> Balanced y -> Balanced (x ++ y).
Proof.
  intros Hx Hy. induction Hx as [|t x Ht He Hx IH|o b c x k Ho Hc Heo Hec Hb IHb Hx IH]; simpl.
  - exact Hy.
  - now apply Bal_atom.
  - replace (o :: (b ++ c :: x) ++ y) with (o :: b ++ c :: (x ++ y)).
    + eapply Bal_group; eauto.
    + simpl. f_equal. rewrite <- app_assoc. reflexivity.
Qed.

Lemma Balanced_group o b c k :
  bclass_of o = BOpen k -> bclass_of c = BClose k -> is_eof o = false -> is_eof c = false ->
  Balanced b -> Balanced (o :: b ++ [c]).
Proof. intros. eapply Bal_group; eauto. constructor. Qed.

Lemma TopFree_Balanced md x : TopFree md x -> Balanced x.
Proof.
  induction 1 as [|t x Ht He Hn Hx IH|o b c x k Ho Hc Heo Hec Hb Hn Hx IH].
  - constructor.
  - now apply Bal_atom.
  - eapply Bal_group; eauto.
Qed.

Lemma Balanced_TopFree md x :
  Balanced x -> (forall t, In t x -> isendtok md t = false) -> TopFree md x.
Proof.
  induction 1 as [|t x Ht He Hx IH|o b c x k Ho Hc Heo Hec Hb IHb Hx IH]; intros Hall.
  - constructor.
  - apply TF_atom; auto. + apply Hall; now left. + apply IH. intros; apply Hall; now right.
  - eapply TF_group; eauto.
    + apply Hall. right. apply in_or_app. right. now left.
    + apply IH. intros u Hu. apply Hall. right. apply in_or_app. right. now right.
Qed.

Lemma bump_atom c t : bclass_of t = BAtom -> bump c t = c.
Proof. intros H. now rewrite bump_class, H. Qed.
Lemma bump_open c t k : bclass_of t = BOpen k -> bump c t = shift k 1 c.
Proof. intros H. now rewrite bump_class, H. Qed.
Lemma bump_close c t k : bclass_of t = BClose k -> bump (shift k 1 c) t = c.
Proof. intros H. rewrite bump_class, H. apply shift_back. Qed.

Lemma closed_cons md c t r :
  closed md c (t :: r) = negb (is_eof t) && negb (stops md (bump c t) t) && closed md (bump c t) r.
Proof. reflexivity. Qed.

(* inside a group (some counter positive, none negative) nothing can stop the loop, and the
   counters are back where they were after a balanced run                                   *)
Lemma balanced_closed_nested md x :
  mq md = false -> Balanced x -> forall c, pos c -> closed md c x = true /\ after c x = c.
Proof.
  intros Hmq Hx. induction Hx as [|t x Ht He Hx IH|o b c' x k Ho Hc Heo Hec Hb IHb Hx IH]; intros c Hp.
  - split; reflexivity.
  - rewrite closed_cons, after_cons, (bump_atom _ _ Ht), He, (stops_pos _ _ _ Hmq Hp).
    destruct (IH _ Hp) as [H1 H2]. rewrite H1, H2. split; reflexivity.
  - assert (pos (shift k 1 c)) as Hp1 by (apply pos_shift; apply Hp).
    destruct (IHb _ Hp1) as [Hb1 Hb2]. destruct (IH _ Hp) as [Hx1 Hx2].
    rewrite closed_cons, after_cons, (bump_open _ _ _ Ho), Heo, (stops_pos _ _ _ Hmq Hp1).
    rewrite closed_app, after_app, Hb1, Hb2.
    rewrite closed_cons, after_cons, (bump_close _ _ _ Hc), Hec, (stops_pos _ _ _ Hmq Hp), Hx1, Hx2.
    split; reflexivity.
Qed.

(* at depth 0 *)
Lemma balanced_closed_lemma md x :
  mq md = false -> TopFree md x ->
  closed md (0, 0, 0) x = true /\ after (0, 0, 0) x = (0, 0, 0).
Proof.
  intros Hmq Hx. induction Hx as [|t x Ht He Hn Hx IH|o b c' x k Ho Hc Heo Hec Hb Hn Hx IH].
  - split; reflexivity.
  - rewrite closed_cons, after_cons, (bump_atom _ _ Ht), He, (stops_zero _ _ Hmq), Hn.
    destruct IH as [H1 H2]. rewrite H1, H2. split; reflexivity.
  - assert (pos (shift k 1 (0, 0, 0))) as Hp1 by (apply pos_shift; unfold nonneg; lia).
    destruct (balanced_closed_nested md b Hmq Hb _ Hp1) as [Hb1 Hb2]. destruct IH as [Hx1 Hx2].
    rewrite closed_cons, after_cons, (bump_open _ _ _ Ho), Heo, (stops_pos _ _ _ Hmq Hp1).
    rewrite closed_app, after_app, Hb1, Hb2.
    rewrite closed_cons, after_cons, (bump_close _ _ _ Hc), Hec, (stops_zero _ _ Hmq), Hn, Hx1, Hx2.
    split; reflexivity.
Qed.

(* ---------------------------------------------------------------- complete statements *)
Lemma stmtrun_loop md j rest :
  mq md = false -> StmtRun md j -> upto_loop md (0, 0, 0) (j ++ rest) = (j, rest).
Proof.
  intros Hmq Hj. destruct Hj as [pre e Hpre Hne Hee Hea Hend|pre o b c k Hpre Ho Hc Heo Hec Hb Hend].
  - destruct (balanced_closed_lemma md pre Hmq Hpre) as [H1 H2].
    rewrite <- app_assoc. cbn [app]. apply upto_closed_run_lemma; [exact H1|].
    right. rewrite H2, (bump_atom _ _ Hea), (stops_zero _ _ Hmq). exact Hend.
  - destruct (balanced_closed_lemma md pre Hmq Hpre) as [H1 H2].
    assert (pos (shift k 1 (0, 0, 0))) as Hp1 by (apply pos_shift; unfold nonneg; lia).
    destruct (balanced_closed_nested md b Hmq Hb _ Hp1) as [Hb1 Hb2].
    replace ((pre ++ o :: b ++ [c]) ++ rest) with ((pre ++ o :: b) ++ c :: rest)
      by (rewrite <- !app_assoc; cbn [app]; rewrite <- app_assoc; reflexivity).
    replace (pre ++ o :: b ++ [c]) with ((pre ++ o :: b) ++ [c])
      by (rewrite <- !app_assoc; reflexivity).
    apply upto_closed_run_lemma.
    + rewrite closed_app, H1, H2, closed_cons, (bump_open _ _ _ Ho), Heo, (stops_pos _ _ _ Hmq Hp1), Hb1.
      reflexivity.
    + right. rewrite after_app, H2, after_cons, (bump_open _ _ _ Ho), Hb2, (bump_close _ _ _ Hc),
        (stops_zero _ _ Hmq). exact Hend.
Qed.

Lemma topfree_head md t x :
  mq md = false -> TopFree md (t :: x) ->
  is_eof t = false /\ stops md (bump (0, 0, 0) t) t = false /\ (forall k, bclass_of t <> BClose k).
Proof.
  intros Hmq H. inversion H as [|t' x' Ht He Hn Hx|o b c x' k Ho Hc Heo Hec Hb Hn Hx]; subst.
  - repeat split; auto. + rewrite (bump_atom _ _ Ht), (stops_zero _ _ Hmq). exact Hn. + intros k; congruence.
  - repeat split; auto.
    + rewrite (bump_open _ _ _ Ho). apply stops_pos; auto. apply pos_shift. unfold nonneg; lia.
    + intros k'; congruence.
Qed.

Lemma stmtrun_head md t r :
  mq md = false -> StmtRun md (t :: r) ->
  is_eof t = false /\ stops md (bump (0, 0, 0) t) t = false /\ (forall k, bclass_of t <> BClose k).
Proof.
  intros Hmq H. inversion H as [pre e Hpre Hne Hee Hea Hend Heq|pre o b c k Hpre Ho Hc Heo Hec Hb Hend Heq].
  - destruct pre as [|p pre]; [congruence|]. simpl in Heq. inversion Heq; subst.
    eapply topfree_head; eauto.
  - destruct pre as [|p pre]; simpl in Heq; inversion Heq; subst.
    + repeat split; auto.
      * rewrite (bump_open _ _ _ Ho). apply stops_pos; auto. apply pos_shift. unfold nonneg; lia.
      * intros k'; congruence.
    + eapply topfree_head; eauto.
Qed.

(* _tokensupto2(tokenizer, t, <mode with zero initial counters>) on a complete statement that
   starts with t returns exactly that statement and leaves everything behind it untouched    *)
Lemma stmtrun_upto md t r rest :
  mq md = false -> c0 md = (0, 0, 0) -> StmtRun md (t :: r) ->
  upto_md md start_count (Some t) (r ++ rest) = (t :: r, rest).
Proof.
  intros Hmq Hc0 Hj. pose proof (stmtrun_loop md _ rest Hmq Hj) as Hl.
  destruct (stmtrun_head md t r Hmq Hj) as (He & Hs & Hcl).
  cbn [app upto_loop] in Hl. rewrite He, Hs in Hl.
  unfold upto_md. rewrite Hc0, (start_count_class _ _ Hcl).
  destruct (upto_loop md (bump (0, 0, 0) t) (r ++ rest)) as [run rest']. inversion Hl; subst. reflexivity.
Qed.

(* ---------------------------------------------------------------- every mode: inside ( ) or [ ] nothing stops *)
(* both stop conditions need bracket = parant = 0; so inside a ( ) / [ ] group -- whatever the brace counter, whatever
   the mode, mediaqueryendonly included -- the loop cannot stop                                                   *)
Definition inpar (c : counters) : Prop := let '(_, bk, pa) := c in 0 <= bk /\ 0 <= pa /\ 0 < bk + pa.

Lemma stops_inpar md c t : inpar c -> stops md c t = false.
Proof.
  destruct c as [[br bk] pa]. unfold inpar, stops, zero. intros (H1 & H2 & H3).
  destruct (Z.eqb_spec bk 0); destruct (Z.eqb_spec pa 0); try lia;
    rewrite ?andb_false_r, ?andb_false_l; simpl; rewrite ?andb_false_r; reflexivity.
Qed.

Lemma inpar_shift k c : inpar c -> inpar (shift k 1 c).
Proof.
  destruct c as [[br bk] pa]. unfold inpar, shift.
  destruct k as [|[|k]]; intros (H1 & H2 & H3); repeat split; lia.
Qed.

Lemma balanced_closed_inpar md x :
  Balanced x -> forall c, inpar c -> closed md c x = true /\ after c x = c.
Proof.
  intros Hx. induction Hx as [|t x Ht He Hx IH|o b c' x k Ho Hc Heo Hec Hb IHb Hx IH]; intros c Hp.
  - split; reflexivity.
  - rewrite closed_cons, after_cons, (bump_atom _ _ Ht), He, (stops_inpar _ _ _ Hp).
    destruct (IH _ Hp) as [H1 H2]. rewrite H1, H2. split; reflexivity.
  - pose proof (inpar_shift k _ Hp) as Hp1.
    destruct (IHb _ Hp1) as [Hb1 Hb2]. destruct (IH _ Hp) as [Hx1 Hx2].
    rewrite closed_cons, after_cons, (bump_open _ _ _ Ho), Heo, (stops_inpar _ _ _ Hp1).
    rewrite closed_app, after_app, Hb1, Hb2.
    rewrite closed_cons, after_cons, (bump_close _ _ _ Hc), Hec, (stops_inpar _ _ _ Hp), Hx1, Hx2.
    split; reflexivity.
Qed.

(* the run in front of the first top-level '{' is closed, for every mode whose bracket and parant counters
   start at 0 (all but funcendonly and selectorattendonly-after-'[') and every initial brace counter *)
Lemma prebrace_closed md br0 x :
  c0 md = (br0, 0, 0) -> PreBrace md x -> closed md (c0 md) x = true /\ after (c0 md) x = c0 md.
Proof.
  intros Hc0. induction 1 as [|t x Ht He Hs Hx IH|o b c x k Ho Hc Heo Hec Hb Hsc Hx IH].
  - split; reflexivity.
  - rewrite closed_cons, after_cons, (bump_atom _ _ Ht), He, Hs. destruct IH as [H1 H2].
    rewrite H1, H2. split; reflexivity.
  - assert (inpar (shift (S k) 1 (c0 md))) as Hp1
        by (rewrite Hc0; unfold inpar, shift; destruct k; repeat split; lia).
    destruct (balanced_closed_inpar md b Hb _ Hp1) as [Hb1 Hb2]. destruct IH as [Hx1 Hx2].
    rewrite closed_cons, after_cons, (bump_open _ _ _ Ho), Heo, (stops_inpar _ _ _ Hp1).
    rewrite closed_app, after_app, Hb1, Hb2.
    rewrite closed_cons, after_cons, (bump_close _ _ _ Hc), Hec, Hsc, Hx1, Hx2. split; reflexivity.
Qed.

(* _tokensupto2(tokenizer, <mode>=True) on  pre e rest  stops exactly at e: the first token on which the stop
   condition holds at the mode's initial counters -- the '{' of blockstartonly / mediaqueryendonly (brace -1 -> 0),
   or a STRING at depth 0 in mediaqueryendonly (the armed special case)                                        *)
Lemma prebrace_upto fl br0 pre e rest :
  c0 (mode_of fl None) = (br0, 0, 0) -> PreBrace (mode_of fl None) pre ->
  (is_eof e = true \/ stops (mode_of fl None) (bump (c0 (mode_of fl None)) e) e = true) ->
  upto fl None (pre ++ e :: rest) = (pre ++ [e], rest).
Proof.
  intros Hc0 Hpre He. unfold upto, upto_md.
  destruct (prebrace_closed _ _ _ Hc0 Hpre) as [H1 H2].
  apply upto_closed_run_lemma; [exact H1|]. now rewrite H2.
Qed.

(* ... and the matching block: after the '{' the modes blockendonly / mediaendonly (brace 1) run through any
   balanced body and stop at its '}'                                                                        *)
Lemma block_upto fl body c rest :
  c0 (mode_of fl None) = (1, 0, 0) -> mq (mode_of fl None) = false ->
  Balanced body -> bclass_of c = BClose 0 -> is_eof c = false -> isendtok (mode_of fl None) c = true ->
  upto fl None (body ++ c :: rest) = (body ++ [c], rest).
Proof.
  intros Hc0 Hmq Hb Hc Hec Hend. unfold upto, upto_md. rewrite Hc0.
  assert (pos (1, 0, 0)) as Hp by (unfold pos, nonneg; lia).
  destruct (balanced_closed_nested _ body Hmq Hb _ Hp) as [H1 H2].
  apply upto_closed_run_lemma; [exact H1|]. right. rewrite H2.
  change (1, 0, 0) with (shift 0 1 (0, 0, 0)). rewrite (bump_close _ _ _ Hc), (stops_zero _ _ Hmq). exact Hend.
Qed.

(* ---------------------------------------------------------------- the pinned defect *)
Definition T (y v : string) : tok := mkTok (s y) (s v) (s v) 1 1.

(* 'f() {} b{y:2}' : with the pinned start-token accounting the statement that starts with the
   FUNCTION token swallows the following rule; with the repaired accounting it ends at '}'   *)
Definition fn_stmt := [T "CHAR" ")"; T "S" " "; T "CHAR" "{"; T "CHAR" "}"].
Definition next_rule := [T "IDENT" "b"; T "CHAR" "{"; T "IDENT" "y"; T "CHAR" ":"; T "NUMBER" "2"; T "CHAR" "}"].

Lemma upto_pinned_function_start_refuted :
  upto_pinned FDefault (Some (T "FUNCTION" "f(")) (fn_stmt ++ next_rule)
  = (T "FUNCTION" "f(" :: fn_stmt ++ next_rule, []).
Proof. vm_compute. reflexivity. Qed.

Lemma upto_function_start_repaired :
  upto FDefault (Some (T "FUNCTION" "f(")) (fn_stmt ++ next_rule) = (T "FUNCTION" "f(" :: fn_stmt, next_rule).
Proof. vm_compute. reflexivity. Qed.
