(* EscapeEncDetect.v -- C13: `detect_after_encode` for the @charset branch AND the BOM / BOM-less UTF-16/32 branches:
   the real detector (Gen/CodecFns.detectencoding_str, regenerated from _codec3.py; C14's priority theorems in
   CodecFacts.v) applied to the bytes do_CSSStyleSheet writes for a sheet whose encoding was assigned.
   A codec belongs to a family by how it writes its BOM and the first two characters of the rule; the harness
   validates the family of every codec it uses.                                                                *)
From CssV Require Import Base CodecPyLib Gen.CodecFns Codec CodecDetect CodecFacts.
From CssV Require Import Regex Tokenizer Gen.EscapeConsts EscapeEnc EscapeEncFacts.

Inductive family := FCharset | FSig | F16 | F16B | F32 | F32B | F16LE | F16BE | F32LE | F32BE.

Definition family_ok (f : family) (encc : N -> option (list N)) (bom : list N) : Prop :=
  match f with
  | FCharset => bom = [] /\ forall c, (c < 128)%N -> encc c = Some [c]
  | FSig => bom = [239; 187; 191]%N
  | F16 => bom = [255; 254]%N /\ encc 64%N = Some [64; 0]%N
  | F16B => bom = [254; 255]%N
  | F32 => bom = [255; 254; 0; 0]%N
  | F32B => bom = [0; 0; 254; 255]%N
  | F16LE => bom = [] /\ encc 64%N = Some [64; 0]%N /\ encc 99%N = Some [99; 0]%N
  | F16BE => bom = [] /\ encc 64%N = Some [0; 64]%N
  | F32LE => bom = [] /\ encc 64%N = Some [64; 0; 0; 0]%N
  | F32BE => bom = [] /\ encc 64%N = Some [0; 0; 0; 64]%N
  end.

(* the name the detector reports: the rule's own name for ASCII-transparent codecs, the family's otherwise *)
Definition family_name (f : family) (rule_name : str) : str :=
  match f with
  | FCharset => rule_name
  | FSig => s "utf-8-sig"
  | F16 | F16B => s "utf-16"
  | F32 | F32B => s "utf-32"
  | F16LE => s "utf-16-le" | F16BE => s "utf-16-be" | F32LE => s "utf-32-le" | F32BE => s "utf-32-be"
  end.
Definition family_explicit (f : family) : bool :=
  match f with F16LE | F16BE | F32LE | F32BE => false | _ => true end.

Lemma prefix_same : CodecDetect.prefix = codec_charset_prefix.
Proof. reflexivity. Qed.

Lemma charset_text_head n : exists tail, charset_text n = 64%N :: 99%N :: tail.
Proof. unfold charset_text. eexists. reflexivity. Qed.

Lemma enc_body_head encc c r x bc : enc_body_esc encc (c :: r) = Some x -> encc c = Some bc ->
  exists x', x = bc ++ x'.
Proof.
  intros H Hc. cbn [enc_body_esc] in H. unfold enc_char_esc, encodable, EscapeEnc.enc1 in H. rewrite Hc in H.
  destruct (enc_body_esc encc r) as [x'|]; [|discriminate]. injection H as <-. eauto.
Qed.

Lemma ascii_name_noquote n : ascii_name n = true -> ~ In 34%N n.
Proof.
  intros H Hin. unfold ascii_name in H. rewrite forallb_forall in H. apply H, name_char_facts in Hin.
  destruct Hin as (_ & Hq & _). discriminate.
Qed.

Theorem encoded_reparse_detects_lemma f encc bom e sh b :
  family_ok f encc bom -> (f = FCharset -> ascii_name (lower e) = true) ->
  encode_esc encc bom (sheet_text (set_encoding e sh)) = Some b ->
  detectencoding_str b true = Some (Some (family_name f (get_encoding (set_encoding e sh))), family_explicit f).
Proof.
  intros Hf Hn Hb. rewrite get_set_encoding.
  destruct (charset_rule_first_text_lemma e sh) as (rest & Ht).
  destruct f; cbn [family_ok family_name family_explicit] in *.
  - (* @charset rule *)
    destruct Hf as [-> Htr]. specialize (Hn eq_refl).
    destruct (charset_rule_first_lemma encc Htr e sh b Hn Hb) as [[r ->] _].
    rewrite (charset_text_shape _ Hn), <- prefix_same, <- !app_assoc. cbn [app].
    apply charset_rule_detected. now apply ascii_name_noquote.
  - subst bom. unfold encode_esc in Hb. destruct (enc_body_esc encc _) as [x|]; [|discriminate]. injection Hb as <-.
    apply bom_utf8sig.
  - destruct Hf as [-> H64]. unfold encode_esc in Hb. rewrite Ht in Hb.
    destruct (charset_text_head (lower e)) as (tl0 & Hh). rewrite Hh in Hb. cbn [app] in Hb.
    destruct (enc_body_esc encc _) as [x|] eqn:E; [|discriminate]. injection Hb as <-.
    destruct (enc_body_head _ _ _ _ _ E H64) as (x' & ->). cbn [app].
    apply bom_utf16_le. left. discriminate.
  - subst bom. unfold encode_esc in Hb. destruct (enc_body_esc encc _) as [x|]; [|discriminate]. injection Hb as <-.
    apply bom_utf16_be.
  - subst bom. unfold encode_esc in Hb. destruct (enc_body_esc encc _) as [x|]; [|discriminate]. injection Hb as <-.
    apply bom_utf32_le.
  - subst bom. unfold encode_esc in Hb. destruct (enc_body_esc encc _) as [x|]; [|discriminate]. injection Hb as <-.
    apply bom_utf32_be.
  - destruct Hf as (-> & H64 & H99). unfold encode_esc in Hb. rewrite Ht in Hb.
    destruct (charset_text_head (lower e)) as (tl0 & Hh). rewrite Hh in Hb. cbn [app] in Hb.
    destruct (enc_body_esc encc _) as [x|] eqn:E; [|discriminate]. injection Hb as <-.
    cbn [enc_body_esc] in E. unfold enc_char_esc, encodable, EscapeEnc.enc1 in E. rewrite H64, H99 in E.
    destruct (enc_body_esc encc (tl0 ++ rest)) as [x'|]; [|discriminate]. injection E as <-.
    cbn [app]. apply implicit_utf16_le.
  - destruct Hf as (-> & H64). unfold encode_esc in Hb. rewrite Ht in Hb.
    destruct (charset_text_head (lower e)) as (tl0 & Hh). rewrite Hh in Hb. cbn [app] in Hb.
    destruct (enc_body_esc encc _) as [x|] eqn:E; [|discriminate]. injection Hb as <-.
    destruct (enc_body_head _ _ _ _ _ E H64) as (x' & ->). cbn [app]. apply implicit_utf16_be.
  - destruct Hf as (-> & H64). unfold encode_esc in Hb. rewrite Ht in Hb.
    destruct (charset_text_head (lower e)) as (tl0 & Hh). rewrite Hh in Hb. cbn [app] in Hb.
    destruct (enc_body_esc encc _) as [x|] eqn:E; [|discriminate]. injection Hb as <-.
    destruct (enc_body_head _ _ _ _ _ E H64) as (x' & ->). cbn [app]. apply implicit_utf32_le.
  - destruct Hf as (-> & H64). unfold encode_esc in Hb. rewrite Ht in Hb.
    destruct (charset_text_head (lower e)) as (tl0 & Hh). rewrite Hh in Hb. cbn [app] in Hb.
    destruct (enc_body_esc encc _) as [x|] eqn:E; [|discriminate]. injection Hb as <-.
    destruct (enc_body_head _ _ _ _ _ E H64) as (x' & ->). cbn [app]. apply implicit_utf32_be.
Qed.

(* closed instance: utf-16-le *)
Definition utf16le_encc (c : N) : option (list N) :=
  if N.ltb c 65536 then (if N.leb 55296 c && N.leb c 57343 then None else Some [N.modulo c 256; N.div c 256])
  else let v := N.sub c 65536 in
       let hi := N.add 55296 (N.div v 1024) in let lo := N.add 56320 (N.modulo v 1024) in
       Some [N.modulo hi 256; N.div hi 256; N.modulo lo 256; N.div lo 256].
Lemma utf16le_family : family_ok F16LE utf16le_encc [].
Proof. repeat split; reflexivity. Qed.
