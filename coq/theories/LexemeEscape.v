(* LexemeEscape.v -- C09: Tokenizer.unicodesub on a canonical element list gives the list of denoted
   characters (hex escapes replaced, one optional terminator swallowed, literal escapes and escaped
   newlines verbatim), for ALL element lists in which an escaped backslash is not directly
   followed by a hex digit (that case is the open finding, see LexemeSweep.esc_bs_refuted).     *)
From CssV Require Import Base Regex RegexFacts LexemeRegex Gen.TokTables Tokenizer Lexemes LexemeFacts.

Definition hexr' : list (N * N) := [(48,57); (97,102); (65,70)]%N.
Definition uterm_re : re := Rep (Alt (Cat (Chr 13) (Chr 10)) (Cls false ws_rs)) 0 (Some 1%nat).
Definition usub_re : re := Cat (Chr 92) (Cat (Rep (Cls false hexr') 1 (Some 6%nat)) uterm_re).
Lemma usub_shape : re_unicodesub = usub_re. Proof. reflexivity. Qed.

Lemma hexr'_is x : in_ranges x hexr' = is_hex x.
Proof. unfold is_hex, hex_rs, hexr'. cbn [in_ranges]. ranges. Qed.

(* ---- one step of re.sub ---- *)
Lemma sub_step_none r f fu prev x t : rmatch r prev (x :: t) = None ->
  sub_all_fuel (S fu) r f prev (x :: t) = x :: sub_all_fuel fu r f (Some x) t.
Proof. intros H. cbn [sub_all_fuel]. now rewrite H. Qed.

Lemma sub_step_hit r f fu prev x e' rest : First (R:=nat) (m r) (x :: e') rest ->
  sub_all_fuel (S fu) r f prev ((x :: e') ++ rest) =
  f (x :: e') ++ sub_all_fuel fu r f (Some (last (x :: e') x)) rest.
Proof.
  intros H. pose proof (first_rmatch r (x :: e') rest prev H) as Hm. cbn [length] in Hm.
  change ((x :: e') ++ rest) with (x :: e' ++ rest) in *. cbn [sub_all_fuel]. rewrite Hm.
  change (x :: e' ++ rest) with ((x :: e') ++ rest).
  change (S (length e')) with (length (x :: e')). now rewrite firstn_app_exact, skipn_app_exact.
Qed.

(* ---- the unicodesub expression on one hex escape ---- *)
Lemma fails_uterm_alt rest : hd_not is_ws rest = true ->
  Fails (R:=nat) (m (Alt (Cat (Chr 13) (Chr 10)) (Cls false ws_rs))) rest.
Proof.
  intros H. apply fc_head_fails; [reflexivity|]. destruct rest as [|c rest]; [reflexivity|].
  simpl in H. apply negb_true_iff in H. unfold is_ws, ws_rs in H. cbn [in_ranges] in H.
  cbn [fc_head fc nullable]. unfold ws_rs. cbn [in_ranges]. revert H. ranges.
Qed.

Lemma first_uterm t rest : mem_str t terms = true ->
  match t with [] => hd_not is_ws rest | [13%N] => hd_not (is_c 10) rest | _ => true end = true ->
  First (R:=nat) (m uterm_re) t rest.
Proof.
  intros Ht Hn. unfold uterm_re. apply in_terms in Ht.
  assert (W : forall w, in_ranges w ws_rs = true -> w <> 13%N -> First (R:=nat) (m uterm_re) [w] rest).
  { intros w Hw H13. apply first_opt_one; [discriminate|]. apply first_alt_r.
    - apply fails_cat_l. apply (fails_single _ (fun x => N.eqb x 13)); [reflexivity|]. now apply N.eqb_neq.
    - apply (first_single _ (fun x => xorb false (in_ranges x ws_rs))); [reflexivity|]. now rewrite Hw. }
  destruct Ht as [->|[->|[->|[->|[->|[->| ->]]]]]].
  - apply first_rep_none. now apply fails_uterm_alt.
  - apply W; [reflexivity|discriminate].
  - apply W; [reflexivity|discriminate].
  - apply W; [reflexivity|discriminate].
  - apply W; [reflexivity|discriminate].
  - apply first_opt_one; [discriminate|]. apply first_alt_r.
    + simpl app. apply (fails_cat_single _ (fun x => N.eqb x 13)); [reflexivity|].
      apply (fails_head _ (fun x => N.eqb x 10)); [reflexivity|exact Hn].
    + now apply (first_single _ (fun x => xorb false (in_ranges x ws_rs))).
  - apply first_opt_one; [discriminate|]. apply first_alt_l.
    change [13%N; 10%N] with ([13%N] ++ [10%N]). apply first_cat.
    + now apply (first_single _ (fun x => N.eqb x 13)).
    + now apply (first_single _ (fun x => N.eqb x 10)).
Qed.

Lemma first_usub ds t rest : wf_el (fun _ => false) false (H ds t) rest = true ->
  First (R:=nat) (m usub_re) (92%N :: ds ++ t) rest.
Proof.
  cbn [wf_el]. rewrite !andb_true_iff. intros [[[[H1 H6] Hh] Ht] Hn].
  change (92%N :: ds ++ t) with ([92%N] ++ (ds ++ t)). unfold usub_re. apply first_cat.
  { now apply (first_single _ (fun x => N.eqb x 92)). }
  apply first_cat.
  - rewrite <- (concat_singletons ds). apply first_rep.
    + apply (firstseq_run _ (fun x => xorb false (in_ranges x hexr'))); [reflexivity|].
      rewrite <- Hh. apply forallb_ext'. intros x. rewrite xorb_false_l. apply hexr'_is.
    + rewrite map_length. now apply Nat.leb_le.
    + simpl. rewrite map_length. now apply Nat.leb_le.
    + rewrite map_length.
      assert (Hstop : Nat.eqb (length ds) 6 = true \/ hd_not is_hex (t ++ rest) = true).
      { destruct t as [|t0 t1].
        - apply andb_true_iff in Hn as [_ Hn]. apply orb_true_iff in Hn. simpl. tauto.
        - right. apply term_not_hex; [assumption|discriminate]. }
      destruct Hstop as [E|Hx].
      * left. apply Nat.eqb_eq in E. now rewrite E.
      * right. apply (fails_head _ (fun x => xorb false (in_ranges x hexr'))); [reflexivity|].
        rewrite (head_not_xorb (fun x => in_ranges x hexr')).
        destruct (t ++ rest) as [|c r]; [reflexivity|]. cbn [head_not hd_not] in *. now rewrite hexr'_is.
  - apply first_uterm; [assumption|]. destruct t as [|t0 [|t1 t2]]; auto.
    apply andb_true_iff in Hn. tauto.
Qed.

Lemma usub_none_nobs prev c t : N.eqb c 92 = false -> rmatch usub_re prev (c :: t) = None.
Proof. intros H. apply fails_rmatch. apply fc_fails; [reflexivity|]. unfold usub_re. cbn [fc nullable andb]. rewrite H. reflexivity. Qed.

Lemma usub_none_nohex prev t : hd_not is_hex t = true -> rmatch usub_re prev (92%N :: t) = None.
Proof.
  intros H. apply fails_rmatch. unfold usub_re.
  apply (fails_cat_single _ (fun x => N.eqb x 92)); [reflexivity|].
  apply fails_cat_l. apply fails_rep_pos; [|discriminate].
  apply (fails_head _ (fun x => xorb false (in_ranges x hexr'))); [reflexivity|].
  rewrite (head_not_xorb (fun x => in_ranges x hexr')).
  destruct t as [|c r]; [reflexivity|]. cbn [head_not hd_not] in *. now rewrite hexr'_is.
Qed.

(* hex_num ignores the terminator *)
Lemma hex_num_term ds t : mem_str t terms = true -> hex_num (ds ++ t) = hex_num ds.
Proof.
  intros Ht. unfold hex_num. rewrite fold_left_app. apply in_terms in Ht.
  destruct Ht as [->|[->|[->|[->|[->|[->| ->]]]]]]; reflexivity.
Qed.

(* ---- canonical element lists for unicodesub ---- *)
Definition wfu_el (e : el) (nxt : str) : bool :=
  match e with
  | P c => negb (N.eqb c 92)
  | H ds t => wf_el (fun _ => false) false (H ds t) nxt
  | L c => negb (is_hex c) && (negb (N.eqb c 92) || hd_not is_hex nxt)   (* the finding's trigger excluded *)
  | E nl => mem_str nl nls
  end.
Fixpoint wfu_els (els : list el) : bool :=
  match els with [] => true | e :: r => wfu_el e (render r) && wfu_els r end.

Lemma render_cons e r : render (e :: r) = render_el e ++ render r.
Proof. reflexivity. Qed.
Lemma denote_cons e r : denote (e :: r) = denote_el e ++ denote r.
Proof. reflexivity. Qed.

Lemma unicodesub_els : forall els fuel prev, wfu_els els = true -> (length (render els) < fuel)%nat ->
  sub_all_fuel fuel usub_re repl prev (render els) = denote els.
Proof.
  induction els as [|e els IH]; intros fuel prev Hwf Hfu.
  - destruct fuel; reflexivity.
  - cbn [wfu_els] in Hwf. apply andb_true_iff in Hwf as [He Hels].
    rewrite render_cons, denote_cons. rewrite render_cons, app_length in Hfu.
    destruct e as [c|ds t|c|nl]; cbn [render_el denote_el wfu_el] in *.
    + (* plain *)
      destruct fuel as [|fu]; [simpl in Hfu; lia|]. apply negb_true_iff in He.
      cbn [app]. rewrite sub_step_none by now apply usub_none_nobs.
      f_equal. apply IH; [assumption|simpl in Hfu; lia].
    + (* hex escape *)
      destruct fuel as [|fu]; [simpl in Hfu; lia|].
      rewrite (sub_step_hit usub_re repl fu prev 92%N (ds ++ t) (render els)) by now apply first_usub.
      rewrite IH; [|assumption|simpl in Hfu; rewrite app_length in Hfu; lia]. f_equal.
      unfold repl. cbn [tl]. cbn [wf_el] in He. rewrite !andb_true_iff in He. destruct He as [[[_ _] Ht] _].
      now rewrite (hex_num_term ds t Ht).
    + (* literal escape *)
      apply andb_true_iff in He as [Hh Hbs]. apply negb_true_iff in Hh.
      destruct fuel as [|[|fu]]; [simpl in Hfu; lia|simpl in Hfu; lia|].
      cbn [app]. rewrite sub_step_none.
      2:{ apply usub_none_nohex. simpl. now rewrite Hh. }
      rewrite sub_step_none.
      2:{ destruct (N.eqb_spec c 92) as [->|Hc].
          - simpl in Hbs. now apply usub_none_nohex.
          - apply usub_none_nobs. now apply N.eqb_neq. }
      do 2 f_equal. apply IH; [assumption|simpl in Hfu; lia].
    + (* escaped newline *)
      apply in_nls in He.
      destruct He as [->|[->|[->| ->]]]; cbn [app length] in *.
      * destruct fuel as [|[|fu]]; [lia|lia|].
        rewrite sub_step_none by (apply usub_none_nohex; reflexivity).
        rewrite sub_step_none by (apply usub_none_nobs; reflexivity).
        do 2 f_equal. apply IH; [assumption|lia].
      * destruct fuel as [|[|fu]]; [lia|lia|].
        rewrite sub_step_none by (apply usub_none_nohex; reflexivity).
        rewrite sub_step_none by (apply usub_none_nobs; reflexivity).
        do 2 f_equal. apply IH; [assumption|lia].
      * destruct fuel as [|[|fu]]; [lia|lia|].
        rewrite sub_step_none by (apply usub_none_nohex; reflexivity).
        rewrite sub_step_none by (apply usub_none_nobs; reflexivity).
        do 2 f_equal. apply IH; [assumption|lia].
      * destruct fuel as [|[|[|fu]]]; [lia|lia|lia|].
        rewrite sub_step_none by (apply usub_none_nohex; reflexivity).
        rewrite sub_step_none by (apply usub_none_nobs; reflexivity).
        rewrite sub_step_none by (apply usub_none_nobs; reflexivity).
        do 3 f_equal. apply IH; [assumption|lia].
Qed.

Theorem hex_escape_resolved_lemma : forall els, wfu_els els = true -> unicodesub (render els) = denote els.
Proof.
  intros els H. unfold unicodesub, sub_all. rewrite usub_shape. apply unicodesub_els; [assumption|lia].
Qed.


(* the value of an IDENT token is the denoted text *)
Definition dash_el (d : bool) : list el := if d then [P 45] else [].

Lemma ident_text_render d e0 els : ident_text d e0 els = render (dash_el d ++ e0 :: els).
Proof. destruct d; reflexivity. Qed.

Theorem ident_value_lemma : forall d e0 els, wfu_els (dash_el d ++ e0 :: els) = true ->
  classify (LIdent d e0 els) = (s "IDENT", denote (dash_el d ++ e0 :: els)).
Proof.
  intros d e0 els H. unfold classify, tokval. cbn [cls text].
  assert (E1 : mem_str (s "IDENT") resolved_types = true) by reflexivity.
  assert (E2 : mem_str (s "IDENT") clean_types = false) by reflexivity.
  rewrite E1, E2. now rewrite ident_text_render, hex_escape_resolved_lemma.
Qed.

Theorem hash_value_lemma : forall els, wfu_els els = true ->
  classify (LHash els) = (s "HASH", 35%N :: denote els).
Proof.
  intros els H. unfold classify, tokval. cbn [cls text].
  assert (E1 : mem_str (s "HASH") resolved_types = true) by reflexivity.
  assert (E2 : mem_str (s "HASH") clean_types = false) by reflexivity.
  rewrite E1, E2. change (35%N :: render els) with (render (P 35 :: els)).
  now rewrite hex_escape_resolved_lemma.
Qed.
