(* UrlQuote.v -- the URI quoting helpers of css_parser (property C12):
     helper.string / stringvalue / uri / urivalue   (helper.py:80-134)
     util.Base._stringtokenvalue / _uritokenvalue   (util.py:258-287)
   Every constant (replacement pairs, slice bounds, quote characters, format strings, the
   forbidden-character regex) comes from Gen/UrlQuote.v, regenerated from /repo by
   translate/urlquote.py, which also checks that each function still has the statement
   shape transcribed here.  Definitions only; proofs are in UrlQuoteFacts.v.               *)
From CssV Require Import Base Regex Gen.PyTables Gen.UrlQuote.

(* ---------------------------------------------------------------- a small str library *)

(* x.replace(a, b) for a non-empty pattern a: leftmost, non-overlapping, left to right.
   (translate/urlquote.py refuses an empty pattern, whose Python meaning is different.)   *)
Fixpoint replace_fuel (fuel : nat) (a b t : str) : str :=
  match fuel with
  | O => t
  | S f =>
    match t with
    | [] => []
    | c :: t' => if starts a t then b ++ replace_fuel f a b (skipn (length a) t)
                 else c :: replace_fuel f a b t'
    end
  end.
Definition replace (a b t : str) : str :=
  match a with [] => t | _ => replace_fuel (S (length t)) a b t end.

(* x.endswith(a) *)
Definition ends_with (a t : str) : bool := starts (rev a) (rev t).

(* x.strip(): removes the characters with str.isspace() (table from the interpreter) *)
Definition is_space (c : N) : bool := mem c py_space.
Fixpoint lstrip (t : str) : str :=
  match t with c :: t' => if is_space c then lstrip t' else t | [] => [] end.
Definition rstrip (t : str) : str := rev (lstrip (rev t)).
Definition strip (t : str) : str := rstrip (lstrip t).

(* x[lo:-e] for constants lo >= 0, e > 0 (Python clamps both ends) *)
Definition slice (lo e : nat) (t : str) : str := firstn (length t - e - lo) (skipn lo t).

(* x.find(c) for a one-character c: None = -1 *)
Fixpoint index_of (c : N) (t : str) : option nat :=
  match t with
  | [] => None
  | x :: r => if N.eqb x c then Some O else option_map S (index_of c r)
  end.

(* ---------------------------------------------------------------- helper.string (l.80-95) *)
Definition hstring (v : str) : str :=
  let v1 := fold_left (fun acc p => replace (fst p) (snd p) acc) string_replaces v in
  let v2 := if ends_with string_tail v1
            then firstn (length v1 - string_tail_cut) v1 ++ string_tail_add else v1 in
  string_open ++ v2 ++ string_close.

(* x.replace(esc + x[0], x[0])[lo:-hi]; x[0] of an empty str raises IndexError = None      *)
Definition unquote (esc : N) (lo hi : nat) (x : str) : option str :=
  match x with
  | [] => None
  | q :: _ => Some (slice lo hi (replace [esc; q] [q] x))
  end.

(* helper.stringvalue (l.98-105) *)
Definition stringvalue (x : str) : option str := unquote stringvalue_esc stringvalue_lo stringvalue_hi x.
(* util.Base._stringtokenvalue applied to the token's value (l.258-269) *)
Definition stringtokenvalue (x : str) : option str := unquote stringtoken_esc stringtoken_lo stringtoken_hi x.

(* ---------------------------------------------------------------- helper.uri (l.108-118) *)
Definition forbidden (v : str) : bool :=
  match rmatch re_forbidden_in_uri None v with Some _ => true | None => false end.
Definition huri (v : str) : str :=
  uri_open ++ (if forbidden v then hstring v else v) ++ uri_close.

(* `u and u[0] in quotes and u[0] == u[-1]` *)
Definition quoted (quotes u : str) : bool :=
  match u with [] => false | q :: _ => mem q quotes && N.eqb q (last u q) end.

(* x[x.find('(') + off : -e].strip(); find = -1 gives x[off-1 : -e] (off >= 1 is checked)   *)
Definition inner (paren : N) (off e : nat) (x : str) : str :=
  let lo := match index_of paren x with Some i => i + off | None => off - 1 end in
  strip (slice lo e x).

(* helper.urivalue (l.121-134) *)
Definition urivalue (u : str) : option str :=
  let x := inner urivalue_paren urivalue_off urivalue_end u in
  if quoted urivalue_quotes x then stringvalue x else Some x.

(* util.Base._uritokenvalue applied to the token's value (l.271-287) *)
Definition uritokenvalue (u : str) : option str :=
  let x := inner uritoken_paren uritoken_off uritoken_end u in
  if quoted uritoken_quotes x then unquote uritoken_esc uritoken_lo uritoken_hi x else Some x.
