(* Urls.v -- css_parser.getUrls / replaceUrls (src/css_parser/__init__.py:230-312) over the
   rule tree of a sheet reduced to its URL-bearing structure (property C12).
   Definitions only; proofs are in UrlsFacts.v.

   What an object "has" (the hasattr tests of styleDeclarations):
     CSSStyleSheet, CSSMediaRule            cssRules
     CSSPageRule                            cssRules (its margin rules) AND style
     CSSStyleRule, CSSFontFaceRule, MarginRule   style
     comment, @charset, @import, @namespace, @variables, unknown at-rule      neither
   A declaration is the list of the values of its PropertyValue; a value is a URI value, a
   function value (whose items may again be values: image-set(url(a) 1x)) or anything else.  *)
From CssV Require Import Base.

Inductive value :=
| VUri (u : str)                 (* URIValue, .uri = u *)
| VFun (items : list value)      (* CSSFunction / MSValue: the Value items of its seq, in order *)
| VOther.                        (* any other value kind *)

Definition decl := list value.   (* one Property: the items of p.propertyValue *)
Definition style := list decl.   (* CSSStyleDeclaration.getProperties(all=True) *)

Inductive rule :=
| RStyle (st : style)
| RFontFace (st : style)
| RMargin (st : style)
| RPage (st : style) (rs : list rule)
| RMedia (rs : list rule)
| ROther.

Inductive item := IImport (href : str) | IRule (r : rule).   (* top-level rules of the sheet *)
Definition sheet := list item.

(* hasattr(base, 'cssRules') / hasattr(base, 'style') *)
Definition cssRules_of (r : rule) : option (list rule) :=
  match r with RPage _ rs | RMedia rs => Some rs | _ => None end.
Definition style_of (r : rule) : option style :=
  match r with RStyle st | RFontFace st | RMargin st | RPage st _ => Some st | _ => None end.

(* ---------------------------------------------------------------- _urivalues (l.230-240) *)
Fixpoint urivalues (v : value) : list str :=
  match v with
  | VUri u => [u]                              (* v.type == v.URI: yield v *)
  | VFun items => flat_map urivalues items     (* v.type == v.FUNCTION: recurse into the Value items *)
  | VOther => []
  end.

(* for p in style.getProperties(all=True): for v in _urivalues(p.propertyValue): yield v.uri *)
Definition style_urls (st : style) : list str := flat_map (flat_map urivalues) st.

(* ---------------------------------------------------------------- styleDeclarations (l.257-268)
     if hasattr(base, 'cssRules'):
         if hasattr(base, 'style'): yield base.style
         for rule in base.cssRules: yield from styleDeclarations(rule)
     elif hasattr(base, 'style'): yield base.style
   (UrlsFacts.styleDecls_literal states this equation with cssRules_of / style_of.)          *)
Fixpoint styleDecls (r : rule) : list style :=
  match r with
  | RMedia rs => flat_map styleDecls rs
  | RPage st rs => st :: flat_map styleDecls rs
  | RStyle st | RFontFace st | RMargin st => [st]
  | ROther => []
  end.

(* the sheet has cssRules and no style; an @import rule has neither *)
Definition item_styles (i : item) : list style :=
  match i with IImport _ => [] | IRule r => styleDecls r end.

Definition import_hrefs (sh : sheet) : list str :=
  flat_map (fun i => match i with IImport h => [h] | IRule _ => [] end) sh.

(* getUrls (l.243-272) *)
Definition getUrls (sh : sheet) : list str :=
  import_hrefs sh ++ flat_map style_urls (flat_map item_styles sh).

(* ---------------------------------------------------------------- replaceUrls (l.275-312)
   `v.uri = replacer(v.uri)` on every value _urivalues yields, in every style styleDeclarations
   yields; `importrule.href = replacer(importrule.href)` unless ignoreImportRules.          *)
Fixpoint repl_value (f : str -> str) (v : value) : value :=
  match v with
  | VUri u => VUri (f u)
  | VFun items => VFun (map (repl_value f) items)
  | VOther => VOther
  end.
Definition repl_style (f : str -> str) (st : style) : style := map (map (repl_value f)) st.
Fixpoint repl_rule (f : str -> str) (r : rule) : rule :=
  match r with
  | RStyle st => RStyle (repl_style f st)
  | RFontFace st => RFontFace (repl_style f st)
  | RMargin st => RMargin (repl_style f st)
  | RPage st rs => RPage (repl_style f st) (map (repl_rule f) rs)
  | RMedia rs => RMedia (map (repl_rule f) rs)
  | ROther => ROther
  end.
Definition replaceUrls (ignoreImportRules : bool) (f : str -> str) (sh : sheet) : sheet :=
  map (fun i => match i with
                | IImport h => IImport (if ignoreImportRules then h else f h)
                | IRule r => IRule (repl_rule f r)
                end) sh.
(* replaceUrls(style, replacer): `base is a style already` *)
Definition replaceUrls_style (f : str -> str) (st : style) : style := repl_style f st.

(* ---------------------------------------------------------------- the specification
   every url() of every declaration of style, @font-face, @page (own declarations, then margin
   boxes -- the order the object model and the serializer keep them in) at any @media depth,
   in document order; nothing from other rules.                                              *)
Fixpoint value_urls (v : value) : list str :=
  match v with
  | VUri u => [u]
  | VFun items => flat_map value_urls items
  | VOther => []
  end.
Definition decl_urls (d : decl) : list str := flat_map value_urls d.
Definition decls_urls (st : style) : list str := flat_map decl_urls st.
Fixpoint rule_urls (r : rule) : list str :=
  match r with
  | RStyle st | RFontFace st | RMargin st => decls_urls st
  | RPage st margins => decls_urls st ++ flat_map rule_urls margins
  | RMedia rs => flat_map rule_urls rs
  | ROther => []
  end.
Definition doc_order_urls (sh : sheet) : list str :=
  flat_map (fun i => match i with IImport _ => [] | IRule r => rule_urls r end) sh.

(* everything but the URL strings: the sheet with every URL getUrls lists blanked *)
Definition blank (sh : sheet) : sheet := replaceUrls false (fun _ => []) sh.

(* ---------------------------------------------------------------- the pinned tree (before the
   two `fix:` commits of this property), kept to show what the repaired code no longer does:
   styleDeclarations skipped an @page's own style, and only top-level values were looked at. *)
Fixpoint styleDecls_pinned (r : rule) : list style :=
  match r with
  | RMedia rs | RPage _ rs => flat_map styleDecls_pinned rs
  | RStyle st | RFontFace st | RMargin st => [st]
  | ROther => []
  end.
Definition style_urls_pinned (st : style) : list str :=
  flat_map (flat_map (fun v => match v with VUri u => [u] | _ => [] end)) st.
Definition getUrls_pinned (sh : sheet) : list str :=
  import_hrefs sh ++
  flat_map style_urls_pinned
           (flat_map (fun i => match i with IImport _ => [] | IRule r => styleDecls_pinned r end) sh).
