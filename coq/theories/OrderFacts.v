(* OrderFacts.v -- proofs about the rule-order model Order.v (property C07) *)
From CssV Require Import Base Order.
From CssV.Gen Require Import Kinds.
From Coq Require Import Btauto.

(* ------------------------------------------------------------------ basics *)
Lemma kind_beq_eq a b : kind_beq a b = true <-> a = b.
Proof. destruct a, b; simpl; split; intros H; try reflexivity; try discriminate. Qed.

Lemma kind_beq_refl a : kind_beq a a = true.
Proof. destruct a; reflexivity. Qed.

Lemma firstn_length_app {A} (a b : list A) : firstn (length a) (a ++ b) = a.
Proof. induction a as [|x a IH]; simpl; [destruct b; reflexivity | now rewrite IH]. Qed.

Lemma skipn_length_app {A} (a b : list A) : skipn (length a) (a ++ b) = b.
Proof. induction a as [|x a IH]; simpl; auto. Qed.

Lemma insert_at_split {A} (a b : list A) x : insert_at (length a) x (a ++ b) = a ++ x :: b.
Proof. unfold insert_at. now rewrite firstn_length_app, skipn_length_app. Qed.

Lemma insert_at_firstn_skipn {A} i x (l : list A) : insert_at i x l = firstn i l ++ x :: skipn i l.
Proof. reflexivity. Qed.

Lemma forallb_impl {A} (p q : A -> bool) l :
  (forall x, p x = true -> q x = true) -> forallb p l = true -> forallb q l = true.
Proof.
  intros Hpq. induction l as [|x l IH]; simpl; intros H; [reflexivity|].
  apply andb_true_iff in H as [H1 H2]. rewrite (Hpq _ H1), (IH H2). reflexivity.
Qed.

Lemma existsb_false_forallb {A} (p : A -> bool) l : existsb p l = false -> forallb (fun x => negb (p x)) l = true.
Proof.
  induction l as [|x l IH]; simpl; intros H; [reflexivity|]. apply orb_false_iff in H as [H1 H2].
  rewrite H1, (IH H2). reflexivity.
Qed.

Lemma anyk_false T l (P : kind -> bool) :
  anyk T l = false -> (forall x, kin x T = false -> P x = true) -> forallb P l = true.
Proof.
  intros H HP. apply existsb_false_forallb in H. revert H. apply forallb_impl.
  intros x Hx. apply HP. now apply negb_true_iff in Hx.
Qed.

(* ------------------------------------------------------------------ sortedness *)
Definition le1 (l : nat) (k : kind) : bool := match level k with Some x => Nat.leb x l | None => true end.
Definition ge1 (l : nat) (k : kind) : bool := match level k with Some x => Nat.leb l x | None => true end.

Lemma ge_all_app l a b : ge_all l (a ++ b) = ge_all l a && ge_all l b.
Proof. apply forallb_app. Qed.
Lemma le_all_app l a b : le_all l (a ++ b) = le_all l a && le_all l b.
Proof. apply forallb_app. Qed.

Lemma le_all_mono l m a : l <= m -> le_all l a = true -> le_all m a = true.
Proof.
  intros Hlm. apply forallb_impl. intros x. destruct (level x); auto.
  intros H. apply Nat.leb_le in H. apply Nat.leb_le. lia.
Qed.
Lemma ge_all_mono l m a : m <= l -> ge_all l a = true -> ge_all m a = true.
Proof.
  intros Hlm. apply forallb_impl. intros x. destruct (level x); auto.
  intros H. apply Nat.leb_le in H. apply Nat.leb_le. lia.
Qed.

Lemma sorted_insert a b k :
  sorted (a ++ b) = true ->
  match level k with Some l => le_all l a && ge_all l b | None => true end = true ->
  sorted (a ++ k :: b) = true.
Proof.
  destruct (level k) as [l|] eqn:El.
  - induction a as [|x a IH]; simpl; intros Hs Hk.
    + now rewrite El, Hs, Hk.
    + apply andb_true_iff in Hs as [Hx Hs]. apply andb_true_iff in Hk as [Hk1 Hk2].
      apply andb_true_iff in Hk1 as [Hk0 Hk1].
      rewrite IH; [| assumption | now rewrite Hk1, Hk2]. rewrite andb_true_r.
      revert Hx Hk0. destruct (level x) as [lx|]; auto. intros Hx Hk0.
      rewrite ge_all_app in *. simpl. rewrite El.
      apply andb_true_iff in Hx as [Hx1 Hx2]. now rewrite Hx1, Hx2, Hk0.
  - induction a as [|x a IH]; simpl; intros Hs _.
    + now rewrite El, Hs.
    + apply andb_true_iff in Hs as [Hx Hs]. rewrite IH by auto. rewrite andb_true_r.
      revert Hx. destruct (level x) as [lx|]; auto. intros Hx.
      rewrite ge_all_app in *. simpl. rewrite El.
      apply andb_true_iff in Hx as [Hx1 Hx2]. now rewrite Hx1, Hx2.
Qed.

Lemma sorted_remove a x b : sorted (a ++ x :: b) = true -> sorted (a ++ b) = true.
Proof.
  induction a as [|y a IH]; simpl; intros Hs.
  - now apply andb_true_iff in Hs as [_ Hs].
  - apply andb_true_iff in Hs as [Hy Hs]. rewrite (IH Hs), andb_true_r.
    destruct (level y); auto. rewrite ge_all_app in *. simpl in Hy.
    apply andb_true_iff in Hy as [Hy1 Hy2]. apply andb_true_iff in Hy2 as [_ Hy2]. now rewrite Hy1, Hy2.
Qed.

(* around an element of level l in a sorted list *)
Lemma sorted_around a x b l :
  sorted (a ++ x :: b) = true -> level x = Some l -> le_all l a = true /\ ge_all l b = true.
Proof.
  induction a as [|y a IH]; simpl; intros Hs Hl.
  - rewrite Hl in Hs. apply andb_true_iff in Hs as [Hs _]. auto.
  - apply andb_true_iff in Hs as [Hy Hs]. destruct (IH Hs Hl) as [H1 H2]. split; auto.
    rewrite H1, andb_true_r. destruct (level y); auto.
    rewrite ge_all_app in Hy. simpl in Hy. rewrite Hl in Hy.
    apply andb_true_iff in Hy as [_ Hy]. now apply andb_true_iff in Hy as [Hy _].
Qed.

(* ------------------------------------------------------------------ @charset only first *)
Lemma nocs_app a b : nocs (a ++ b) = nocs a && nocs b.
Proof. apply forallb_app. Qed.

Lemma nocs_ge1 l : nocs l = true -> ge_all 1 l = true.
Proof. apply forallb_impl. intros []; simpl; auto; discriminate. Qed.

Lemma valid_nocs_tail x ks : valid_kinds (x :: ks) = true -> nocs ks = true.
Proof. unfold valid_kinds. simpl. intros H. now apply andb_true_iff in H as [H _]. Qed.

Lemma valid_nocs_all ks : valid_kinds ks = true -> headis CHARSET_RULE ks = false -> nocs ks = true.
Proof.
  destruct ks as [|x ks]; auto. intros H Hh. simpl in *. rewrite (valid_nocs_tail _ _ H), Hh. reflexivity.
Qed.

(* the generic insertion lemma, on a split ks = a ++ b *)
Lemma valid_insert_split a b k :
  valid_kinds (a ++ b) = true ->
  match level k with Some l => le_all l a && ge_all l b | None => true end = true ->
  (if kind_beq k CHARSET_RULE
   then match a with [] => negb (headis CHARSET_RULE b) | _ => false end
   else match a with [] => negb (headis CHARSET_RULE b) | _ => true end) = true ->
  valid_kinds (a ++ k :: b) = true.
Proof.
  intros Hv Hk Hc. unfold valid_kinds in *. apply andb_true_iff in Hv as [Hn Hs].
  rewrite (sorted_insert _ _ _ Hs Hk), andb_true_r.
  destruct a as [|x a]; simpl in *.
  - assert (Hb : negb (headis CHARSET_RULE b) = true) by (destruct (kind_beq k CHARSET_RULE); auto).
    destruct b as [|y b]; auto. simpl in *. now rewrite Hb, Hn.
  - destruct (kind_beq k CHARSET_RULE) eqn:E; [discriminate|].
    rewrite nocs_app in *. simpl. apply andb_true_iff in Hn as [H1 H2]. now rewrite H1, E, H2.
Qed.

Lemma valid_remove_split a x b : valid_kinds (a ++ x :: b) = true -> valid_kinds (a ++ b) = true.
Proof.
  unfold valid_kinds. intros H. apply andb_true_iff in H as [Hn Hs].
  rewrite (sorted_remove _ _ _ Hs), andb_true_r.
  destruct a as [|y a]; simpl in *.
  - destruct b; auto. simpl in *. now apply andb_true_iff in Hn as [_ Hn].
  - rewrite nocs_app in *. simpl in Hn. apply andb_true_iff in Hn as [H1 H2].
    apply andb_true_iff in H2 as [_ H2]. now rewrite H1, H2.
Qed.

Lemma skipn_cons_S {A} i : forall (l : list A) x b, skipn i l = x :: b -> skipn (S i) l = b.
Proof.
  induction i as [|i IH]; intros l x b H.
  - simpl in H. subst l. reflexivity.
  - destruct l as [|y l]; [discriminate|]. simpl in H. apply IH in H. exact H.
Qed.

Lemma remove_at_split {A} i (l : list A) :
  i < length l -> exists a x b, l = a ++ x :: b /\ remove_at i l = a ++ b /\ length a = i.
Proof.
  intros Hi. exists (firstn i l). destruct (skipn i l) as [|x b] eqn:E.
  - apply (f_equal (@length A)) in E. rewrite skipn_length in E. simpl in E. lia.
  - exists x, b. split; [|split].
    + rewrite <- E. symmetry. apply firstn_skipn.
    + unfold remove_at. f_equal. eapply skipn_cons_S; eauto.
    + apply firstn_length_le. lia.
Qed.

Lemma valid_remove_at i ks : valid_kinds ks = true -> valid_kinds (remove_at i ks) = true.
Proof.
  intros H. destruct (Nat.lt_ge_cases i (length ks)) as [Hi|Hi].
  - destruct (remove_at_split i ks Hi) as (a & x & b & E1 & E2 & _). rewrite E2. rewrite E1 in H.
    eapply valid_remove_split; eauto.
  - unfold remove_at. rewrite firstn_all2 by lia. rewrite skipn_all2 by lia. now rewrite app_nil_r.
Qed.

(* ------------------------------------------------------------------ last_pos / first_pos *)
Lemma last_pos_none p ks : last_pos p ks = None -> forallb (fun y => negb (p y)) ks = true.
Proof.
  induction ks as [|k r IH]; simpl; auto.
  destruct (last_pos p r); [discriminate|]. destruct (p k); [discriminate|]. intros _. now rewrite IH.
Qed.

Lemma last_pos_some p ks j :
  last_pos p ks = Some j ->
  exists a x b, ks = a ++ x :: b /\ j = length (a ++ [x]) /\ p x = true /\ forallb (fun y => negb (p y)) b = true.
Proof.
  revert j. induction ks as [|k r IH]; simpl; [discriminate|]. intros j.
  destruct (last_pos p r) as [j'|] eqn:E.
  - intros Hj. inversion Hj; subst. destruct (IH j' eq_refl) as (a & x & b & E1 & E2 & E3 & E4).
    exists (k :: a), x, b. subst. simpl. auto.
  - destruct (p k) eqn:Ep; [|discriminate]. intros Hj. inversion Hj; subst.
    exists [], k, r. simpl. repeat split; auto. now apply last_pos_none.
Qed.

Lemma first_pos_none p ks : first_pos p ks = None -> forallb (fun y => negb (p y)) ks = true.
Proof.
  induction ks as [|k r IH]; simpl; auto. destruct (p k); [discriminate|].
  destruct (first_pos p r); [discriminate|]. intros _. now rewrite IH.
Qed.

Lemma first_pos_some p ks i :
  first_pos p ks = Some i ->
  exists a x b, ks = a ++ x :: b /\ i = length a /\ p x = true /\ forallb (fun y => negb (p y)) a = true.
Proof.
  revert i. induction ks as [|k r IH]; simpl; [discriminate|]. intros i.
  destruct (p k) eqn:Ep.
  - intros Hi. inversion Hi; subst. exists [], k, r. auto.
  - destruct (first_pos p r) as [i'|]; [|discriminate]. intros Hi. inversion Hi; subst.
    destruct (IH i' eq_refl) as (a & x & b & E1 & E2 & E3 & E4). exists (k :: a), x, b. subst. simpl.
    rewrite Ep. auto.
Qed.

Lemma forallb_head {A} (p : A -> bool) x l : forallb p (x :: l) = true -> p x = true.
Proof. simpl. intros H. now apply andb_true_iff in H as [H _]. Qed.

(* ------------------------------------------------------------------ the ordered branches (@namespace, @variables) *)
Section Ordered.
  Variables (self : kind) (skip stop after before : list kind) (l : nat).
  Hypothesis Hself : level self = Some l.
  Hypothesis Hself_cs : kind_beq self CHARSET_RULE = false.
  Hypothesis Hskip : forall x, kin x skip = true -> match level x with Some lx => Nat.leb lx l | None => false end = true.
  Hypothesis Hskip_cs : kin CHARSET_RULE skip = true.
  Hypothesis Hmid : forall x, kin x skip = false -> kin x stop = false -> le1 l x = true.
  Hypothesis Hrest : forall x, kin x skip = false -> ge1 l x = true.
  Hypothesis Hafter : forall x, kin x after = false -> ge1 l x = true /\ kind_beq x CHARSET_RULE = false.
  Hypothesis Hbefore : forall x, kin x before = false -> le1 l x = true.

  Lemma headis_cs_skip ks : forallb (fun y => negb (kin y skip)) ks = true -> headis CHARSET_RULE ks = false.
  Proof.
    destruct ks as [|x ks]; auto. intros H. apply forallb_head in H. simpl.
    destruct (kind_beq x CHARSET_RULE) eqn:E; auto. apply kind_beq_eq in E. subst.
    rewrite Hskip_cs in H. discriminate.
  Qed.

  Lemma search_valid ks :
    valid_kinds ks = true ->
    exists a b, ks = a ++ b /\ search skip stop ks = length a /\ valid_kinds (a ++ self :: b) = true.
  Proof.
    intros Hv. unfold search.
    (* P = the part up to the last skip kind, R = the rest *)
    assert (HPR : exists P R, ks = P ++ R /\
                  match last_pos (fun k => kin k skip) ks with Some j => j | None => 0 end = length P /\
                  le_all l P = true /\ forallb (fun y => negb (kin y skip)) R = true /\
                  (P = [] -> headis CHARSET_RULE ks = false)).
    { destruct (last_pos (fun k => kin k skip) ks) as [j|] eqn:E.
      - destruct (last_pos_some _ _ _ E) as (a & x & b & E1 & E2 & E3 & E4).
        exists (a ++ [x]), b. subst ks. rewrite <- app_assoc. simpl. repeat split; auto.
        + unfold valid_kinds in Hv. apply andb_true_iff in Hv as [_ Hs].
          specialize (Hskip _ E3). destruct (level x) as [lx|] eqn:Elx; [|discriminate].
          destruct (sorted_around _ _ _ _ Hs Elx) as [H1 _].
          rewrite le_all_app. apply Nat.leb_le in Hskip.
          rewrite (le_all_mono lx l a Hskip H1). simpl. rewrite Elx. apply Nat.leb_le in Hskip. now rewrite Hskip.
        + intros HP. destruct a; discriminate.
      - exists [], ks. simpl. repeat split; auto.
        + now apply last_pos_none.
        + intros _. apply headis_cs_skip. now apply last_pos_none. }
    destruct HPR as (P & R & E1 & E2 & HP & HR & Hhd). rewrite E2.
    replace (skipn (length P) ks) with R by (subst ks; now rewrite skipn_length_app).
    assert (HgeR : ge_all l R = true).
    { revert HR. apply forallb_impl. intros x Hx. apply negb_true_iff in Hx. apply (Hrest _ Hx). }
    assert (Hmidall : forall c, forallb (fun y => negb (kin y skip)) c = true ->
                                forallb (fun y => negb (kin y stop)) c = true -> le_all l c = true).
    { induction c as [|z c IH]; auto. simpl. intros A B.
      apply andb_true_iff in A as [A1 A2]. apply andb_true_iff in B as [B1 B2].
      apply negb_true_iff in A1. apply negb_true_iff in B1.
      pose proof (Hmid _ A1 B1) as Hm. unfold le1 in Hm. rewrite Hm. simpl. now apply IH. }
    destruct (first_pos (fun k => kin k stop) R) as [i|] eqn:E.
    - destruct (first_pos_some _ _ _ E) as (c & y & d & F1 & F2 & F3 & F4).
      exists (P ++ c), (y :: d). subst R i.
      assert (Eks : ks = (P ++ c) ++ y :: d) by (rewrite E1; now rewrite <- app_assoc).
      split; [exact Eks|]. split; [now rewrite app_length|].
      rewrite forallb_app in HR. apply andb_true_iff in HR as [HR1 HR2].
      rewrite ge_all_app in HgeR. apply andb_true_iff in HgeR as [_ HgeR].
      apply valid_insert_split.
      + now rewrite <- Eks.
      + rewrite Hself. rewrite le_all_app, HP, HgeR, (Hmidall c HR1 F4). reflexivity.
      + rewrite Hself_cs. destruct (P ++ c) as [|z w] eqn:Epc; auto.
        apply app_eq_nil in Epc as [-> ->]. simpl in *. specialize (Hhd eq_refl).
        rewrite E1 in Hhd. simpl in Hhd. now rewrite Hhd.
    - exists ks, []. split; [now rewrite app_nil_r|]. split; [reflexivity|].
      apply valid_insert_split.
      + now rewrite app_nil_r.
      + rewrite Hself. simpl. rewrite andb_true_r. rewrite E1, le_all_app, HP. simpl.
        apply Hmidall; auto. now apply first_pos_none.
      + rewrite Hself_cs. destruct ks; auto.
  Qed.

  Lemma place_ordered_valid ks idx io i :
    valid_kinds ks = true -> idx <= length ks ->
    place_ordered self skip stop after before ks idx io = PInsert i ->
    i <= length ks /\ valid_kinds (insert_at i self ks) = true.
  Proof.
    intros Hv Hidx. unfold place_ordered. destruct io.
    - intros H. inversion H; subst; clear H.
      destruct (last_pos (kind_beq self) ks) as [j|] eqn:E.
      + destruct (last_pos_some _ _ _ E) as (a & x & b & E1 & E2 & E3 & E4).
        apply kind_beq_eq in E3. subst x ks j.
        split; [rewrite !app_length; simpl; lia|].
        replace (a ++ self :: b) with ((a ++ [self]) ++ b) by (now rewrite <- app_assoc).
        rewrite insert_at_split.
        replace ((a ++ [self]) ++ b) with (a ++ self :: b) in Hv by (now rewrite <- app_assoc).
        assert (Hv' := Hv). unfold valid_kinds in Hv'. apply andb_true_iff in Hv' as [_ Hs].
        destruct (sorted_around _ _ _ _ Hs Hself) as [H1 H2].
        apply valid_insert_split.
        * now rewrite <- app_assoc.
        * rewrite Hself, le_all_app, H1, H2. simpl. rewrite Hself, Nat.leb_refl. reflexivity.
        * rewrite Hself_cs. destruct (a ++ [self]) eqn:Ea; auto. destruct a; discriminate.
      + destruct (search_valid ks Hv) as (a & b & E1 & E2 & E3). rewrite E2. subst ks.
        split; [rewrite app_length; lia|]. now rewrite insert_at_split.
    - destruct (anyk after (skipn idx ks)) eqn:Ea; [discriminate|].
      destruct (anyk before (firstn idx ks)) eqn:Eb; [discriminate|].
      intros H. inversion H; subst; clear H. split; auto.
      rewrite insert_at_firstn_skipn. apply valid_insert_split.
      + now rewrite firstn_skipn.
      + rewrite Hself. apply andb_true_iff. split.
        * apply (anyk_false _ _ _ Eb). intros x Hx. apply (Hbefore _ Hx).
        * apply (anyk_false _ _ _ Ea). intros x Hx. apply (Hafter _ Hx).
      + rewrite Hself_cs. destruct (firstn i ks) eqn:Ef; auto.
        destruct (skipn i ks) as [|y r] eqn:Es; auto. simpl.
        simpl in Ea. apply orb_false_iff in Ea as [Ea _].
        destruct (Hafter _ Ea) as [_ Hc]. now rewrite Hc.
  Qed.
End Ordered.

(* ------------------------------------------------------------------ place: every accepted position keeps the order *)
Lemma ge_all_0 ks : ge_all 0 ks = true.
Proof. induction ks as [|x ks IH]; simpl; auto. rewrite IH. destruct (level x); reflexivity. Qed.

Lemma le_all_4 ks : le_all 4 ks = true.
Proof. induction ks as [|x ks IH]; simpl; auto. rewrite IH. destruct x; reflexivity. Qed.

Lemma nocs_skipn n ks : nocs ks = true -> nocs (skipn n ks) = true.
Proof. intros H. rewrite <- (firstn_skipn n ks), nocs_app in H. now apply andb_true_iff in H as [_ H]. Qed.

Lemma nocs_skipn_valid ks idx :
  valid_kinds ks = true -> (Nat.eqb idx 0 && headis CHARSET_RULE ks) = false -> nocs (skipn idx ks) = true.
Proof.
  intros Hv Hc. destruct idx as [|n].
  - simpl in *. now apply valid_nocs_all.
  - destruct ks as [|x r]; auto. simpl. apply nocs_skipn. eapply valid_nocs_tail; eauto.
Qed.

Lemma cs_cond ks idx :
  (Nat.eqb idx 0 && headis CHARSET_RULE ks) = false ->
  match firstn idx ks with [] => negb (headis CHARSET_RULE (skipn idx ks)) | _ => true end = true.
Proof.
  intros Hc. destruct idx as [|n]; simpl in *.
  - now rewrite Hc.
  - destruct ks; reflexivity.
Qed.

Lemma after_last_valid self l ks j :
  level self = Some l -> kind_beq self CHARSET_RULE = false ->
  valid_kinds ks = true -> last_pos (kind_beq self) ks = Some j ->
  j <= length ks /\ valid_kinds (insert_at j self ks) = true.
Proof.
  intros Hself Hcs Hv E.
  destruct (last_pos_some _ _ _ E) as (a & x & b & E1 & E2 & E3 & E4).
  apply kind_beq_eq in E3. subst x ks j.
  split; [rewrite !app_length; simpl; lia|].
  replace (a ++ self :: b) with ((a ++ [self]) ++ b) by (now rewrite <- app_assoc).
  rewrite insert_at_split.
  replace ((a ++ [self]) ++ b) with (a ++ self :: b) in Hv by (now rewrite <- app_assoc).
  assert (Hv' := Hv). unfold valid_kinds in Hv'. apply andb_true_iff in Hv' as [_ Hs].
  destruct (sorted_around _ _ _ _ Hs Hself) as [H1 H2].
  apply valid_insert_split.
  - now rewrite <- app_assoc.
  - rewrite Hself, le_all_app, H1, H2. simpl. rewrite Hself, Nat.leb_refl. reflexivity.
  - rewrite Hcs. destruct (a ++ [self]) eqn:Ea; auto. destruct a; discriminate.
Qed.

Ltac pointwise := let x := fresh "x" in intros x; destruct x; vm_compute; auto; try discriminate.

Lemma place_not_refused ks k idx io i : place ks k idx io = PInsert i -> kin k sheet_refused_kinds = false.
Proof. unfold place. destruct (kin k sheet_refused_kinds); [discriminate | reflexivity]. Qed.

Lemma place_valid ks k idx io i :
  valid_kinds ks = true -> idx <= length ks -> place ks k idx io = PInsert i ->
  i <= length ks /\ valid_kinds (insert_at i k ks) = true.
Proof.
  intros Hv Hidx. unfold place.
  destruct (kin k sheet_refused_kinds) eqn:Eref; [discriminate|].
  destruct (kind_beq k CHARSET_RULE) eqn:Ecs.
  { apply kind_beq_eq in Ecs. subst k.
    assert (H0 : headis CHARSET_RULE ks = false -> 0 <= length ks /\ valid_kinds (insert_at 0 CHARSET_RULE ks) = true).
    { intros Hh. split; [lia|]. change (insert_at 0 CHARSET_RULE ks) with ([] ++ CHARSET_RULE :: ks).
      apply valid_insert_split; auto; simpl; [apply ge_all_0 | now rewrite Hh]. }
    destruct io.
    - destruct (headis CHARSET_RULE ks) eqn:Eh; [discriminate|]. intros H; inversion H; subst. auto.
    - destruct (Nat.eqb idx 0) eqn:E0; simpl; [|discriminate].
      destruct (headis CHARSET_RULE ks) eqn:Eh; [discriminate|]. intros H; inversion H; subst.
      apply Nat.eqb_eq in E0. subst. auto. }
  destruct (kin k uc_kinds && negb io) eqn:Euc.
  { destruct (Nat.eqb idx 0 && headis CHARSET_RULE ks) eqn:Ec; [discriminate|].
    intros H; inversion H; subst; clear H. split; auto.
    apply andb_true_iff in Euc as [Euc _].
    rewrite insert_at_firstn_skipn. apply valid_insert_split.
    - now rewrite firstn_skipn.
    - destruct k; try discriminate; reflexivity.
    - rewrite Ecs. now apply cs_cond. }
  destruct (kind_beq k IMPORT_RULE) eqn:Eim.
  { apply kind_beq_eq in Eim. subst k. destruct io.
    - destruct (last_pos (kind_beq IMPORT_RULE) ks) as [j|] eqn:E.
      + intros H; inversion H; subst. eapply (after_last_valid IMPORT_RULE 1); eauto.
      + destruct ks as [|x r].
        * intros H; inversion H; subst. split; auto.
        * destruct (kin x import_first_kinds) eqn:Ef; intros H; inversion H; subst; clear H.
          -- split; [simpl; lia|]. change (insert_at 1 IMPORT_RULE (x :: r)) with ([x] ++ IMPORT_RULE :: r).
             apply valid_insert_split; auto.
             ++ simpl. rewrite (nocs_ge1 _ (valid_nocs_tail _ _ Hv)), andb_true_r.
                destruct x; try discriminate; reflexivity.
          -- split; [simpl; lia|]. change (insert_at 0 IMPORT_RULE (x :: r)) with ([] ++ IMPORT_RULE :: x :: r).
             assert (Hh : headis CHARSET_RULE (x :: r) = false) by (destruct x; try discriminate; reflexivity).
             apply valid_insert_split; auto.
             ++ simpl level. cbv iota. apply nocs_ge1. now apply valid_nocs_all.
             ++ simpl kind_beq. cbv iota. now rewrite Hh.
    - destruct (Nat.eqb idx 0 && headis CHARSET_RULE ks) eqn:Ec; [discriminate|].
      destruct (anyk import_before_kinds (firstn idx ks)) eqn:Eb; [discriminate|].
      intros H; inversion H; subst; clear H. split; auto.
      rewrite insert_at_firstn_skipn. apply valid_insert_split.
      + now rewrite firstn_skipn.
      + simpl level. cbv iota. apply andb_true_iff. split.
        * apply (anyk_false _ _ _ Eb). pointwise.
        * apply nocs_ge1. now apply nocs_skipn_valid.
      + simpl kind_beq. cbv iota. now apply cs_cond. }
  destruct (kind_beq k NAMESPACE_RULE) eqn:Ens.
  { apply kind_beq_eq in Ens. subst k.
    eapply (place_ordered_valid NAMESPACE_RULE ns_skip_kinds ns_stop_kinds ns_after_kinds ns_before_kinds 2);
      eauto; try reflexivity; pointwise. }
  destruct (kind_beq k VARIABLES_RULE) eqn:Eva.
  { apply kind_beq_eq in Eva. subst k.
    eapply (place_ordered_valid VARIABLES_RULE var_skip_kinds var_stop_kinds var_after_kinds var_before_kinds 3);
      eauto; try reflexivity; pointwise. }
  assert (Hlev : match level k with Some l => l = 4 | None => True end).
  { destruct k; simpl; auto; discriminate. }
  destruct io.
  - intros H; inversion H; subst; clear H. split; auto.
    rewrite <- (app_nil_r ks) at 2. rewrite insert_at_split.
    apply valid_insert_split.
    + now rewrite app_nil_r.
    + destruct (level k) as [l|]; auto. subst l. now rewrite le_all_4.
    + rewrite Ecs. destruct ks; reflexivity.
  - destruct (anyk other_after_kinds (skipn idx ks)) eqn:Ea; [discriminate|].
    intros H; inversion H; subst; clear H. split; auto.
    rewrite insert_at_firstn_skipn. apply valid_insert_split.
    + now rewrite firstn_skipn.
    + destruct (level k) as [l|]; auto. subst l. rewrite le_all_4. simpl.
      apply (anyk_false _ _ _ Ea). pointwise.
    + rewrite Ecs. destruct (firstn i ks) eqn:Ef; auto.
      destruct (skipn i ks) as [|y r] eqn:Es; auto. simpl.
      simpl in Ea. apply orb_false_iff in Ea as [Ea _].
      destruct y; try discriminate; reflexivity.
Qed.

(* ------------------------------------------------------------------ from kinds to rule lists *)
Lemma kinds_insert_at i r rs : kinds (insert_at i r rs) = insert_at i (rkind r) (kinds rs).
Proof. unfold kinds, insert_at. now rewrite map_app, firstn_map, skipn_map. Qed.
Lemma kinds_remove_at i rs : kinds (remove_at i rs) = remove_at i (kinds rs).
Proof. unfold kinds, remove_at. now rewrite map_app, firstn_map, skipn_map. Qed.
Lemma kinds_app a b : kinds (a ++ b) = kinds a ++ kinds b.
Proof. apply map_app. Qed.
Lemma kinds_length rs : length (kinds rs) = length rs.
Proof. apply map_length. Qed.

Lemma forallb_firstn {A} (p : A -> bool) n l : forallb p l = true -> forallb p (firstn n l) = true.
Proof. intros H. rewrite <- (firstn_skipn n l), forallb_app in H. now apply andb_true_iff in H as [H _]. Qed.
Lemma forallb_skipn {A} (p : A -> bool) n l : forallb p l = true -> forallb p (skipn n l) = true.
Proof. intros H. rewrite <- (firstn_skipn n l), forallb_app in H. now apply andb_true_iff in H as [_ H]. Qed.

Lemma forallb_insert_at {A} (p : A -> bool) i x l :
  forallb p l = true -> p x = true -> forallb p (insert_at i x l) = true.
Proof.
  intros H Hx. unfold insert_at. rewrite forallb_app. simpl.
  now rewrite (forallb_firstn p i l H), Hx, (forallb_skipn p i l H).
Qed.
Lemma forallb_remove_at {A} (p : A -> bool) i l : forallb p l = true -> forallb p (remove_at i l) = true.
Proof.
  intros H. unfold remove_at. rewrite forallb_app. now rewrite (forallb_firstn p i l H), (forallb_skipn p (S i) l H).
Qed.

Definition VS (rs : list rule) : Prop := valid_sheet rs = true.

Lemma VS_intro rs : valid_kinds (kinds rs) = true -> forallb kids_ok rs = true -> norefused (kinds rs) = true -> VS rs.
Proof. intros H1 H2 H3. unfold VS, valid_sheet. now rewrite H1, H2, H3. Qed.
Lemma VS_elim rs : VS rs -> valid_kinds (kinds rs) = true /\ forallb kids_ok rs = true.
Proof. unfold VS, valid_sheet. intros H. apply andb_true_iff in H as [H _]. now apply andb_true_iff in H. Qed.
Lemma VS_nr rs : VS rs -> norefused (kinds rs) = true.
Proof. unfold VS, valid_sheet. intros H. now apply andb_true_iff in H as [_ H]. Qed.

Lemma VS_remove_at i rs : VS rs -> VS (remove_at i rs).
Proof.
  intros H. pose proof (VS_nr _ H) as H3. apply VS_elim in H as [H1 H2]. apply VS_intro.
  - rewrite kinds_remove_at. now apply valid_remove_at.
  - now apply forallb_remove_at.
  - rewrite kinds_remove_at. now apply forallb_remove_at.
Qed.

Lemma VS_remove_split a x b : VS (a ++ x :: b) -> VS (a ++ b).
Proof.
  intros H. pose proof (VS_nr _ H) as H3. apply VS_elim in H as [H1 H2]. apply VS_intro.
  - rewrite kinds_app in *. simpl in H1. eapply valid_remove_split; eauto.
  - rewrite forallb_app in *. simpl in H2. apply andb_true_iff in H2 as [A B].
    apply andb_true_iff in B as [_ B]. now rewrite A, B.
  - rewrite kinds_app in *. unfold norefused in *. rewrite forallb_app in *.
    change (kinds (x :: b)) with (rkind x :: kinds b) in H3.
    apply andb_true_iff in H3 as [A B]. apply forallb_skipn with (n := 1) in B. change (skipn 1 (rkind x :: kinds b)) with (kinds b) in B. now rewrite A, B.
Qed.

Lemma VS_set_head_enc rs e : VS rs -> VS (set_head_enc rs e).
Proof.
  destruct rs as [|r t]; auto.
Qed.

Lemma clean_loop_VS items rest : forall kept, VS (rev kept ++ rest) -> VS (fst (clean_loop items kept rest)).
Proof.
  induction rest as [|r rest IH]; intros kept H; simpl.
  - now rewrite app_nil_r in H.
  - destruct (is_kind NAMESPACE_RULE r && negb (dict_has_item items (rprefix r) (ruri r))).
    + destruct (protected (rev kept ++ r :: rest) r); simpl; auto.
      apply IH. eapply VS_remove_split; eauto.
    + apply IH. simpl. now rewrite <- app_assoc.
Qed.

Lemma clean_loop_exn items rest : forall kept e, snd (clean_loop items kept rest) = Some e -> e = NoModificationAllowedErr.
Proof.
  induction rest as [|r rest IH]; intros kept e; simpl; [discriminate|].
  destruct (is_kind NAMESPACE_RULE r && negb (dict_has_item items (rprefix r) (ruri r))).
  - destruct (protected (rev kept ++ r :: rest) r); simpl; [congruence | apply IH].
  - apply IH.
Qed.

Lemma clean_namespaces_VS rs : VS rs -> VS (fst (clean_namespaces rs)).
Proof. intros H. unfold clean_namespaces. now apply clean_loop_VS. Qed.

Lemma delete_rule_VS rs i : VS rs -> VS (fst (delete_rule rs i)).
Proof.
  intros H. unfold delete_rule. destruct (py_index (length rs) i); auto.
  destruct (nth_error rs n); auto. destruct (protected rs r); simpl; auto. now apply VS_remove_at.
Qed.

Lemma delete_rule_exc rs i rs' e : delete_rule rs i = (rs', Exc e) -> rs' = rs.
Proof.
  unfold delete_rule. destruct (py_index (length rs) i); [|congruence].
  destruct (nth_error rs n); [|congruence]. destruct (protected rs r); congruence.
Qed.

Definition norm_index (len : nat) (index : option Z) : option nat :=
  match index with
  | None => Some len
  | Some i => if (i <? 0)%Z || (Z.of_nat len <? i)%Z then None else Some (Z.to_nat i)
  end.

Lemma norm_index_le len index idx : norm_index len index = Some idx -> idx <= len.
Proof.
  destruct index as [i|]; simpl; [|intros H; inversion H; lia].
  destruct ((i <? 0)%Z || (Z.of_nat len <? i)%Z) eqn:E; [discriminate|].
  intros H; inversion H; subst. apply orb_false_iff in E as [E1 E2].
  apply Z.ltb_ge in E1. apply Z.ltb_ge in E2. lia.
Qed.

Lemma insert_rule_VS rx simple clean rs r index io :
  VS rs -> kids_ok r = true -> VS (fst (insert_rule rx simple clean rs r index io)).
Proof.
  intros H Hr. unfold insert_rule. fold (norm_index (length rs) index).
  destruct (norm_index (length rs) index) as [idx|] eqn:En; auto.
  apply norm_index_le in En.
  destruct (place (kinds rs) (rkind r) idx io) as [|i|] eqn:Ep; simpl; auto.
  - assert (Hins : VS (insert_at i r rs)).
    { pose proof (VS_nr _ H) as H3. apply VS_elim in H as [H1 H2]. rewrite <- kinds_length in En.
      destruct (place_valid _ _ _ _ _ H1 En Ep) as [_ Hv]. apply VS_intro.
      - now rewrite kinds_insert_at.
      - now apply forallb_insert_at.
      - rewrite kinds_insert_at. apply forallb_insert_at; auto.
        now rewrite (place_not_refused _ _ _ _ _ Ep). }
    destruct (kind_beq (rkind r) NAMESPACE_RULE); auto.
    destruct (match dict_get (match simple with Some d => d | None => ns_view rs end) (rprefix r) with
              | Some u => N.eqb u (ruri r) | None => false end); auto.
    destruct clean; auto.
    pose proof (clean_namespaces_VS _ Hins) as Hc.
    destruct (clean_namespaces (insert_at i r rs)) as [rs'' [e|]]; auto.
  - now apply VS_set_head_enc.
Qed.

(* ---- parser *)
Lemma media_child_ok k c : media_child k = Some (Some c) -> kin c (media_forbidden_insert ++ media_forbidden_parse) = false.
Proof. destruct k; vm_compute; intros H; inversion H; reflexivity. Qed.

Lemma media_children_ok rx ks : forall c, media_children rx ks = Some c ->
  anyk (media_forbidden_insert ++ media_forbidden_parse) c = false.
Proof.
  remember (media_forbidden_insert ++ media_forbidden_parse) as T eqn:ET.
  induction ks as [|k r IH]; simpl; intros c H.
  - inversion H. reflexivity.
  - destruct (media_child k) as [[c0|]|] eqn:E.
    + destruct (media_children rx r) as [c'|]; [|discriminate]. inversion H; subst c. simpl.
      pose proof (media_child_ok _ _ E) as Hk. rewrite <- ET in Hk.
      now rewrite Hk, (IH c' eq_refl).
    + auto.
    + destruct rx; [discriminate | auto].
Qed.

Lemma page_children_ok ks : anyk page_forbidden_insert (page_children ks) = false.
Proof. unfold page_children. destruct (existsb (kind_beq MARGIN_RULE) ks); reflexivity. Qed.

Lemma kids_ok_leaf k p u e us : kind_beq k MEDIA_RULE = false -> kind_beq k PAGE_RULE = false ->
  kids_ok (mkRule k p u e us []) = true.
Proof. unfold kids_ok, is_kind. simpl. intros -> ->. reflexivity. Qed.

Lemma VS_map_same f rs :
  (forall r, rkind (f r) = rkind r /\ rkids (f r) = rkids r) -> VS rs -> VS (map f rs).
Proof.
  intros Hf H. pose proof (VS_nr _ H) as H3. apply VS_elim in H as [H1 H2].
  assert (Ek : kinds (map f rs) = kinds rs).
  { unfold kinds. rewrite map_map. apply map_ext. intros a. apply Hf. }
  apply VS_intro; [now rewrite Ek | | now rewrite Ek].
  - rewrite forallb_forall in *. intros x Hx. apply in_map_iff in Hx as (y & <- & Hy).
    specialize (H2 _ Hy). destruct (Hf y) as [A B]. unfold kids_ok, is_kind in *. now rewrite A, B.
Qed.

Lemma parse_step_VS rx st p st' : VS (p_rules st) -> parse_step rx st p = inl st' -> VS (p_rules st').
Proof.
  intros H. unfold parse_step.
  destruct (match parse_threshold (pkind p) with Some t => Nat.ltb t (p_expected st) | None => false end).
  { destruct rx; [discriminate|]. intros E; inversion E; subst; auto. }
  destruct (kin (pkind p) parse_discarded_kinds).
  { intros E; inversion E; subst; auto. }
  destruct (kind_beq (pkind p) NAMESPACE_RULE) eqn:Ens.
  { destruct (dict_get (p_ns st) (pprefix p)).
    - intros E; inversion E; subst; simpl. apply VS_map_same; auto.
      intros r. destruct (is_kind NAMESPACE_RULE r && N.eqb (rprefix r) (pprefix p)); auto.
    - pose proof (insert_rule_VS rx (Some (p_ns st)) false (p_rules st)
                                 (mkRule (pkind p) (pprefix p) (puri p) 0 [] []) None false H) as Hi.
      destruct (insert_rule rx (Some (p_ns st)) false (p_rules st)
                            (mkRule (pkind p) (pprefix p) (puri p) 0 [] []) None false) as [rs res].
      simpl in Hi. assert (Hk : VS rs).
      { apply Hi. apply kind_beq_eq in Ens. rewrite Ens. reflexivity. }
      destruct res; intros E; inversion E; subst; auto. }
  set (built := if kind_beq (pkind p) STYLE_RULE then _ else _).
  assert (Hb : forall r, built = inl (Some r) -> kids_ok r = true).
  { subst built. intros r.
    destruct (kind_beq (pkind p) STYLE_RULE) eqn:E1.
    { destruct (resolve (p_ns st) (ppfx p)); [|destruct rx]; intros E; inversion E.
      apply kind_beq_eq in E1. rewrite E1. reflexivity. }
    destruct (kind_beq (pkind p) MEDIA_RULE) eqn:E2.
    { destruct (media_children rx (pkids p)) as [c|] eqn:Em; intros E; inversion E.
      apply kind_beq_eq in E2. rewrite E2. unfold kids_ok, is_kind. cbn [rkind rkids].
      rewrite kind_beq_refl. now rewrite (media_children_ok _ _ _ Em). }
    destruct (kind_beq (pkind p) PAGE_RULE) eqn:E3.
    { intros E; inversion E. apply kind_beq_eq in E3. rewrite E3. unfold kids_ok, is_kind. cbn [rkind rkids].
      replace (kind_beq PAGE_RULE MEDIA_RULE) with false by reflexivity. rewrite kind_beq_refl.
      now rewrite page_children_ok. }
    intros E; inversion E. now apply kids_ok_leaf. }
  destruct built as [[r|]|e]; [| |discriminate].
  - pose proof (insert_rule_VS rx (Some (p_ns st)) true (p_rules st) r None false H (Hb r eq_refl)) as Hi.
    destruct (insert_rule rx (Some (p_ns st)) true (p_rules st) r None false) as [rs res]. simpl in Hi.
    destruct res; intros E; inversion E; subst; auto.
  - intros E; inversion E; subst; auto.
Qed.

Lemma parse_loop_VS rx ps : forall st st', VS (p_rules st) -> parse_loop rx st ps = inl st' -> VS (p_rules st').
Proof.
  induction ps as [|[p|g] ps IH]; simpl; intros st st' H E.
  - inversion E; subst; auto.
  - destruct (parse_step rx st p) as [st1|e] eqn:Es; [|discriminate].
    eapply IH; [|exact E]. simpl. eapply parse_step_VS; eauto.
  - eapply IH; [|exact E]. exact H.
Qed.

Lemma parse_sheet_VS rx env ps rs e : parse_sheet rx env ps = inl (rs, e) -> VS rs.
Proof.
  unfold parse_sheet. destruct (parse_loop rx (mkP [] env 0) ps) as [st|x] eqn:E; [|discriminate].
  intros H. inversion H.
  assert (Hv : VS (p_rules st)) by (eapply (parse_loop_VS rx ps (mkP [] env 0)); [reflexivity | exact E]).
  apply clean_namespaces_VS in Hv. now rewrite H1 in Hv.
Qed.

(* ------------------------------------------------------------------ operations keep the sheet valid *)
Lemma forallb_nth_error {A} (p : A -> bool) l n x : forallb p l = true -> nth_error l n = Some x -> p x = true.
Proof. intros H E. rewrite forallb_forall in H. apply H. eapply nth_error_In; eauto. Qed.

Definition src_ok (s : source) : Prop := match s with Obj r => kids_ok r = true | Text _ => True end.

Lemma insert_any_VS rx rs src index io : VS rs -> src_ok src -> VS (fst (insert_any rx rs src index io)).
Proof.
  intros H Hs. unfold insert_any.
  destruct (match index with None => true | Some i => negb ((i <? 0)%Z || (Z.of_nat (length rs) <? i)%Z) end); auto.
  destruct src as [ps|r].
  - destruct (negb (is_charset_proto ps) && headis CHARSET_RULE (kinds rs)); cbv iota beta;
      match goal with |- context[parse_sheet ?a ?b ?c] =>
        destruct (parse_sheet a b c) as [[tmp [e|]]|e] eqn:Ep; auto end;
      match goal with |- context[negb (Nat.eqb (length ?t) ?n)] => destruct (negb (Nat.eqb (length t) n)); auto end;
      match goal with |- context[nth_error ?t ?n] => destruct (nth_error t n) as [r|] eqn:En; auto end;
      (apply insert_rule_VS; auto; apply parse_sheet_VS in Ep; apply VS_elim in Ep as [_ Ep];
       eapply forallb_nth_error; eauto).
  - now apply insert_rule_VS.
Qed.

Lemma set_text_VS rx rs ps : VS rs -> VS (fst (set_text rx rs ps)).
Proof.
  intros H. unfold set_text. destruct (parse_sheet rx [] ps) as [[rs' [e|]]|e] eqn:Ep; auto;
    simpl; eapply parse_sheet_VS; eauto.
Qed.

Lemma set_encoding_VS rx rs e : VS rs -> VS (fst (set_encoding rx rs e)).
Proof.
  intros H. unfold set_encoding. destruct (headis CHARSET_RULE (kinds rs)).
  - destruct (N.eqb e 0).
    + pose proof (delete_rule_VS rs 0 H) as Hd. destruct (delete_rule rs 0) as [rs' [v|x| |]]; auto.
    + simpl. now apply VS_set_head_enc.
  - destruct (N.eqb e 0); auto.
    pose proof (insert_rule_VS rx None true rs (mkRule CHARSET_RULE 0 0 e [] []) (Some 0%Z) false H eq_refl) as Hi.
    destruct (insert_rule rx None true rs (mkRule CHARSET_RULE 0 0 e [] []) (Some 0%Z) false) as [rs' [v|x| |]]; auto.
Qed.

Lemma ns_set_VS rx rs p u : VS rs -> VS (fst (ns_set rx rs p u)).
Proof.
  intros H. unfold ns_set. destruct (find_ns rs p).
  - destruct (dict_get (ns_view rs) p); auto. destruct (N.eqb (ruri r) u); auto.
  - pose proof (insert_rule_VS rx None true rs (mkRule NAMESPACE_RULE p u 0 [] []) None true H eq_refl) as Hi.
    destruct (insert_rule rx None true rs (mkRule NAMESPACE_RULE p u 0 [] []) None true) as [rs' [v|x| |]]; auto.
Qed.

Lemma ns_del_VS rx rs p : VS rs -> VS (fst (ns_del rx rs p)).
Proof.
  intros H. unfold ns_del.
  destruct (last_index_of (fun r => is_kind NAMESPACE_RULE r && N.eqb (rprefix r) p) rs 0 None); auto.
  now apply delete_rule_VS.
Qed.

(* containers *)
Lemma update_at_same {A} (l : list A) k x : nth_error l k = Some x -> firstn k l ++ x :: skipn (S k) l = l.
Proof.
  revert l. induction k as [|k IH]; intros l H; destruct l as [|y l]; try (simpl in H; discriminate).
  - simpl in H. inversion H. reflexivity.
  - simpl in H. change (y :: (firstn k l ++ x :: skipn (S k) l) = y :: l). f_equal. now apply IH.
Qed.

Lemma VS_update_at rs k r r' :
  VS rs -> nth_error rs k = Some r -> rkind r' = rkind r -> kids_ok r' = true -> VS (update_at rs k r').
Proof.
  intros H En Hk Hr. pose proof (VS_nr _ H) as H3. apply VS_elim in H as [H1 H2].
  assert (Ek : kinds (update_at rs k r') = kinds rs).
  { unfold update_at. rewrite kinds_app.
    change (kinds (r' :: skipn (S k) rs)) with (rkind r' :: kinds (skipn (S k) rs)). rewrite Hk.
    change (rkind r :: kinds (skipn (S k) rs)) with (kinds (r :: skipn (S k) rs)).
    rewrite <- kinds_app. now rewrite (update_at_same _ _ _ En). }
  apply VS_intro; [now rewrite Ek | | now rewrite Ek].
  - unfold update_at. rewrite forallb_app.
    change (forallb kids_ok (r' :: skipn (S k) rs)) with (kids_ok r' && forallb kids_ok (skipn (S k) rs)).
    now rewrite (forallb_firstn _ k rs H2), Hr, (forallb_skipn _ (S k) rs H2).
Qed.

Lemma anyk_insert_at T i k l : anyk T l = false -> kin k T = false -> anyk T (insert_at i k l) = false.
Proof.
  intros H Hk. unfold anyk, insert_at in *. rewrite existsb_app. simpl. rewrite Hk. simpl.
  rewrite <- (firstn_skipn i l), existsb_app in H. apply orb_false_iff in H as [A B]. now rewrite A, B.
Qed.

Lemma anyk_remove_at T i l : anyk T l = false -> anyk T (remove_at i l) = false.
Proof.
  intros H. apply existsb_false_forallb in H. unfold anyk, remove_at.
  pose proof (forallb_firstn _ i l H) as A. pose proof (forallb_skipn _ (S i) l H) as B.
  rewrite existsb_app. apply orb_false_iff. split.
  - clear - A. induction (firstn i l) as [|x t IH]; auto. simpl in *. apply andb_true_iff in A as [A1 A2].
    apply negb_true_iff in A1. now rewrite A1, IH.
  - clear - B. induction (skipn (S i) l) as [|x t IH]; auto. simpl in *. apply andb_true_iff in B as [B1 B2].
    apply negb_true_iff in B1. now rewrite B1, IH.
Qed.

Definition ktable (container : kind) : list kind :=
  if kind_beq container MEDIA_RULE then media_forbidden_insert ++ media_forbidden_parse else page_forbidden_insert.

Lemma kids_ok_container r : is_container r = true -> kids_ok r = negb (anyk (ktable (rkind r)) (rkids r)).
Proof.
  unfold is_container, kids_ok, ktable, is_kind. destruct (kind_beq (rkind r) MEDIA_RULE); auto.
  simpl. intros ->. reflexivity.
Qed.

Lemma forbidden_in_table c k : kin k (forbidden_in c) = false -> kin k (ktable c) = false.
Proof. unfold forbidden_in, ktable. destruct (kind_beq c MEDIA_RULE); auto. destruct k; vm_compute; auto. Qed.

Lemma set_kids_ok r c : is_container r = true -> anyk (ktable (rkind r)) c = false -> kids_ok (set_kids r c) = true.
Proof.
  intros Hc H. rewrite kids_ok_container by exact Hc. simpl. now rewrite H.
Qed.

Lemma container_op_ok rx env r c r' res :
  is_container r = true -> kids_ok r = true ->
  match c with
  | CIns src index => container_insert rx env r src index
  | CDel index => container_delete r index
  | CDelObj i => if Nat.ltb i (length (rkids r)) then container_delete r (Z.of_nat i) else (r, Exc IndexSizeErr)
  | CText ks => container_text rx r ks
  end = (r', res) ->
  rkind r' = rkind r /\ kids_ok r' = true.
Proof.
  intros Hc Hk. rewrite (kids_ok_container _ Hc) in Hk. apply negb_true_iff in Hk.
  assert (Hdel : forall i r' res, container_delete r i = (r', res) -> rkind r' = rkind r /\ kids_ok r' = true).
  { intros i r0 res0. unfold container_delete. destruct (py_index (length (rkids r)) i).
    - intros E; inversion E; subst. split; auto. apply set_kids_ok; auto. now apply anyk_remove_at.
    - intros E; inversion E; subst. split; auto. rewrite (kids_ok_container _ Hc). now rewrite Hk. }
  assert (Hsame : rkind r = rkind r /\ kids_ok r = true).
  { split; auto. rewrite (kids_ok_container _ Hc). now rewrite Hk. }
  destruct c as [src index|index|i|ks].
  - unfold container_insert.
    set (pre := match src with Text ps => _ | Obj _ => None end).
    assert (Hfin : forall k idx,
               (if kin k (forbidden_in (rkind r)) then (r, log_error rx HierarchyRequestErr)
                else if is_kind PAGE_RULE r && page_merges_duplicates && kind_beq k MARGIN_RULE && kin MARGIN_RULE (rkids r)
                     then (r, Ret (first_pos (fun x => kind_beq x MARGIN_RULE) (rkids r)))
                     else (set_kids r (insert_at idx k (rkids r)), Ret (Some idx))) = (r', res) ->
               rkind r' = rkind r /\ kids_ok r' = true).
    { intros k idx. destruct (kin k (forbidden_in (rkind r))) eqn:Ef; [intros E; inversion E; subst; auto|].
      destruct (is_kind PAGE_RULE r && page_merges_duplicates && kind_beq k MARGIN_RULE && kin MARGIN_RULE (rkids r));
        intros E; inversion E; subst; auto.
      split; auto. apply set_kids_ok; auto. apply anyk_insert_at; auto. now apply forbidden_in_table. }
    destruct pre as [[k|res0]|]; try (intros E; inversion E; subst; auto; fail);
      (destruct (match index with None => Some (length (rkids r)) | Some i => _ end) as [idx|];
       [|intros E; inversion E; subst; auto]).
    + apply Hfin.
    + destruct (match src with Obj r0 => _ | Text ps => _ end) as [[k|]|res0];
        try (intros E; inversion E; subst; auto; fail). apply Hfin.
  - apply Hdel.
  - destruct (Nat.ltb i (length (rkids r))); [apply Hdel | intros E; inversion E; subst; auto].
  - unfold container_text. destruct (kind_beq (rkind r) MEDIA_RULE) eqn:Em.
    + destruct (media_children rx ks) as [kids|] eqn:Ek; intros E; inversion E; subst; auto.
      split; auto. apply set_kids_ok; auto. unfold ktable. rewrite Em. eapply media_children_ok; eauto.
    + destruct (forallb (kind_beq MARGIN_RULE) ks); intros E; inversion E; subst; auto.
      split; auto. apply set_kids_ok; auto. unfold ktable. rewrite Em. apply page_children_ok.
Qed.

Definition op_ok (o : op) : Prop :=
  match o with Ins src _ _ => src_ok src | _ => True end.

Lemma step_VS rx rs o : op_ok o -> VS rs -> VS (fst (step rx rs o)).
Proof.
  intros Ho H. destruct o as [src index io|index|i|p u|p|e|ps|k c]; simpl.
  - now apply insert_any_VS.
  - now apply delete_rule_VS.
  - destruct (Nat.ltb i (length rs)); auto. now apply delete_rule_VS.
  - now apply ns_set_VS.
  - now apply ns_del_VS.
  - now apply set_encoding_VS.
  - now apply set_text_VS.
  - destruct (nth_error rs k) as [r|] eqn:En; auto.
    destruct (negb (is_container r)) eqn:Ec; auto. apply negb_false_iff in Ec.
    pose proof (VS_elim _ H) as [_ Hk]. pose proof (forallb_nth_error _ _ _ _ Hk En) as Hr.
    destruct (match c with CIns src index => _ | CDel index => _ | CDelObj i => _ | CText ks => _ end) as [r' res] eqn:E.
    destruct (container_op_ok rx (ns_view rs) r c r' res Ec Hr E) as [A B]. simpl. eapply VS_update_at; eauto.
Qed.

Lemma run_VS rx ops : forall rs, Forall op_ok ops -> VS rs -> VS (run rx ops rs).
Proof.
  induction ops as [|o ops IH]; simpl; intros rs Hf H; auto.
  inversion Hf; subst. apply IH; auto. now apply step_VS.
Qed.

Theorem order_invariant_main rx ops : Forall op_ok ops -> valid_sheet (run rx ops []) = true.
Proof. intros Hf. apply run_VS; auto. reflexivity. Qed.

(* ------------------------------------------------------------------ a rejected call leaves the list unchanged *)
Definition is_ins (o : op) : bool :=
  match o with Ins _ _ _ => true | In _ (CIns _ _) => true | _ => false end.
Definition rejected (o : op) (res : result) : bool :=
  match res with Exc _ => true | Ret None => is_ins o | _ => false end.
Lemma insert_rule_rej rx simple clean rs r index io rs' res :
  insert_rule rx simple clean rs r index io = (rs', res) ->
  (res = Ret None \/ exists e, res = Exc e) -> rs' = rs.
Proof.
  unfold insert_rule. fold (norm_index (length rs) index).
  destruct (norm_index (length rs) index) as [idx|]; [|intros E; inversion E; auto].
  destruct (place (kinds rs) (rkind r) idx io) as [|i|].
  - intros E; inversion E; auto.
  - destruct (kind_beq (rkind r) NAMESPACE_RULE) eqn:Ens.
    + destruct (match dict_get _ (rprefix r) with Some u => N.eqb u (ruri r) | None => false end).
      * intros E; inversion E; auto.
      * destruct clean.
        -- destruct (clean_namespaces (insert_at i r rs)) as [rs'' [e|]] eqn:Ec; intros E; inversion E; subst; auto.
           intros [H|(e0 & H)]; discriminate.
        -- intros E; inversion E; subst. intros [H|(e0 & H)]; discriminate.
    + intros E; inversion E; subst. intros [H|(e0 & H)]; discriminate.
  - intros E; inversion E; subst. intros [H|(e0 & H)]; discriminate.
Qed.

Lemma parse_sheet_exn rx env ps rs e : parse_sheet rx env ps = inl (rs, Some e) -> e = NoModificationAllowedErr.
Proof.
  unfold parse_sheet. destruct (parse_loop rx (mkP [] env 0) ps) as [st|x]; [|discriminate].
  intros H. inversion H as [H1]. unfold clean_namespaces in H1. eapply (clean_loop_exn _ _ []). rewrite H1. reflexivity.
Qed.

Lemma container_rej rx env r c r' res :
  match c with
  | CIns src index => container_insert rx env r src index
  | CDel index => container_delete r index
  | CDelObj i => if Nat.ltb i (length (rkids r)) then container_delete r (Z.of_nat i) else (r, Exc IndexSizeErr)
  | CText ks => container_text rx r ks
  end = (r', res) ->
  rejected (In 0 c) res = true -> r' = r.
Proof.
  assert (Hdel : forall i r' res, container_delete r i = (r', res) -> (exists e, res = Exc e) -> r' = r).
  { intros i r0 res0. unfold container_delete. destruct (py_index (length (rkids r)) i);
      intros E; inversion E; subst; auto. intros [e H]; discriminate. }
  destruct c as [src index|index|i|ks]; simpl.
  - unfold container_insert.
    set (pre := match src with Text ps => _ | Obj _ => None end).
    destruct pre as [[k|res0]|]; try (intros E; inversion E; subst; auto; fail);
      (destruct (match index with None => Some (length (rkids r)) | Some i => _ end) as [idx|];
       [|intros E; inversion E; subst; auto]).
    + destruct (kin k (forbidden_in (rkind r))); [intros E; inversion E; subst; auto|].
      destruct (is_kind PAGE_RULE r && page_merges_duplicates && kind_beq k MARGIN_RULE && kin MARGIN_RULE (rkids r));
        intros E; inversion E; subst; auto; discriminate.
    + destruct (match src with Obj r0 => _ | Text ps => _ end) as [[k|]|res0];
        try (intros E; inversion E; subst; auto; fail).
      destruct (kin k (forbidden_in (rkind r))); [intros E; inversion E; subst; auto|].
      destruct (is_kind PAGE_RULE r && page_merges_duplicates && kind_beq k MARGIN_RULE && kin MARGIN_RULE (rkids r));
        intros E; inversion E; subst; auto; discriminate.
  - intros E Hr. destruct res as [[v|]|e| |]; try discriminate. eapply Hdel; eauto.
  - destruct (Nat.ltb i (length (rkids r))).
    + intros E Hr. destruct res as [[v|]|e| |]; try discriminate. eapply Hdel; eauto.
    + intros E; inversion E; auto.
  - unfold container_text. destruct (kind_beq (rkind r) MEDIA_RULE).
    + destruct (media_children rx ks); intros E; inversion E; subst; auto. discriminate.
    + destruct (forallb (kind_beq MARGIN_RULE) ks); intros E; inversion E; subst; auto; discriminate.
Qed.

(* the former refutation witness (C07-namespace-clean-raises, repaired by a5cb308): the call is still rejected, and
   now leaves the list unchanged *)
Definition refute_sheet : list rule :=
  [mkRule NAMESPACE_RULE 1 1 0 [] []; mkRule NAMESPACE_RULE 2 2 0 [] []; mkRule STYLE_RULE 0 0 0 [2%N] []].
Definition refute_op : op := Ins (Obj (mkRule NAMESPACE_RULE 1 2 0 [] [])) None true.

Lemma clean_raise_restores : step true refute_sheet refute_op = (refute_sheet, Exc NoModificationAllowedErr).
Proof. vm_compute. reflexivity. Qed.

(* ------------------------------------------------------------------ the _cleanNamespaces call after a parse never raises *)
Definition is_ns (r : rule) : bool := is_kind NAMESPACE_RULE r.
Definition gview (r : rule) (d : dict) : dict :=
  if is_ns r then if dict_has_value d (ruri r) then d else dict_set d (rprefix r) (ruri r) else d.

Lemma ns_view_fold rs : ns_view rs = fold_right gview [] rs.
Proof.
  unfold ns_view. rewrite <- (rev_involutive rs) at 2. rewrite fold_left_rev_right. reflexivity.
Qed.

Lemma has_value_set d p u v : dict_has_value (dict_set d p u) v = true -> v = u \/ dict_has_value d v = true.
Proof.
  induction d as [|[p' u'] d IH]; simpl.
  - rewrite orb_false_r. intros H. apply N.eqb_eq in H. auto.
  - destruct (N.eqb p' p); simpl.
    + intros H. apply orb_true_iff in H as [H|H]; [apply N.eqb_eq in H; auto | right; rewrite H; apply orb_true_r].
    + intros H. apply orb_true_iff in H as [H|H]; [right; now rewrite H|].
      destruct (IH H) as [A|A]; auto. right. rewrite A. apply orb_true_r.
Qed.

Lemma has_item_set_same d p u : dict_has_item (dict_set d p u) p u = true.
Proof.
  induction d as [|[p' u'] d IH]; simpl.
  - now rewrite !N.eqb_refl.
  - destruct (N.eqb p' p) eqn:E; simpl; [now rewrite !N.eqb_refl | now rewrite IH, orb_true_r].
Qed.

Lemma has_item_set_other d p u q v : N.eqb q p = false -> dict_has_item d p u = true -> dict_has_item (dict_set d q v) p u = true.
Proof.
  intros Hq. induction d as [|[p' u'] d IH]; simpl; [discriminate|].
  destruct (N.eqb p' q) eqn:E; simpl.
  - apply N.eqb_eq in E. subst p'. rewrite Hq. simpl. auto.
  - intros H. apply orb_true_iff in H as [H|H]; [now rewrite H | now rewrite (IH H), orb_true_r].
Qed.

Lemma view_values post u : dict_has_value (fold_right gview [] post) u = true -> memN u (ns_uris post) = true.
Proof.
  induction post as [|x post IH]; simpl; [discriminate|]. unfold gview at 1. unfold ns_uris. simpl.
  fold (ns_uris post). unfold is_ns. destruct (is_kind NAMESPACE_RULE x); auto.
  unfold memN in *. simpl.
  destruct (dict_has_value (fold_right gview [] post) (ruri x)) eqn:E.
  - intros H. now rewrite (IH H), orb_true_r.
  - intros H. apply has_value_set in H as [H|H]; [subst; now rewrite N.eqb_refl | now rewrite (IH H), orb_true_r].
Qed.

Definition pfx_fresh (p : N) (rs : list rule) : bool := forallb (fun r => negb (is_ns r && N.eqb (rprefix r) p)) rs.

Lemma view_item_kept pre : forall d p u, pfx_fresh p pre = true -> dict_has_item d p u = true ->
  dict_has_item (fold_right gview d pre) p u = true.
Proof.
  induction pre as [|x pre IH]; simpl; auto. intros d p u Hf H. apply andb_true_iff in Hf as [Hx Hf].
  unfold gview at 1. destruct (is_ns x) eqn:En; [|now apply IH].
  destruct (dict_has_value (fold_right gview d pre) (ruri x)); [now apply IH|].
  apply has_item_set_other; [|now apply IH]. simpl in Hx. now apply negb_true_iff in Hx.
Qed.

Lemma view_item pre r post :
  is_ns r = true -> pfx_fresh (rprefix r) pre = true -> memN (ruri r) (ns_uris post) = false ->
  dict_has_item (ns_view (pre ++ r :: post)) (rprefix r) (ruri r) = true.
Proof.
  intros Hn Hf Hm. rewrite ns_view_fold, fold_right_app. apply view_item_kept; auto.
  simpl. unfold gview at 1. rewrite Hn.
  destruct (dict_has_value (fold_right gview [] post) (ruri r)) eqn:E.
  - apply view_values in E. congruence.
  - apply has_item_set_same.
Qed.

Lemma ns_uris_app a b : ns_uris (a ++ b) = ns_uris a ++ ns_uris b.
Proof. unfold ns_uris. apply flat_map_app. Qed.

Lemma countN_app u a b : countN u (a ++ b) = countN u a + countN u b.
Proof. unfold countN. now rewrite filter_app, app_length. Qed.

Lemma memN_count u l : memN u l = true -> 1 <= countN u l.
Proof.
  induction l as [|x l IH]; simpl; [discriminate|]. unfold countN. simpl.
  destruct (N.eqb u x); simpl; [lia|]. intros H. specialize (IH H). unfold countN in IH. lia.
Qed.

Lemma not_protected a r b : is_ns r = true -> memN (ruri r) (ns_uris b) = true -> protected (a ++ r :: b) r = false.
Proof.
  intros Hn Hm. unfold protected.
  assert (2 <= countN (ruri r) (ns_uris (a ++ r :: b))).
  { rewrite ns_uris_app, countN_app. change (r :: b) with ([r] ++ b). rewrite ns_uris_app, countN_app.
    pose proof (memN_count _ _ Hm). unfold ns_uris at 2. simpl. unfold is_ns in Hn. rewrite Hn. simpl.
    unfold countN at 2. simpl. rewrite N.eqb_refl. simpl. lia. }
  destruct (Nat.eqb (countN (ruri r) (ns_uris (a ++ r :: b))) 1) eqn:E; [apply Nat.eqb_eq in E; lia|].
  now rewrite andb_false_r.
Qed.

Lemma clean_loop_noraise items rest : forall kept,
  (forall pre r post, rest = pre ++ r :: post -> is_ns r = true ->
                      dict_has_item items (rprefix r) (ruri r) = false -> memN (ruri r) (ns_uris post) = true) ->
  snd (clean_loop items kept rest) = None.
Proof.
  induction rest as [|r rest IH]; intros kept H; simpl; auto.
  assert (Hrec : forall pre r0 post, rest = pre ++ r0 :: post -> is_ns r0 = true ->
                   dict_has_item items (rprefix r0) (ruri r0) = false -> memN (ruri r0) (ns_uris post) = true).
  { intros pre r0 post E. apply (H (r :: pre)). now rewrite E. }
  destruct (is_kind NAMESPACE_RULE r && negb (dict_has_item items (rprefix r) (ruri r))) eqn:E.
  - apply andb_true_iff in E as [E1 E2]. apply negb_true_iff in E2.
    rewrite (not_protected (rev kept) r rest E1 (H [] r rest eq_refl E1 E2)). now apply IH.
  - now apply IH.
Qed.

(* distinct prefixes among the @namespace rules of a list *)
Fixpoint dist (rs : list rule) : bool :=
  match rs with
  | [] => true
  | r :: t => (if is_ns r then pfx_fresh (rprefix r) t else true) && dist t
  end.

Lemma pfx_fresh_app p a b : pfx_fresh p (a ++ b) = pfx_fresh p a && pfx_fresh p b.
Proof. apply forallb_app. Qed.

Lemma dist_split pre r post : dist (pre ++ r :: post) = true -> is_ns r = true -> pfx_fresh (rprefix r) pre = true.
Proof.
  induction pre as [|x pre IH]; simpl; auto. intros H Hn. apply andb_true_iff in H as [Hx H].
  rewrite (IH H Hn), andb_true_r. destruct (is_ns x) eqn:Ex; auto.
  rewrite pfx_fresh_app in Hx. apply andb_true_iff in Hx as [_ Hx]. simpl in Hx. apply andb_true_iff in Hx as [Hx _].
  rewrite Hn in Hx. simpl in Hx. apply negb_true_iff in Hx. rewrite N.eqb_sym, Hx. reflexivity.
Qed.

Lemma clean_namespaces_noraise rs : dist rs = true -> snd (clean_namespaces rs) = None.
Proof.
  intros Hd. unfold clean_namespaces. apply clean_loop_noraise. intros pre r post E Hn Hi.
  destruct (memN (ruri r) (ns_uris post)) eqn:Em; auto.
  rewrite E in Hi, Hd. assert (Hf : pfx_fresh (rprefix r) pre = true) by (eapply dist_split; eauto).
  rewrite (view_item pre r post Hn Hf Em) in Hi. discriminate.
Qed.

(* the parser keeps the prefixes of its @namespace rules distinct (a second rule with a known prefix replaces the
   URI instead of being inserted), hence the final _cleanNamespaces of a parse never raises *)
Definition has_key (d : dict) (p : N) : bool := match dict_get d p with Some _ => true | None => false end.
Definition keys_ok (d : dict) (rs : list rule) : bool :=
  forallb (fun r => if is_ns r then has_key d (rprefix r) else true) rs.

Lemma has_key_set d p u q : has_key d q = true -> has_key (dict_set d p u) q = true.
Proof.
  unfold has_key. induction d as [|[p' u'] d IH]; simpl; [discriminate|].
  destruct (N.eqb p' q) eqn:E.
  - intros _. destruct (N.eqb p' p) eqn:E2; simpl.
    + apply N.eqb_eq in E. apply N.eqb_eq in E2. subst. now rewrite N.eqb_refl.
    + now rewrite E.
  - intros H. destruct (N.eqb p' p) eqn:E2; simpl.
    + apply N.eqb_eq in E2. subst p'. now rewrite E.
    + rewrite E. now apply IH.
Qed.

Lemma has_key_set_same d p u : has_key (dict_set d p u) p = true.
Proof.
  unfold has_key. induction d as [|[p' u'] d IH]; simpl; [now rewrite N.eqb_refl|].
  destruct (N.eqb p' p) eqn:E; simpl; [now rewrite N.eqb_refl | now rewrite E].
Qed.

Lemma keys_fresh d rs p : keys_ok d rs = true -> dict_get d p = None -> pfx_fresh p rs = true.
Proof.
  intros H Hp. unfold keys_ok, pfx_fresh in *. revert H. apply forallb_impl. intros r Hr.
  destruct (is_ns r); auto. simpl. destruct (N.eqb (rprefix r) p) eqn:E; auto.
  apply N.eqb_eq in E. subst. unfold has_key in Hr. rewrite Hp in Hr. discriminate.
Qed.

Lemma dist_insert a b x :
  dist (a ++ b) = true -> (is_ns x = true -> pfx_fresh (rprefix x) (a ++ b) = true) -> dist (a ++ x :: b) = true.
Proof.
  induction a as [|y a IH]; simpl; intros Hd Hx.
  - rewrite Hd, andb_true_r. destruct (is_ns x); auto.
  - apply andb_true_iff in Hd as [Hy Hd].
    rewrite IH; auto.
    + rewrite andb_true_r. destruct (is_ns y) eqn:Ey; auto.
      rewrite pfx_fresh_app in *. simpl. apply andb_true_iff in Hy as [H1 H2]. rewrite H1, H2, andb_true_r. simpl.
      destruct (is_ns x) eqn:Ex; auto. simpl. specialize (Hx eq_refl). simpl in Hx.
      apply andb_true_iff in Hx as [Hx _]. apply negb_true_iff in Hx.
      now rewrite N.eqb_sym, Hx.
    + intros Hn. specialize (Hx Hn). simpl in Hx. now apply andb_true_iff in Hx as [_ Hx].
Qed.

Lemma dist_insert_at i x rs :
  dist rs = true -> (is_ns x = true -> pfx_fresh (rprefix x) rs = true) -> dist (insert_at i x rs) = true.
Proof.
  intros Hd Hx. unfold insert_at. apply dist_insert; now rewrite firstn_skipn.
Qed.

Lemma dist_set_head_enc rs e : dist (set_head_enc rs e) = dist rs.
Proof. destruct rs; reflexivity. Qed.
Lemma keys_set_head_enc d rs e : keys_ok d (set_head_enc rs e) = keys_ok d rs.
Proof. destruct rs; reflexivity. Qed.

Lemma keys_insert_at d i x rs :
  keys_ok d rs = true -> (is_ns x = true -> has_key d (rprefix x) = true) -> keys_ok d (insert_at i x rs) = true.
Proof.
  intros H Hx. apply forallb_insert_at; auto. destruct (is_ns x); auto.
Qed.

Lemma keys_set d p u rs : keys_ok d rs = true -> keys_ok (dict_set d p u) rs = true.
Proof.
  unfold keys_ok. apply forallb_impl. intros r. destruct (is_ns r); auto. apply has_key_set.
Qed.

(* insertRule as the parser calls it (no cleaning for @namespace rules): the list is unchanged, has a new encoding in
   its @charset rule, or got the rule inserted *)
Lemma insert_rule_parse_inv rx d rs r :
  (is_ns r = true -> pfx_fresh (rprefix r) rs = true) ->
  dist rs = true -> keys_ok d rs = true ->
  forall clean, (is_ns r = true -> clean = false) ->
  let rs' := fst (insert_rule rx (Some d) clean rs r None false) in
  dist rs' = true /\ keys_ok (dict_set d (rprefix r) (ruri r)) rs' = true /\ (is_ns r = false -> keys_ok d rs' = true).
Proof.
  intros Hf Hd Hk clean Hc. unfold insert_rule. cbv zeta.
  assert (Hbase : dist rs = true /\ keys_ok (dict_set d (rprefix r) (ruri r)) rs = true /\ (is_ns r = false -> keys_ok d rs = true)).
  { repeat split; auto. now apply keys_set. }
  destruct (place (kinds rs) (rkind r) (length rs) false) as [|i|]; simpl; auto.
  - assert (Hins : dist (insert_at i r rs) = true /\
                   keys_ok (dict_set d (rprefix r) (ruri r)) (insert_at i r rs) = true /\
                   (is_ns r = false -> keys_ok d (insert_at i r rs) = true)).
    { repeat split.
      - now apply dist_insert_at.
      - apply keys_insert_at; [now apply keys_set | intros _; apply has_key_set_same].
      - intros Hn. apply keys_insert_at; auto. rewrite Hn. discriminate. }
    fold (is_kind NAMESPACE_RULE r). fold (is_ns r).
    destruct (is_ns r) eqn:En; auto.
    destruct (match dict_get d (rprefix r) with Some u => N.eqb u (ruri r) | None => false end); auto.
    rewrite (Hc eq_refl). auto.
  - rewrite dist_set_head_enc, !keys_set_head_enc. auto.
Qed.

Definition PInv (st : pstate) : Prop := dist (p_rules st) = true /\ keys_ok (p_ns st) (p_rules st) = true.

Lemma parse_step_inv rx st p st' : PInv st -> parse_step rx st p = inl st' -> PInv st'.
Proof.
  intros [Hd Hk]. unfold parse_step.
  destruct (match parse_threshold (pkind p) with Some t => Nat.ltb t (p_expected st) | None => false end).
  { destruct rx; [discriminate|]. intros E; inversion E; subst; split; auto. }
  destruct (kin (pkind p) parse_discarded_kinds).
  { intros E; inversion E; subst; split; auto. }
  destruct (kind_beq (pkind p) NAMESPACE_RULE) eqn:Ens.
  { destruct (dict_get (p_ns st) (pprefix p)) eqn:Eg.
    - intros E; inversion E; subst; simpl. split.
      + clear - Hd. induction (p_rules st) as [|x l IH]; auto. simpl in *. apply andb_true_iff in Hd as [A B].
        rewrite (IH B), andb_true_r.
        assert (Hsame : forall y : rule,
                   is_ns (if is_kind NAMESPACE_RULE y && N.eqb (rprefix y) (pprefix p)
                          then mkRule (rkind y) (rprefix y) (puri p) (renc y) (ruses y) (rkids y) else y) = is_ns y /\
                   rprefix (if is_kind NAMESPACE_RULE y && N.eqb (rprefix y) (pprefix p)
                            then mkRule (rkind y) (rprefix y) (puri p) (renc y) (ruses y) (rkids y) else y) = rprefix y).
        { intros y. destruct (is_kind NAMESPACE_RULE y && N.eqb (rprefix y) (pprefix p)); auto. }
        destruct (Hsame x) as [S1 S2]. rewrite S1, S2. destruct (is_ns x); auto.
        unfold pfx_fresh in *. rewrite forallb_forall in *. intros z Hz. apply in_map_iff in Hz as (y & <- & Hy).
        destruct (Hsame y) as [T1 T2]. rewrite T1, T2. now apply A.
      + apply keys_set. unfold keys_ok in *. rewrite forallb_forall in *. intros z Hz.
        apply in_map_iff in Hz as (y & <- & Hy). specialize (Hk y Hy).
        destruct (is_kind NAMESPACE_RULE y && N.eqb (rprefix y) (pprefix p)); auto.
    - set (r := mkRule (pkind p) (pprefix p) (puri p) 0 [] []).
      assert (Hf : is_ns r = true -> pfx_fresh (rprefix r) (p_rules st) = true).
      { intros _. simpl. eapply keys_fresh; eauto. }
      destruct (insert_rule_parse_inv rx (p_ns st) (p_rules st) r Hf Hd Hk false (fun _ => eq_refl)) as (A & B & _).
      destruct (insert_rule rx (Some (p_ns st)) false (p_rules st) r None false) as [rs res]. simpl in A, B.
      destruct res; intros E; inversion E; subst; split; auto. }
  set (built := if kind_beq (pkind p) STYLE_RULE then _ else _).
  assert (Hb : forall r, built = inl (Some r) -> is_ns r = false).
  { subst built. intros r. unfold is_ns, is_kind.
    destruct (kind_beq (pkind p) STYLE_RULE) eqn:E1.
    { destruct (resolve (p_ns st) (ppfx p)); [|destruct rx]; intros E; inversion E. simpl. exact Ens. }
    destruct (kind_beq (pkind p) MEDIA_RULE) eqn:E2.
    { destruct (media_children rx (pkids p)); intros E; inversion E. simpl. exact Ens. }
    destruct (kind_beq (pkind p) PAGE_RULE) eqn:E3; intros E; inversion E; simpl; exact Ens. }
  destruct built as [[r|]|e]; [| |discriminate].
  - assert (Hn := Hb r eq_refl).
    assert (Hf : is_ns r = true -> pfx_fresh (rprefix r) (p_rules st) = true) by (rewrite Hn; discriminate).
    destruct (insert_rule_parse_inv rx (p_ns st) (p_rules st) r Hf Hd Hk true) as (A & _ & C); [rewrite Hn; discriminate|].
    destruct (insert_rule rx (Some (p_ns st)) true (p_rules st) r None false) as [rs res]. simpl in A, C.
    destruct res; intros E; inversion E; subst; split; auto.
  - intros E; inversion E; subst; split; auto.
Qed.

Lemma parse_loop_inv rx ps : forall st st', PInv st -> parse_loop rx st ps = inl st' -> PInv st'.
Proof.
  induction ps as [|[p|g] ps IH]; simpl; intros st st' H E.
  - inversion E; subst; auto.
  - destruct (parse_step rx st p) as [st1|e] eqn:Es; [|discriminate].
    eapply IH; [|exact E]. pose proof (parse_step_inv _ _ _ _ H Es) as [A B]. split; auto.
  - eapply IH; [|exact E]. destruct H as [A B]. split; auto.
Qed.

Lemma parse_sheet_noraise rx env ps rs e : parse_sheet rx env ps = inl (rs, Some e) -> False.
Proof.
  unfold parse_sheet. destruct (parse_loop rx (mkP [] env 0) ps) as [st|x] eqn:E; [|discriminate].
  intros H. inversion H as [H1].
  assert (Hi : PInv st) by (eapply (parse_loop_inv rx ps (mkP [] env 0)); [split; reflexivity | exact E]).
  destruct Hi as [Hd _]. pose proof (clean_namespaces_noraise _ Hd) as Hn. rewrite H1 in Hn. discriminate.
Qed.

Theorem rejected_unchanged_main rx rs o rs' res :
  step rx rs o = (rs', res) -> rejected o res = true -> rs' = rs.
Proof.
  destruct o as [src index io|index|i|p u|p|e|ps|k c]; simpl; intros E Hr.
  - assert (Hres : res = Ret None \/ exists e, res = Exc e).
    { destruct res as [[v|]|e| |]; try discriminate; eauto. }
    revert E. unfold insert_any.
    destruct (match index with None => true | Some i => negb ((i <? 0)%Z || (Z.of_nat (length rs) <? i)%Z) end);
      [|intros E; inversion E; auto].
    destruct src as [ps|r].
    + destruct (negb (is_charset_proto ps) && headis CHARSET_RULE (kinds rs)); cbv iota beta;
        match goal with |- context[parse_sheet ?a ?b ?c] =>
          destruct (parse_sheet a b c) as [[tmp [e|]]|e]; try (intros E; inversion E; auto; fail) end;
        match goal with |- context[negb (Nat.eqb (length ?t) ?n)] =>
          destruct (negb (Nat.eqb (length t) n)); try (intros E; inversion E; auto; fail) end;
        match goal with |- context[nth_error ?t ?n] =>
          destruct (nth_error t n) as [r|]; try (intros E; inversion E; auto; fail) end;
        intros E; eapply insert_rule_rej; eauto.
    + intros E; eapply insert_rule_rej; eauto.
  - destruct res as [[v|]|e| |]; try discriminate. eapply delete_rule_exc; eauto.
  - destruct res as [[v|]|e| |]; try discriminate.
    destruct (Nat.ltb i (length rs)); [eapply delete_rule_exc; eauto | inversion E; auto].
  - destruct res as [[v|]|e| |]; try discriminate.
    revert E. unfold ns_set. destruct (find_ns rs p).
    + destruct (dict_get (ns_view rs) p); [destruct (N.eqb (ruri r) u)|]; intros E; inversion E; auto.
    + destruct (insert_rule rx None true rs (mkRule NAMESPACE_RULE p u 0 [] []) None true) as [rs1 res1] eqn:Ei.
      destruct res1 as [v|x| |]; intros E; inversion E; subst.
      eapply insert_rule_rej; [exact Ei|]. right. eauto.
  - destruct res as [[v|]|e| |]; try discriminate.
    revert E. unfold ns_del.
    destruct (last_index_of (fun r => is_kind NAMESPACE_RULE r && N.eqb (rprefix r) p) rs 0 None).
    + intros E. eapply delete_rule_exc; eauto.
    + intros E; inversion E; auto.
  - destruct res as [[v|]|x| |]; try discriminate.
    revert E. unfold set_encoding. destruct (headis CHARSET_RULE (kinds rs)).
    + destruct (N.eqb e 0); [|intros E; inversion E].
      destruct (delete_rule rs 0) as [rs1 res1] eqn:Ed. destruct res1 as [v|y| |]; intros E; inversion E; subst.
      eapply delete_rule_exc; eauto.
    + destruct (N.eqb e 0); [intros E; inversion E|].
      destruct (insert_rule rx None true rs (mkRule CHARSET_RULE 0 0 e [] []) (Some 0%Z) false) as [rs1 res1] eqn:Ei.
      destruct res1 as [v|y| |]; intros E; inversion E; subst.
      eapply insert_rule_rej; [exact Ei|]. right. eauto.
  - destruct res as [[v|]|x| |]; try discriminate.
    revert E. unfold set_text. destruct (parse_sheet rx [] ps) as [[rs1 [e|]]|e] eqn:Ep; intros E; inversion E; subst; auto.
    exfalso. eapply parse_sheet_noraise; eauto.
  - destruct (nth_error rs k) as [r|] eqn:En; [|inversion E; subst; discriminate].
    destruct (negb (is_container r)); [inversion E; subst; discriminate|].
    destruct (match c with CIns src index => _ | CDel index => _ | CDelObj i => _ | CText ks => _ end) as [r' res0] eqn:Ec.
    inversion E; subst. rewrite (container_rej rx (ns_view rs) r c r' res Ec).
    + unfold update_at. now apply update_at_same.
    + destruct res as [[v|]|x| |]; auto.
Qed.


(* ------------------------------------------------------------------ the parser accepts every valid kind list unchanged *)
Lemma valid_app_l a b : valid_kinds (a ++ b) = true -> valid_kinds a = true.
Proof.
  revert a. induction b as [|x b IH]; intros a H.
  - now rewrite app_nil_r in H.
  - apply IH. eapply valid_remove_split; eauto.
Qed.

Lemma valid_charset_first acc r : valid_kinds (acc ++ CHARSET_RULE :: r) = true -> acc = [].
Proof.
  destruct acc as [|x a]; auto. unfold valid_kinds. simpl. rewrite nocs_app. simpl.
  rewrite andb_false_r. simpl. discriminate.
Qed.

Lemma valid_le_all acc k r l : valid_kinds (acc ++ k :: r) = true -> level k = Some l -> le_all l acc = true.
Proof.
  unfold valid_kinds. intros H Hl. apply andb_true_iff in H as [_ Hs]. now destruct (sorted_around _ _ _ _ Hs Hl).
Qed.

Lemma le_all_anyk l T acc :
  (forall x, le1 l x = true -> kin x T = false) -> le_all l acc = true -> anyk T acc = false.
Proof.
  intros HT. induction acc as [|x a IH]; simpl; auto. intros H. apply andb_true_iff in H as [H1 H2].
  now rewrite (HT x H1), (IH H2).
Qed.

Lemma len0_head acc : (Nat.eqb (length acc) 0 && headis CHARSET_RULE acc) = false.
Proof. destruct acc; reflexivity. Qed.

Lemma place_end acc k r :
  valid_kinds (acc ++ k :: r) = true -> kin k sheet_refused_kinds = false ->
  place acc k (length acc) false = PInsert (length acc).
Proof.
  intros Hv Hr. unfold place, place_ordered. rewrite Hr, firstn_all, skipn_all, len0_head.
  destruct k; simpl; try reflexivity; try (vm_compute in Hr; discriminate).
  - apply valid_charset_first in Hv. subst. reflexivity.
  - rewrite (le_all_anyk 1 import_before_kinds acc); auto; [pointwise | eapply valid_le_all; eauto].
  - rewrite (le_all_anyk 2 ns_before_kinds acc); auto; [pointwise | eapply valid_le_all; eauto].
  - rewrite (le_all_anyk 3 var_before_kinds acc); auto; [pointwise | eapply valid_le_all; eauto].
Qed.

Lemma discarded_refused k : kin k sheet_refused_kinds = false -> kin k parse_discarded_kinds = false.
Proof. destruct k; vm_compute; auto. Qed.

Definition bound (acc : list kind) : nat := if le_all 1 acc then 1 else if le_all 3 acc then 2 else 3.

Lemma bound_ge1 acc : 1 <= bound acc.
Proof. unfold bound. destruct (le_all 1 acc); [lia|]. destruct (le_all 3 acc); lia. Qed.

Lemma bound_snoc acc k :
  bound (acc ++ [k]) = if le_all 1 acc && le1 1 k then 1 else if le_all 3 acc && le1 3 k then 2 else 3.
Proof. unfold bound. rewrite !le_all_app. simpl. unfold le1. now rewrite !andb_true_r. Qed.

Lemma accept_loop_valid ks : forall acc e,
  valid_kinds (acc ++ ks) = true -> norefused ks = true -> e <= bound acc -> (acc = [] -> e = 0) ->
  accept_loop acc e ks = acc ++ ks.
Proof.
  induction ks as [|k r IH]; intros acc e Hv Hnr He H0; cbn [accept_loop].
  - now rewrite app_nil_r.
  - change (norefused (k :: r)) with (negb (kin k sheet_refused_kinds) && norefused r) in Hnr.
    apply andb_true_iff in Hnr as [Hk Hnr]. apply negb_true_iff in Hk.
    pose proof (place_end _ _ _ Hv Hk) as Hp. rewrite (discarded_refused _ Hk).
    assert (Hle : forall l, level k = Some l -> le_all l acc = true) by (intros l; eapply valid_le_all; eauto).
    assert (Hth : match parse_threshold k with Some t => Nat.ltb t e | None => false end = false).
    { destruct k; simpl; auto; apply Nat.ltb_ge.
      - apply valid_charset_first in Hv. rewrite (H0 Hv). lia.
      - unfold bound in He. rewrite (Hle 1 eq_refl) in He. lia.
      - unfold bound in He. rewrite (le_all_mono 2 3 acc) in He by (auto; apply Hle; reflexivity).
        destruct (le_all 1 acc); lia.
      - unfold bound in He. rewrite (Hle 3 eq_refl) in He. destruct (le_all 1 acc); lia. }
    rewrite Hth, Hp.
    replace (insert_at (length acc) k acc) with (acc ++ [k])
      by (unfold insert_at; now rewrite firstn_all, skipn_all).
    replace (acc ++ k :: r) with ((acc ++ [k]) ++ r) by (now rewrite <- app_assoc).
    apply IH; auto.
    + now rewrite <- app_assoc.
    + rewrite bound_snoc. pose proof (bound_ge1 acc) as Hb. unfold bound in *.
      assert (Htr : forall x, x = Nat.max 1 e -> x <= (if le_all 1 acc then 1 else if le_all 3 acc then 2 else 3)).
      { intros x ->. destruct (le_all 1 acc); [lia|]. destruct (le_all 3 acc); lia. }
      destruct k; unfold le1; cbn [level parse_next]; rewrite ?andb_true_r, ?andb_false_r; cbn [Nat.leb andb];
        rewrite ?andb_true_r, ?andb_false_r; try (apply Htr; reflexivity); try lia;
        first [ apply valid_charset_first in Hv; subst; simpl; lia
              | rewrite (Hle 1 eq_refl); lia
              | rewrite (le_all_mono 2 3 acc) by (auto; apply Hle; reflexivity); lia
              | rewrite (Hle 3 eq_refl); lia ].
    + intros Hnil. destruct acc; discriminate.
Qed.

Theorem valid_reparse_main ks : valid_kinds ks = true -> norefused ks = true -> accept_kinds ks = ks.
Proof.
  intros H Hn. unfold accept_kinds. apply (accept_loop_valid ks [] 0); auto. unfold bound. simpl. lia.
Qed.

(* ------------------------------------------------------------------ the statement's reading of validity *)
Definition body_kind (k : kind) : bool :=
  kind_beq k STYLE_RULE || kind_beq k MEDIA_RULE || kind_beq k PAGE_RULE || kind_beq k FONT_FACE_RULE.

Record ValidOrderStatement (rs : list rule) : Prop := {
  vo_charset : forall i r, nth_error rs i = Some r -> rkind r = CHARSET_RULE -> i = 0;
  vo_import_ns : forall i j a b, nth_error rs i = Some a -> nth_error rs j = Some b ->
                                 rkind a = IMPORT_RULE -> rkind b = NAMESPACE_RULE -> i < j;
  vo_head_body : forall i j a b, nth_error rs i = Some a -> nth_error rs j = Some b ->
                                 (rkind a = IMPORT_RULE \/ rkind a = NAMESPACE_RULE) -> body_kind (rkind b) = true -> i < j;
  vo_media : forall i r c, nth_error rs i = Some r -> rkind r = MEDIA_RULE -> List.In c (rkids r) ->
                           kin c media_forbidden_insert = false /\ kin c media_forbidden_parse = false;
  vo_page : forall i r c, nth_error rs i = Some r -> rkind r = PAGE_RULE -> List.In c (rkids r) ->
                          kin c page_forbidden_insert = false
}.

Lemma sorted_nth ks : sorted ks = true ->
  forall i j a b la lb, i < j -> nth_error ks i = Some a -> nth_error ks j = Some b ->
                        level a = Some la -> level b = Some lb -> la <= lb.
Proof.
  induction ks as [|x ks IH]; intros Hs i j a b la lb Hij Ha Hb Hla Hlb.
  - destruct i; discriminate.
  - simpl in Hs. apply andb_true_iff in Hs as [Hx Hs]. destruct j as [|j]; [lia|]. simpl in Hb.
    destruct i as [|i].
    + simpl in Ha. inversion Ha; subst. rewrite Hla in Hx.
      unfold ge_all in Hx. rewrite forallb_forall in Hx. specialize (Hx b (nth_error_In _ _ Hb)).
      rewrite Hlb in Hx. now apply Nat.leb_le in Hx.
    + simpl in Ha. eapply (IH Hs i j); eauto. lia.
Qed.

Lemma nth_error_kinds rs i r : nth_error rs i = Some r -> nth_error (kinds rs) i = Some (rkind r).
Proof. intros H. unfold kinds. now rewrite nth_error_map, H. Qed.

Theorem valid_sheet_statement rs : valid_sheet rs = true -> ValidOrderStatement rs.
Proof.
  intros H. apply VS_elim in H as [H1 H2]. unfold valid_kinds in H1. apply andb_true_iff in H1 as [Hn Hs].
  assert (Hord : forall i j a b la lb, nth_error rs i = Some a -> nth_error rs j = Some b ->
                   level (rkind a) = Some la -> level (rkind b) = Some lb -> la < lb -> i < j).
  { intros i j a b la lb Ha Hb Hla Hlb Hlt.
    destruct (Nat.lt_trichotomy i j) as [|[->|Hji]]; auto.
    - rewrite Ha in Hb. inversion Hb; subst. rewrite Hla in Hlb. inversion Hlb. lia.
    - pose proof (sorted_nth _ Hs j i _ _ lb la Hji (nth_error_kinds _ _ _ Hb) (nth_error_kinds _ _ _ Ha) Hlb Hla). lia. }
  constructor.
  - intros i r Hi Hk. destruct i as [|i]; auto. exfalso.
    destruct rs as [|x rs]; [discriminate|]. simpl in Hi, Hn.
    unfold nocs in Hn. rewrite forallb_forall in Hn.
    specialize (Hn (rkind r) (in_map rkind _ _ (nth_error_In _ _ Hi))). rewrite Hk in Hn. discriminate.
  - intros i j a b Ha Hb Hka Hkb. eapply (Hord i j a b 1 2); eauto; [now rewrite Hka | now rewrite Hkb].
  - intros i j a b Ha Hb Hka Hkb.
    assert (Hlb : level (rkind b) = Some 4) by (destruct (rkind b); try discriminate; reflexivity).
    destruct Hka as [Hka|Hka]; [eapply (Hord i j a b 1 4) | eapply (Hord i j a b 2 4)]; eauto; try lia; now rewrite Hka.
  - intros i r c Hi Hk Hc. pose proof (forallb_nth_error _ _ _ _ H2 Hi) as Hr.
    unfold kids_ok, is_kind in Hr. rewrite Hk in Hr.
    replace (kind_beq MEDIA_RULE MEDIA_RULE) with true in Hr by reflexivity. apply negb_true_iff in Hr.
    unfold anyk in Hr. apply existsb_false_forallb in Hr. rewrite forallb_forall in Hr.
    specialize (Hr c Hc). apply negb_true_iff in Hr. unfold kin in *. rewrite existsb_app in Hr.
    now apply orb_false_iff in Hr.
  - intros i r c Hi Hk Hc. pose proof (forallb_nth_error _ _ _ _ H2 Hi) as Hr.
    unfold kids_ok, is_kind in Hr. rewrite Hk in Hr.
    replace (kind_beq PAGE_RULE MEDIA_RULE) with false in Hr by reflexivity.
    replace (kind_beq PAGE_RULE PAGE_RULE) with true in Hr by reflexivity. apply negb_true_iff in Hr.
    unfold anyk in Hr. apply existsb_false_forallb in Hr. rewrite forallb_forall in Hr.
    specialize (Hr c Hc). now apply negb_true_iff in Hr.
Qed.

(* ------------------------------------------------------------------ corollaries used by props/C07.v *)
Theorem order_invariant_statement_main rx ops : Forall op_ok ops -> ValidOrderStatement (run rx ops []).
Proof. intros H. apply valid_sheet_statement. now apply order_invariant_main. Qed.

Theorem step_preserves_main rx rs o : op_ok o -> valid_sheet rs = true -> valid_sheet (fst (step rx rs o)) = true.
Proof. intros Ho H. now apply step_VS. Qed.

Theorem history_reparse_main rx ops :
  Forall op_ok ops -> accept_kinds (kinds (run rx ops [])) = kinds (run rx ops []).
Proof.
  intros H. pose proof (order_invariant_main rx ops H) as Hv. apply valid_reparse_main.
  - now apply VS_elim in Hv as [Hv _].
  - now apply VS_nr.
Qed.

(* non-vacuity: a history whose operations are all admissible and that builds a five-rule sheet, passing through
   the placement that used to fail ([comment, @import] + add(@namespace)) *)
Definition P (k : kind) : proto := mkProto k 0 0 0 [] [].

(* ------------------------------------------------------------------ CDO / CDC reset the order state: why the order holds anyway
   The parser's `expected` alone does NOT guarantee the order: a machine that appends whatever passes its threshold
   test accepts [style; '<!--'; @import].  The parser model is safe because every rule goes through insert_rule, whose
   `place` re-checks the neighbours: parse_loop preserves validity from ANY state, whatever `expected` says. *)
Theorem parse_valid_whatever_expected_main rx its st st' :
  valid_sheet (p_rules st) = true -> parse_loop rx st its = inl st' -> valid_sheet (p_rules st') = true.
Proof. intros H E. exact (parse_loop_VS rx its st st' H E). Qed.

Inductive kitem := KStmt (k : kind) | KSep (glued : bool).
Fixpoint naive_append (acc : list kind) (expected : nat) (its : list kitem) : list kind :=
  match its with
  | [] => acc
  | KSep g :: r => naive_append acc (if g then 0 else 1) r
  | KStmt k :: r =>
    let next := Nat.max 1 (match parse_next k with Some n => n | None => Nat.max 1 expected end) in
    if match parse_threshold k with Some t => Nat.ltb t expected | None => false end
    then naive_append acc (Nat.max 1 expected) r
    else naive_append (acc ++ [k]) next r
  end.

Lemma naive_append_breaks_order :
  valid_kinds (naive_append [] 0 [KStmt STYLE_RULE; KSep false; KStmt IMPORT_RULE; KStmt STYLE_RULE]) = false.
Proof. reflexivity. Qed.

Definition cdo_text : list titem :=
  [TStmt (P STYLE_RULE); TSep false; TStmt (P IMPORT_RULE); TStmt (P STYLE_RULE); TSep true; TStmt (P CHARSET_RULE)].

Lemma cdo_text_lenient :
  match parse_sheet false [] cdo_text with inl (rs, None) => kinds rs = [STYLE_RULE; STYLE_RULE] | _ => False end.
Proof. vm_compute. reflexivity. Qed.

Lemma cdo_text_raising : parse_sheet true [] cdo_text = inr HierarchyRequestErr.
Proof. vm_compute. reflexivity. Qed.

Definition demo_ops : list op :=
  [ Ins (Text [P COMMENT]) None true;
    Ins (Text [P IMPORT_RULE]) None true;
    Ins (Text [mkProto NAMESPACE_RULE 1 1 0 [] []]) None true;
    Ins (Text [P VARIABLES_RULE]) None true;
    Ins (Text [mkProto STYLE_RULE 0 0 0 [1%N] []]) (Some 4%Z) false;
    Ins (Text [P IMPORT_RULE]) (Some 5%Z) false;                 (* rejected: @import after a style rule *)
    SetText cdo_text;                                            (* rejected: '<!--' resets expected, insertRule refuses *)
    Enc 1;
    In 9 (CDel 0) ].

Lemma demo_ops_ok : Forall op_ok demo_ops.
Proof. repeat constructor. Qed.

Lemma demo_run : kinds (run true demo_ops []) =
  [CHARSET_RULE; COMMENT; IMPORT_RULE; NAMESPACE_RULE; VARIABLES_RULE; STYLE_RULE].
Proof. vm_compute. reflexivity. Qed.

Lemma demo_rejected :
  step true (run true (firstn 5 demo_ops) []) (Ins (Text [P IMPORT_RULE]) (Some 5%Z) false)
  = (run true (firstn 5 demo_ops) [], Exc HierarchyRequestErr).
Proof. vm_compute. reflexivity. Qed.

Definition demo_list : list kind :=
  [CHARSET_RULE; COMMENT; IMPORT_RULE; UNKNOWN_RULE; NAMESPACE_RULE; VARIABLES_RULE;
   STYLE_RULE; COMMENT; MEDIA_RULE; PAGE_RULE; FONT_FACE_RULE].
Lemma demo_valid_list : valid_kinds demo_list = true /\ norefused demo_list = true /\ accept_kinds demo_list = demo_list.
Proof. repeat split; reflexivity. Qed.

Lemma demo_invalid_list : accept_kinds [COMMENT; NAMESPACE_RULE; IMPORT_RULE] = [COMMENT; NAMESPACE_RULE].
Proof. reflexivity. Qed.
