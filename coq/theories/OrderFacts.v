From CssV Require Import Base Order.
From CssV.Gen Require Import Kinds.
