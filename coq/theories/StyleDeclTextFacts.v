(* StyleDeclTextFacts.v -- cssText assignment through the declaration-block skeleton: block-level theorems (C11) *)
From CssV Require Import Base StyleDecl StyleDeclFacts StyleDeclText.
From CssV Require Tokenizer Upto Skeleton SkeletonFacts.


Section TextFacts.
  Variable norm : str -> str.
  Variable attrs : list (str * str).
  Variable settable : list str.
  Variable decl_digest : list CssV.Tokenizer.tok -> option (str * val * bool) * bool.
  Variable at_digest : list CssV.Tokenizer.tok -> option N.
  Variable comment_id : CssV.Tokenizer.tok -> N.

  Notation digest_item := (StyleDeclText.digest_item decl_digest at_digest comment_id).
  Notation text_items := (StyleDeclText.text_items decl_digest at_digest comment_id).
  Notation settext_op := (StyleDeclText.settext_op decl_digest at_digest comment_id).
  Notation step := (StyleDecl.step norm attrs settable).
  Notation run := (StyleDecl.run norm attrs settable).

  (* what the assignment does, as a function of the skeleton of the token list *)
  Theorem settext_result ro raising ts b :
    step ro (settext_op raising ts) b =
    if ro then Raised EReadonly
    else if snd (text_items ts) && raising then Raised ESyntax
    else Done (map (mk_item norm) (fst (text_items ts))) RNone.
  Proof. reflexivity. Qed.

  Theorem text_items_skeleton ts :
    text_items ts = (kept (map digest_item (CssV.Skeleton.decl_block ts)), existsb snd (map digest_item (CssV.Skeleton.decl_block ts))).
  Proof. reflexivity. Qed.

  Lemma settext_op_ok raising ts : op_ok norm (settext_op raising ts).
  Proof. exact I. Qed.

  (* the invariant of the block model holds after assigning ANY token list *)
  Theorem settext_inv ro raising ts b : Inv norm b -> Inv norm (after b (step ro (settext_op raising ts) b)).
  Proof. intros H. apply step_preserves_Inv; [exact H|exact I]. Qed.

  (* histories mixing cssText assignments of arbitrary token lists with every other operation *)
  Theorem reachable_inv_with_text ro ops b :
    Inv norm b ->
    Forall (fun o => op_ok norm o \/ exists raising ts, o = settext_op raising ts) ops ->
    Inv norm (run ro ops b).
  Proof.
    intros H Hops. apply reachable_Inv; [exact H|].
    rewrite Forall_forall in *. intros o Ho. destruct (Hops o Ho) as [Hk|(r & ts & ->)]; [exact Hk|exact I].
  Qed.

  (* the properties / the other items of the new block, in statement order *)
  Definition decl_of (d : parsed) : list prop :=
    match d with DDecl l v i => [mkProp l (norm l) v i] | _ => [] end.

  Lemma props_of_mk_items ds : props_of (map (mk_item norm) ds) = flat_map decl_of ds.
  Proof. induction ds as [|[l v i|c|u] ds IH]; simpl; congruence. Qed.

  Theorem settext_props raising ts b b' r :
    step false (settext_op raising ts) b = Done b' r ->
    props_of b' = flat_map decl_of (fst (text_items ts))
    /\ keys b' = dedup_last (map name (flat_map decl_of (fst (text_items ts))))
    /\ r = RNone.
  Proof.
    rewrite settext_result. destruct (snd (text_items ts) && raising); [discriminate|].
    intros H; inversion H; subst. split; [apply props_of_mk_items|]. split; [|reflexivity].
    rewrite keys_spec. unfold names. now rewrite props_of_mk_items.
  Qed.

  (* ---- composition with C04: statements are consumed as units *)
  Lemma kept_app a b : kept (a ++ b) = kept a ++ kept b.
  Proof. unfold kept. apply flat_map_app. Qed.

  Theorem text_items_app d1 d2 :
    CssV.SkeletonFacts.Statements CssV.Skeleton.cls_decl d1 ->
    text_items (d1 ++ d2) =
    (fst (text_items d1) ++ fst (text_items d2), snd (text_items d1) || snd (text_items d2)).
  Proof.
    intros H. unfold StyleDeclText.text_items. unfold CssV.Skeleton.decl_block.
    rewrite (CssV.SkeletonFacts.disp_app _ _ _ H), map_app, kept_app, existsb_app. reflexivity.
  Qed.

  (* a junk declaration (any complete statement that the `unexpected` handler takes) between two parts of a
     block contributes no item, whatever it contains, and does not disturb its neighbours; it only raises the
     error flag -- so keys(), every effective entry, etc. are those of the block without the junk *)
  Theorem settext_junk_skipped d1 junk d2 :
    CssV.SkeletonFacts.Statements CssV.Skeleton.cls_decl d1 -> CssV.SkeletonFacts.JunkStmt CssV.Skeleton.cls_decl CssV.Skeleton.KDeclUnexpected junk ->
    fst (text_items (d1 ++ junk ++ d2)) = fst (text_items (d1 ++ d2))
    /\ snd (text_items (d1 ++ junk ++ d2)) = true.
  Proof.
    intros H1 Hj.
    assert (Hjs : CssV.SkeletonFacts.Statements CssV.Skeleton.cls_decl junk).
    { rewrite <- (app_nil_r junk). apply CssV.SkeletonFacts.Sts_stmt with (k := CssV.Skeleton.KDeclUnexpected); [exact Hj|constructor]. }
    rewrite (text_items_app d1 (junk ++ d2) H1), (text_items_app junk d2 Hjs), (text_items_app d1 d2 H1).
    assert (Hjunk : text_items junk = ([], true)).
    { unfold StyleDeclText.text_items, CssV.Skeleton.decl_block. rewrite (CssV.SkeletonFacts.disp_single _ _ _ Hj). reflexivity. }
    rewrite Hjunk. simpl. split; [reflexivity|]. now rewrite orb_true_r.
  Qed.

  Corollary settext_junk_same_block d1 junk d2 b :
    CssV.SkeletonFacts.Statements CssV.Skeleton.cls_decl d1 -> CssV.SkeletonFacts.JunkStmt CssV.Skeleton.cls_decl CssV.Skeleton.KDeclUnexpected junk ->
    after b (step false (settext_op false (d1 ++ junk ++ d2)) b)
    = map (mk_item norm) (fst (text_items (d1 ++ d2))).
  Proof.
    intros H1 Hj. rewrite settext_result. destruct (settext_junk_skipped d1 junk d2 H1 Hj) as [E1 E2].
    rewrite E1, E2. reflexivity.
  Qed.
End TextFacts.

(* ---- the declaration parse (Property.cssText on one run, values opaque) *)
Definition blank (t : CssV.Tokenizer.tok) : bool := tyis t "S" || tyis t "COMMENT".

Lemma name_parse_found ts : forall l ok, name_parse ts (Some l) ok = (Some l, ok && forallb blank ts).
Proof.
  induction ts as [|t r IH]; intros l ok; simpl; [now rewrite andb_true_r|].
  unfold blank at 1. destruct (tyis t "S" || tyis t "COMMENT") eqn:B; simpl.
  - apply IH.
  - destruct (tyis t "IDENT"); rewrite IH; simpl; now rewrite andb_false_r.
Qed.

(* Property._setName accepts exactly: blanks, ONE IDENT, blanks -- and the literal name is its lower-cased value *)
Theorem name_parse_spec ts l :
  name_parse ts None true = (Some l, true) <->
  exists a t b, ts = a ++ t :: b /\ forallb blank a = true /\ forallb blank b = true /\
                tyis t "IDENT" = true /\ blank t = false /\ l = CssV.Tokenizer.lower (CssV.Tokenizer.val t).
Proof.
  split.
  - induction ts as [|t r IH]; simpl; [discriminate|].
    destruct (tyis t "S" || tyis t "COMMENT") eqn:B.
    + intros H. destruct (IH H) as (a & t' & b & -> & Ha & Hb & Ht & Hbl & El).
      exists (t :: a), t', b. simpl. unfold blank at 1. rewrite B. simpl. repeat split; auto.
    + destruct (tyis t "IDENT") eqn:I.
      * rewrite name_parse_found. simpl. intros H. injection H as E1 E2.
        exists [], t, r. simpl. repeat split; auto; try exact B; try (now rewrite E1).
      * intros H. exfalso. clear - H.
        assert (G : forall ts f, snd (name_parse ts f false) = false).
        { induction ts as [|x ts IHt]; intros f; simpl; auto.
          destruct (tyis x "S" || tyis x "COMMENT"); auto. destruct (tyis x "IDENT"); auto. destruct f; auto. }
        specialize (G r None). rewrite H in G. discriminate.
  - intros (a & t & b & -> & Ha & Hb & Ht & Hbl & ->). induction a as [|x a IH]; simpl.
    + unfold blank in Hbl. rewrite Hbl, Ht, name_parse_found, Hb. reflexivity.
    + simpl in Ha. apply andb_true_iff in Ha as [Hx Ha]. unfold blank in Hx. rewrite Hx. auto.
Qed.

(* a declaration run that yields no property has logged an error: with raiseExceptions on the assignment raises *)
Theorem decl_parse_dropped_is_error norm valof run e : decl_parse norm valof run = (None, e) -> e = true.
Proof.
  unfold decl_parse.
  destruct (CssV.Upto.upto CssV.Upto.FPropName None run) as [nt r1]. destruct nt as [|n0 nt]; [congruence|].
  destruct (CssV.Upto.upto CssV.Upto.FPropValue None r1) as [vt r2].
  destruct (CssV.Upto.upto CssV.Upto.FPropPriority None r2) as [pt r3].
  destruct (CssV.Upto.separate_end (n0 :: nt)) as [names [colon|]]; [|congruence].
  destruct (negb (eqs (CssV.Tokenizer.val colon) (s ":"))); [congruence|].
  destruct (is_nil names); [congruence|].
  destruct (CssV.Upto.separate_end vt) as [vb [e0|]]; [|congruence].
  destruct (if eqs (CssV.Tokenizer.val e0) (s "!") then (vb, e0 :: pt) else (vt, pt)) as [vt' pt'].
  destruct (name_parse names None true) as [nm nok]. destruct (prio_parse pt' 0 [] true) as [plit pok].
  destruct nm as [l|]; [|congruence]. destruct nok; [|congruence]. destruct (valof vt'); congruence.
Qed.

(* ---- non-vacuity / witness on real tokens: the junk statements of C04 (`(y):2;` and `3 ! y:2;`) *)
Definition dg (run : list CssV.Tokenizer.tok) : option (str * val * bool) * bool :=
  match run with t :: _ => (Some (CssV.Tokenizer.val t, 1%N, false), false) | [] => (None, true) end.

Example settext_ex :
  fst (text_items dg (fun _ => None) (fun _ => 7%N) (CssV.SkeletonFacts.decl_x ++ CssV.SkeletonFacts.junk_paren ++ CssV.SkeletonFacts.decl_z))
  = [DDecl (s "x") 1%N false; DDecl (s "z") 1%N false]
  /\ snd (text_items dg (fun _ => None) (fun _ => 7%N) (CssV.SkeletonFacts.decl_x ++ CssV.SkeletonFacts.junk_paren ++ CssV.SkeletonFacts.decl_z)) = true.
Proof. split; vm_compute; reflexivity. Qed.

Example settext_string_ex :
  option_map (fun o => after [] (step_i false o []))
    (settext_of_string_i [(s "red", Some (DDecl [] 1%N false));
                          (s "/*c1*/", Some (DComment 1%N));
                          (s "1px", Some (DDecl [] 3%N false))]
                         false (s "C\olor : red; /*c1*/ (y):2; top: 1px ! IMPORTANT; left: $; x y: red"))
  = Some [IProp (mkProp (s "c\olor") (s "color") 1%N false); IComment 1%N;
          IProp (mkProp (s "top") (s "top") 3%N true)].
Proof. vm_compute. reflexivity. Qed.
