(* SkeletonFacts.v -- proofs about the statement skeleton (Skeleton.v) *)
From CssV Require Import Base Tokenizer Gen.UptoGen Upto UptoFacts Skeleton.

(* the mode in which handler k delimits its statement *)
Definition kmd (k : kind) : mode := mode_of (fst (kmode k)) None.

(* a complete statement for dispatch `cls`: its first token selects handler k, and the tokens
   are one complete run in k's mode                                                          *)
Definition JunkStmt (cls : tok -> tclass) (k : kind) (j : list tok) : Prop :=
  exists t r, j = t :: r /\ cls t = CStmt k /\ StmtRun (kmd k) j.

(* a sequence of complete statements, comments and skipped tokens *)
Inductive Statements (cls : tok -> tclass) : list tok -> Prop :=
| Sts_nil : Statements cls []
| Sts_skip t g : cls t = CSkip -> Statements cls g -> Statements cls (t :: g)
| Sts_comment t g : cls t = CComment -> Statements cls g -> Statements cls (t :: g)
| Sts_stmt k j g : JunkStmt cls k j -> Statements cls g -> Statements cls (j ++ g).

Lemma skipn_length_app {A} (a b : list A) : skipn (length a) (a ++ b) = b.
Proof. induction a; simpl; auto. Qed.

Lemma disp_skip up km cls ts : forall n,
  disp_gen up km cls ts n = disp_gen up km cls (skipn n ts) 0.
Proof.
  induction ts as [|t r IH]; intros n.
  - destruct n; reflexivity.
  - destruct n as [|n]; [reflexivity|]. simpl. apply IH.
Qed.

Lemma kmode_facts k : snd (kmode k) = true /\ mq (kmd k) = false /\ c0 (kmd k) = (0, 0, 0)%Z.
Proof. destruct k; repeat split; reflexivity. Qed.

Lemma pull_stmtrun k t r rest :
  StmtRun (kmd k) (t :: r) -> pull upto kmode k t (r ++ rest) = (t :: r, rest).
Proof.
  intros H. destruct (kmode_facts k) as (Hws & Hmq & Hc0).
  unfold pull. destruct (kmode k) as [fl ws] eqn:Ek. simpl in Hws; subst ws.
  unfold upto. assert (mode_of fl (Some t) = kmd k) as ->.
  { unfold kmd. rewrite Ek. simpl. destruct k; simpl in Ek; inversion Ek; reflexivity. }
  now apply stmtrun_upto.
Qed.

(* the dispatch loop, having pulled a complete statement, resumes exactly behind it *)
Lemma disp_stmt cls k t r rest :
  cls t = CStmt k -> StmtRun (kmd k) (t :: r) ->
  disp cls ((t :: r) ++ rest) 0 = IStmt k (t :: r) :: disp cls rest 0.
Proof.
  intros Hc Hj. unfold disp. cbn [app disp_gen]. rewrite Hc, (pull_stmtrun _ _ _ _ Hj).
  f_equal. rewrite disp_skip. cbn [length]. rewrite Nat.sub_succ, Nat.sub_0_r, skipn_length_app. reflexivity.
Qed.

Lemma disp_app cls g1 g2 :
  Statements cls g1 -> disp cls (g1 ++ g2) 0 = disp cls g1 0 ++ disp cls g2 0.
Proof.
  induction 1 as [|t g Hc Hg IH|t g Hc Hg IH|k j g (t & r & -> & Hc & Hj) Hg IH].
  - reflexivity.
  - unfold disp in *. cbn [app disp_gen]. rewrite Hc. exact IH.
  - unfold disp in *. cbn [app disp_gen]. rewrite Hc. cbn [app]. now rewrite IH.
  - rewrite <- app_assoc, (disp_stmt _ _ _ _ _ Hc Hj), (disp_stmt _ _ _ _ _ Hc Hj), IH. reflexivity.
Qed.

Lemma disp_single cls k j : JunkStmt cls k j -> disp cls j 0 = [IStmt k j].
Proof.
  intros (t & r & -> & Hc & Hj). pose proof (disp_stmt cls k t r [] Hc Hj) as H.
  rewrite app_nil_r in H. exact H.
Qed.

(* the general form of the C04 theorem: for every dispatch table *)
Lemma junk_skipped_gen cls g1 k junk g2 :
  Statements cls g1 -> JunkStmt cls k junk ->
  disp cls (g1 ++ junk ++ g2) 0 = disp cls g1 0 ++ [IStmt k junk] ++ disp cls g2 0.
Proof.
  intros Hg Hj. rewrite (disp_app _ _ _ Hg). f_equal.
  rewrite (disp_app cls junk g2).
  - now rewrite (disp_single _ _ _ Hj).
  - rewrite <- (app_nil_r junk). apply Sts_stmt with (k := k); [exact Hj|constructor].
Qed.

Lemma junk_statement_skipped_lemma g1 k junk g2 :
  Statements cls_sheet g1 -> JunkStmt cls_sheet k junk ->
  skeleton (g1 ++ junk ++ g2) = skeleton g1 ++ [IStmt k junk] ++ skeleton g2.
Proof. apply junk_skipped_gen. Qed.

Lemma junk_statement_skipped_media_lemma g1 k junk g2 :
  Statements cls_media g1 -> JunkStmt cls_media k junk ->
  media_inner (g1 ++ junk ++ g2) = media_inner g1 ++ [IStmt k junk] ++ media_inner g2.
Proof. apply junk_skipped_gen. Qed.

Lemma junk_declaration_skipped_lemma d1 k junk d2 :
  Statements cls_decl d1 -> JunkStmt cls_decl k junk ->
  decl_block (d1 ++ junk ++ d2) = decl_block d1 ++ [IStmt k junk] ++ decl_block d2.
Proof. apply junk_skipped_gen. Qed.

(* ---------------------------------------------------------------- tie to the generated handler tables *)
Definition all_kinds : list kind :=
  [KCharset; KImport; KNamespace; KVariables; KFontFace; KMedia; KPage; KUnknown; KRuleset;
   KDeclIdent; KDeclUnexpected; KDeclAt].
Definition sheet_kinds : list kind :=
  [KCharset; KImport; KNamespace; KVariables; KFontFace; KMedia; KPage; KUnknown; KRuleset].

(* every handler of the model exists in the current source and passes a flag the model knows *)
Lemma handlers_generated :
  forallb (fun k => match kcall k with
                    | Some (n, _) => match flag_of_name n with Some _ => true | None => false end
                    | None => false end) all_kinds = true.
Proof. reflexivity. Qed.

(* the two handlers of the @media loop make the same call as the sheet handlers (kmode is shared), and the
   head of @media / the rule-set split pull with the flags the model uses, in this order *)
Lemma media_calls_generated :
  call_of gen_media_calls (s "atrule") = Some ([], true) /\ call_of gen_media_calls (s "ruleset") = Some ([], true)
  /\ forallb (fun k => match kcall k with Some ([], true) => true | _ => false end) sheet_kinds = true
  /\ gen_media_head_calls = [(flag_name FMQEnd, false); (flag_name FBlockStart, false); (flag_name FMediaEnd, false)]
  /\ gen_stylerule_calls = [(flag_name FBlockStart, false); (flag_name FBlockEnd, false)].
Proof. repeat split; reflexivity. Qed.

(* the dispatch tables: token type -> handler, as the productions dicts of the current source say *)
Definition tok_of_type (y : str) : tok := mkTok y [] (s "x") 0 0.
Definition cls_agrees (c : tclass) (h : str) : bool :=
  match c with
  | CSkip => eqs h (s "S") || eqs h (s "NOOP")
  | CComment => eqs h (s "COMMENT")
  | CStmt k => eqs h (handler_name k)
  end.
Definition other_types : list str :=
  [s "IDENT"; s "CHAR"; s "NUMBER"; s "STRING"; s "HASH"; s "FUNCTION"; s "URI"; s "DIMENSION"; s "PERCENTAGE";
   s "INVALID"; s "UNICODE-RANGE"; s "INCLUDES"; s "DASHMATCH"].

Lemma cls_sheet_generated :
  forallb (fun p => cls_agrees (cls_sheet (tok_of_type (fst p))) (snd p)) gen_sheet_prods = true
  /\ forallb (fun y => cls_agrees (cls_sheet (tok_of_type y)) gen_sheet_default) other_types = true.
Proof. split; reflexivity. Qed.

Lemma cls_media_generated :
  forallb (fun p => match cls_media (tok_of_type (fst p)) with
                    | CComment => eqs (snd p) (s "COMMENT")
                    | CStmt KRuleset => false
                    | CStmt _ => eqs (snd p) (s "atrule")
                    | CSkip => false end) gen_media_prods = true
  /\ forallb (fun y => match cls_media (tok_of_type y) with CStmt KRuleset => true | _ => false end)
              (s "VARIABLES_SYM" :: s "CDO" :: s "CDC" :: other_types) = true
  /\ gen_media_default = s "ruleset".
Proof. repeat split; reflexivity. Qed.

Lemma cls_decl_generated :
  gen_decl_prods = [(s "IDENT", s "ident"); (s "CHAR", s "char")] /\ gen_decl_default = s "unexpected"
  /\ cls_decl (tok_of_type (s "IDENT")) = CStmt KDeclIdent /\ cls_decl (tok_of_type (s "CHAR")) = CStmt KDeclUnexpected
  /\ cls_decl (mkTok (s "CHAR") [] (s ";") 0 0) = CSkip
  /\ forallb (fun y => match cls_decl (tok_of_type y) with CStmt KDeclUnexpected => true | _ => false end)
              (tl (tl other_types)) = true.
Proof. repeat split; reflexivity. Qed.

(* ---------------------------------------------------------------- the order state *)
Lemma ord_skip wf ts : forall n st, sheet_ord wf ts n st = sheet_ord wf (skipn n ts) 0 st.
Proof.
  induction ts as [|t r IH]; intros n st.
  - destruct n; reflexivity.
  - destruct n as [|n]; [reflexivity|]. simpl. apply IH.
Qed.

Lemma ord_stmt wf k t r rest st :
  cls_sheet t = CStmt k -> StmtRun (kmd k) (t :: r) ->
  sheet_ord wf ((t :: r) ++ rest) 0 st =
  (let '(st', kept) := ord_step wf st k (t :: r) in
   let '(l, e) := sheet_ord wf rest 0 st' in ((IStmt k (t :: r), kept) :: l, e)).
Proof.
  intros Hc Hj. cbn [app sheet_ord]. rewrite Hc, (pull_stmtrun _ _ _ _ Hj).
  destruct (ord_step wf st k (t :: r)) as [st' kept].
  rewrite ord_skip. cbn [length]. rewrite Nat.sub_succ, Nat.sub_0_r, skipn_length_app. reflexivity.
Qed.

Lemma ord_app wf g1 g2 :
  Statements cls_sheet g1 -> forall st,
  sheet_ord wf (g1 ++ g2) 0 st =
  (let '(l1, e1) := sheet_ord wf g1 0 st in let '(l2, e2) := sheet_ord wf g2 0 e1 in (l1 ++ l2, e2)).
Proof.
  induction 1 as [|t g Hc Hg IH|t g Hc Hg IH|k j g (t & r & -> & Hc & Hj) Hg IH]; intros st.
  - cbn. now destruct (sheet_ord wf g2 0 st).
  - cbn [app sheet_ord]. rewrite Hc. apply IH.
  - cbn [app sheet_ord]. rewrite Hc, IH.
    destruct (sheet_ord wf g 0 (Nat.max 1 st)) as [l1 e1]. now destruct (sheet_ord wf g2 0 e1).
  - rewrite <- app_assoc, (ord_stmt _ _ _ _ _ _ Hc Hj), (ord_stmt _ _ _ _ _ _ Hc Hj).
    destruct (ord_step wf st k (t :: r)) as [st' kept]. rewrite IH.
    destruct (sheet_ord wf g 0 st') as [l1 e1]. now destruct (sheet_ord wf g2 0 e1).
Qed.

(* a discarded statement of kind k met in state st leaves the state alone *)
Definition neutral (k : kind) (st : nat) : bool :=
  let '(th, nx, keeps) := ord_sig k in
  (match th with Some t => Nat.ltb t st | None => false end) || keeps
  || Nat.eqb (match nx with Some n => n | None => Nat.max 1 st end) st.

Lemma ord_step_discarded wf st k run :
  wf k run = false -> neutral k st = true -> ord_step wf st k run = (st, false).
Proof.
  unfold ord_step, neutral. destruct (ord_sig k) as [[th nx] keeps]. intros Hwf Hn.
  destruct (match th with Some t => Nat.ltb t st | None => false end); [reflexivity|].
  rewrite Hwf. cbn [orb] in *. destruct keeps; [reflexivity|]. cbn [orb negb] in *.
  apply Nat.eqb_eq in Hn. now rewrite Hn.
Qed.

(* which kinds are neutral in which states, as the CURRENT source has it (computed from Gen/UptoGen.v):
   rule sets, @import, @namespace, @variables in every state (fix "a discarded statement does not advance the
   order state"); unknown at-rules and @charset once anything at all came before; @media/@page/@font-face only
   when the state is already 3 *)
Lemma neutral_kinds st :
  neutral KRuleset st = true /\ neutral KImport st = true /\ neutral KNamespace st = true
  /\ neutral KVariables st = true
  /\ ((1 <= st)%nat -> neutral KUnknown st = true /\ neutral KCharset st = true)
  /\ (st = 3%nat -> neutral KMedia st = true /\ neutral KPage st = true /\ neutral KFontFace st = true).
Proof.
  assert (forall b c, b || true || c = true) as Ho by (intros [] []; reflexivity).
  split; [reflexivity|]. split; [apply Ho|]. split; [apply Ho|]. split; [apply Ho|]. split.
  - intros H. destruct st as [|n]; [lia|]. split; [|reflexivity].
    unfold neutral. cbn. apply Nat.eqb_refl.
  - intros ->. repeat split; reflexivity.
Qed.

Lemma junk_statement_skipped_order_lemma wf g1 k junk g2 st :
  Statements cls_sheet g1 -> JunkStmt cls_sheet k junk -> wf k junk = false ->
  neutral k (snd (sheet_ord wf g1 0 st)) = true ->
  sheet_ord wf (g1 ++ junk ++ g2) 0 st =
  (let '(l1, e1) := sheet_ord wf g1 0 st in
   let '(l2, e2) := sheet_ord wf g2 0 e1 in (l1 ++ (IStmt k junk, false) :: l2, e2)).
Proof.
  intros Hg (t & r & -> & Hc & Hj) Hwf Hn. rewrite (ord_app _ _ _ Hg).
  destruct (sheet_ord wf g1 0 st) as [l1 e1]. cbn [snd] in Hn.
  rewrite (ord_stmt _ _ _ _ _ _ Hc Hj), (ord_step_discarded _ _ _ _ Hwf Hn).
  now destruct (sheet_ord wf g2 0 e1).
Qed.

(* ---------------------------------------------------------------- the two splits at '{' ... '}' *)
Lemma separate_end_last (x : list tok) e : separate_end (x ++ [e]) = (x, Some e).
Proof.
  unfold separate_end. destruct x as [|x0 x']; [reflexivity|].
  cbn [app]. change (x0 :: x' ++ [e]) with ((x0 :: x') ++ [e]). rewrite removelast_last.
  f_equal. f_equal. apply last_last.
Qed.

Lemma bopen0_val t : bclass_of t = BOpen 0 -> val t = s "{".
Proof.
  unfold bclass_of, is_ident. destruct t as [y rw v l cl]; cbn [val ty]. cbv zeta.
  destruct (eqs y (s "IDENT")); [discriminate|].
  destruct (eqs v (s "{")) eqn:E; [intros _; now apply eqs_true|].
  destruct (eqs v (s "}")); [discriminate|]. destruct (eqs v (s "[")); [discriminate|].
  destruct (eqs v (s "]")); [discriminate|].
  destruct (eqs v (s "(") || is_function (mkTok y rw v l cl)); [discriminate|].
  destruct (eqs v (s ")")); discriminate.
Qed.

Lemma bclose0_val t : bclass_of t = BClose 0 -> val t = s "}" /\ is_ident t = false.
Proof.
  unfold bclass_of, is_ident. destruct t as [y rw v l cl]; cbn [val ty]. cbv zeta.
  destruct (eqs y (s "IDENT")); [discriminate|].
  destruct (eqs v (s "{")); [discriminate|].
  destruct (eqs v (s "}")) eqn:E; [intros _; split; [now apply eqs_true|reflexivity]|].
  destruct (eqs v (s "[")); [discriminate|]. destruct (eqs v (s "]")); [discriminate|].
  destruct (eqs v (s "(") || is_function (mkTok y rw v l cl)); [discriminate|].
  destruct (eqs v (s ")")); discriminate.
Qed.

Lemma brace_stops fl t :
  c0 (mode_of fl None) = (-1, 0, 0)%Z -> ends (mode_of fl None) = s "{" -> bclass_of t = BOpen 0 ->
  stops (mode_of fl None) (bump (c0 (mode_of fl None)) t) t = true.
Proof.
  intros Hc0 He Ho. rewrite Hc0, (bump_open _ _ _ Ho). cbn [shift]. unfold stops, isendtok. cbn [zero Z.add Z.eqb andb].
  rewrite He, (bopen0_val _ Ho).
  assert (is_ident t = false) as ->.
  { unfold bclass_of in Ho. destruct (is_ident t); [discriminate|reflexivity]. }
  reflexivity.
Qed.

Lemma close_isend fl t :
  ends (mode_of fl None) = s "}" -> bclass_of t = BClose 0 -> isendtok (mode_of fl None) t = true.
Proof. intros He Hc. unfold isendtok. destruct (bclose0_val _ Hc) as [-> ->]. rewrite He. reflexivity. Qed.

(* cssstylerule.py:107-159: a rule set  sel { body }  is split at the first top-level '{' and its '}' whatever
   balanced soup sel and body are (strings, urls, functions, nested brackets), and the declaration parser gets
   exactly body                                                                                                 *)
Lemma ruleset_split_lemma sel lb body rb :
  PreBrace (mode_of FBlockStart None) sel -> bclass_of lb = BOpen 0 -> is_eof lb = false ->
  Balanced body -> bclass_of rb = BClose 0 -> is_eof rb = false ->
  match sel ++ [lb] with t0 :: _ => starts (s "@") (val t0) = false | [] => False end ->
  ruleset_split (sel ++ lb :: body ++ [rb])
  = mkRS (sel ++ [lb]) (body ++ [rb]) None (Some (decl_block body)).
Proof.
  intros Hsel Ho Heo Hb Hc Hec Hgate. unfold ruleset_split.
  rewrite (prebrace_upto FBlockStart (-1)%Z sel lb (body ++ [rb]) eq_refl Hsel
             (or_intror (brace_stops FBlockStart lb eq_refl eq_refl Ho))).
  pose proof (block_upto FBlockEnd body rb [] eq_refl eq_refl Hb Hc Hec (close_isend FBlockEnd rb eq_refl Hc)) as H2.
  rewrite H2. cbn [hd_error]. rewrite separate_end_last, Hec.
  destruct (bclose0_val _ Hc) as [Hv _]. rewrite Hv. cbn [eqs N.eqb Pos.eqb andb].
  destruct (sel ++ [lb]) as [|t0 rest0] eqn:E; [contradiction|]. rewrite Hgate. reflexivity.
Qed.

(* cssmediarule.py:108-236: '@media' mq { body }: the media query part ends at the first top-level '{' (no STRING
   at depth 0 before it), the children are exactly body, and the inner loop runs on them *)
Lemma media_split_lemma mqs lb body rb :
  PreBrace (mode_of FMQEnd None) mqs -> bclass_of lb = BOpen 0 -> is_eof lb = false -> tyis lb "STRING" = false ->
  Balanced body -> bclass_of rb = BClose 0 -> is_eof rb = false ->
  media_split (mqs ++ lb :: body ++ [rb])
  = mkMP (mqs ++ [lb]) [] (body ++ [rb]) None (Some (media_inner body)).
Proof.
  intros Hpre Ho Heo Hst Hb Hc Hec. unfold media_split.
  rewrite (prebrace_upto FMQEnd (-1)%Z mqs lb (body ++ [rb]) eq_refl Hpre
             (or_intror (brace_stops FMQEnd lb eq_refl eq_refl Ho))).
  rewrite separate_end_last. cbn [snd]. rewrite Hst, (bopen0_val _ Ho). cbn [eqs N.eqb Pos.eqb andb negb].
  pose proof (block_upto FMediaEnd body rb [] eq_refl eq_refl Hb Hc Hec (close_isend FMediaEnd rb eq_refl Hc)) as H2.
  rewrite H2. cbn [hd_error]. rewrite separate_end_last, Hec.
  destruct (bclose0_val _ Hc) as [Hv _]. rewrite Hv. reflexivity.
Qed.

(* the whole @media statement with a junk child: the children before and after it are dispatched as if it were absent *)
Lemma media_with_junk_lemma mqs lb g1 k junk g2 rb :
  PreBrace (mode_of FMQEnd None) mqs -> bclass_of lb = BOpen 0 -> is_eof lb = false -> tyis lb "STRING" = false ->
  Balanced (g1 ++ junk ++ g2) -> bclass_of rb = BClose 0 -> is_eof rb = false ->
  Statements cls_media g1 -> JunkStmt cls_media k junk ->
  mp_inner (media_split (mqs ++ lb :: (g1 ++ junk ++ g2) ++ [rb]))
  = Some (media_inner g1 ++ [IStmt k junk] ++ media_inner g2).
Proof.
  intros Hpre Ho Heo Hst Hb Hc Hec Hg Hj.
  rewrite (media_split_lemma _ _ _ _ Hpre Ho Heo Hst Hb Hc Hec). cbn [mp_inner].
  now rewrite (junk_statement_skipped_media_lemma _ _ _ _ Hg Hj).
Qed.

(* tokens whose VALUE merely contains bracket or end characters -- STRING ("a{b;}"), URI (url(x;})), HASH, ... --
   are atoms for the counters and are never end characters: only a one-character CHAR-like value is compared *)
Lemma opaque_token_atom t c1 c2 rest :
  val t = c1 :: c2 :: rest -> is_function t = false -> bclass_of t = BAtom.
Proof.
  unfold bclass_of. intros Hv Hf. rewrite Hv, Hf. destruct (is_ident t); [reflexivity|].
  destruct c1; destruct c2; try reflexivity; cbn; repeat (destruct p; try reflexivity); destruct rest; reflexivity.
Qed.

(* ---------------------------------------------------------------- concrete tokens, witnesses *)
Definition c_ (v : string) := T "CHAR" v.
Definition sp := T "S" " ".
Definition rule_a := [T "IDENT" "a"; c_ "{"; T "IDENT" "x"; c_ ":"; T "NUMBER" "1"; c_ "}"].
Definition rule_b := [T "IDENT" "b"; c_ "{"; T "IDENT" "y"; c_ ":"; T "NUMBER" "2"; c_ "}"].
Definition junk_fn := [T "FUNCTION" "f("; c_ ")"; sp; c_ "{"; c_ "}"].          (* f() {} *)
Definition junk_mix :=                                                         (* 3 (;) "s" [x] ! { y ; {} } *)
  [T "NUMBER" "3"; c_ "("; c_ ";"; c_ ")"; T "STRING" """s"""; c_ "["; T "IDENT" "x"; c_ "]"; c_ "!";
   c_ "{"; T "IDENT" "y"; c_ ";"; c_ "{"; c_ "}"; c_ "}"].

Ltac atom := apply TF_atom; [reflexivity|reflexivity|reflexivity|].
Ltac batom := apply Bal_atom; [reflexivity|reflexivity|].

Lemma rule_a_stmt : JunkStmt cls_sheet KRuleset rule_a.
Proof.
  exists (T "IDENT" "a"), (tl rule_a). repeat split.
  apply (SR_block _ [T "IDENT" "a"] (c_ "{") [T "IDENT" "x"; c_ ":"; T "NUMBER" "1"] (c_ "}") 0);
    try reflexivity.
  - atom. constructor.
  - batom. batom. batom. constructor.
Qed.

Lemma junk_fn_stmt : JunkStmt cls_sheet KRuleset junk_fn.
Proof.
  exists (T "FUNCTION" "f("), (tl junk_fn). repeat split.
  apply (SR_block _ [T "FUNCTION" "f("; c_ ")"; sp] (c_ "{") [] (c_ "}") 0); try reflexivity.
  - apply (TF_group _ (T "FUNCTION" "f(") [] (c_ ")") [sp] 2); try reflexivity.
    + constructor.
    + atom. constructor.
  - constructor.
Qed.

Lemma junk_mix_stmt : JunkStmt cls_sheet KRuleset junk_mix.
Proof.
  exists (T "NUMBER" "3"), (tl junk_mix). repeat split.
  apply (SR_block _ [T "NUMBER" "3"; c_ "("; c_ ";"; c_ ")"; T "STRING" """s"""; c_ "["; T "IDENT" "x"; c_ "]"; c_ "!"]
                  (c_ "{") [T "IDENT" "y"; c_ ";"; c_ "{"; c_ "}"] (c_ "}") 0); try reflexivity.
  - atom. apply (TF_group _ (c_ "(") [c_ ";"] (c_ ")") _ 2); try reflexivity.
    + batom. constructor.
    + atom. apply (TF_group _ (c_ "[") [T "IDENT" "x"] (c_ "]") _ 1); try reflexivity.
      * batom. constructor.
      * atom. constructor.
  - batom. batom. apply (Bal_group (c_ "{") [] (c_ "}") [] 0); try reflexivity; constructor.
Qed.

Lemma statements_rule_a : Statements cls_sheet (rule_a ++ [sp]).
Proof.
  apply Sts_stmt with (k := KRuleset); [exact rule_a_stmt|].
  apply Sts_skip; [reflexivity|constructor].
Qed.

(* the pinned tree: 'a{x:1} f() {} b{y:2}' -- the junk statement swallows b *)
Lemma junk_starting_with_function_refuted :
  exists g1 junk g2,
    Statements cls_sheet g1 /\ JunkStmt cls_sheet KRuleset junk /\
    skeleton_pinned (g1 ++ junk ++ g2) <> skeleton_pinned g1 ++ [IStmt KRuleset junk] ++ skeleton_pinned g2.
Proof.
  exists (rule_a ++ [sp]), junk_fn, (sp :: rule_b).
  split; [exact statements_rule_a|]. split; [exact junk_fn_stmt|].
  vm_compute. discriminate.
Qed.

(* declaration level: x:1; (y):2; z:3 *)
Definition decl_x := [T "IDENT" "x"; c_ ":"; T "NUMBER" "1"; c_ ";"].
Definition decl_z := [T "IDENT" "z"; c_ ":"; T "NUMBER" "3"].
Definition junk_paren := [c_ "("; T "IDENT" "y"; c_ ")"; c_ ":"; T "NUMBER" "2"; c_ ";"].   (* (y):2; *)
Definition junk_bang := [T "NUMBER" "3"; sp; c_ "!"; sp; T "IDENT" "y"; c_ ":"; T "NUMBER" "2"; c_ ";"]. (* 3 ! y:2; *)

Lemma decl_x_stmt : JunkStmt cls_decl KDeclIdent decl_x.
Proof.
  exists (T "IDENT" "x"), (tl decl_x). repeat split.
  apply (SR_end _ [T "IDENT" "x"; c_ ":"; T "NUMBER" "1"] (c_ ";")); try reflexivity; try discriminate.
  atom. atom. atom. constructor.
Qed.

Lemma junk_paren_stmt : JunkStmt cls_decl KDeclUnexpected junk_paren.
Proof.
  exists (c_ "("), (tl junk_paren). repeat split.
  apply (SR_end _ [c_ "("; T "IDENT" "y"; c_ ")"; c_ ":"; T "NUMBER" "2"] (c_ ";")); try reflexivity; try discriminate.
  apply (TF_group _ (c_ "(") [T "IDENT" "y"] (c_ ")") _ 2); try reflexivity.
  - batom. constructor.
  - atom. atom. constructor.
Qed.

Lemma junk_bang_stmt : JunkStmt cls_decl KDeclUnexpected junk_bang.
Proof.
  exists (T "NUMBER" "3"), (tl junk_bang). repeat split.
  apply (SR_end _ [T "NUMBER" "3"; sp; c_ "!"; sp; T "IDENT" "y"; c_ ":"; T "NUMBER" "2"] (c_ ";"));
    try reflexivity; try discriminate.
  atom. atom. atom. atom. atom. atom. atom. constructor.
Qed.

Lemma statements_decl_x : Statements cls_decl (decl_x ++ [sp]).
Proof.
  apply Sts_stmt with (k := KDeclIdent); [exact decl_x_stmt|].
  apply Sts_skip; [reflexivity|constructor].
Qed.

Lemma junk_decl_starting_with_paren_refuted :
  exists d1 junk d2,
    Statements cls_decl d1 /\ JunkStmt cls_decl KDeclUnexpected junk /\
    decl_block_pinned (d1 ++ junk ++ d2) <> decl_block_pinned d1 ++ [IStmt KDeclUnexpected junk] ++ decl_block_pinned d2.
Proof.
  exists (decl_x ++ [sp]), junk_paren, (sp :: decl_z).
  split; [exact statements_decl_x|]. split; [exact junk_paren_stmt|].
  vm_compute. discriminate.
Qed.

Lemma junk_decl_with_bang_refuted :
  exists d1 junk d2,
    Statements cls_decl d1 /\ JunkStmt cls_decl KDeclUnexpected junk /\
    decl_block_pinned (d1 ++ junk ++ d2) <> decl_block_pinned d1 ++ [IStmt KDeclUnexpected junk] ++ decl_block_pinned d2.
Proof.
  exists (decl_x ++ [sp]), junk_bang, (sp :: decl_z).
  split; [exact statements_decl_x|]. split; [exact junk_bang_stmt|].
  vm_compute. discriminate.
Qed.

(* non-vacuity: the repaired model on the same inputs *)
Lemma junk_statement_skipped_example :
  skeleton ((rule_a ++ [sp]) ++ junk_fn ++ sp :: rule_b)
  = [IStmt KRuleset rule_a; IStmt KRuleset junk_fn; IStmt KRuleset rule_b]
  /\ skeleton ((rule_a ++ [sp]) ++ junk_mix ++ sp :: rule_b)
  = [IStmt KRuleset rule_a; IStmt KRuleset junk_mix; IStmt KRuleset rule_b].
Proof. split; vm_compute; reflexivity. Qed.

Lemma junk_declaration_skipped_example :
  decl_block ((decl_x ++ [sp]) ++ junk_paren ++ sp :: decl_z)
  = [IStmt KDeclIdent decl_x; IStmt KDeclUnexpected junk_paren; IStmt KDeclIdent decl_z]
  /\ decl_block ((decl_x ++ [sp]) ++ junk_bang ++ sp :: decl_z)
  = [IStmt KDeclIdent decl_x; IStmt KDeclUnexpected junk_bang; IStmt KDeclIdent decl_z].
Proof. split; vm_compute; reflexivity. Qed.

(* ---------------------------------------------------------------- CSSUnknownRule *)
(* the handlers of CSSUnknownRule dispatch on token TYPE, the counters of _tokensupto2 on token
   VALUE; `usane` says the two views agree on a token (brackets are CHAR tokens, a FUNCTION opens
   a parenthesis: always true for tokenizer output) and that the token is neither EOF nor INVALID
   (an unterminated string: not balanced)                                                       *)
Definition usane (t : tok) : bool :=
  negb (tyis t "EOF") && negb (tyis t "INVALID") &&
  match bclass_of t with
  | BAtom => true
  | BOpen 2%nat => tyis t "CHAR" || tyis t "FUNCTION"
  | _ => tyis t "CHAR"
  end.

Definition opener_str (k : nat) : str :=
  match k with 0%nat => s "{" | 1%nat => s "[" | _ => s "(" end.

Ltac crush_eqs :=
  repeat match goal with
         | H : context [eqs ?a (s ?k)] |- _ =>
           is_var a; let E := fresh "E" in
           destruct (eqs a (s k)) eqn:E; [apply eqs_true in E; subst a; cbn in *|]; try discriminate
         | |- context [eqs ?a (s ?k)] =>
           is_var a; let E := fresh "E" in
           destruct (eqs a (s k)) eqn:E; [apply eqs_true in E; subst a; cbn in *|]; try discriminate
         end.

Definition mdD : mode := mode_of FDefault None.

Lemma u_atom t nest wf seq r :
  usane t = true -> bclass_of t = BAtom -> (nest <> [] \/ isendtok mdD t = false) ->
  unk_loop (mkU nest false wf seq) (t :: r) 0 = unk_loop (mkU nest false wf (UTok t :: seq)) r 0.
Proof.
  destruct t as [y rw v l cl]. unfold isendtok, usane, bclass_of, tyis, is_function, is_ident. cbn [unk_loop ty val].
  unfold tyis, u_char, u_plain, opening_of. cbn [ty val u_eof u_nest u_wf u_seq]. cbv zeta.
  intros Hs Hb Hn.
  destruct (eqs y (s "IDENT")) eqn:Y0.
  { apply eqs_true in Y0; subst y. reflexivity. }
  destruct (eqs v (s "{")) eqn:V1; [discriminate|].
  destruct (eqs v (s "}")) eqn:V2; [discriminate|].
  destruct (eqs v (s "[")) eqn:V3; [discriminate|].
  destruct (eqs v (s "]")) eqn:V4; [discriminate|].
  destruct (eqs v (s "(")) eqn:V5; [discriminate|].
  destruct (eqs y (s "FUNCTION")) eqn:Y1; [discriminate|].
  destruct (eqs v (s ")")) eqn:V6; [discriminate|].
  destruct (eqs y (s "EOF")) eqn:Y2; [discriminate|].
  destruct (eqs y (s "INVALID")) eqn:Y3; [discriminate|].
  cbn [orb andb negb].
  destruct (eqs y (s "CHAR")) eqn:Y5.
  - destruct Hn as [Hn|Hn].
    + destruct nest; [congruence|]. now rewrite andb_false_r.
    + destruct (eqs v (s ";")) eqn:V7; [|reflexivity].
      apply eqs_true in V7; subst v. vm_compute in Hn. discriminate Hn.
  - destruct (eqs y (s "COMMENT")) eqn:Y6; [now rewrite andb_true_r|reflexivity].
Qed.

Ltac fin Hs := first [reflexivity | (rewrite ?andb_false_r in Hs; discriminate) | (simpl in Hs; discriminate)].

Lemma u_open t k nest wf seq r :
  usane t = true -> bclass_of t = BOpen k ->
  unk_loop (mkU nest false wf seq) (t :: r) 0
  = unk_loop (mkU (opener_str k :: nest) false wf (UTok t :: seq)) r 0.
Proof.
  destruct t as [y rw v l cl]. unfold usane, bclass_of, tyis, is_function, is_ident. cbn [unk_loop ty val].
  unfold tyis, u_char, u_plain, opening_of. cbn [ty val u_eof u_nest u_wf u_seq]. cbv zeta.
  intros Hs Hb.
  destruct (eqs y (s "IDENT")) eqn:Y0; [discriminate|].
  destruct (eqs y (s "CHAR")) eqn:Y5; destruct (eqs y (s "FUNCTION")) eqn:Y1;
    try (apply eqs_true in Y5; subst y; discriminate Y1).
  all: destruct (eqs v (s "{")) eqn:V1;
    [apply eqs_true in V1; subst v; inversion Hb; subst k; cbn in Hs |- *; fin Hs|].
  all: destruct (eqs v (s "}")) eqn:V2; [discriminate|].
  all: destruct (eqs v (s "[")) eqn:V3;
    [apply eqs_true in V3; subst v; inversion Hb; subst k; cbn in Hs |- *; fin Hs|].
  all: destruct (eqs v (s "]")) eqn:V4; [discriminate|].
  all: destruct (eqs v (s "(")) eqn:V5;
    [apply eqs_true in V5; subst v; inversion Hb; subst k; cbn in Hs |- *; fin Hs|].
  all: cbn [orb] in Hb.
  all: try (destruct (eqs v (s ")")); discriminate).
  all: inversion Hb; subst k; cbn [opener_str]; cbn in Hs |- *; fin Hs.
Qed.

Lemma u_close t k nest wf seq r :
  usane t = true -> bclass_of t = BClose k ->
  unk_loop (mkU (opener_str k :: nest) false wf seq) (t :: r) 0
  = unk_loop (mkU nest (match k, nest with 0%nat, [] => true | _, _ => false end) wf (UTok t :: seq)) r 0.
Proof.
  destruct t as [y rw v l cl]. unfold usane, bclass_of, tyis, is_function, is_ident. cbn [unk_loop ty val].
  unfold tyis, u_char, u_plain, opening_of. cbn [ty val u_eof u_nest u_wf u_seq]. cbv zeta.
  intros Hs Hb.
  destruct (eqs y (s "IDENT")) eqn:Y0; [discriminate|].
  destruct (eqs y (s "CHAR")) eqn:Y5; destruct (eqs y (s "FUNCTION")) eqn:Y1;
    try (apply eqs_true in Y5; subst y; discriminate Y1).
  all: destruct (eqs v (s "{")) eqn:V1; [discriminate|].
  all: destruct (eqs v (s "}")) eqn:V2;
    [apply eqs_true in V2; subst v; inversion Hb; subst k; cbn in Hs |- *; destruct nest; fin Hs|].
  all: destruct (eqs v (s "[")) eqn:V3; [discriminate|].
  all: destruct (eqs v (s "]")) eqn:V4;
    [apply eqs_true in V4; subst v; inversion Hb; subst k; cbn in Hs |- *; destruct nest; fin Hs|].
  all: destruct (eqs v (s "(")) eqn:V5; [discriminate|].
  all: cbn [orb] in Hb; try discriminate.
  all: destruct (eqs v (s ")")) eqn:V6; [|discriminate].
  all: apply eqs_true in V6; subst v; inversion Hb; subst k; cbn in Hs |- *; destruct nest; fin Hs.
Qed.

Definition all_usane (x : list tok) : Prop := Forall (fun t => usane t = true) x.

Lemma bclose0_end t : bclass_of t = BClose 0 -> isendtok mdD t = true.
Proof.
  unfold bclass_of, isendtok, is_ident. destruct t as [y rw v l cl]; cbn [val ty]. cbv zeta.
  destruct (eqs y (s "IDENT")); [discriminate|].
  destruct (eqs v (s "{")); [discriminate|].
  destruct (eqs v (s "}")) eqn:E; [apply eqs_true in E; subst v; intros _; reflexivity|].
  destruct (eqs v (s "[")); [discriminate|]. destruct (eqs v (s "]")); [discriminate|].
  destruct (eqs v (s "(") || is_function (mkTok y rw v l cl)); [discriminate|].
  destruct (eqs v (s ")")); discriminate.
Qed.

Lemma rev_step (t : tok) x seq : rev (map UTok (t :: x)) ++ seq = rev (map UTok x) ++ UTok t :: seq.
Proof. cbn [map rev]. now rewrite <- app_assoc. Qed.

Lemma u_balanced b : Balanced b -> all_usane b -> forall nest wf seq rest, nest <> [] ->
  unk_loop (mkU nest false wf seq) (b ++ rest) 0 = unk_loop (mkU nest false wf (rev (map UTok b) ++ seq)) rest 0.
Proof.
  induction 1 as [|t x Ht He Hx IH|o b c x k Ho Hc Heo Hec Hb IHb Hx IH]; intros Hu nest wf seq rest Hn.
  - reflexivity.
  - inversion Hu as [|? ? Hut Hux]; subst. cbn [app].
    rewrite (u_atom _ _ _ _ _ Hut Ht (or_introl Hn)), (IH Hux _ _ _ _ Hn), rev_step. reflexivity.
  - inversion Hu as [|? ? Huo Hur]; subst. apply Forall_app in Hur as [Hub Hur].
    inversion Hur as [|? ? Huc Hux]; subst.
    cbn [app]. rewrite (u_open _ _ _ _ _ _ Huo Ho). rewrite <- app_assoc. cbn [app].
    rewrite (IHb Hub); [|discriminate].
    rewrite (u_close _ _ _ _ _ _ Huc Hc).
    replace (match k with 0%nat => match nest with [] => true | _ :: _ => false end | S _ => false end) with false
      by (destruct k; destruct nest; congruence).
    rewrite (IH Hux _ _ _ _ Hn).
    f_equal. f_equal. cbn [map rev]. rewrite map_app, rev_app_distr. cbn [map rev].
    rewrite <- !app_assoc. reflexivity.
Qed.

Lemma u_topfree x : TopFree mdD x -> all_usane x -> forall wf seq rest,
  unk_loop (mkU [] false wf seq) (x ++ rest) 0 = unk_loop (mkU [] false wf (rev (map UTok x) ++ seq)) rest 0.
Proof.
  induction 1 as [|t x Ht He Hn Hx IH|o b c x k Ho Hc Heo Hec Hb Hn Hx IH]; intros Hu wf seq rest.
  - reflexivity.
  - inversion Hu as [|? ? Hut Hux]; subst. cbn [app].
    rewrite (u_atom _ _ _ _ _ Hut Ht (or_intror Hn)), (IH Hux), rev_step. reflexivity.
  - inversion Hu as [|? ? Huo Hur]; subst. apply Forall_app in Hur as [Hub Hur].
    inversion Hur as [|? ? Huc Hux]; subst.
    cbn [app]. rewrite (u_open _ _ _ _ _ _ Huo Ho). rewrite <- app_assoc. cbn [app].
    rewrite (u_balanced b Hb Hub); [|discriminate].
    rewrite (u_close _ _ _ _ _ _ Huc Hc).
    assert (k <> 0%nat) as Hk by (intros ->; rewrite (bclose0_end _ Hc) in Hn; discriminate).
    replace (match k with 0%nat => true | S _ => false end) with false by (destruct k; congruence).
    rewrite (IH Hux).
    f_equal. f_equal. cbn [map rev]. rewrite map_app, rev_app_distr. cbn [map rev].
    rewrite <- !app_assoc. reflexivity.
Qed.

(* "An unknown but well-nested at-rule is not junk: it is preserved as an unknown rule with its
   tokens intact" -- both shapes:  @kw pre ;   and   @kw pre { b }                            *)
Lemma unknown_atrule_preserved_semicolon kw pre semi :
  tyis kw "ATKEYWORD" = true -> TopFree mdD pre -> all_usane pre ->
  tyis semi "CHAR" = true -> val semi = s ";" ->
  unknown_rule (kw :: pre ++ [semi]) = Some (kw, map UTok (pre ++ [semi])).
Proof.
  intros Hkw Hpre Hu Hty Hv. unfold unknown_rule. rewrite Hkw. cbn [negb].
  rewrite (u_topfree pre Hpre Hu). cbn [unk_loop]. rewrite Hty.
  unfold u_char. cbn [u_eof u_nest u_wf u_seq]. rewrite Hv. cbn.
  rewrite app_nil_r, map_app, rev_involutive. reflexivity.
Qed.

Lemma unknown_atrule_preserved_block kw pre o b c :
  tyis kw "ATKEYWORD" = true -> TopFree mdD pre -> all_usane pre ->
  bclass_of o = BOpen 0 -> usane o = true -> Balanced b -> all_usane b ->
  bclass_of c = BClose 0 -> usane c = true ->
  unknown_rule (kw :: pre ++ o :: b ++ [c]) = Some (kw, map UTok (pre ++ o :: b ++ [c])).
Proof.
  intros Hkw Hpre Hu Ho Huo Hb Hub Hc Huc. unfold unknown_rule. rewrite Hkw. cbn [negb].
  rewrite (u_topfree pre Hpre Hu). cbn [app].
  rewrite (u_open _ _ _ _ _ _ Huo Ho), (u_balanced b Hb Hub); [|discriminate].
  rewrite (u_close _ _ _ _ _ _ Huc Hc). cbn [unk_loop u_wf u_eof u_nest u_seq andb].
  f_equal. f_equal. cbn [rev]. rewrite !app_nil_r.
  rewrite !rev_app_distr, !rev_involutive. cbn [rev app].
  rewrite !map_app. cbn [map]. rewrite map_app. cbn [map].
  rewrite <- !app_assoc, ?rev_involutive. reflexivity.
Qed.

(* non-vacuity: '@unk (f) [g] {h {i}}' and (since the fix) '@unk x @y {}' are preserved *)
Definition unk_good := [T "ATKEYWORD" "@unk"; sp; c_ "("; T "IDENT" "f"; c_ ")"; c_ "["; T "IDENT" "g"; c_ "]";
                        c_ "{"; T "IDENT" "h"; c_ "{"; T "IDENT" "i"; c_ "}"; c_ "}"].
Definition unk_nested_at := [T "ATKEYWORD" "@unk"; sp; T "IDENT" "x"; sp; T "ATKEYWORD" "@y"; sp; c_ "{"; c_ "}"].

Lemma unknown_rule_examples :
  unknown_rule unk_good = Some (T "ATKEYWORD" "@unk", map UTok (tl unk_good))
  /\ JunkStmt cls_sheet KUnknown unk_nested_at
  /\ unknown_rule unk_nested_at = Some (T "ATKEYWORD" "@unk", map UTok (tl unk_nested_at)).
Proof.
  split; [vm_compute; reflexivity|]. split; [|vm_compute; reflexivity].
  exists (T "ATKEYWORD" "@unk"), (tl unk_nested_at). repeat split.
  apply (SR_block _ [T "ATKEYWORD" "@unk"; sp; T "IDENT" "x"; sp; T "ATKEYWORD" "@y"; sp] (c_ "{") [] (c_ "}") 0);
    try reflexivity.
  - atom. atom. atom. atom. atom. atom. constructor.
  - constructor.
Qed.

(* ---------------------------------------------------------------- examples for the order state and the splits *)
(* '@import "a"; 3{} @import "b";' with a well-formedness oracle that rejects statements starting with a NUMBER *)
Definition wf_ex (k : kind) (run : list tok) : bool :=
  match run with t :: _ => negb (tyis t "NUMBER" || is_function t) | [] => false end.
Definition imp (u : string) := [T "IMPORT_SYM" "@import"; sp; T "STRING" u; c_ ";"].
Definition junk_num := [T "NUMBER" "3"; c_ "{"; c_ "}"].

Lemma order_example :
  sheet_ord wf_ex ((imp """a""" ++ [sp]) ++ junk_num ++ sp :: imp """b""") 0 0
  = ([(IStmt KImport (imp """a"""), true); (IStmt KRuleset junk_num, false); (IStmt KImport (imp """b"""), true)], 1%nat)
  /\ sheet_ord wf_ex ((imp """a""" ++ [sp]) ++ junk_fn ++ sp :: imp """b""") 0 0
  = ([(IStmt KImport (imp """a"""), true); (IStmt KRuleset junk_fn, false); (IStmt KImport (imp """b"""), true)], 1%nat).
Proof. split; vm_compute; reflexivity. Qed.

(* '@media' screen and (min-width:1px) { a{x:"a{b;}" url(x;})} f() {} b{y:2} }  -- tokens after the MEDIA_SYM *)
Definition mq_ex := [sp; T "IDENT" "screen"; sp; T "IDENT" "and"; sp; c_ "("; T "IDENT" "min-width"; c_ ":";
                     T "DIMENSION" "1px"; c_ ")"; sp].
Definition rule_str := [T "IDENT" "a"; c_ "{"; T "IDENT" "x"; c_ ":"; T "STRING" """a{b;}"""; sp; T "URI" "url(x;})"; c_ "}"].

Lemma mq_ex_prebrace : PreBrace (mode_of FMQEnd None) mq_ex.
Proof.
  unfold mq_ex. repeat (apply PB_atom; [reflexivity|reflexivity|reflexivity|]).
  apply (PB_group _ (c_ "(") [T "IDENT" "min-width"; c_ ":"; T "DIMENSION" "1px"] (c_ ")") [sp] 1); try reflexivity.
  - batom. batom. batom. constructor.
  - apply PB_atom; [reflexivity|reflexivity|reflexivity|constructor].
Qed.

Lemma rule_str_stmt : JunkStmt cls_media KRuleset rule_str.
Proof.
  exists (T "IDENT" "a"), (tl rule_str). repeat split.
  apply (SR_block _ [T "IDENT" "a"] (c_ "{") [T "IDENT" "x"; c_ ":"; T "STRING" """a{b;}"""; sp; T "URI" "url(x;})"] (c_ "}") 0);
    try reflexivity.
  - atom. constructor.
  - batom. batom. batom. batom. batom. constructor.
Qed.

Lemma media_split_example :
  mp_inner (media_split (mq_ex ++ c_ "{" :: ((rule_str ++ [sp]) ++ junk_fn ++ sp :: rule_b) ++ [c_ "}"]))
  = Some [IStmt KRuleset rule_str; IStmt KRuleset junk_fn; IStmt KRuleset rule_b]
  /\ bclass_of (T "STRING" """a{b;}""") = BAtom /\ bclass_of (T "URI" "url(x;})") = BAtom.
Proof. repeat split; vm_compute; reflexivity. Qed.

(* ---------------------------------------------------------------- what the generated tables must say *)
(* CSS forward-compatible parsing, as the property states it: a statement ends at a top-level ';' or at the '}' of
   a top-level block, a declaration at a top-level ';' only; the handler receives its first token as start token;
   no token TYPE ends a statement.  With `mode_of` / `kmode` read from the generated tables this is a statement
   about the current source: a handler that passes another flag, or a flag whose `ends` changed, breaks it.    *)
Lemma delimiters_spec_lemma :
  forallb (fun k => eqs (ends (kmd k)) (s ";}") && match endtypes (kmd k) with [] => true | _ => false end
                    && snd (kmode k)) (KDeclAt :: sheet_kinds) = true
  /\ forallb (fun k => eqs (ends (kmd k)) (s ";") && match endtypes (kmd k) with [] => true | _ => false end
                       && snd (kmode k)) [KDeclIdent; KDeclUnexpected] = true.
Proof. split; reflexivity. Qed.
