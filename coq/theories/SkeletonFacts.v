(* SkeletonFacts.v -- proofs about the statement skeleton (Skeleton.v) *)
From CssV Require Import Base Tokenizer Upto UptoFacts Skeleton.

(* the mode in which handler k delimits its statement *)
Definition kmd (k : kind) : mode := mode_of (fst (kmode k)) None.

(* a complete statement for dispatch `cls`: its first token selects handler k, and the tokens
   are one complete run in k's mode                                                          *)
Definition JunkStmt (cls : tok -> tclass) (k : kind) (j : list tok) : Prop :=
  exists t r, j = t :: r /\ cls t = CStmt k /\ StmtRun (kmd k) j.

(* a sequence of complete statements, comments and skipped tokens *)
Inductive Statements (cls : tok -> tclass) : list tok -> Prop :=
| Sts_nil : Statements cls []
| Sts_skip t g : cls t = CSkip -> Statements cls g -> Statements cls (t :: g)
| Sts_comment t g : cls t = CComment -> Statements cls g -> Statements cls (t :: g)
| Sts_stmt k j g : JunkStmt cls k j -> Statements cls g -> Statements cls (j ++ g).

Lemma skipn_length_app {A} (a b : list A) : skipn (length a) (a ++ b) = b.
Proof. induction a; simpl; auto. Qed.

Lemma disp_skip up km cls ts : forall n,
  disp_gen up km cls ts n = disp_gen up km cls (skipn n ts) 0.
Proof.
  induction ts as [|t r IH]; intros n.
  - destruct n; reflexivity.
  - destruct n as [|n]; [reflexivity|]. simpl. apply IH.
Qed.

Lemma kmode_facts k : snd (kmode k) = true /\ mq (kmd k) = false /\ c0 (kmd k) = (0, 0, 0)%Z.
Proof. destruct k; repeat split; reflexivity. Qed.

Lemma pull_stmtrun k t r rest :
  StmtRun (kmd k) (t :: r) -> pull upto kmode k t (r ++ rest) = (t :: r, rest).
Proof.
  intros H. destruct (kmode_facts k) as (Hws & Hmq & Hc0).
  unfold pull. destruct (kmode k) as [fl ws] eqn:Ek. simpl in Hws; subst ws.
  unfold upto. assert (mode_of fl (Some t) = kmd k) as ->.
  { unfold kmd. rewrite Ek. simpl. destruct k; simpl in Ek; inversion Ek; reflexivity. }
  now apply stmtrun_upto.
Qed.

(* the dispatch loop, having pulled a complete statement, resumes exactly behind it *)
Lemma disp_stmt cls k t r rest :
  cls t = CStmt k -> StmtRun (kmd k) (t :: r) ->
  disp cls ((t :: r) ++ rest) 0 = IStmt k (t :: r) :: disp cls rest 0.
Proof.
  intros Hc Hj. unfold disp. cbn [app disp_gen]. rewrite Hc, (pull_stmtrun _ _ _ _ Hj).
  f_equal. rewrite disp_skip. cbn [length]. rewrite Nat.sub_succ, Nat.sub_0_r, skipn_length_app. reflexivity.
Qed.

Lemma disp_app cls g1 g2 :
  Statements cls g1 -> disp cls (g1 ++ g2) 0 = disp cls g1 0 ++ disp cls g2 0.
Proof.
  induction 1 as [|t g Hc Hg IH|t g Hc Hg IH|k j g (t & r & -> & Hc & Hj) Hg IH].
  - reflexivity.
  - unfold disp in *. cbn [app disp_gen]. rewrite Hc. exact IH.
  - unfold disp in *. cbn [app disp_gen]. rewrite Hc. cbn [app]. now rewrite IH.
  - rewrite <- app_assoc, (disp_stmt _ _ _ _ _ Hc Hj), (disp_stmt _ _ _ _ _ Hc Hj), IH. reflexivity.
Qed.

Lemma disp_single cls k j : JunkStmt cls k j -> disp cls j 0 = [IStmt k j].
Proof.
  intros (t & r & -> & Hc & Hj). pose proof (disp_stmt cls k t r [] Hc Hj) as H.
  rewrite app_nil_r in H. exact H.
Qed.

(* the general form of the C04 theorem: for every dispatch table *)
Lemma junk_skipped_gen cls g1 k junk g2 :
  Statements cls g1 -> JunkStmt cls k junk ->
  disp cls (g1 ++ junk ++ g2) 0 = disp cls g1 0 ++ [IStmt k junk] ++ disp cls g2 0.
Proof.
  intros Hg Hj. rewrite (disp_app _ _ _ Hg). f_equal.
  rewrite (disp_app cls junk g2).
  - now rewrite (disp_single _ _ _ Hj).
  - rewrite <- (app_nil_r junk). apply Sts_stmt with (k := k); [exact Hj|constructor].
Qed.

Lemma junk_statement_skipped_lemma g1 k junk g2 :
  Statements cls_sheet g1 -> JunkStmt cls_sheet k junk ->
  skeleton (g1 ++ junk ++ g2) = skeleton g1 ++ [IStmt k junk] ++ skeleton g2.
Proof. apply junk_skipped_gen. Qed.

Lemma junk_statement_skipped_media_lemma g1 k junk g2 :
  Statements cls_media g1 -> JunkStmt cls_media k junk ->
  media_inner (g1 ++ junk ++ g2) = media_inner g1 ++ [IStmt k junk] ++ media_inner g2.
Proof. apply junk_skipped_gen. Qed.

Lemma junk_declaration_skipped_lemma d1 k junk d2 :
  Statements cls_decl d1 -> JunkStmt cls_decl k junk ->
  decl_block (d1 ++ junk ++ d2) = decl_block d1 ++ [IStmt k junk] ++ decl_block d2.
Proof. apply junk_skipped_gen. Qed.

(* ---------------------------------------------------------------- concrete tokens, witnesses *)
Definition c_ (v : string) := T "CHAR" v.
Definition sp := T "S" " ".
Definition rule_a := [T "IDENT" "a"; c_ "{"; T "IDENT" "x"; c_ ":"; T "NUMBER" "1"; c_ "}"].
Definition rule_b := [T "IDENT" "b"; c_ "{"; T "IDENT" "y"; c_ ":"; T "NUMBER" "2"; c_ "}"].
Definition junk_fn := [T "FUNCTION" "f("; c_ ")"; sp; c_ "{"; c_ "}"].          (* f() {} *)
Definition junk_mix :=                                                         (* 3 (;) "s" [x] ! { y ; {} } *)
  [T "NUMBER" "3"; c_ "("; c_ ";"; c_ ")"; T "STRING" """s"""; c_ "["; T "IDENT" "x"; c_ "]"; c_ "!";
   c_ "{"; T "IDENT" "y"; c_ ";"; c_ "{"; c_ "}"; c_ "}"].

Ltac atom := apply TF_atom; [reflexivity|reflexivity|reflexivity|].
Ltac batom := apply Bal_atom; [reflexivity|reflexivity|].

Lemma rule_a_stmt : JunkStmt cls_sheet KRuleset rule_a.
Proof.
  exists (T "IDENT" "a"), (tl rule_a). repeat split.
  apply (SR_block _ [T "IDENT" "a"] (c_ "{") [T "IDENT" "x"; c_ ":"; T "NUMBER" "1"] (c_ "}") 0);
    try reflexivity.
  - atom. constructor.
  - batom. batom. batom. constructor.
Qed.

Lemma junk_fn_stmt : JunkStmt cls_sheet KRuleset junk_fn.
Proof.
  exists (T "FUNCTION" "f("), (tl junk_fn). repeat split.
  apply (SR_block _ [T "FUNCTION" "f("; c_ ")"; sp] (c_ "{") [] (c_ "}") 0); try reflexivity.
  - apply (TF_group _ (T "FUNCTION" "f(") [] (c_ ")") [sp] 2); try reflexivity.
    + constructor.
    + atom. constructor.
  - constructor.
Qed.

Lemma junk_mix_stmt : JunkStmt cls_sheet KRuleset junk_mix.
Proof.
  exists (T "NUMBER" "3"), (tl junk_mix). repeat split.
  apply (SR_block _ [T "NUMBER" "3"; c_ "("; c_ ";"; c_ ")"; T "STRING" """s"""; c_ "["; T "IDENT" "x"; c_ "]"; c_ "!"]
                  (c_ "{") [T "IDENT" "y"; c_ ";"; c_ "{"; c_ "}"] (c_ "}") 0); try reflexivity.
  - atom. apply (TF_group _ (c_ "(") [c_ ";"] (c_ ")") _ 2); try reflexivity.
    + batom. constructor.
    + atom. apply (TF_group _ (c_ "[") [T "IDENT" "x"] (c_ "]") _ 1); try reflexivity.
      * batom. constructor.
      * atom. constructor.
  - batom. batom. apply (Bal_group (c_ "{") [] (c_ "}") [] 0); try reflexivity; constructor.
Qed.

Lemma statements_rule_a : Statements cls_sheet (rule_a ++ [sp]).
Proof.
  apply Sts_stmt with (k := KRuleset); [exact rule_a_stmt|].
  apply Sts_skip; [reflexivity|constructor].
Qed.

(* the pinned tree: 'a{x:1} f() {} b{y:2}' -- the junk statement swallows b *)
Lemma junk_starting_with_function_refuted :
  exists g1 junk g2,
    Statements cls_sheet g1 /\ JunkStmt cls_sheet KRuleset junk /\
    skeleton_pinned (g1 ++ junk ++ g2) <> skeleton_pinned g1 ++ [IStmt KRuleset junk] ++ skeleton_pinned g2.
Proof.
  exists (rule_a ++ [sp]), junk_fn, (sp :: rule_b).
  split; [exact statements_rule_a|]. split; [exact junk_fn_stmt|].
  vm_compute. discriminate.
Qed.

(* declaration level: x:1; (y):2; z:3 *)
Definition decl_x := [T "IDENT" "x"; c_ ":"; T "NUMBER" "1"; c_ ";"].
Definition decl_z := [T "IDENT" "z"; c_ ":"; T "NUMBER" "3"].
Definition junk_paren := [c_ "("; T "IDENT" "y"; c_ ")"; c_ ":"; T "NUMBER" "2"; c_ ";"].   (* (y):2; *)
Definition junk_bang := [T "NUMBER" "3"; sp; c_ "!"; sp; T "IDENT" "y"; c_ ":"; T "NUMBER" "2"; c_ ";"]. (* 3 ! y:2; *)

Lemma decl_x_stmt : JunkStmt cls_decl KDeclIdent decl_x.
Proof.
  exists (T "IDENT" "x"), (tl decl_x). repeat split.
  apply (SR_end _ [T "IDENT" "x"; c_ ":"; T "NUMBER" "1"] (c_ ";")); try reflexivity; try discriminate.
  atom. atom. atom. constructor.
Qed.

Lemma junk_paren_stmt : JunkStmt cls_decl KDeclUnexpected junk_paren.
Proof.
  exists (c_ "("), (tl junk_paren). repeat split.
  apply (SR_end _ [c_ "("; T "IDENT" "y"; c_ ")"; c_ ":"; T "NUMBER" "2"] (c_ ";")); try reflexivity; try discriminate.
  apply (TF_group _ (c_ "(") [T "IDENT" "y"] (c_ ")") _ 2); try reflexivity.
  - batom. constructor.
  - atom. atom. constructor.
Qed.

Lemma junk_bang_stmt : JunkStmt cls_decl KDeclUnexpected junk_bang.
Proof.
  exists (T "NUMBER" "3"), (tl junk_bang). repeat split.
  apply (SR_end _ [T "NUMBER" "3"; sp; c_ "!"; sp; T "IDENT" "y"; c_ ":"; T "NUMBER" "2"] (c_ ";"));
    try reflexivity; try discriminate.
  atom. atom. atom. atom. atom. atom. atom. constructor.
Qed.

Lemma statements_decl_x : Statements cls_decl (decl_x ++ [sp]).
Proof.
  apply Sts_stmt with (k := KDeclIdent); [exact decl_x_stmt|].
  apply Sts_skip; [reflexivity|constructor].
Qed.

Lemma junk_decl_starting_with_paren_refuted :
  exists d1 junk d2,
    Statements cls_decl d1 /\ JunkStmt cls_decl KDeclUnexpected junk /\
    decl_block_pinned (d1 ++ junk ++ d2) <> decl_block_pinned d1 ++ [IStmt KDeclUnexpected junk] ++ decl_block_pinned d2.
Proof.
  exists (decl_x ++ [sp]), junk_paren, (sp :: decl_z).
  split; [exact statements_decl_x|]. split; [exact junk_paren_stmt|].
  vm_compute. discriminate.
Qed.

Lemma junk_decl_with_bang_refuted :
  exists d1 junk d2,
    Statements cls_decl d1 /\ JunkStmt cls_decl KDeclUnexpected junk /\
    decl_block_pinned (d1 ++ junk ++ d2) <> decl_block_pinned d1 ++ [IStmt KDeclUnexpected junk] ++ decl_block_pinned d2.
Proof.
  exists (decl_x ++ [sp]), junk_bang, (sp :: decl_z).
  split; [exact statements_decl_x|]. split; [exact junk_bang_stmt|].
  vm_compute. discriminate.
Qed.

(* non-vacuity: the repaired model on the same inputs *)
Lemma junk_statement_skipped_example :
  skeleton ((rule_a ++ [sp]) ++ junk_fn ++ sp :: rule_b)
  = [IStmt KRuleset rule_a; IStmt KRuleset junk_fn; IStmt KRuleset rule_b]
  /\ skeleton ((rule_a ++ [sp]) ++ junk_mix ++ sp :: rule_b)
  = [IStmt KRuleset rule_a; IStmt KRuleset junk_mix; IStmt KRuleset rule_b].
Proof. split; vm_compute; reflexivity. Qed.

Lemma junk_declaration_skipped_example :
  decl_block ((decl_x ++ [sp]) ++ junk_paren ++ sp :: decl_z)
  = [IStmt KDeclIdent decl_x; IStmt KDeclUnexpected junk_paren; IStmt KDeclIdent decl_z]
  /\ decl_block ((decl_x ++ [sp]) ++ junk_bang ++ sp :: decl_z)
  = [IStmt KDeclIdent decl_x; IStmt KDeclUnexpected junk_bang; IStmt KDeclIdent decl_z].
Proof. split; vm_compute; reflexivity. Qed.

(* ---------------------------------------------------------------- CSSUnknownRule *)
(* the handlers of CSSUnknownRule dispatch on token TYPE, the counters of _tokensupto2 on token
   VALUE; `usane` says the two views agree on a token (brackets are CHAR tokens, a FUNCTION opens
   a parenthesis: always true for tokenizer output) and that the token is neither EOF nor INVALID
   (an unterminated string: not balanced)                                                       *)
Definition usane (t : tok) : bool :=
  negb (tyis t "EOF") && negb (tyis t "INVALID") &&
  match bclass_of t with
  | BAtom => true
  | BOpen 2%nat => tyis t "CHAR" || tyis t "FUNCTION"
  | _ => tyis t "CHAR"
  end.

Definition opener_str (k : nat) : str :=
  match k with 0%nat => s "{" | 1%nat => s "[" | _ => s "(" end.

Ltac crush_eqs :=
  repeat match goal with
         | H : context [eqs ?a (s ?k)] |- _ =>
           is_var a; let E := fresh "E" in
           destruct (eqs a (s k)) eqn:E; [apply eqs_true in E; subst a; cbn in *|]; try discriminate
         | |- context [eqs ?a (s ?k)] =>
           is_var a; let E := fresh "E" in
           destruct (eqs a (s k)) eqn:E; [apply eqs_true in E; subst a; cbn in *|]; try discriminate
         end.

Definition mdD : mode := mode_of FDefault None.

Lemma u_atom t nest wf seq r :
  usane t = true -> bclass_of t = BAtom -> (nest <> [] \/ isendtok mdD t = false) ->
  unk_loop (mkU nest false wf seq) (t :: r) 0 = unk_loop (mkU nest false wf (UTok t :: seq)) r 0.
Proof.
  destruct t as [y rw v l cl]. unfold isendtok, usane, bclass_of, tyis, is_function, is_ident. cbn [unk_loop ty val].
  unfold tyis, u_char, u_plain, opening_of. cbn [ty val u_eof u_nest u_wf u_seq]. cbv zeta.
  intros Hs Hb Hn.
  destruct (eqs y (s "IDENT")) eqn:Y0.
  { apply eqs_true in Y0; subst y. reflexivity. }
  destruct (eqs v (s "{")) eqn:V1; [discriminate|].
  destruct (eqs v (s "}")) eqn:V2; [discriminate|].
  destruct (eqs v (s "[")) eqn:V3; [discriminate|].
  destruct (eqs v (s "]")) eqn:V4; [discriminate|].
  destruct (eqs v (s "(")) eqn:V5; [discriminate|].
  destruct (eqs y (s "FUNCTION")) eqn:Y1; [discriminate|].
  destruct (eqs v (s ")")) eqn:V6; [discriminate|].
  destruct (eqs y (s "EOF")) eqn:Y2; [discriminate|].
  destruct (eqs y (s "INVALID")) eqn:Y3; [discriminate|].
  cbn [orb andb negb].
  destruct (eqs y (s "CHAR")) eqn:Y5.
  - destruct Hn as [Hn|Hn].
    + destruct nest; [congruence|]. now rewrite andb_false_r.
    + destruct (eqs v (s ";")) eqn:V7; [|reflexivity].
      apply eqs_true in V7; subst v. vm_compute in Hn. discriminate Hn.
  - destruct (eqs y (s "COMMENT")) eqn:Y6; [now rewrite andb_true_r|reflexivity].
Qed.

Ltac fin Hs := first [reflexivity | (rewrite ?andb_false_r in Hs; discriminate) | (simpl in Hs; discriminate)].

Lemma u_open t k nest wf seq r :
  usane t = true -> bclass_of t = BOpen k ->
  unk_loop (mkU nest false wf seq) (t :: r) 0
  = unk_loop (mkU (opener_str k :: nest) false wf (UTok t :: seq)) r 0.
Proof.
  destruct t as [y rw v l cl]. unfold usane, bclass_of, tyis, is_function, is_ident. cbn [unk_loop ty val].
  unfold tyis, u_char, u_plain, opening_of. cbn [ty val u_eof u_nest u_wf u_seq]. cbv zeta.
  intros Hs Hb.
  destruct (eqs y (s "IDENT")) eqn:Y0; [discriminate|].
  destruct (eqs y (s "CHAR")) eqn:Y5; destruct (eqs y (s "FUNCTION")) eqn:Y1;
    try (apply eqs_true in Y5; subst y; discriminate Y1).
  all: destruct (eqs v (s "{")) eqn:V1;
    [apply eqs_true in V1; subst v; inversion Hb; subst k; cbn in Hs |- *; fin Hs|].
  all: destruct (eqs v (s "}")) eqn:V2; [discriminate|].
  all: destruct (eqs v (s "[")) eqn:V3;
    [apply eqs_true in V3; subst v; inversion Hb; subst k; cbn in Hs |- *; fin Hs|].
  all: destruct (eqs v (s "]")) eqn:V4; [discriminate|].
  all: destruct (eqs v (s "(")) eqn:V5;
    [apply eqs_true in V5; subst v; inversion Hb; subst k; cbn in Hs |- *; fin Hs|].
  all: cbn [orb] in Hb.
  all: try (destruct (eqs v (s ")")); discriminate).
  all: inversion Hb; subst k; cbn [opener_str]; cbn in Hs |- *; fin Hs.
Qed.

Lemma u_close t k nest wf seq r :
  usane t = true -> bclass_of t = BClose k ->
  unk_loop (mkU (opener_str k :: nest) false wf seq) (t :: r) 0
  = unk_loop (mkU nest (match k, nest with 0%nat, [] => true | _, _ => false end) wf (UTok t :: seq)) r 0.
Proof.
  destruct t as [y rw v l cl]. unfold usane, bclass_of, tyis, is_function, is_ident. cbn [unk_loop ty val].
  unfold tyis, u_char, u_plain, opening_of. cbn [ty val u_eof u_nest u_wf u_seq]. cbv zeta.
  intros Hs Hb.
  destruct (eqs y (s "IDENT")) eqn:Y0; [discriminate|].
  destruct (eqs y (s "CHAR")) eqn:Y5; destruct (eqs y (s "FUNCTION")) eqn:Y1;
    try (apply eqs_true in Y5; subst y; discriminate Y1).
  all: destruct (eqs v (s "{")) eqn:V1; [discriminate|].
  all: destruct (eqs v (s "}")) eqn:V2;
    [apply eqs_true in V2; subst v; inversion Hb; subst k; cbn in Hs |- *; destruct nest; fin Hs|].
  all: destruct (eqs v (s "[")) eqn:V3; [discriminate|].
  all: destruct (eqs v (s "]")) eqn:V4;
    [apply eqs_true in V4; subst v; inversion Hb; subst k; cbn in Hs |- *; destruct nest; fin Hs|].
  all: destruct (eqs v (s "(")) eqn:V5; [discriminate|].
  all: cbn [orb] in Hb; try discriminate.
  all: destruct (eqs v (s ")")) eqn:V6; [|discriminate].
  all: apply eqs_true in V6; subst v; inversion Hb; subst k; cbn in Hs |- *; destruct nest; fin Hs.
Qed.

Definition all_usane (x : list tok) : Prop := Forall (fun t => usane t = true) x.

Lemma bclose0_end t : bclass_of t = BClose 0 -> isendtok mdD t = true.
Proof.
  unfold bclass_of, isendtok, is_ident. destruct t as [y rw v l cl]; cbn [val ty]. cbv zeta.
  destruct (eqs y (s "IDENT")); [discriminate|].
  destruct (eqs v (s "{")); [discriminate|].
  destruct (eqs v (s "}")) eqn:E; [apply eqs_true in E; subst v; intros _; reflexivity|].
  destruct (eqs v (s "[")); [discriminate|]. destruct (eqs v (s "]")); [discriminate|].
  destruct (eqs v (s "(") || is_function (mkTok y rw v l cl)); [discriminate|].
  destruct (eqs v (s ")")); discriminate.
Qed.

Lemma rev_step (t : tok) x seq : rev (map UTok (t :: x)) ++ seq = rev (map UTok x) ++ UTok t :: seq.
Proof. cbn [map rev]. now rewrite <- app_assoc. Qed.

Lemma u_balanced b : Balanced b -> all_usane b -> forall nest wf seq rest, nest <> [] ->
  unk_loop (mkU nest false wf seq) (b ++ rest) 0 = unk_loop (mkU nest false wf (rev (map UTok b) ++ seq)) rest 0.
Proof.
  induction 1 as [|t x Ht He Hx IH|o b c x k Ho Hc Heo Hec Hb IHb Hx IH]; intros Hu nest wf seq rest Hn.
  - reflexivity.
  - inversion Hu as [|? ? Hut Hux]; subst. cbn [app].
    rewrite (u_atom _ _ _ _ _ Hut Ht (or_introl Hn)), (IH Hux _ _ _ _ Hn), rev_step. reflexivity.
  - inversion Hu as [|? ? Huo Hur]; subst. apply Forall_app in Hur as [Hub Hur].
    inversion Hur as [|? ? Huc Hux]; subst.
    cbn [app]. rewrite (u_open _ _ _ _ _ _ Huo Ho). rewrite <- app_assoc. cbn [app].
    rewrite (IHb Hub); [|discriminate].
    rewrite (u_close _ _ _ _ _ _ Huc Hc).
    replace (match k with 0%nat => match nest with [] => true | _ :: _ => false end | S _ => false end) with false
      by (destruct k; destruct nest; congruence).
    rewrite (IH Hux _ _ _ _ Hn).
    f_equal. f_equal. cbn [map rev]. rewrite map_app, rev_app_distr. cbn [map rev].
    rewrite <- !app_assoc. reflexivity.
Qed.

Lemma u_topfree x : TopFree mdD x -> all_usane x -> forall wf seq rest,
  unk_loop (mkU [] false wf seq) (x ++ rest) 0 = unk_loop (mkU [] false wf (rev (map UTok x) ++ seq)) rest 0.
Proof.
  induction 1 as [|t x Ht He Hn Hx IH|o b c x k Ho Hc Heo Hec Hb Hn Hx IH]; intros Hu wf seq rest.
  - reflexivity.
  - inversion Hu as [|? ? Hut Hux]; subst. cbn [app].
    rewrite (u_atom _ _ _ _ _ Hut Ht (or_intror Hn)), (IH Hux), rev_step. reflexivity.
  - inversion Hu as [|? ? Huo Hur]; subst. apply Forall_app in Hur as [Hub Hur].
    inversion Hur as [|? ? Huc Hux]; subst.
    cbn [app]. rewrite (u_open _ _ _ _ _ _ Huo Ho). rewrite <- app_assoc. cbn [app].
    rewrite (u_balanced b Hb Hub); [|discriminate].
    rewrite (u_close _ _ _ _ _ _ Huc Hc).
    assert (k <> 0%nat) as Hk by (intros ->; rewrite (bclose0_end _ Hc) in Hn; discriminate).
    replace (match k with 0%nat => true | S _ => false end) with false by (destruct k; congruence).
    rewrite (IH Hux).
    f_equal. f_equal. cbn [map rev]. rewrite map_app, rev_app_distr. cbn [map rev].
    rewrite <- !app_assoc. reflexivity.
Qed.

(* "An unknown but well-nested at-rule is not junk: it is preserved as an unknown rule with its
   tokens intact" -- both shapes:  @kw pre ;   and   @kw pre { b }                            *)
Lemma unknown_atrule_preserved_semicolon kw pre semi :
  tyis kw "ATKEYWORD" = true -> TopFree mdD pre -> all_usane pre ->
  tyis semi "CHAR" = true -> val semi = s ";" ->
  unknown_rule (kw :: pre ++ [semi]) = Some (kw, map UTok (pre ++ [semi])).
Proof.
  intros Hkw Hpre Hu Hty Hv. unfold unknown_rule. rewrite Hkw. cbn [negb].
  rewrite (u_topfree pre Hpre Hu). cbn [unk_loop]. rewrite Hty.
  unfold u_char. cbn [u_eof u_nest u_wf u_seq]. rewrite Hv. cbn.
  rewrite app_nil_r, map_app, rev_involutive. reflexivity.
Qed.

Lemma unknown_atrule_preserved_block kw pre o b c :
  tyis kw "ATKEYWORD" = true -> TopFree mdD pre -> all_usane pre ->
  bclass_of o = BOpen 0 -> usane o = true -> Balanced b -> all_usane b ->
  bclass_of c = BClose 0 -> usane c = true ->
  unknown_rule (kw :: pre ++ o :: b ++ [c]) = Some (kw, map UTok (pre ++ o :: b ++ [c])).
Proof.
  intros Hkw Hpre Hu Ho Huo Hb Hub Hc Huc. unfold unknown_rule. rewrite Hkw. cbn [negb].
  rewrite (u_topfree pre Hpre Hu). cbn [app].
  rewrite (u_open _ _ _ _ _ _ Huo Ho), (u_balanced b Hb Hub); [|discriminate].
  rewrite (u_close _ _ _ _ _ _ Huc Hc). cbn [unk_loop u_wf u_eof u_nest u_seq andb].
  f_equal. f_equal. cbn [rev]. rewrite !app_nil_r.
  rewrite !rev_app_distr, !rev_involutive. cbn [rev app].
  rewrite !map_app. cbn [map]. rewrite map_app. cbn [map].
  rewrite <- !app_assoc, ?rev_involutive. reflexivity.
Qed.

(* non-vacuity: '@unk (f) [g] {h {i}}' and (since the fix) '@unk x @y {}' are preserved *)
Definition unk_good := [T "ATKEYWORD" "@unk"; sp; c_ "("; T "IDENT" "f"; c_ ")"; c_ "["; T "IDENT" "g"; c_ "]";
                        c_ "{"; T "IDENT" "h"; c_ "{"; T "IDENT" "i"; c_ "}"; c_ "}"].
Definition unk_nested_at := [T "ATKEYWORD" "@unk"; sp; T "IDENT" "x"; sp; T "ATKEYWORD" "@y"; sp; c_ "{"; c_ "}"].

Lemma unknown_rule_examples :
  unknown_rule unk_good = Some (T "ATKEYWORD" "@unk", map UTok (tl unk_good))
  /\ JunkStmt cls_sheet KUnknown unk_nested_at
  /\ unknown_rule unk_nested_at = Some (T "ATKEYWORD" "@unk", map UTok (tl unk_nested_at)).
Proof.
  split; [vm_compute; reflexivity|]. split; [|vm_compute; reflexivity].
  exists (T "ATKEYWORD" "@unk"), (tl unk_nested_at). repeat split.
  apply (SR_block _ [T "ATKEYWORD" "@unk"; sp; T "IDENT" "x"; sp; T "ATKEYWORD" "@y"; sp] (c_ "{") [] (c_ "}") 0);
    try reflexivity.
  - atom. atom. atom. atom. atom. atom. constructor.
  - constructor.
Qed.
