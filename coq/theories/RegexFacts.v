(* RegexFacts.v -- the matcher only ever hands a *suffix-length* of its input to
   the continuation, strictly shorter when the expression is not nullable.  *)
From CssV Require Import Base Regex.

Definition Snd {R} (nul : bool) (ma : matcher R) : Prop :=
  forall p t k v, ma p t k = Some v ->
    exists p' t', k p' t' = Some v /\ (length t' <= length t)%nat /\
                  (nul = false -> (length t' < length t)%nat).

Lemma rep_iter_sound {R} (ma : matcher R) nul : Snd nul ma ->
  forall fuel k lo hi p t v, rep_iter ma k fuel lo hi p t = Some v ->
    exists p' t', k p' t' = Some v /\ (length t' <= length t)%nat /\
                  (lo <> O -> nul = false -> (length t' < length t)%nat).
Proof.
  intros Hma fuel; induction fuel as [|f IH]; intros k lo hi p t v H; [discriminate|].
  cbn [rep_iter] in H.
  set (kk := fun (p0 : option N) (t' : str) =>
               if Nat.ltb (length t') (length t)
               then rep_iter ma k f (Nat.pred lo) (option_map Nat.pred hi) p0 t' else None) in H.
  assert (Hmore : forall v0, ma p t kk = Some v0 ->
            exists p' t', k p' t' = Some v0 /\ (length t' < length t)%nat).
  { intros v0 H0. apply Hma in H0 as (p1 & t1 & Hk & _ & _). unfold kk in Hk.
    destruct (Nat.ltb_spec (length t1) (length t)) as [Hlt|]; [|discriminate].
    apply IH in Hk as (p2 & t2 & Hk2 & Hle & _). exists p2, t2. split; [assumption|lia]. }
  destruct hi as [[|h]|].
  - destruct lo; [|discriminate]. exists p, t. repeat split; auto; try lia; try congruence.
  - destruct (ma p t kk) as [v0|] eqn:E.
    + inversion H; subst v0. destruct (Hmore _ eq_refl) as (p' & t' & ? & ?).
      exists p', t'. repeat split; auto; lia.
    + destruct lo; [|discriminate]. exists p, t. repeat split; auto; try lia; try congruence.
  - destruct (ma p t kk) as [v0|] eqn:E.
    + inversion H; subst v0. destruct (Hmore _ eq_refl) as (p' & t' & ? & ?).
      exists p', t'. repeat split; auto; lia.
    + destruct lo; [|discriminate]. exists p, t. repeat split; auto; try lia; try congruence.
Qed.

Lemma lazy_iter_sound {R} (ma : matcher R) nul : Snd nul ma ->
  forall fuel k lo hi p t v, lazy_iter ma k fuel lo hi p t = Some v ->
    exists p' t', k p' t' = Some v /\ (length t' <= length t)%nat /\
                  (lo <> O -> nul = false -> (length t' < length t)%nat).
Proof.
  intros Hma fuel; induction fuel as [|f IH]; intros k lo hi p t v H; [discriminate|].
  cbn [lazy_iter] in H.
  set (kk := fun (p0 : option N) (t' : str) =>
               if Nat.ltb (length t') (length t)
               then lazy_iter ma k f (Nat.pred lo) (option_map Nat.pred hi) p0 t' else None) in H.
  assert (Hmore : forall v0, match hi with Some O => None | _ => ma p t kk end = Some v0 ->
            exists p' t', k p' t' = Some v0 /\ (length t' < length t)%nat).
  { intros v0 H0. assert (H1 : ma p t kk = Some v0) by (destruct hi as [[|]|]; congruence).
    apply Hma in H1 as (p1 & t1 & Hk & _ & _). unfold kk in Hk.
    destruct (Nat.ltb_spec (length t1) (length t)) as [Hlt|]; [|discriminate].
    apply IH in Hk as (p2 & t2 & Hk2 & Hle & _). exists p2, t2. split; [assumption|lia]. }
  destruct lo as [|lo].
  - destruct (k p t) as [v0|] eqn:E.
    + inversion H; subst. exists p, t. repeat split; auto; try lia; try congruence.
    + destruct (Hmore _ H) as (p' & t' & ? & ?). exists p', t'. repeat split; auto; lia.
  - destruct (Hmore _ H) as (p' & t' & ? & ?). exists p', t'. repeat split; auto; lia.
Qed.

Lemma m_sound {R} (r : re) : Snd (R:=R) (nullable r) (m r).
Proof.
  induction r as [|c|c| |neg rs|a IHa b IHb|a IHa b IHb|a IHa lo hi|a IHa lo hi|c|c|c| |];
    intros p t k v H; cbn [m] in H; cbn [nullable].
  - exists p, t. repeat split; auto. discriminate.
  - destruct t as [|x t']; [discriminate|]. destruct (N.eqb x c); [|discriminate].
    exists (Some x), t'. simpl. repeat split; auto; lia.
  - destruct t as [|x t']; [discriminate|]. destruct (N.eqb x c); [discriminate|].
    exists (Some x), t'. simpl. repeat split; auto; lia.
  - destruct t as [|x t']; [discriminate|]. destruct (N.eqb x 10); [discriminate|].
    exists (Some x), t'. simpl. repeat split; auto; lia.
  - destruct t as [|x t']; [discriminate|]. destruct (xorb neg (in_ranges x rs)); [|discriminate].
    exists (Some x), t'. simpl. repeat split; auto; lia.
  - apply IHa in H as (p1 & t1 & H1 & L1 & N1). apply IHb in H1 as (p2 & t2 & H2 & L2 & N2).
    exists p2, t2. repeat split; auto; try lia. intros Hn. apply andb_false_iff in Hn as [Hn|Hn].
    + specialize (N1 Hn). lia.
    + specialize (N2 Hn). lia.
  - destruct (m a p t k) as [v0|] eqn:E.
    + inversion H; subst v0. apply IHa in E as (p1 & t1 & H1 & L1 & N1).
      exists p1, t1. repeat split; auto. intros Hn. apply orb_false_iff in Hn as [Hn _]. auto.
    + apply IHb in H as (p1 & t1 & H1 & L1 & N1).
      exists p1, t1. repeat split; auto. intros Hn. apply orb_false_iff in Hn as [_ Hn]. auto.
  - apply (rep_iter_sound _ _ IHa) in H as (p1 & t1 & H1 & L1 & N1).
    exists p1, t1. repeat split; auto. destruct lo; [discriminate|]. intros Hn. apply N1; auto.
  - apply (lazy_iter_sound _ _ IHa) in H as (p1 & t1 & H1 & L1 & N1).
    exists p1, t1. repeat split; auto. destruct lo; [discriminate|]. intros Hn. apply N1; auto.
  - exists p, t. repeat split; auto; try discriminate.
    destruct p as [x|]; [destruct (N.eqb x c); [discriminate|]|]; assumption.
  - destruct t as [|x t']; [discriminate|]. destruct (N.eqb x c); [|discriminate].
    exists p, (x :: t'). repeat split; auto; discriminate.
  - exists p, t. repeat split; auto; try discriminate.
    destruct t as [|x t']; [assumption|]. destruct (N.eqb x c); [discriminate|assumption].
  - destruct p; [discriminate|]. exists None, t. repeat split; auto; discriminate.
  - exists p, t. repeat split; auto; try discriminate.
    destruct t as [|x [|y t']]; try discriminate; auto. destruct (N.eqb x 10); [assumption|discriminate].
Qed.

(* the two consequences every client uses *)
Lemma rmatch_le r b t n : rmatch r b t = Some n -> (n <= length t)%nat.
Proof.
  unfold rmatch; intros H. apply m_sound in H as (p' & t' & H & L & _). inversion H; subst. lia.
Qed.

Lemma rmatch_pos r b t n : nullable r = false -> rmatch r b t = Some n -> (0 < n <= length t)%nat.
Proof.
  unfold rmatch; intros Hn H. apply m_sound in H as (p' & t' & H & L & N1).
  specialize (N1 Hn). inversion H; subst. lia.
Qed.
