(* RoundtripFacts.v -- C03: the fixpoint half of the property is a corollary of the re-parse half
   (abstract), and the re-parse half for item lists follows from the string round trip (proved) and
   three named hypotheses about the parts other builders own / nobody models.                     *)
From CssV Require Import Base Regex Tokenizer Quote Gen.Quote QuoteFacts QuoteStrFacts Upto Skeleton SkeletonFacts Roundtrip.

(* ------------------------------------------------------------------ abstract: fixpoint from round trip *)
Section Abstract.
  Variables (M T : Type) (ser : M -> T) (parse : T -> option M).

  Lemma fixpoint_of_roundtrip_lemma : forall m,
    parse (ser m) = Some m -> option_map ser (parse (ser m)) = Some (ser m).
  Proof. intros m H. rewrite H. reflexivity. Qed.

  (* for objects obtained by parsing: if every parsed object re-parses to itself, then the text of a
     parsed object is a fixpoint of  ser . parse  *)
  Lemma parsed_fixpoint_lemma :
    (forall t m, parse t = Some m -> parse (ser m) = Some m) ->
    forall t m, parse t = Some m -> option_map ser (parse (ser m)) = Some (ser m).
  Proof. intros H t m Hm. apply fixpoint_of_roundtrip_lemma. exact (H t m Hm). Qed.
End Abstract.

(* ------------------------------------------------------------------ item lists *)
Lemma stv_val t t' : val t = val t' -> stringtokenvalue (Some t) = stringtokenvalue (Some t').
Proof. unfold stringtokenvalue. intros H. rewrite H. reflexivity. Qed.

Section Items.
  Variable sepok : str -> Prop.                        (* follow texts the serializer produces (C05) *)
  Variable out : list str -> str.                      (* Out.append / Out.value over the item texts (C05) *)
  Variable vparse : list tok -> option (list item).    (* the value grammar run by prodparser (unmodelled) *)

  Definition ser_items (l : list item) : str := out (map ser_item l).
  Definition parse_items (text : str) : option (list item) :=
    match tokenize true false text with Some ts => vparse ts | None => None end.

  (* the spacing the serializer inserts neither merges nor splits the items' tokens: tokenizing the
     output gives, apart from S tokens, one token per item, namely the one the item's own text yields
     in front of an admissible follow text (separation half: C05 out_separation) *)
  Hypothesis out_tokens_preserved : forall l, Forall (wf_item sepok) l ->
    exists ts, tokenize true false (ser_items l) = Some ts /\ Forall2 (yields sepok) l (filter non_S ts).
  (* the value grammar returns the items of the tokens it is given (S tokens are separators) *)
  Hypothesis value_grammar_faithful : forall ts l,
    Forall2 (fun i t => item_of_tok t = Some i) l (filter non_S ts) -> vparse ts = Some l.

  Lemma wf_yields i t : wf_item sepok i -> yields sepok i t -> item_of_tok t = Some i.
  Proof.
    intros Hw (follow & t' & Hsep & Hf & Hty & Hval). unfold item_of_tok.
    destruct i as [v|ty0 x]; cbn [wf_item ser_item] in *.
    - destruct (string_roundtrip_lemma true false v follow Hw) as (t0 & Ht0 & Hty0 & _ & _ & _ & Hv0).
      rewrite Hf in Ht0. injection Ht0 as <-. rewrite <- Hty, Hty0, eqs_refl.
      rewrite (stv_val t t') by (symmetry; exact Hval). rewrite Hv0. reflexivity.
    - destruct Hw as [Hns Hlex]. destruct (Hlex follow t' Hsep Hf) as [Ht Hv].
      destruct (eqs (ty t) (s "STRING")) eqn:E.
      + apply eqs_spec in E. congruence.
      + rewrite <- Hty, <- Hval, Ht, Hv. reflexivity.
  Qed.

  (* F  reparse_equal  for item lists, under the named hypotheses *)
  Theorem reparse_equal_items_lemma : forall l,
    Forall (wf_item sepok) l -> parse_items (ser_items l) = Some l.
  Proof.
    intros l Hw. destruct (out_tokens_preserved l Hw) as (ts & Ht & Hy). unfold parse_items. rewrite Ht.
    apply value_grammar_faithful. clear Ht. revert Hw. generalize dependent (filter non_S ts). intros fts Hy.
    induction Hy as [|i t l ts' Hit Hy IH]; intros Hw; constructor.
    - apply wf_yields; [|exact Hit]. inversion Hw; assumption.
    - apply IH. inversion Hw; assumption.
  Qed.

  Corollary reserialise_items_lemma : forall l,
    Forall (wf_item sepok) l -> option_map ser_items (parse_items (ser_items l)) = Some (ser_items l).
  Proof. intros l Hw. apply fixpoint_of_roundtrip_lemma. apply reparse_equal_items_lemma. exact Hw. Qed.
End Items.

(* ------------------------------------------------------------------ sheet layout round trip (token level) *)
Lemma disp_skips cls l g : skips cls l -> disp cls (l ++ g) 0 = disp cls g 0.
Proof.
  induction 1 as [|t l Ht Hl IH]; [reflexivity|]. unfold disp in *. cbn [app disp_gen]. rewrite Ht. exact IH.
Qed.

Lemma disp_piece cls p g : wf_piece cls p -> disp cls (ptoks p ++ g) 0 = pitem p :: disp cls g 0.
Proof.
  destruct p as [k run|t]; cbn [wf_piece ptoks pitem].
  - intros (t & r & -> & Hc & Hj). apply disp_stmt; assumption.
  - intros Hc. unfold disp. cbn [app disp_gen]. rewrite Hc. reflexivity.
Qed.

(* the rule list written by the serializer is split again at exactly the same places, whatever separator of skipped
   tokens is used (none, blanks, newlines, indentation) and whatever skipped tokens surround it *)
Theorem layout_roundtrip_lemma : forall cls sep before after ps,
  skips cls sep -> skips cls before -> skips cls after -> Forall (wf_piece cls) ps ->
  disp cls (before ++ join_toks sep (map ptoks ps) ++ after) 0 = map pitem ps.
Proof.
  intros cls sep before after ps Hs Hb Ha Hw. rewrite (disp_skips _ _ _ Hb).
  induction Hw as [|p ps Hp Hw IH].
  - cbn [map join_toks app]. rewrite <- (app_nil_r after), (disp_skips _ _ _ Ha). reflexivity.
  - destruct ps as [|q ps].
    + cbn [map join_toks]. rewrite (disp_piece _ _ _ Hp). cbn [map]. f_equal.
      rewrite <- (app_nil_r after), (disp_skips _ _ _ Ha). reflexivity.
    + change (join_toks sep (map ptoks (p :: q :: ps))) with (ptoks p ++ sep ++ join_toks sep (map ptoks (q :: ps))).
      rewrite <- !app_assoc, (disp_piece _ _ _ Hp). cbn [map]. f_equal.
      rewrite (disp_skips _ _ _ Hs). exact IH.
Qed.

(* white space tokens (what a lineSeparator / indentation is tokenized to) and EOF are skipped by the sheet loop and by
   the @media loop *)
Lemma S_skipped t : tyis t "S" = true -> cls_sheet t = CSkip /\ cls_media t = CSkip.
Proof. intros H. unfold cls_sheet, cls_media. rewrite H. split; reflexivity. Qed.
Lemma EOF_skipped t : tyis t "EOF" = true -> cls_sheet t = CSkip /\ cls_media t = CSkip.
Proof. intros H. unfold cls_sheet, cls_media. rewrite H, !orb_true_r. split; reflexivity. Qed.
