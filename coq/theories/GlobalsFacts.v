(* GlobalsFacts.v -- proofs about Globals.v (C06) *)
From CssV Require Import Base Globals.

(* ------------------------------------------------------------------ the parts of the state *)
Definition core (g : G) := (raising g, ser g, prefs g, level g, dx g, parsers g, profile g, logcfg g).
Definition mem (g : G) := (memo g, sellevel g).
(* equal up to the token stash, the push-back list and the tokenizer cache *)
Definition eqv (g1 g2 : G) : Prop := core g1 = core g2 /\ mem g1 = mem g2.
(* equal up to the tokenizer cache *)
Definition eqx (g1 g2 : G) : Prop := eqv g1 g2 /\ saved g1 = saved g2 /\ pushed g1 = pushed g2.
(* every entry of the cache is what compiling its key's arguments gives NOW *)
Definition coherent (st : sites) (g : G) : Prop :=
  forall m p v, lookup (keyfn st m p) (cache g) = Some v -> v = resolve (dx g) m p.
(* two runs: before a call has constructed its first ProdParser they agree up to the stash (j = false),
   afterwards also on the stash; their caches may differ but are coherent *)
Definition rel (st : sites) (j : bool) (g1 g2 : G) : Prop :=
  (if j then eqx g1 g2 else eqv g1 g2) /\ coherent st g1 /\ coherent st g2.

Lemma eqv_refl g : eqv g g.
Proof. split; reflexivity. Qed.

Lemma eqv_trans g1 g2 g3 : eqv g1 g2 -> eqv g2 g3 -> eqv g1 g3.
Proof. intros [A B] [C D]; split; congruence. Qed.

Lemma eqx_eqv g1 g2 : eqx g1 g2 -> eqv g1 g2.
Proof. intros [H _]; exact H. Qed.

Lemma rel_weaken st j x g1 g2 : rel st (j || x) g1 g2 -> rel st j g1 g2.
Proof.
  intros (H & C1 & C2). split; [|split]; auto.
  destruct j; simpl in *; auto. destruct x; auto using eqx_eqv.
Qed.

Lemma rel_eqv st j g1 g2 : rel st j g1 g2 -> eqv g1 g2.
Proof. intros (H & _). destruct j; auto using eqx_eqv. Qed.

Ltac fields H :=
  let Hc := fresh "Hc" in let Hm := fresh "Hm" in
  destruct H as [Hc Hm]; unfold core, mem in Hc, Hm; simpl in Hc, Hm;
  inversion Hc; inversion Hm; subst; clear Hc Hm.

Lemma wb_fields st : well_bracketed st = true ->
  parse_restores_normal st = true /\ parse_restores_exc st = true /\ parse_saves_at_entry st = true /\
  pp_clears_pushed st = true /\ pp_clears_saved st = true /\ comb_restores_normal st = true /\
  comb_restores_exc st = true /\ level_restored_exc st = true /\ memo_guarded st = true.
Proof.
  unfold well_bracketed. intros H.
  repeat (apply andb_true_iff in H; destruct H as [H ?]). repeat split; assumption.
Qed.

Lemma wb_more st : well_bracketed st = true ->
  parse_saved_in_frame st = true /\ memo_scoped st = true /\ cache_key_full st = true /\ dx_clears_cache st = true.
Proof.
  unfold well_bracketed. intros H.
  repeat (apply andb_true_iff in H; destruct H as [H ?]). repeat split; assumption.
Qed.

(* ------------------------------------------------------------------ the cache *)
Lemma eqb_oN_eq a b : eqb_oN a b = true -> a = b.
Proof. destruct a, b; simpl; try discriminate; auto. intros H. apply N.eqb_eq in H. congruence. Qed.

Lemma eqb_oNN_eq a b : eqb_oNN a b = true -> a = b.
Proof.
  destruct a as [[a1 a2]|], b as [[b1 b2]|]; simpl; try discriminate; auto.
  intros H. apply andb_true_iff in H as [H1 H2]. apply N.eqb_eq in H1, H2. congruence.
Qed.

Lemma eqb_key_eq a b : eqb_key a b = true -> a = b.
Proof.
  destruct a, b. unfold eqb_key. simpl. intros H. apply andb_true_iff in H as [H1 H2].
  apply eqb_oNN_eq in H1. apply eqb_oN_eq in H2. congruence.
Qed.

Lemma coherent_ext st g g' : cache g' = cache g -> dx g' = dx g -> coherent st g -> coherent st g'.
Proof. intros Hc Hd H m p v. rewrite Hc, Hd. apply H. Qed.

Lemma coherent_insert st g m p :
  cache_key_full st = true -> coherent st g ->
  coherent st (set_cache ((keyfn st m p, resolve (dx g) m p) :: cache g) g).
Proof.
  intros Hk H m' p' v. destruct g; simpl in *.
  destruct (eqb_key (keyfn st m' p') (keyfn st m p)) eqn:E.
  - intros Hv. inversion Hv; subst. apply eqb_key_eq in E. unfold keyfn in E. rewrite Hk in E.
    inversion E; subst. reflexivity.
  - apply H.
Qed.

Lemma coherent_empty st g : cache g = [] -> coherent st g.
Proof. intros Hc m p v. rewrite Hc. simpl. discriminate. Qed.

(* ------------------------------------------------------------------ one primitive event *)
Lemma j_or (st : sites) (inited j : bool) : (inited = true -> j = true) -> j || inited = j.
Proof. destruct inited, j; simpl; auto. intros H. discriminate (H eq_refl). Qed.

Lemma do_ev_rel st inited j e g1 g2 :
  well_bracketed st = true -> (inited = true -> j = true) -> rel st j g1 g2 ->
  match do_ev st inited e g1, do_ev st inited e g2 with
  | None, None => True
  | Some (g1', o1, i1), Some (g2', o2, i2) => o1 = o2 /\ i1 = i2 /\ rel st (j || i1) g1' g2'
  | _, _ => False
  end.
Proof.
  intros Hwb Hij (Hr & C1 & C2).
  pose proof (wb_fields st Hwb) as (_ & _ & _ & Hp & Hs & _ & _ & _ & Hm).
  pose proof (wb_more st Hwb) as (_ & _ & Hk & _).
  assert (Hv : eqv g1 g2) by (destruct j; auto using eqx_eqv).
  destruct e; cbn [do_ev].
  - (* EvInit *) rewrite Hp, Hs. split; [reflexivity|]. split; [reflexivity|].
    rewrite orb_true_r. split; [|split].
    + destruct g1, g2. fields Hv. repeat split.
    + eapply coherent_ext; [| |exact C1]; destruct g1; reflexivity.
    + eapply coherent_ext; [| |exact C2]; destruct g2; reflexivity.
  - (* EvPop *) destruct inited; auto. rewrite (Hij eq_refl) in *. simpl in Hr. destruct Hr as (_ & Hsv & Hpu).
    rewrite Hsv. split; [reflexivity|]. split; [reflexivity|]. split; [|split].
    + destruct g1, g2. simpl in *. subst. fields Hv. repeat split.
    + eapply coherent_ext; [| |exact C1]; destruct g1; reflexivity.
    + eapply coherent_ext; [| |exact C2]; destruct g2; reflexivity.
  - (* EvSave *) destruct inited; auto. rewrite (Hij eq_refl) in *. simpl in Hr. destruct Hr as (_ & Hsv & Hpu).
    split; [reflexivity|]. split; [reflexivity|]. split; [|split].
    + destruct g1, g2. simpl in *. subst. fields Hv. repeat split.
    + eapply coherent_ext; [| |exact C1]; destruct g1; reflexivity.
    + eapply coherent_ext; [| |exact C2]; destruct g2; reflexivity.
  - (* EvPush *) destruct inited; auto. rewrite (Hij eq_refl) in *. simpl in Hr. destruct Hr as (_ & Hsv & Hpu).
    split; [reflexivity|]. split; [reflexivity|]. split; [|split].
    + destruct g1, g2. simpl in *. subst. fields Hv. repeat split.
    + eapply coherent_ext; [| |exact C1]; destruct g1; reflexivity.
    + eapply coherent_ext; [| |exact C2]; destruct g2; reflexivity.
  - (* EvTake *) destruct inited; auto. rewrite (Hij eq_refl) in *. simpl in Hr. destruct Hr as (_ & Hsv & Hpu).
    rewrite Hpu. split; [reflexivity|]. split; [reflexivity|]. split; [|split].
    + destruct g1, g2. simpl in *. subst. fields Hv. repeat split.
    + eapply coherent_ext; [| |exact C1]; destruct g1; reflexivity.
    + eapply coherent_ext; [| |exact C2]; destruct g2; reflexivity.
  - (* EvLog *) rewrite (j_or st inited j Hij). split; [|split; [reflexivity|split; auto]].
    destruct g1, g2. fields Hv. reflexivity.
  - (* EvSer *) rewrite (j_or st inited j Hij). unfold reads_memo. rewrite Hm. simpl.
    assert (Hpf : prefs g1 = prefs g2) by (destruct Hv as [Hc _]; unfold core in Hc; inversion Hc; auto).
    rewrite Hpf. split; [|split; [reflexivity|]].
    + destruct g1, g2. fields Hv. reflexivity.
    + destruct (indent_pref (prefs g2) || false); [|split; auto].
      split; [|split].
      * destruct j; simpl in *.
        -- destruct Hr as (_ & Hsv & Hpu). destruct g1, g2. simpl in *. subst. fields Hv. repeat split.
        -- destruct g1, g2. fields Hv. repeat split.
      * eapply coherent_ext; [| |exact C1]; destruct g1; reflexivity.
      * eapply coherent_ext; [| |exact C2]; destruct g2; reflexivity.
  - (* EvTok *)
    assert (Hdx : dx g1 = dx g2) by (destruct Hv as [Hc _]; unfold core in Hc; inversion Hc; auto).
    destruct (lookup (keyfn st m p) (cache g1)) as [v1|] eqn:L1, (lookup (keyfn st m p) (cache g2)) as [v2|] eqn:L2;
      rewrite (j_or st inited j Hij).
    + rewrite (C1 _ _ _ L1), (C2 _ _ _ L2), Hdx. repeat split; auto.
    + rewrite (C1 _ _ _ L1), Hdx. split; [reflexivity|]. split; [reflexivity|].
      split; [exact Hr|]. split; [exact C1|]. apply coherent_insert; auto.
    + rewrite (C2 _ _ _ L2), Hdx. split; [reflexivity|]. split; [reflexivity|].
      split; [exact Hr|]. split; [|exact C2]. rewrite <- Hdx. apply coherent_insert; auto.
    + rewrite Hdx. split; [reflexivity|]. split; [reflexivity|].
      split; [exact Hr|]. split; [rewrite <- Hdx|]; apply coherent_insert; auto.
  - (* EvProf *) rewrite (j_or st inited j Hij). split; [|split; [reflexivity|split; auto]].
    destruct g1, g2. fields Hv. reflexivity.
Qed.

Lemma do_ev_core st i e g g' o i' : do_ev st i e g = Some (g', o, i') -> core g' = core g.
Proof.
  destruct g; destruct e; simpl; intros H;
    try (destruct i; [|discriminate]);
    repeat match type of H with context [if ?c then _ else _] => destruct c end;
    repeat match type of H with context [match lookup ?k ?c with _ => _ end] => destruct (lookup k c) end;
    inversion H; subst; reflexivity.
Qed.

(* ------------------------------------------------------------------ single cells *)
Ltac keeps_coherent C g := eapply coherent_ext; [| |exact C]; destruct g; reflexivity.

Lemma rel_set_raising st j b g1 g2 : rel st j g1 g2 -> rel st j (set_raising b g1) (set_raising b g2).
Proof.
  intros (H & C1 & C2). split; [|split]; [|keeps_coherent C1 g1|keeps_coherent C2 g2].
  destruct j; simpl in *.
  - destruct H as (Hv & Hsv & Hpu). destruct g1, g2. simpl in *. subst. fields Hv. repeat split.
  - destruct g1, g2. fields H. repeat split.
Qed.

Lemma rel_set_ser st j i p lv m sl g1 g2 : rel st j g1 g2 -> rel st j (set_ser i p lv m sl g1) (set_ser i p lv m sl g2).
Proof.
  intros (H & C1 & C2). split; [|split]; [|keeps_coherent C1 g1|keeps_coherent C2 g2].
  destruct j; simpl in *.
  - destruct H as (Hv & Hsv & Hpu). destruct g1, g2. simpl in *. subst. fields Hv. repeat split.
  - destruct g1, g2. fields H. repeat split.
Qed.

Lemma rel_set_memo st j m sl g1 g2 : rel st j g1 g2 -> rel st j (set_memo m sl g1) (set_memo m sl g2).
Proof.
  intros (H & C1 & C2). split; [|split]; [|keeps_coherent C1 g1|keeps_coherent C2 g2].
  destruct j; simpl in *.
  - destruct H as (Hv & Hsv & Hpu). destruct g1, g2. simpl in *. subst. fields Hv. repeat split.
  - destruct g1, g2. fields H. repeat split.
Qed.

Lemma rel_set_memo_of st j a1 a2 g1 g2 :
  mem a1 = mem a2 -> rel st j g1 g2 ->
  rel st j (set_memo (memo a1) (sellevel a1) g1) (set_memo (memo a2) (sellevel a2) g2).
Proof.
  intros Hm H. unfold mem in Hm. inversion Hm as [[Hm1 Hm2]]. rewrite Hm1, Hm2. apply rel_set_memo. exact H.
Qed.

Lemma rel_set_logcfg st j l g1 g2 : rel st j g1 g2 -> rel st j (set_logcfg l g1) (set_logcfg l g2).
Proof.
  intros (H & C1 & C2). split; [|split]; [|keeps_coherent C1 g1|keeps_coherent C2 g2].
  destruct j; simpl in *.
  - destruct H as (Hv & Hsv & Hpu). destruct g1, g2. simpl in *. subst. fields Hv. repeat split.
  - destruct g1, g2. fields H. repeat split.
Qed.

Lemma rel_add_parser st j p g1 g2 : rel st j g1 g2 -> rel st j (add_parser p g1) (add_parser p g2).
Proof.
  intros (H & C1 & C2).
  assert (Hps : parsers g1 = parsers g2).
  { assert (Hv : eqv g1 g2) by (destruct j; auto using eqx_eqv). destruct Hv as [Hc _]. unfold core in Hc. inversion Hc; auto. }
  unfold add_parser. rewrite Hps.
  split; [|split]; [|keeps_coherent C1 g1|keeps_coherent C2 g2].
  destruct j; simpl in *.
  - destruct H as (Hv & Hsv & Hpu). destruct g1, g2. simpl in *. subst. fields Hv. repeat split.
  - destruct g1, g2. fields H. repeat split.
Qed.

Lemma rel_tok_default st j g1 g2 : well_bracketed st = true -> rel st j g1 g2 -> rel st j (tok_default st g1) (tok_default st g2).
Proof.
  intros Hwb H. unfold tok_default.
  assert (Hij : false = true -> j = true) by discriminate.
  pose proof (do_ev_rel st false j (EvTok None None) g1 g2 Hwb Hij H) as R.
  destruct (do_ev st false (EvTok None None) g1) as [[[x1 o1] i1]|] eqn:E1,
           (do_ev st false (EvTok None None) g2) as [[[x2 o2] i2]|] eqn:E2; try contradiction; auto.
  destruct R as (_ & _ & R).
  assert (i1 = false).
  { cbn [do_ev] in E1. destruct (lookup (keyfn st None None) (cache g1)); inversion E1; auto. }
  subst i1. rewrite orb_false_r in R. exact R.
Qed.

Lemma core_tok_default st g : core (tok_default st g) = core g.
Proof.
  unfold tok_default. destruct (do_ev st false (EvTok None None) g) as [[[x o] i]|] eqn:E; auto.
  eapply do_ev_core; eauto.
Qed.

Lemma core_set_raising b g :
  core (set_raising b g) = (b, ser g, prefs g, level g, dx g, parsers g, profile g, logcfg g).
Proof. reflexivity. Qed.

(* ------------------------------------------------------------------ brackets, for any way [ex] of running the body *)
Definition ex_rel st (ex : G -> G * (list obs * term)) : Prop :=
  forall j a1 a2, rel st j a1 a2 -> snd (ex a1) = snd (ex a2) /\ rel st j (fst (ex a1)) (fst (ex a2)).
(* a body keeps the core; after the memo bracket also the memo *)
Definition ex_core (ex : G -> G * (list obs * term)) : Prop := forall a, core (fst (ex a)) = core a.
Definition ex_frame (ex : G -> G * (list obs * term)) : Prop :=
  forall a, core (fst (ex a)) = core a /\ mem (fst (ex a)) = mem a.

Lemma memo_bracket_rel st ex : well_bracketed st = true -> ex_rel st ex -> ex_rel st (memo_bracket st ex).
Proof.
  intros Hwb Hex j a1 a2 H. unfold memo_bracket. destruct (memo_scoped st); [|apply Hex; exact H].
  assert (Hm : mem a1 = mem a2) by (apply rel_eqv in H; destruct H; auto).
  assert (H0 : rel st j (set_memo 0 0 a1) (set_memo 0 0 a2)) by (apply rel_set_memo; exact H).
  destruct (Hex j _ _ H0) as [A B].
  destruct (ex (set_memo 0 0 a1)) as [x1 r1], (ex (set_memo 0 0 a2)) as [x2 r2]. simpl in *.
  split; auto. apply rel_set_memo_of; auto.
Qed.

Lemma memo_bracket_frame st ex : well_bracketed st = true -> ex_core ex -> ex_frame (memo_bracket st ex).
Proof.
  intros Hwb Hex a. pose proof (wb_more st Hwb) as (_ & Hsc & _). unfold memo_bracket. rewrite Hsc.
  pose proof (Hex (set_memo 0 0 a)) as Hc.
  destruct (ex (set_memo 0 0 a)) as [x r]. simpl in *.
  destruct a, x. unfold core, mem in *. simpl in *. inversion Hc; subst. split; reflexivity.
Qed.

Lemma parse_bracket_rel st who praise ex j g1 g2 :
  well_bracketed st = true -> ex_rel st ex -> rel st j g1 g2 ->
  snd (parse_bracket st who praise ex g1) = snd (parse_bracket st who praise ex g2) /\
  rel st j (fst (parse_bracket st who praise ex g1)) (fst (parse_bracket st who praise ex g2)).
Proof.
  intros Hwb Hex H. unfold parse_bracket.
  pose proof (wb_fields st Hwb) as (_ & _ & Hs & _). pose proof (wb_more st Hwb) as (Hf & _).
  rewrite Hs, Hf. simpl.
  assert (raising g1 = raising g2) as Hr
    by (apply rel_eqv in H; destruct H as [Hc _]; unfold core in Hc; inversion Hc; auto).
  rewrite Hr.
  set (a1 := if parse_sets_flag st then set_raising praise (match who with Some _ => g1 | None => g1 end)
             else match who with Some _ => g1 | None => g1 end).
  set (a2 := if parse_sets_flag st then set_raising praise (match who with Some _ => g2 | None => g2 end)
             else match who with Some _ => g2 | None => g2 end).
  assert (rel st j a1 a2) as Ha.
  { subst a1 a2. destruct who; destruct (parse_sets_flag st); auto using rel_set_raising. }
  destruct (Hex j a1 a2 Ha) as [Hsn He].
  destruct (ex a1) as [x1 r1], (ex a2) as [x2 r2]. simpl in Hsn, He. subst r2. simpl. split; auto.
  destruct (if is_ret (snd r1) then parse_restores_normal st else parse_restores_exc st);
    auto using rel_set_raising.
Qed.

Lemma parse_bracket_frame st who praise ex g :
  well_bracketed st = true -> ex_frame ex ->
  core (fst (parse_bracket st who praise ex g)) = core g /\ mem (fst (parse_bracket st who praise ex g)) = mem g.
Proof.
  intros Hwb Hex. pose proof (wb_fields st Hwb) as (Hn & Hx & Hs & _). pose proof (wb_more st Hwb) as (Hf & _).
  unfold parse_bracket. rewrite Hs, Hf. simpl.
  set (a := if parse_sets_flag st then set_raising praise (match who with Some _ => g | None => g end)
            else match who with Some _ => g | None => g end).
  destruct (Hex a) as [Hc Hm].
  destruct (ex a) as [x r]. simpl in *.
  assert (Hrest : (if is_ret (snd r) then parse_restores_normal st else parse_restores_exc st) = true)
    by (destruct (is_ret (snd r)); auto).
  rewrite Hrest.
  assert (core a = (raising a, ser g, prefs g, level g, dx g, parsers g, profile g, logcfg g) /\ mem a = mem g) as [Ha Ha'].
  { subst a. destruct who; destruct (parse_sets_flag st); destruct g; split; reflexivity. }
  split.
  - rewrite core_set_raising. unfold core in Hc, Ha. rewrite Ha in Hc. inversion Hc. unfold core. congruence.
  - destruct x. unfold mem in *. simpl in *. congruence.
Qed.

(* ------------------------------------------------------------------ bodies and calls, nested to any depth *)
(* two runs in lock-step *)
Lemma sim st : well_bracketed st = true -> forall fuel,
  (forall b inited j os g1 g2, (inited = true -> j = true) -> rel st j g1 g2 ->
     snd (exec st fuel b inited os g1) = snd (exec st fuel b inited os g2) /\
     rel st j (fst (exec st fuel b inited os g1)) (fst (exec st fuel b inited os g2))) /\
  (forall c j g1 g2, rel st j g1 g2 ->
     snd (step st fuel c g1) = snd (step st fuel c g2) /\
     rel st j (fst (step st fuel c g1)) (fst (step st fuel c g2))).
Proof.
  intros Hwb. pose proof (wb_fields st Hwb) as (_ & _ & _ & _ & _ & _ & _ & Hl & _).
  pose proof (wb_more st Hwb) as (_ & _ & _ & Hdc).
  induction fuel as [|f [IHe IHs]].
  - split; intros; simpl; split; auto.
  - assert (Hexrel : forall b, ex_rel st (memo_bracket st (exec st f b false []))).
    { intros b. apply memo_bracket_rel; auto. intros j a1 a2 Ha. apply IHe; [discriminate|exact Ha]. }
    split.
    + intros b inited j os g1 g2 Hij Hrel. simpl.
      destruct (b os) as [e| | | |c].
      * pose proof (do_ev_rel st inited j e g1 g2 Hwb Hij Hrel) as H.
        destruct (do_ev st inited e g1) as [[[g1' o1] i1]|], (do_ev st inited e g2) as [[[g2' o2] i2]|]; try contradiction.
        -- destruct H as (-> & -> & H).
           destruct (IHe b i2 (j || i2) (os ++ [o2]) g1' g2') as [A B]; auto.
           { intros ->. apply orb_true_r. }
           split; auto. eapply rel_weaken; eauto.
        -- simpl. auto.
      * simpl. auto.
      * simpl. auto.
      * rewrite Hl. simpl. auto.
      * destruct (is_setter c); [simpl; auto|].
        destruct (IHs c j g1 g2 Hrel) as [A B].
        destruct (step st f c g1) as [x1 r1], (step st f c g2) as [x2 r2]. simpl in A, B. subst r2.
        apply IHe; auto.
    + intros c j g1 g2 H. simpl.
      assert (Hcore : core g1 = core g2) by (apply rel_eqv in H; destruct H; auto).
      assert (raising g1 = raising g2 /\ parsers g1 = parsers g2) as [Hr Hps]
        by (unfold core in Hcore; inversion Hcore; auto).
      destruct c as [b|i p|p| |pf|l|praise l|who b|fresh fp b1 bm b2|b]; simpl.
      * split; auto using rel_set_raising.
      * split; auto using rel_set_ser.
      * split; auto. destruct H as (H & C1 & C2). split; [|split]; [|keeps_coherent C1 g1|keeps_coherent C2 g2].
        destruct j; simpl in *.
        -- destruct H as (Hv & Hsv & Hpu). destruct g1, g2. simpl in *. subst. fields Hv. repeat split.
        -- destruct g1, g2. fields H. repeat split.
      * split; auto. rewrite Hdc. destruct H as (H & C1 & C2).
        split; [|split; apply coherent_empty; reflexivity].
        destruct j; simpl in *.
        -- destruct H as (Hv & Hsv & Hpu). destruct g1, g2. simpl in *. subst. fields Hv. repeat split.
        -- destruct g1, g2. fields H. repeat split.
      * split; auto. destruct H as (H & C1 & C2). split; [|split]; [|keeps_coherent C1 g1|keeps_coherent C2 g2].
        destruct j; simpl in *.
        -- destruct H as (Hv & Hsv & Hpu). destruct g1, g2. simpl in *. subst. fields Hv. repeat split.
        -- destruct g1, g2. fields H. repeat split.
      * split; auto. destruct H as (H & C1 & C2). split; [|split]; [|keeps_coherent C1 g1|keeps_coherent C2 g2].
        destruct j; simpl in *.
        -- destruct H as (Hv & Hsv & Hpu). destruct g1, g2. simpl in *. subst. fields Hv. repeat split.
        -- destruct g1, g2. fields H. repeat split.
      * split; auto. rewrite Hr. apply rel_add_parser. apply rel_tok_default; auto.
        destruct l; auto using rel_set_logcfg.
      * destruct who as [n|].
        -- rewrite Hps. destruct (nth_error (parsers g2) n) as [p|]; simpl; auto.
           destruct (parse_bracket_rel st (Some n) (snd p) _ j g1 g2 Hwb (Hexrel b) H) as [A B].
           destruct (parse_bracket st (Some n) (snd p) (memo_bracket st (exec st f b false [])) g1),
                    (parse_bracket st (Some n) (snd p) (memo_bracket st (exec st f b false [])) g2). simpl in *. subst. auto.
        -- destruct (parse_bracket_rel st None false _ j g1 g2 Hwb (Hexrel b) H) as [A B].
           destruct (parse_bracket st None false (memo_bracket st (exec st f b false [])) g1),
                    (parse_bracket st None false (memo_bracket st (exec st f b false [])) g2). simpl in *. subst. auto.
      * destruct (parse_bracket_rel st None false _ j g1 g2 Hwb (Hexrel b1) H) as [A B].
        destruct (parse_bracket st None false (memo_bracket st (exec st f b1 false [])) g1) as [x1 r1],
                 (parse_bracket st None false (memo_bracket st (exec st f b1 false [])) g2) as [x2 r2].
        simpl in A, B. subst r2.
        destruct (negb (is_ret (snd r1))); simpl; auto.
        destruct (Hexrel bm j x1 x2 B) as [A2 B2].
        destruct (memo_bracket st (exec st f bm false []) x1) as [y1 rm1],
                 (memo_bracket st (exec st f bm false []) x2) as [y2 rm2].
        simpl in A2, B2. subst rm2.
        destruct (negb (is_ret (snd rm1))); simpl; auto.
        assert (rel st j (set_ser fresh fp 0 0 0 y1) (set_ser fresh fp 0 0 0 y2)) as B3
          by (apply rel_set_ser; exact B2).
        destruct (Hexrel b2 j _ _ B3) as [A4 B4].
        destruct (memo_bracket st (exec st f b2 false []) (set_ser fresh fp 0 0 0 y1)) as [z1 q1],
                 (memo_bracket st (exec st f b2 false []) (set_ser fresh fp 0 0 0 y2)) as [z2 q2].
        simpl in A4, B4. subst q2. simpl. split; auto.
        destruct (if is_ret (snd q1) then comb_restores_normal st else comb_restores_exc st); auto.
        assert (Hy : eqv y1 y2) by (eapply rel_eqv; eauto).
        destruct y1, y2. fields Hy. simpl. apply rel_set_ser. assumption.
      * destruct (Hexrel b j g1 g2 H) as [A B].
        destruct (memo_bracket st (exec st f b false []) g1), (memo_bracket st (exec st f b false []) g2).
        simpl in *. subst. auto.
Qed.

Lemma step_rel st fuel c j g1 g2 :
  well_bracketed st = true -> rel st j g1 g2 ->
  snd (step st fuel c g1) = snd (step st fuel c g2) /\ rel st j (fst (step st fuel c g1)) (fst (step st fuel c g2)).
Proof. intros Hwb. apply (sim st Hwb fuel). Qed.

(* a body keeps every cell but the stash, the cache and (inside the activation) the memo; a call that is
   not one of the caller's own settings also keeps the memo -- nested calls included *)
Lemma frame st : well_bracketed st = true -> forall fuel,
  (forall b i os g, core (fst (exec st fuel b i os g)) = core g) /\
  (forall c g, is_setter c = false ->
     core (fst (step st fuel c g)) = core g /\ mem (fst (step st fuel c g)) = mem g).
Proof.
  intros Hwb. pose proof (wb_fields st Hwb) as (_ & _ & _ & _ & _ & Hcn & Hcx & Hl & _).
  induction fuel as [|f [IHe IHs]].
  - split; intros; simpl; auto.
  - assert (Hexf : forall b, ex_frame (memo_bracket st (exec st f b false []))).
    { intros b. apply memo_bracket_frame; auto. intros a. apply IHe. }
    split.
    + intros b i os g. simpl.
      destruct (b os) as [e| | | |c]; simpl; auto.
      * destruct (do_ev st i e g) as [[[g' o] i']|] eqn:E; simpl; auto.
        rewrite IHe. eapply do_ev_core; eauto.
      * rewrite Hl. simpl. auto.
      * destruct (is_setter c) eqn:Es; simpl; auto.
        pose proof (IHs c g Es) as [F _]. destruct (step st f c g) as [g' r]. simpl in F.
        rewrite IHe. exact F.
    + intros c g Hc. simpl.
      destruct c as [b|i p|p| |pf|l|praise l|who b|fresh fp b1 bm b2|b]; simpl in Hc; try discriminate.
      * destruct who as [n|].
        -- destruct (nth_error (parsers g) n) as [p|]; simpl; auto.
           pose proof (parse_bracket_frame st (Some n) (snd p) _ g Hwb (Hexf b)) as F.
           destruct (parse_bracket st (Some n) (snd p) (memo_bracket st (exec st f b false [])) g). exact F.
        -- pose proof (parse_bracket_frame st None false _ g Hwb (Hexf b)) as F.
           destruct (parse_bracket st None false (memo_bracket st (exec st f b false [])) g). exact F.
      * pose proof (parse_bracket_frame st None false _ g Hwb (Hexf b1)) as [F1 M1].
        destruct (parse_bracket st None false (memo_bracket st (exec st f b1 false [])) g) as [x r1]. simpl in F1, M1.
        destruct (negb (is_ret (snd r1))); simpl; auto.
        pose proof (Hexf bm x) as [F2 M2].
        destruct (memo_bracket st (exec st f bm false []) x) as [y rm]. simpl in F2, M2.
        destruct (negb (is_ret (snd rm))); simpl; [split; congruence|].
        destruct (Hexf b2 (set_ser fresh fp 0 0 0 y)) as [F3 _].
        destruct (memo_bracket st (exec st f b2 false []) (set_ser fresh fp 0 0 0 y)) as [z q]. simpl in F3.
        assert (Hrest : (if is_ret (snd q) then comb_restores_normal st else comb_restores_exc st) = true)
          by (destruct (is_ret (snd q)); auto).
        rewrite Hrest. destruct y, z, x, g. unfold core, mem in *. simpl in *.
        inversion F3; inversion F2; inversion F1; inversion M1; inversion M2; subst. split; reflexivity.
      * pose proof (Hexf b g) as F.
        destruct (memo_bracket st (exec st f b false []) g). exact F.
Qed.

Lemma step_frame st fuel c g :
  well_bracketed st = true -> is_setter c = false ->
  core (fst (step st fuel c g)) = core g /\ mem (fst (step st fuel c g)) = mem g.
Proof. intros Hwb. apply (frame st Hwb fuel). Qed.

(* ------------------------------------------------------------------ histories *)
Lemma run_cons st fuel c hist g : run st fuel (c :: hist) g = run st fuel hist (fst (step st fuel c g)).
Proof. reflexivity. Qed.

Lemma run_app st fuel h1 h2 g : run st fuel (h1 ++ h2) g = run st fuel h2 (run st fuel h1 g).
Proof. unfold run. apply fold_left_app. Qed.

Lemma rel_refl_coherent st g : coherent st g -> rel st true g g.
Proof. intros C. split; [|split]; auto. repeat split. Qed.

Lemma run_eqv st fuel : well_bracketed st = true ->
  forall hist g1 g2, rel st false g1 g2 -> rel st false (run st fuel hist g1) (run st fuel (setters hist) g2).
Proof.
  intros Hwb. induction hist as [|c hist IH]; intros g1 g2 H; [simpl; auto|].
  change (setters (c :: hist)) with (if is_setter c then c :: setters hist else setters hist).
  rewrite run_cons. destruct (is_setter c) eqn:Es.
  - rewrite run_cons. apply IH. apply (step_rel st fuel c false g1 g2 Hwb H).
  - apply IH. destruct (step_frame st fuel c g1 Hwb Es) as [Fc Fm].
    destruct H as (Hv & C1 & C2).
    assert (C1' : coherent st (fst (step st fuel c g1))).
    { destruct (step_rel st fuel c true g1 g1 Hwb (rel_refl_coherent st g1 C1)) as (_ & _ & C & _). exact C. }
    split; [|split]; auto.
    apply eqv_trans with g1; auto. split; auto.
Qed.

Lemma coherent_G0 st : coherent st G0.
Proof.
  intros m p v. unfold G0. simpl. destruct (eqb_key (keyfn st m p) (None, None)) eqn:E; [|discriminate].
  intros Hv. inversion Hv; subst. apply eqb_key_eq in E. unfold keyfn in E.
  assert (p = None) by (inversion E; auto). subst p.
  assert (m = None) as -> by (destruct m; [destruct (cache_key_full st); inversion E|reflexivity]).
  reflexivity.
Qed.

Lemma rel_G0 st : rel st false G0 G0.
Proof. split; [apply eqv_refl|]. split; apply coherent_G0. Qed.

(* C06, first half, for any well-bracketed tree; calls may nest (callbacks) to any depth *)
Theorem history_independent_gen st : well_bracketed st = true ->
  forall fuel hist c,
    result st fuel (run st fuel hist G0) c = result st fuel (run st fuel (setters hist) G0) c.
Proof.
  intros Hwb fuel hist c. unfold result.
  apply (step_rel st fuel c false _ _ Hwb). apply run_eqv; auto using rel_G0.
Qed.

Corollary history_independent_nosetters st : well_bracketed st = true ->
  forall fuel hist c, setters hist = [] ->
    result st fuel (run st fuel hist G0) c = result st fuel (run st fuel [] G0) c.
Proof. intros Hwb fuel hist c Hs. rewrite (history_independent_gen st Hwb fuel hist c), Hs. reflexivity. Qed.

Lemma observable_add_parser p x : observable (add_parser p x) = observable x.
Proof. reflexivity. Qed.

Lemma observable_of_core a b : core a = core b -> observable a = observable b.
Proof. unfold core, observable. intros H. inversion H. reflexivity. Qed.

Lemma observable_step st fuel c g : well_bracketed st = true -> fuel <> O ->
  observable (fst (step st fuel c g)) = set_by (observable g) c.
Proof.
  intros Hwb Hf. destruct (is_setter c) eqn:Es.
  - destruct fuel; [congruence|]. destruct c as [b|i p|p| |pf|l|praise l|who b|fresh fp b1 bm b2|b];
      simpl in Es; try discriminate; try (destruct g; reflexivity).
    cbn [step fst]. rewrite observable_add_parser.
    rewrite (observable_of_core _ _ (core_tok_default st (match l with Some x => set_logcfg x g | None => g end))).
    destruct l; destruct g; reflexivity.
  - destruct (step_frame st fuel c g Hwb Es) as [Fc _].
    unfold observable. unfold core in Fc. inversion Fc.
    destruct c; simpl in Es; try discriminate; simpl; congruence.
Qed.

(* C06, second half, for any well-bracketed tree (fuel 0 runs nothing, not even the caller's settings) *)
Theorem caller_settings_stable_gen st : well_bracketed st = true ->
  forall fuel hist, fuel <> O -> observable (run st fuel hist G0) = last_set_by_caller hist.
Proof.
  intros Hwb fuel hist Hf. unfold last_set_by_caller. generalize G0.
  induction hist as [|c hist IH]; intros g; [reflexivity|].
  rewrite run_cons.
  change (fold_left set_by (c :: hist) (observable g)) with (fold_left set_by hist (set_by (observable g) c)).
  rewrite <- (observable_step st fuel c g Hwb Hf). apply IH.
Qed.

(* ------------------------------------------------------------------ trees with an incomplete bracket: witnesses *)
Definition repaired : sites := mkSites true true true true true true true true true true true true true true.

(* (o) the selector memo of the experimental indentSpecificities preference, before it was scoped to one
   sheet serialization: with the preference on, a serialisation sees what earlier ones left *)
Definition unscoped : sites := mkSites true true true true true true true true true true true false true true.
Definition memo_hist : list call := [CSetPrefs 1; CPlain (script [Do (EvSer 1 0)])].
Definition memo_call : call := CPlain (script [Do (EvSer 2 1)]).

Lemma unscoped_memo :
  result unscoped 5 (run unscoped 5 memo_hist G0) memo_call <> result unscoped 5 (run unscoped 5 (setters memo_hist) G0) memo_call.
Proof. vm_compute. discriminate. Qed.

(* (i)  MediaQuery('print x') = [ProdParser(); pop; ...; savedTokens.append(x)], then parseStyle *)
Definition stash_hist : list call := [CPlain (script [Do EvInit; Do EvPop; Do (EvSave 120)])].
Definition stash_call : call := CParse None (script [Do EvInit; Do EvPop]).
(* (ii) parseString(b'@charset "ascii"; \xff') raises in the codec; then any DOM operation that logs an error *)
Definition flag_hist : list call := [CParse None (script [Exc])].
Definition flag_call : call := CPlain (script [Do EvLog]).
(* (ii') p = CSSParser(); log.raiseExceptions = False; p.parseString('a{}') *)
Definition captured_hist : list call := [CNewParser false None; CSetRaising false; CParse (Some 0%nat) (script [Ret])].
(* (iii) csscombine(cssText='a{color:red}', targetencoding='undefined') raises while serialising *)
Definition combine_hist : list call := [CCombine 7 2 (script [Ret]) (script [Ret]) (script [Do (EvSer 0 0); Exc])].

Lemma pinned_stash : result pinned 10 (run pinned 10 stash_hist G0) stash_call <> result pinned 10 (run pinned 10 (setters stash_hist) G0) stash_call.
Proof. vm_compute. discriminate. Qed.

Lemma pinned_flag : result pinned 10 (run pinned 10 flag_hist G0) flag_call <> result pinned 10 (run pinned 10 (setters flag_hist) G0) flag_call.
Proof. vm_compute. discriminate. Qed.

Lemma pinned_flag_settings : observable (run pinned 10 flag_hist G0) <> last_set_by_caller flag_hist.
Proof. vm_compute. discriminate. Qed.

Lemma pinned_captured_settings : observable (run pinned 10 captured_hist G0) <> last_set_by_caller captured_hist.
Proof. vm_compute. discriminate. Qed.

Lemma pinned_combine_settings : observable (run pinned 10 combine_hist G0) <> last_set_by_caller combine_hist.
Proof. vm_compute. discriminate. Qed.

(* (iv) a tree that keeps the saved flag on the parser object (seeded regression C06-2): every bracket
   complete, value read at parse entry -- but stored in self.__globalRaising instead of the frame of the
   running parse.  A fetcher that parses with the same parser while the outer parse resolves an @import
   overwrites the slot: *)
Definition onself : sites := mkSites true true true true false true true true true true true true true true.
Definition reentrant_hist : list call :=
  [CNewParser false None; CParse (Some 0%nat) (script [Nest (CParse (Some 0%nat) (script [Ret])); Ret])].

Lemma onself_reentrant_settings : observable (run onself 10 reentrant_hist G0) <> last_set_by_caller reentrant_hist.
Proof. vm_compute. discriminate. Qed.

Lemma onself_reentrant_result :
  result onself 10 (run onself 10 reentrant_hist G0) flag_call <> result onself 10 (run onself 10 (setters reentrant_hist) G0) flag_call.
Proof. vm_compute. discriminate. Qed.

Example onself_other_parser_ok :
  observable (run onself 10 [CNewParser false None; CNewParser false None;
                             CParse (Some 0%nat) (script [Nest (CParse (Some 1%nat) (script [Ret])); Ret]);
                             CParse (Some 0%nat) (script [Ret])] G0) = observable G0.
Proof. vm_compute. reflexivity. Qed.

(* (v) the tokenizer cache keyed on the macro NAMES only (seeded regression C09-3): Tokenizer(macros = the
   default names with other definitions) poisons the entry every later Tokenizer with those names gets *)
Definition nameskey : sites := mkSites true true true true true true true true true true true true false true.
Definition cache_hist : list call := [CPlain (script [Do (EvTok (Some (7, 8)%N) None)])].
Definition cache_call : call := CPlain (script [Do (EvTok (Some (7, 9)%N) None)]).

Lemma nameskey_cache :
  result nameskey 5 (run nameskey 5 cache_hist G0) cache_call <> result nameskey 5 (run nameskey 5 (setters cache_hist) G0) cache_call.
Proof. vm_compute. discriminate. Qed.

(* (vi) settings.set without clearing the cache: a Tokenizer(macros) with default productions compiled before
   the switch is handed out after it *)
Definition noclear : sites := mkSites true true true true true true true true true true true true true false.
Definition noclear_hist : list call := [CPlain (script [Do (EvTok (Some (7, 8)%N) None)]); CSetDX].
Definition noclear_call : call := CPlain (script [Do (EvTok (Some (7, 8)%N) None)]).

Lemma noclear_cache :
  result noclear 5 (run noclear 5 noclear_hist G0) noclear_call <> result noclear 5 (run noclear 5 (setters noclear_hist) G0) noclear_call.
Proof. vm_compute. discriminate. Qed.

(* the same witnesses are harmless in a well-bracketed tree *)
Example repaired_stash : result repaired 10 (run repaired 10 stash_hist G0) stash_call = [([ONone; OTok None], TRet)].
Proof. vm_compute. reflexivity. Qed.

Example repaired_flag : result repaired 10 (run repaired 10 flag_hist G0) flag_call = [([OFlag true 0], TRet)].
Proof. vm_compute. reflexivity. Qed.

Example repaired_settings :
  observable (run repaired 10 (flag_hist ++ captured_hist ++ combine_hist ++ reentrant_hist) G0) = (false, 0%N, 0%N, false, 0%N, 0%N).
Proof. vm_compute. reflexivity. Qed.

Example repaired_cache :
  result repaired 5 (run repaired 5 (cache_hist ++ noclear_hist) G0) cache_call = [([OCfg ((7, 9), 1)%N], TRet)] /\
  result repaired 5 (run repaired 5 (cache_hist ++ noclear_hist) G0) noclear_call = [([OCfg ((7, 8), 1)%N], TRet)] /\
  result repaired 5 (run repaired 5 (memo_hist) G0) memo_call = [([OSer 0 1 0 0 (Some 0%N)], TRet)].
Proof. vm_compute. repeat split. Qed.

(* non-vacuity: a history that leaks a token, raises in a parse, changes every setting, serialises with
   indentSpecificities on, fills the cache, parses re-entrantly (same parser, depth 2) -- and a call that
   reads every cell, from inside a callback too *)
Definition busy_hist : list call :=
  stash_hist ++ flag_hist ++ [CSetRaising false; CSetSer 3 5; CPlain (script [Do (EvSer 9 9); ExcInRule])] ++ combine_hist ++
  cache_hist ++ [CPlain (script [Do (EvTok None None)]); CSetDX; CSetProfile 6; CSetLog 4; CNewParser true None;
   CParse (Some 0%nat) (script [Do EvInit; Nest (CParse (Some 0%nat) (script [Do EvInit; Do (EvSave 5);
                                   Nest (CParse (Some 0%nat) (script [Do EvLog; Exc])); Ret])); Do EvPop; Exc])].
Definition busy_call : call :=
  CParse None (script [Do EvInit; Do EvPop; Do EvTake; Do EvLog; Do (EvSer 1 1); Do (EvSer 2 2); Do (EvTok None None);
                       Do (EvTok (Some (7, 1)%N) (Some 3%N)); Do EvProf;
                       Nest (CPlain (script [Do EvLog; Do EvInit; Do EvPop; Do (EvSer 4 4)])); Do EvLog]).

Example busy_ok : well_bracketed repaired = true /\
  result repaired 20 (run repaired 20 busy_hist G0) busy_call =
    [([ONone; OTok None; OTok None; OFlag false 4; OSer 3 5 0 0 (Some 0%N); OSer 3 5 0 1 (Some 1%N);
       OCfg ((0, 0), 1)%N; OCfg ((7, 1), 3)%N; OProf 6;
       ONest [([OFlag false 4; ONone; OTok None; OSer 3 5 0 0 (Some 0%N)], TRet)]; OFlag false 4], TRet)].
Proof. vm_compute. repeat split. Qed.
