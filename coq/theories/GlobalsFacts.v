(* GlobalsFacts.v -- proofs about Globals.v (C06) *)
From CssV Require Import Base Globals.

(* ------------------------------------------------------------------ the two halves of the state *)
Definition core (g : G) := (raising g, ser g, prefs g, level g, dx g, parsers g).
Definition mem (g : G) := (memo g, sellevel g).
(* equal up to the token stash and the push-back list *)
Definition eqv (g1 g2 : G) : Prop := core g1 = core g2 /\ mem g1 = mem g2.
(* before a call has constructed its first ProdParser the two runs agree up to the stash, afterwards exactly *)
Definition rel (i : bool) (g1 g2 : G) : Prop := if i then g1 = g2 else eqv g1 g2.

Lemma eqv_refl g : eqv g g.
Proof. split; reflexivity. Qed.

Lemma eqv_sym g1 g2 : eqv g1 g2 -> eqv g2 g1.
Proof. intros [A B]; split; congruence. Qed.

Lemma eqv_trans g1 g2 g3 : eqv g1 g2 -> eqv g2 g3 -> eqv g1 g3.
Proof. intros [A B] [C D]; split; congruence. Qed.

Lemma rel_eqv i g1 g2 : rel i g1 g2 -> eqv g1 g2.
Proof. destruct i; simpl; intros H; [subst; apply eqv_refl | exact H]. Qed.

Ltac fields H :=
  let Hc := fresh "Hc" in let Hm := fresh "Hm" in
  destruct H as [Hc Hm]; unfold core, mem in Hc, Hm; simpl in Hc, Hm;
  inversion Hc; inversion Hm; subst; clear Hc Hm.

Lemma wb_fields st : well_bracketed st = true ->
  parse_restores_normal st = true /\ parse_restores_exc st = true /\ parse_saves_at_entry st = true /\
  pp_clears_pushed st = true /\ pp_clears_saved st = true /\ comb_restores_normal st = true /\
  comb_restores_exc st = true /\ level_restored_exc st = true /\ memo_guarded st = true.
Proof.
  unfold well_bracketed. intros H.
  repeat (apply andb_true_iff in H; destruct H as [H ?]). repeat split; assumption.
Qed.

(* ------------------------------------------------------------------ one primitive event *)
Lemma do_ev_rel st i e g1 g2 :
  well_bracketed st = true -> rel i g1 g2 ->
  match do_ev st i e g1, do_ev st i e g2 with
  | None, None => True
  | Some (g1', o1, i1), Some (g2', o2, i2) => o1 = o2 /\ i1 = i2 /\ rel i1 g1' g2'
  | _, _ => False
  end.
Proof.
  intros Hwb Hrel. destruct i; simpl in Hrel.
  - subst g1. destruct (do_ev st true e g2) as [[[g' o] i']|]; auto. split; [reflexivity|]. split; [reflexivity|]. destruct i'; simpl; auto using eqv_refl.
  - apply wb_fields in Hwb as (_ & _ & _ & Hp & Hs & _ & _ & _ & Hm).
    destruct g1, g2. fields Hrel.
    destruct e; simpl; auto; unfold reads_memo; simpl; rewrite ?Hp, ?Hs, ?Hm; simpl.
    + repeat split.
    + repeat split.
    + destruct (indent_pref prefs0); simpl; repeat split.
    + repeat split.
Qed.

Lemma do_ev_frame st i e g g' o i' :
  well_bracketed st = true -> do_ev st i e g = Some (g', o, i') ->
  core g' = core g /\ (indent_pref (prefs g) = false -> mem g' = mem g).
Proof.
  intros Hwb. apply wb_fields in Hwb as (_ & _ & _ & _ & _ & _ & _ & _ & Hm).
  destruct g. destruct e; simpl; unfold reads_memo; simpl; rewrite ?Hm; simpl;
    try (destruct i; intros H; inversion H; subst; clear H; simpl; split; auto; fail).
  destruct (indent_pref prefs) eqn:E; simpl; intros H; inversion H; subst; clear H; simpl; split; auto; discriminate.
Qed.

Lemma wb_in_frame st : well_bracketed st = true -> parse_saved_in_frame st = true.
Proof.
  unfold well_bracketed. intros H.
  repeat (apply andb_true_iff in H; destruct H as [H ?]). assumption.
Qed.

(* ------------------------------------------------------------------ setters of single cells *)
Lemma eqv_set_raising b g1 g2 : eqv g1 g2 -> eqv (set_raising b g1) (set_raising b g2).
Proof. intros H. destruct g1, g2. fields H. split; reflexivity. Qed.

Lemma eqv_set_ser i p lv m sl g1 g2 : eqv g1 g2 -> eqv (set_ser i p lv m sl g1) (set_ser i p lv m sl g2).
Proof. intros H. destruct g1, g2. fields H. split; reflexivity. Qed.

Lemma core_set_raising b g : core (set_raising b g) = (b, ser g, prefs g, level g, dx g, parsers g).
Proof. reflexivity. Qed.

(* ------------------------------------------------------------------ the parse bracket, for any way [ex] of running its body *)
Definition ex_rel (ex : G -> G * (list obs * term)) : Prop :=
  forall a1 a2, eqv a1 a2 -> snd (ex a1) = snd (ex a2) /\ eqv (fst (ex a1)) (fst (ex a2)).
Definition ex_frame (ex : G -> G * (list obs * term)) : Prop :=
  forall a, core (fst (ex a)) = core a /\ (indent_pref (prefs a) = false -> mem (fst (ex a)) = mem a).

Lemma parse_bracket_rel st who praise ex g1 g2 :
  well_bracketed st = true -> ex_rel ex -> eqv g1 g2 ->
  snd (parse_bracket st who praise ex g1) = snd (parse_bracket st who praise ex g2) /\
  eqv (fst (parse_bracket st who praise ex g1)) (fst (parse_bracket st who praise ex g2)).
Proof.
  intros Hwb Hex H. unfold parse_bracket.
  pose proof (wb_fields st Hwb) as (_ & _ & Hs & _). pose proof (wb_in_frame st Hwb) as Hf.
  rewrite Hs, Hf. simpl.
  assert (raising g1 = raising g2) as Hr by (destruct H as [Hc _]; unfold core in Hc; inversion Hc; auto).
  rewrite Hr.
  set (a1 := if parse_sets_flag st then set_raising praise (match who with Some _ => g1 | None => g1 end)
             else match who with Some _ => g1 | None => g1 end).
  set (a2 := if parse_sets_flag st then set_raising praise (match who with Some _ => g2 | None => g2 end)
             else match who with Some _ => g2 | None => g2 end).
  assert (eqv a1 a2) as Ha.
  { subst a1 a2. destruct who; destruct (parse_sets_flag st); auto using eqv_set_raising. }
  destruct (Hex a1 a2 Ha) as [Hsn He].
  destruct (ex a1) as [x1 r1], (ex a2) as [x2 r2]. simpl in Hsn, He. subst r2. simpl. split; auto.
  destruct (if is_ret (snd r1) then parse_restores_normal st else parse_restores_exc st);
    auto using eqv_set_raising.
Qed.

Lemma parse_bracket_frame st who praise ex g :
  well_bracketed st = true -> ex_frame ex ->
  core (fst (parse_bracket st who praise ex g)) = core g /\
  (indent_pref (prefs g) = false -> mem (fst (parse_bracket st who praise ex g)) = mem g).
Proof.
  intros Hwb Hex. pose proof (wb_fields st Hwb) as (Hn & Hx & Hs & _). pose proof (wb_in_frame st Hwb) as Hf.
  unfold parse_bracket. rewrite Hs, Hf. simpl.
  set (a := if parse_sets_flag st then set_raising praise (match who with Some _ => g | None => g end)
            else match who with Some _ => g | None => g end).
  destruct (Hex a) as [Hc Hm].
  destruct (ex a) as [x r]. simpl in *.
  assert (Hrest : (if is_ret (snd r) then parse_restores_normal st else parse_restores_exc st) = true)
    by (destruct (is_ret (snd r)); auto).
  rewrite Hrest.
  assert (core a = (raising a, ser g, prefs g, level g, dx g, parsers g) /\ mem a = mem g) as [Ha Ha'].
  { subst a. destruct who; destruct (parse_sets_flag st); destruct g; split; reflexivity. }
  split.
  - rewrite core_set_raising. unfold core in Hc, Ha. rewrite Ha in Hc. inversion Hc. unfold core. congruence.
  - intros Hp. assert (indent_pref (prefs a) = false) as Hp'.
    { unfold core in Ha. inversion Ha. congruence. }
    destruct x. unfold mem in *. simpl in *. rewrite <- Ha'. auto.
Qed.

(* ------------------------------------------------------------------ bodies and calls, nested to any depth *)
(* two runs in lock-step *)
Lemma sim st : well_bracketed st = true -> forall fuel,
  (forall b i os g1 g2, rel i g1 g2 ->
     snd (exec st fuel b i os g1) = snd (exec st fuel b i os g2) /\
     eqv (fst (exec st fuel b i os g1)) (fst (exec st fuel b i os g2))) /\
  (forall c g1 g2, eqv g1 g2 ->
     snd (step st fuel c g1) = snd (step st fuel c g2) /\
     eqv (fst (step st fuel c g1)) (fst (step st fuel c g2))).
Proof.
  intros Hwb. pose proof (wb_fields st Hwb) as (_ & _ & _ & _ & _ & _ & _ & Hl & _).
  induction fuel as [|f [IHe IHs]].
  - split; intros; simpl; split; auto. eapply rel_eqv; eauto.
  - assert (Hexrel : forall b, ex_rel (exec st f b false [])) by (intros b a1 a2 Ha; apply IHe; exact Ha).
    split.
    + intros b i os g1 g2 Hrel. simpl.
      destruct (b os) as [e| | | |c].
      * pose proof (do_ev_rel st i e g1 g2 Hwb Hrel) as H.
        destruct (do_ev st i e g1) as [[[g1' o1] i1]|], (do_ev st i e g2) as [[[g2' o2] i2]|]; try contradiction.
        -- destruct H as (-> & -> & H). apply IHe; assumption.
        -- simpl. split; [reflexivity | eapply rel_eqv; eauto].
      * simpl. split; [reflexivity | eapply rel_eqv; eauto].
      * simpl. split; [reflexivity | eapply rel_eqv; eauto].
      * rewrite Hl. simpl. split; [reflexivity | eapply rel_eqv; eauto].
      * destruct (is_setter c); [simpl; split; [reflexivity | eapply rel_eqv; eauto]|].
        destruct i; simpl in Hrel.
        -- subst g1. destruct (step st f c g2) as [g' r]. apply IHe. reflexivity.
        -- destruct (IHs c g1 g2 Hrel) as [A B].
           destruct (step st f c g1) as [x1 r1], (step st f c g2) as [x2 r2]. simpl in A, B. subst r2.
           apply IHe. exact B.
    + intros c g1 g2 H. simpl.
      assert (Hcore : core g1 = core g2) by (destruct H; auto).
      assert (raising g1 = raising g2 /\ parsers g1 = parsers g2) as [Hr Hps]
        by (unfold core in Hcore; inversion Hcore; auto).
      destruct c as [b|i p|p| |praise|who b|fresh fp b1 bm b2|b]; simpl.
      * split; auto using eqv_set_raising.
      * split; auto using eqv_set_ser.
      * split; auto. destruct g1, g2. fields H. split; reflexivity.
      * split; auto. destruct g1, g2. fields H. split; reflexivity.
      * split; auto. destruct g1, g2. fields H. split; reflexivity.
      * destruct who as [n|].
        -- rewrite Hps. destruct (nth_error (parsers g2) n) as [p|]; simpl; auto.
           destruct (parse_bracket_rel st (Some n) (snd p) _ g1 g2 Hwb (Hexrel b) H) as [A B].
           destruct (parse_bracket st (Some n) (snd p) (exec st f b false []) g1),
                    (parse_bracket st (Some n) (snd p) (exec st f b false []) g2). simpl in *. subst. auto.
        -- destruct (parse_bracket_rel st None false _ g1 g2 Hwb (Hexrel b) H) as [A B].
           destruct (parse_bracket st None false (exec st f b false []) g1),
                    (parse_bracket st None false (exec st f b false []) g2). simpl in *. subst. auto.
      * destruct (parse_bracket_rel st None false _ g1 g2 Hwb (Hexrel b1) H) as [A B].
        destruct (parse_bracket st None false (exec st f b1 false []) g1) as [x1 r1],
                 (parse_bracket st None false (exec st f b1 false []) g2) as [x2 r2].
        simpl in A, B. subst r2.
        destruct (negb (is_ret (snd r1))); simpl; auto.
        destruct (IHe bm false [] x1 x2 B) as [A2 B2].
        destruct (exec st f bm false [] x1) as [y1 rm1], (exec st f bm false [] x2) as [y2 rm2].
        simpl in A2, B2. subst rm2.
        destruct (negb (is_ret (snd rm1))); simpl; auto.
        assert (rel false (set_ser fresh fp 0 0 0 y1) (set_ser fresh fp 0 0 0 y2)) as B3
          by (simpl; auto using eqv_set_ser).
        destruct (IHe b2 false [] _ _ B3) as [A4 B4].
        destruct (exec st f b2 false [] (set_ser fresh fp 0 0 0 y1)) as [z1 q1],
                 (exec st f b2 false [] (set_ser fresh fp 0 0 0 y2)) as [z2 q2].
        simpl in A4, B4. subst q2. simpl. split; auto.
        destruct (if is_ret (snd q1) then comb_restores_normal st else comb_restores_exc st); auto.
        destruct y1, y2. fields B2. simpl. apply eqv_set_ser. assumption.
      * destruct (IHe b false [] g1 g2 H) as [A B].
        destruct (exec st f b false [] g1), (exec st f b false [] g2). simpl in *. subst. auto.
Qed.

Lemma step_rel st fuel c g1 g2 :
  well_bracketed st = true -> eqv g1 g2 ->
  snd (step st fuel c g1) = snd (step st fuel c g2) /\ eqv (fst (step st fuel c g1)) (fst (step st fuel c g2)).
Proof. intros Hwb. apply (sim st Hwb fuel). Qed.

(* a body, and a call that is not one of the caller's own settings, leave every cell but the stash as
   they found it (the selector memo: as long as indentSpecificities is off) -- nested calls included *)
Lemma frame st : well_bracketed st = true -> forall fuel,
  (forall b i os g,
     core (fst (exec st fuel b i os g)) = core g /\
     (indent_pref (prefs g) = false -> mem (fst (exec st fuel b i os g)) = mem g)) /\
  (forall c g, is_setter c = false ->
     core (fst (step st fuel c g)) = core g /\
     (indent_pref (prefs g) = false -> mem (fst (step st fuel c g)) = mem g)).
Proof.
  intros Hwb. pose proof (wb_fields st Hwb) as (_ & _ & _ & _ & _ & Hcn & Hcx & Hl & _).
  assert (chain : forall g g' g'' : G,
             core g' = core g /\ (indent_pref (prefs g) = false -> mem g' = mem g) ->
             core g'' = core g' /\ (indent_pref (prefs g') = false -> mem g'' = mem g') ->
             core g'' = core g /\ (indent_pref (prefs g) = false -> mem g'' = mem g)).
  { intros g g' g'' [A B] [C D]. split; [congruence|]. intros Hp.
    assert (indent_pref (prefs g') = false) by (unfold core in A; inversion A; congruence).
    rewrite D; auto. }
  induction fuel as [|f [IHe IHs]].
  - split; intros; simpl; auto.
  - assert (Hexf : forall b, ex_frame (exec st f b false [])) by (intros b a; apply IHe).
    split.
    + intros b i os g. simpl.
      destruct (b os) as [e| | | |c]; simpl; auto.
      * destruct (do_ev st i e g) as [[[g' o] i']|] eqn:E; simpl; auto.
        eapply chain; [exact (do_ev_frame _ _ _ _ _ _ _ Hwb E) | apply IHe].
      * rewrite Hl. simpl. auto.
      * destruct (is_setter c) eqn:Es; simpl; auto.
        pose proof (IHs c g Es) as F. destruct (step st f c g) as [g' r]. simpl in F.
        eapply chain; [exact F | apply IHe].
    + intros c g Hc. simpl.
      destruct c as [b|i p|p| |praise|who b|fresh fp b1 bm b2|b]; simpl in Hc; try discriminate.
      * destruct who as [n|].
        -- destruct (nth_error (parsers g) n) as [p|]; simpl; auto.
           pose proof (parse_bracket_frame st (Some n) (snd p) _ g Hwb (Hexf b)) as F.
           destruct (parse_bracket st (Some n) (snd p) (exec st f b false []) g). exact F.
        -- pose proof (parse_bracket_frame st None false _ g Hwb (Hexf b)) as F.
           destruct (parse_bracket st None false (exec st f b false []) g). exact F.
      * pose proof (parse_bracket_frame st None false _ g Hwb (Hexf b1)) as F1.
        destruct (parse_bracket st None false (exec st f b1 false []) g) as [x r1]. simpl in F1.
        destruct (negb (is_ret (snd r1))); simpl; auto.
        pose proof (IHe bm false [] x) as F2.
        destruct (exec st f bm false [] x) as [y rm]. simpl in F2.
        pose proof (chain _ _ _ F1 F2) as [Fy My].
        destruct (negb (is_ret (snd rm))); simpl; auto.
        destruct (IHe b2 false [] (set_ser fresh fp 0 0 0 y)) as [F3 _].
        destruct (exec st f b2 false [] (set_ser fresh fp 0 0 0 y)) as [z q]. simpl in F3.
        assert (Hrest : (if is_ret (snd q) then comb_restores_normal st else comb_restores_exc st) = true)
          by (destruct (is_ret (snd q)); auto).
        rewrite Hrest. destruct y, z. unfold core, mem in *. simpl in *. inversion F3; subst. split; auto.
      * pose proof (IHe b false [] g) as F.
        destruct (exec st f b false [] g). exact F.
Qed.

Lemma step_frame st fuel c g :
  well_bracketed st = true -> is_setter c = false ->
  core (fst (step st fuel c g)) = core g /\
  (indent_pref (prefs g) = false -> mem (fst (step st fuel c g)) = mem g).
Proof. intros Hwb. apply (frame st Hwb fuel). Qed.

(* ------------------------------------------------------------------ histories *)
Lemma run_cons st fuel c hist g : run st fuel (c :: hist) g = run st fuel hist (fst (step st fuel c g)).
Proof. reflexivity. Qed.

Lemma run_app st fuel h1 h2 g : run st fuel (h1 ++ h2) g = run st fuel h2 (run st fuel h1 g).
Proof. unfold run. apply fold_left_app. Qed.

Lemma setter_keeps_no_indent st fuel c g :
  is_setter c = true -> no_indent_call c = true -> indent_pref (prefs g) = false ->
  indent_pref (prefs (fst (step st fuel c g))) = false.
Proof.
  destruct fuel; [simpl; auto|].
  destruct c; simpl; try discriminate; intros _ Hn Hp; auto.
  - apply negb_true_iff in Hn. exact Hn.
  - apply negb_true_iff in Hn. exact Hn.
Qed.

Lemma run_eqv st fuel : well_bracketed st = true ->
  forall hist g1 g2, eqv g1 g2 -> no_indent hist = true -> indent_pref (prefs g1) = false ->
    eqv (run st fuel hist g1) (run st fuel (setters hist) g2).
Proof.
  intros Hwb. induction hist as [|c hist IH]; intros g1 g2 H Hn Hp; [simpl; auto|].
  simpl in Hn. apply andb_true_iff in Hn as [Hn1 Hn2].
  change (setters (c :: hist)) with (if is_setter c then c :: setters hist else setters hist).
  rewrite run_cons. destruct (is_setter c) eqn:Es.
  - rewrite run_cons. apply IH; auto.
    + apply (step_rel st fuel c g1 g2 Hwb H).
    + apply setter_keeps_no_indent; auto.
  - destruct (step_frame st fuel c g1 Hwb Es) as [Fc Fm]. apply IH; auto.
    + apply eqv_trans with g1; auto. split; auto.
    + unfold core in Fc. inversion Fc. congruence.
Qed.

(* C06, first half, for any well-bracketed tree; calls may nest (callbacks) to any depth *)
Theorem history_independent_gen st : well_bracketed st = true ->
  forall fuel hist c, no_indent hist = true ->
    result st fuel (run st fuel hist G0) c = result st fuel (run st fuel (setters hist) G0) c.
Proof.
  intros Hwb fuel hist c Hn. unfold result.
  apply (step_rel st fuel c _ _ Hwb). apply run_eqv; auto using eqv_refl.
Qed.

Corollary history_independent_nosetters st : well_bracketed st = true ->
  forall fuel hist c, setters hist = [] -> no_indent hist = true ->
    result st fuel (run st fuel hist G0) c = result st fuel (run st fuel [] G0) c.
Proof. intros Hwb fuel hist c Hs Hn. rewrite (history_independent_gen st Hwb fuel hist c Hn), Hs. reflexivity. Qed.

Lemma observable_step st fuel c g : well_bracketed st = true -> fuel <> O ->
  observable (fst (step st fuel c g)) = set_by (observable g) c.
Proof.
  intros Hwb Hf. destruct (is_setter c) eqn:Es.
  - destruct fuel; [congruence|]. destruct c; simpl in Es; try discriminate; destruct g; reflexivity.
  - destruct (step_frame st fuel c g Hwb Es) as [Fc _].
    unfold observable. unfold core in Fc. inversion Fc.
    destruct c; simpl in Es; try discriminate; simpl; congruence.
Qed.

(* C06, second half, for any well-bracketed tree (fuel 0 runs nothing, not even the caller's settings) *)
Theorem caller_settings_stable_gen st : well_bracketed st = true ->
  forall fuel hist, fuel <> O -> observable (run st fuel hist G0) = last_set_by_caller hist.
Proof.
  intros Hwb fuel hist Hf. unfold last_set_by_caller. generalize G0.
  induction hist as [|c hist IH]; intros g; [reflexivity|].
  rewrite run_cons.
  change (fold_left set_by (c :: hist) (observable g)) with (fold_left set_by hist (set_by (observable g) c)).
  rewrite <- (observable_step st fuel c g Hwb Hf). apply IH.
Qed.

(* the selector memo of the experimental indentSpecificities preference is never reset: with the
   preference on, a serialisation sees what earlier serialisations left -- in every tree *)
Definition memo_hist : list call := [CSetPrefs 1; CPlain (script [Do (EvSer 1 0)])].
Definition memo_call : call := CPlain (script [Do (EvSer 2 1)]).

Theorem memo_dependent st :
  result st 5 (run st 5 memo_hist G0) memo_call <> result st 5 (run st 5 (setters memo_hist) G0) memo_call.
Proof.
  unfold result, memo_hist, memo_call. simpl. unfold reads_memo. simpl. discriminate.
Qed.

(* ------------------------------------------------------------------ the pinned tree *)
(* (i)  MediaQuery('print x') = [ProdParser(); pop; ...; savedTokens.append(x)], then parseStyle *)
Definition stash_hist : list call := [CPlain (script [Do EvInit; Do EvPop; Do (EvSave 120)])].
Definition stash_call : call := CParse None (script [Do EvInit; Do EvPop]).
(* (ii) parseString(b'@charset "ascii"; \xff') raises in the codec; then any DOM operation that logs an error *)
Definition flag_hist : list call := [CParse None (script [Exc])].
Definition flag_call : call := CPlain (script [Do EvLog]).
(* (ii') p = CSSParser(); log.raiseExceptions = False; p.parseString('a{}') *)
Definition captured_hist : list call := [CNewParser false; CSetRaising false; CParse (Some 0%nat) (script [Ret])].
(* (iii) csscombine(cssText='a{color:red}', targetencoding='undefined') raises while serialising *)
Definition combine_hist : list call := [CCombine 7 2 (script [Ret]) (script [Ret]) (script [Do (EvSer 0 0); Exc])].

Lemma pinned_stash : result pinned 10 (run pinned 10 stash_hist G0) stash_call <> result pinned 10 (run pinned 10 (setters stash_hist) G0) stash_call.
Proof. vm_compute. discriminate. Qed.

Lemma pinned_flag : result pinned 10 (run pinned 10 flag_hist G0) flag_call <> result pinned 10 (run pinned 10 (setters flag_hist) G0) flag_call.
Proof. vm_compute. discriminate. Qed.

Lemma pinned_flag_settings : observable (run pinned 10 flag_hist G0) <> last_set_by_caller flag_hist.
Proof. vm_compute. discriminate. Qed.

Lemma pinned_captured_settings : observable (run pinned 10 captured_hist G0) <> last_set_by_caller captured_hist.
Proof. vm_compute. discriminate. Qed.

Lemma pinned_combine_settings : observable (run pinned 10 combine_hist G0) <> last_set_by_caller combine_hist.
Proof. vm_compute. discriminate. Qed.

(* ------------------------------------------------------------------ a tree that keeps the saved flag on the parser object *)
(* every bracket complete, value read at parse entry -- but stored in self.__globalRaising instead of the
   frame of the running parse (seeded regression C06-2).  Sequential use is fine; a fetcher that parses
   with the same parser while the outer parse resolves an @import overwrites the slot: *)
Definition onself : sites := mkSites true true true true false true true true true true true.
Definition reentrant_hist : list call :=
  [CNewParser false; CParse (Some 0%nat) (script [Nest (CParse (Some 0%nat) (script [Ret])); Ret])].

Lemma onself_reentrant_settings : observable (run onself 10 reentrant_hist G0) <> last_set_by_caller reentrant_hist.
Proof. vm_compute. discriminate. Qed.

Lemma onself_reentrant_result :
  result onself 10 (run onself 10 reentrant_hist G0) flag_call <> result onself 10 (run onself 10 (setters reentrant_hist) G0) flag_call.
Proof. vm_compute. discriminate. Qed.

(* nesting on ANOTHER parser object, or sequential parses on the same one, do not show it *)
Example onself_other_parser_ok :
  observable (run onself 10 [CNewParser false; CNewParser false;
                             CParse (Some 0%nat) (script [Nest (CParse (Some 1%nat) (script [Ret])); Ret]);
                             CParse (Some 0%nat) (script [Ret])] G0) = observable G0.
Proof. vm_compute. reflexivity. Qed.

(* the same witnesses are harmless in a well-bracketed tree *)
Definition repaired : sites := mkSites true true true true true true true true true true true.

Example repaired_stash : result repaired 10 (run repaired 10 stash_hist G0) stash_call = [([ONone; OTok None], TRet)].
Proof. vm_compute. reflexivity. Qed.

Example repaired_flag : result repaired 10 (run repaired 10 flag_hist G0) flag_call = [([OFlag true], TRet)].
Proof. vm_compute. reflexivity. Qed.

Example repaired_settings :
  observable (run repaired 10 (flag_hist ++ captured_hist ++ combine_hist ++ reentrant_hist) G0) = (false, 0%N, 0%N, false).
Proof. vm_compute. reflexivity. Qed.

(* non-vacuity of the hypotheses of history_independent_gen: a history that leaks a token, raises in a
   parse, changes settings, serialises, parses re-entrantly (same parser, depth 2) -- and a call that
   reads every cell, from inside a callback too *)
Definition busy_hist : list call :=
  stash_hist ++ flag_hist ++ [CSetRaising false; CSetSer 3 4; CPlain (script [Do (EvSer 9 9); ExcInRule])] ++ combine_hist ++
  [CSetDX; CNewParser true;
   CParse (Some 0%nat) (script [Do EvInit; Nest (CParse (Some 0%nat) (script [Do EvInit; Do (EvSave 5);
                                   Nest (CParse (Some 0%nat) (script [Do EvLog; Exc])); Ret])); Do EvPop; Exc])].
Definition busy_call : call :=
  CParse None (script [Do EvInit; Do EvPop; Do EvTake; Do EvLog; Do (EvSer 1 1); Do EvTok;
                       Nest (CPlain (script [Do EvLog; Do EvInit; Do EvPop])); Do EvLog]).

Example busy_ok : well_bracketed repaired = true /\ no_indent busy_hist = true /\
  result repaired 20 (run repaired 20 busy_hist G0) busy_call =
    [([ONone; OTok None; OTok None; OFlag false; OSer 3 4 0 0 None; ODx true;
       ONest [([OFlag false; ONone; OTok None], TRet)]; OFlag false], TRet)].
Proof. vm_compute. repeat split. Qed.
