(* NumbersFacts.v -- proofs about Numbers.v (C17): printing and reading digits, the split of a rendered lexeme,
   _strip_zeros and the leading-zero surgery on rendered lexemes, rounding, and the round-trip theorems.      *)
From Coq Require Import QArith Qabs Qround Qpower Lqa Lia.
From CssV Require Import Base Regex Gen.NumConsts Numbers.
Local Open Scope Z_scope.

(* ------------------------------------------------------------------ digits *)
Definition all_digits (t : str) : Prop := Forall (fun c => is_digit c = true) t.

Lemma digits_from_app a x y : digits_from a (x ++ y) = digits_from (digits_from a x) y.
Proof. unfold digits_from. apply fold_left_app. Qed.

Lemma is_digit_val c : is_digit c = true -> 0 <= digit_val c <= 9.
Proof. unfold is_digit, digit_val. rewrite andb_true_iff, !N.leb_le. lia. Qed.

Lemma digit_chr d : (d < 10)%N -> is_digit (48 + d) = true /\ digit_val (48 + d) = Z.of_N d.
Proof. intros H. unfold is_digit, digit_val. rewrite andb_true_iff, !N.leb_le. lia. Qed.

(* value of what print_fuel produces, relative to an accumulator that already holds lower digits:
   reading [print_fuel fuel n acc] from a = reading acc from (a * 10^digits(n) + n); stated with a = 0 *)
Lemma print_fuel_spec fuel : forall n acc,
  (n < 2 ^ N.of_nat fuel)%N ->
  digits_from 0 (print_fuel fuel n acc) = digits_from (Z.of_N n) acc.
Proof.
  induction fuel as [|f IH]; intros n acc Hn.
  - simpl in Hn. assert (n = 0%N) by lia. subst. reflexivity.
  - cbn [print_fuel]. destruct (N.ltb_spec n 10) as [Hlt|Hge].
    + unfold digits_from at 1. cbn [fold_left]. unfold dstep at 2.
      rewrite N.mod_small by lia. destruct (digit_chr n Hlt) as [_ ->]. reflexivity.
    + rewrite IH.
      * unfold digits_from. cbn [fold_left]. f_equal. unfold dstep.
        assert (Hm : (n mod 10 < 10)%N) by (apply N.mod_lt; lia).
        destruct (digit_chr _ Hm) as [_ ->].
        rewrite (N.div_mod n 10) at 3 by lia. lia.
      * rewrite Nat2N.inj_succ, N.pow_succ_r' in Hn.
        apply N.div_lt_upper_bound; lia.
Qed.

Lemma print_fuel_digits fuel : forall n acc, all_digits acc -> all_digits (print_fuel fuel n acc).
Proof.
  induction fuel as [|f IH]; intros n acc Ha; cbn [print_fuel]; auto.
  assert (Hm : (n mod 10 < 10)%N) by (apply N.mod_lt; lia).
  destruct (digit_chr _ Hm) as [Hd _].
  destruct (n <? 10)%N; [|apply IH]; constructor; auto.
Qed.

Lemma print_fuel_nonempty fuel : forall n acc, print_fuel (S fuel) n acc <> [].
Proof.
  induction fuel as [|f IH]; intros n acc; cbn [print_fuel].
  - destruct (n <? 10)%N; discriminate.
  - destruct (n <? 10)%N; [discriminate|]. apply IH.
Qed.

Lemma print_N_val n : digits_val (print_N n) = Z.of_N n.
Proof.
  unfold digits_val, print_N. rewrite print_fuel_spec; [reflexivity|].
  rewrite Nat2N.inj_succ, N2Nat.id.
  destruct n as [|p]; [reflexivity|]. apply N.log2_spec. lia.
Qed.
Lemma print_N_digits n : all_digits (print_N n).
Proof. apply print_fuel_digits. constructor. Qed.
Lemma print_N_nonempty n : print_N n <> [].
Proof. apply print_fuel_nonempty. Qed.

Lemma fixed_digits_spec k : forall x a,
  digits_from a (fixed_digits k x) = a * 10 ^ Z.of_nat k + Z.of_N (x mod 10 ^ N.of_nat k).
Proof.
  induction k as [|k IH]; intros x a.
  - cbn. rewrite N.mod_1_r. lia.
  - cbn [fixed_digits]. rewrite digits_from_app, IH. unfold digits_from. cbn [fold_left]. unfold dstep.
    assert (Hm : (x mod 10 < 10)%N) by (apply N.mod_lt; lia).
    destruct (digit_chr _ Hm) as [_ ->].
    rewrite Nat2Z.inj_succ, Z.pow_succ_r by lia.
    rewrite Nat2N.inj_succ, N.pow_succ_r'.
    rewrite (N.mod_mul_r x 10 (10 ^ N.of_nat k)) by (try apply N.pow_nonzero; lia). lia.
Qed.
Lemma fixed_digits_digits k : forall x, all_digits (fixed_digits k x).
Proof.
  induction k as [|k IH]; intros x; cbn [fixed_digits]; [constructor|].
  apply Forall_app. split; [apply IH|].
  assert (Hm : (x mod 10 < 10)%N) by (apply N.mod_lt; lia).
  destruct (digit_chr _ Hm) as [Hd _]. constructor; auto.
Qed.
Lemma fixed_digits_length k : forall x, length (fixed_digits k x) = k.
Proof. induction k as [|k IH]; intros x; cbn [fixed_digits]; [reflexivity|]. rewrite app_length, IH. simpl. lia. Qed.

Lemma pow10_spec k : Zpos (pow10 k) = 10 ^ Z.of_nat k.
Proof.
  induction k as [|k IH]; [reflexivity|].
  cbn [pow10]. rewrite Pos2Z.inj_mul, IH, Nat2Z.inj_succ, Z.pow_succ_r by lia. reflexivity.
Qed.

(* ------------------------------------------------------------------ the split of a rendered lexeme *)
Definition unit_ok (u : str) : Prop :=
  match u with [] => True | c :: _ => is_digit c = false /\ c <> 46%N end.
Definition wf (lx : lexeme) : Prop :=
  all_digits (lint lx) /\ unit_ok (lunit lx) /\
  match lfrac lx with
  | Some f => f <> [] /\ all_digits f
  | None => lint lx <> []
  end.

Lemma span_digits_app ds t :
  all_digits ds -> match t with [] => True | c :: _ => is_digit c = false end ->
  span_digits (ds ++ t) = (ds, t).
Proof.
  intros Hd Ht. induction Hd as [|c ds Hc _ IH]; cbn [app span_digits].
  - destruct t as [|c r]; [reflexivity|]. cbn [span_digits]. rewrite Ht. reflexivity.
  - rewrite Hc, IH. reflexivity.
Qed.

Lemma digit_not c : is_digit c = true -> c <> 43%N /\ c <> 45%N /\ c <> 46%N.
Proof. unfold is_digit. rewrite andb_true_iff, !N.leb_le. lia. Qed.

Lemma take_sign_render sg t :
  match t with [] => True | c :: _ => c <> 43%N /\ c <> 45%N end ->
  take_sign (sign_str sg ++ t) = (sg, t).
Proof.
  intros Ht. destruct sg; [|reflexivity|reflexivity].
  destruct t as [|c r]; [reflexivity|]. destruct Ht as [H1 H2].
  apply N.eqb_neq in H1, H2. cbn. rewrite H1, H2. reflexivity.
Qed.

Theorem split_render lx : wf lx -> split_num (render lx) = Some lx.
Proof.
  destruct lx as [sg ip fp u]. unfold wf, render. cbn [lsign lint lfrac lunit].
  intros (Hip & Hu & Hf).
  unfold split_num.
  assert (Hts : take_sign (sign_str sg ++ ip ++ frac_str fp ++ u) = (sg, ip ++ frac_str fp ++ u)).
  { apply take_sign_render. destruct ip as [|c r]; cbn.
    - destruct fp as [f|]; cbn; [split; discriminate|]. destruct Hf. reflexivity.
    - inversion Hip; subst. destruct (digit_not c) as (? & ? & ?); auto. }
  rewrite Hts. cbn [fst snd].
  destruct fp as [f|]; cbn [frac_str].
  - destruct Hf as [Hne Hfd].
    rewrite <- app_comm_cons. rewrite (span_digits_app ip (46%N :: f ++ u)); [|assumption|reflexivity].
    cbn [fst snd]. rewrite N.eqb_refl.
    rewrite (span_digits_app f u); [|assumption|].
    + cbn [fst snd]. destruct f; [congruence|reflexivity].
    + destruct u; [exact I|]. apply Hu.
  - cbn [app]. rewrite (span_digits_app ip u); [|assumption|].
    + cbn [fst snd]. destruct ip as [|c r]; [congruence|].
      destruct u as [|c' u']; [reflexivity|]. destruct Hu as [_ Hu].
      apply N.eqb_neq in Hu. rewrite Hu. reflexivity.
    + destruct u; [exact I|]. apply Hu.
Qed.

(* ------------------------------------------------------------------ _strip_zeros and the leading-zero surgery *)
Lemma index_of_notin c a r : ~ In c a -> index_of c (a ++ c :: r) = Some (length a).
Proof.
  induction a as [|x a IH]; intros Hn; cbn [app index_of length].
  - rewrite N.eqb_refl. reflexivity.
  - destruct (N.eqb_spec x c) as [->|Hne]; [exfalso; apply Hn; now left|].
    rewrite IH; [reflexivity|]. intros Hin. apply Hn. now right.
Qed.

Lemma repeat_snoc {A} (x : A) k : repeat x k ++ [x] = x :: repeat x k.
Proof. induction k as [|k IH]; [reflexivity|]. cbn. rewrite IH. reflexivity. Qed.
Lemma rev_repeat' {A} (x : A) k : rev (repeat x k) = repeat x k.
Proof. induction k as [|k IH]; [reflexivity|]. cbn. rewrite IH. apply repeat_snoc. Qed.

Lemma dropwhile_eq_spec c t : exists k, t = repeat c k ++ dropwhile_eq c t.
Proof.
  induction t as [|x t [k IH]]; [exists O; reflexivity|].
  cbn [dropwhile_eq]. destruct (N.eqb_spec x c) as [->|Hne].
  - exists (S k). cbn. congruence.
  - exists O. reflexivity.
Qed.
Lemma rstrip_spec c t : exists k, t = rstrip c t ++ repeat c k.
Proof.
  unfold rstrip. destruct (dropwhile_eq_spec c (rev t)) as [k Hk]. exists k.
  rewrite <- (rev_involutive t) at 1. rewrite Hk at 1. rewrite rev_app_distr, rev_repeat'. reflexivity.
Qed.

Lemma strip_zeros_shape a d rest :
  ~ In 46%N a -> strip_zeros (a ++ 46%N :: d :: rest) = Some (a ++ 46%N :: d :: rstrip 48%N rest).
Proof.
  intros Hn. unfold strip_zeros. change sz_point with 46%N. change sz_keep with 2%nat. change sz_strip with 48%N.
  rewrite index_of_notin by assumption.
  assert (E : a ++ 46%N :: d :: rest = (a ++ [46%N; d]) ++ rest) by (rewrite <- app_assoc; reflexivity).
  rewrite E. assert (L : (length a + 2)%nat = length (a ++ [46%N; d])) by (rewrite app_length; reflexivity).
  rewrite L. rewrite firstn_app, Nat.sub_diag, firstn_all, skipn_app, Nat.sub_diag, skipn_all. cbn [firstn skipn app].
  rewrite app_nil_r. rewrite <- !app_assoc. reflexivity.
Qed.

Definition drop0 (ip : str) : str :=
  match ip with [c] => if N.eqb c 48 then [] else ip | _ => ip end.

Lemma strip_lead0_plain ip fp :
  all_digits ip -> ip <> [] -> strip_lead0 (ip ++ 46%N :: fp) = drop0 ip ++ 46%N :: fp.
Proof.
  intros Hd Hne. unfold strip_lead0. change olz_neg_prefix with [45%N; 48%N; 46%N]. change olz_pos_prefix with [48%N; 46%N].
  destruct ip as [|c r]; [congruence|]. inversion Hd as [|? ? Hc Hr]; subst.
  destruct (digit_not c Hc) as (_ & H45 & _).
  cbn [app starts]. apply N.eqb_neq in H45. rewrite N.eqb_sym in H45. rewrite H45. cbn [andb].
  destruct r as [|c2 r].
  - cbn [app starts drop0]. rewrite N.eqb_sym. destruct (N.eqb c 48); cbn; reflexivity.
  - inversion Hr as [|? ? Hc2 _]; subst. destruct (digit_not c2 Hc2) as (_ & _ & H46).
    apply N.eqb_neq in H46. rewrite N.eqb_sym in H46. cbn [app starts drop0]. rewrite H46.
    rewrite andb_false_r. reflexivity.
Qed.
Lemma strip_lead0_minus ip fp :
  all_digits ip -> ip <> [] -> strip_lead0 (45%N :: ip ++ 46%N :: fp) = 45%N :: drop0 ip ++ 46%N :: fp.
Proof.
  intros Hd Hne. unfold strip_lead0. change olz_neg_prefix with [45%N; 48%N; 46%N]. change olz_pos_prefix with [48%N; 46%N].
  destruct ip as [|c r]; [congruence|]. inversion Hd as [|? ? Hc Hr]; subst.
  cbn [app starts]. rewrite N.eqb_refl. cbn [andb].
  destruct r as [|c2 r].
  - cbn [app starts drop0]. rewrite N.eqb_refl, andb_true_r. rewrite N.eqb_sym.
    destruct (N.eqb c 48); cbn; reflexivity.
  - inversion Hr as [|? ? Hc2 _]; subst. destruct (digit_not c2 Hc2) as (_ & _ & H46).
    apply N.eqb_neq in H46. rewrite N.eqb_sym in H46. cbn [app starts drop0]. rewrite H46.
    rewrite !andb_false_r. cbn. reflexivity.
Qed.

Lemma drop0_digits ip : all_digits ip -> all_digits (drop0 ip).
Proof. destruct ip as [|c [|? ?]]; cbn; auto. destruct (N.eqb c 48); auto. constructor. Qed.
Lemma drop0_val ip f : digits_val (drop0 ip ++ f) = digits_val (ip ++ f).
Proof.
  destruct ip as [|c [|? ?]]; cbn [drop0]; auto.
  destruct (N.eqb_spec c 48) as [->|]; reflexivity.
Qed.

Lemma digits_from_zeros k : forall a, digits_from a (repeat 48%N k) = a * 10 ^ Z.of_nat k.
Proof.
  induction k as [|k IH]; intros a; [cbn; lia|].
  cbn [repeat]. unfold digits_from in *. cbn [fold_left]. rewrite IH.
  unfold dstep, digit_val. rewrite Nat2Z.inj_succ, Z.pow_succ_r by lia. lia.
Qed.

(* ------------------------------------------------------------------ rounding *)
Lemma rne_div_err a b : 0 <= a -> 0 < b -> 2 * Z.abs (rne_div a b * b - a) <= b.
Proof.
  intros Ha Hb. unfold rne_div.
  pose proof (Z.div_mod a b ltac:(lia)) as E. pose proof (Z.mod_pos_bound a b Hb) as M.
  destruct (Z.compare_spec (2 * (a mod b)) b); [destruct (Z.even (a / b))| |]; nia.
Qed.
Lemma rne_div_unique a b n : 0 <= a -> 0 < b -> 2 * Z.abs (a - n * b) < b -> rne_div a b = n.
Proof.
  intros Ha Hb Hn. unfold rne_div.
  pose proof (Z.div_mod a b ltac:(lia)) as E. pose proof (Z.mod_pos_bound a b Hb) as M.
  destruct (Z.compare_spec (2 * (a mod b)) b); [destruct (Z.even (a / b))| |]; nia.
Qed.
Lemma rne_div_nonneg a b : 0 <= a -> 0 < b -> 0 <= rne_div a b.
Proof.
  intros Ha Hb. unfold rne_div. pose proof (Z.div_pos a b Ha Hb).
  destruct (Z.compare (2 * (a mod b)) b); [destruct (Z.even (a / b))| |]; lia.
Qed.

Local Open Scope Q_scope.

Lemma rhe_nonneg x : 0 <= x -> (0 <= rhe x)%Z.
Proof.
  destruct x as [a b]. unfold Qle, rhe. cbn [Qnum Qden]. intros H.
  assert (Ha : (0 <= a)%Z) by lia.
  destruct (Z.ltb_spec a 0); [lia|]. apply rne_div_nonneg; lia.
Qed.
Lemma rhe_err x : 0 <= x -> Qabs (inject_Z (rhe x) - x) <= 1 # 2.
Proof.
  destruct x as [a b]. unfold Qle at 1, rhe. cbn [Qnum Qden]. intros H.
  assert (Ha : (0 <= a)%Z) by lia.
  destruct (Z.ltb_spec a 0); [lia|].
  pose proof (rne_div_err a (Zpos b) Ha ltac:(lia)) as E.
  apply Qabs_Qle_condition. unfold Qle, Qminus, Qplus, Qopp, inject_Z. cbn [Qnum Qden]. split; lia.
Qed.
Lemma rhe_unique x n : 0 <= x -> Qabs (x - inject_Z n) < 1 # 2 -> rhe x = n.
Proof.
  destruct x as [a b]. unfold Qle at 1, rhe. cbn [Qnum Qden]. intros H Hn.
  assert (Ha : (0 <= a)%Z) by lia.
  destruct (Z.ltb_spec a 0); [lia|].
  apply rne_div_unique; try lia.
  apply Qabs_Qlt_condition in Hn. destruct Hn as [H1 H2].
  unfold Qlt, Qminus, Qplus, Qopp, inject_Z in H1, H2. cbn [Qnum Qden] in H1, H2. lia.
Qed.

(* ------------------------------------------------------------------ what do_css_Value writes, as a lexeme *)
Definition Rof (q : Q) : N := Z.to_N (rhe (Qabs q * inject_Z 1000000)).
(* the exact rational denoted by the text that is written for the stored value q *)
Definition out_q (q : Q) : Q :=
  if Qeq_bool q 0 then 0
  else if Qeq_bool q (inject_Z (qtrunc q)) then q
  else if Qlt_b q 0 then - (Z.of_N (Rof q) # 1000000) else Z.of_N (Rof q) # 1000000.
Definition is_intlike (q : Q) : bool := Qeq_bool q 0 || Qeq_bool q (inject_Z (qtrunc q)).

Lemma digits_no_dot t : all_digits t -> ~ In 46%N t.
Proof.
  intros H Hin. unfold all_digits in H. rewrite Forall_forall in H. apply H in Hin. destruct (digit_not _ Hin) as (_ & _ & E). congruence.
Qed.

Lemma fixed6_cons x : exists d rest, fixed_digits 6 x = d :: rest /\ length rest = 5%nat.
Proof.
  pose proof (fixed_digits_length 6 x) as L. destruct (fixed_digits 6 x) as [|d rest]; [discriminate|].
  exists d, rest. split; [reflexivity|]. cbn in L. lia.
Qed.

Lemma Qlt_b_true x y : Qlt_b x y = true <-> x < y.
Proof.
  unfold Qlt_b. rewrite negb_true_iff. split.
  - intros H. apply Qnot_le_lt. intros Hle. apply Qle_bool_iff in Hle. congruence.
  - intros H. destruct (Qle_bool y x) eqn:E; [|reflexivity]. apply Qle_bool_iff in E. apply Qlt_not_le in H. tauto.
Qed.
Lemma Qlt_b_false x y : Qlt_b x y = false <-> y <= x.
Proof.
  unfold Qlt_b. rewrite negb_false_iff. apply Qle_bool_iff.
Qed.

Lemma frac_value ip0 d rs k (R : N) :
  digits_val (ip0 ++ d :: rs ++ repeat 48%N k) = Z.of_N R ->
  (S (length rs) + k = 6)%nat ->
  forall sz : Z, (sz * digits_val (ip0 ++ d :: rs) # pow10 (S (length rs))) == (sz * Z.of_N R # 1000000).
Proof.
  intros HR HL sz. unfold Qeq. cbn [Qnum Qden]. rewrite pow10_spec.
  rewrite <- HR. unfold digits_val.
  replace (ip0 ++ d :: rs ++ repeat 48%N k) with ((ip0 ++ d :: rs) ++ repeat 48%N k)
    by (rewrite <- app_assoc; reflexivity).
  rewrite (digits_from_app 0 (ip0 ++ d :: rs) (repeat 48%N k)), digits_from_zeros.
  change (Z.pos 1000000) with (10 ^ Z.of_nat 6)%Z. rewrite <- HL.
  rewrite Nat2Z.inj_add, Z.pow_add_r by lia. ring.
Qed.

Lemma ser_shape olz sg v unit :
  v <> PyInf -> unit_ok unit -> (sg = SPlus -> ~ pyq v < 0) ->
  exists lx',
    ser_num olz sg v unit = Text (render lx') /\ wf lx' /\ lex_Q lx' == out_q (pyq v) /\
    (lfrac lx' = None <-> is_intlike (pyq v) = true) /\
    (lunit lx' = unit \/ (pyq v == 0 /\ mem_s unit zero_units = true /\ lunit lx' = [])).
Proof.
  intros Hinf Hu Hsg.
  assert (E : ser_num olz sg v unit =
    let q := pyq v in
    if Qeq_bool q 0 then Text (48%N :: (if mem_s unit zero_units then [] else unit))
    else
      let val :=
        if Qeq_bool q (inject_Z (qtrunc q)) then Some (print_Z (qtrunc q))
        else match strip_zeros (fmt6 q) with
             | None => None
             | Some v' => Some (if olz && Qlt_b (-1 # 1) q && Qlt_b q 1 then strip_lead0 v' else v')
             end in
      match val with
      | None => Crash (s "ValueError")
      | Some val => Text ((match sg with SPlus => [43%N] | _ => [] end) ++ val ++ unit)
      end).
  { unfold ser_num, ser_with. destruct v; try reflexivity. congruence. }
  rewrite E. clear E. cbv zeta. unfold out_q, is_intlike. set (q := pyq v) in *.
  destruct (Qeq_bool q 0) eqn:E0.
  - (* zero *)
    exists (mkLex SNone [48%N] None (if mem_s unit zero_units then [] else unit)).
    split; [reflexivity|]. split; [|split; [|split]].
    + unfold wf. cbn [lint lunit lfrac]. split; [repeat constructor|]. split; [|discriminate].
      destruct (mem_s unit zero_units); [exact I|assumption].
    + reflexivity.
    + cbn. tauto.
    + cbn [lunit]. destruct (mem_s unit zero_units) eqn:Em; [right|left; reflexivity].
      split; [now apply Qeq_bool_iff|]. split; reflexivity.
  - destruct (Qeq_bool q (inject_Z (qtrunc q))) eqn:E1.
    + (* integer-valued *)
      apply Qeq_bool_iff in E1. set (z := qtrunc q) in *.
      destruct (Z.ltb_spec z 0) as [Hneg|Hpos].
      * assert (Hq : q < 0) by (rewrite E1; unfold Qlt; cbn; lia).
        assert (Hs : match sg with SPlus => [43%N] | _ => [] end = []) by (destruct sg; auto; tauto).
        exists (mkLex SMinus (print_N (Z.to_N (- z))) None unit).
        split; [|split; [|split; [|split]]].
        -- unfold print_Z. destruct (Z.ltb_spec z 0); [|lia]. rewrite Hs. reflexivity.
        -- unfold wf. cbn [lint lunit lfrac]. split; [apply print_N_digits|]. split; [assumption|apply print_N_nonempty].
        -- unfold lex_Q, lex_num, frac_digits. cbn [lsign lint lfrac length pow10 sign_z]. rewrite app_nil_r, print_N_val.
           rewrite E1. unfold Qeq, inject_Z. cbn [Qnum Qden]. lia.
        -- cbn. tauto.
        -- left. reflexivity.
      * exists (mkLex (match sg with SPlus => SPlus | _ => SNone end) (print_N (Z.to_N z)) None unit).
        split; [|split; [|split; [|split]]].
        -- unfold print_Z. destruct (Z.ltb_spec z 0); [lia|]. destruct sg; reflexivity.
        -- unfold wf. cbn [lint lunit lfrac]. split; [apply print_N_digits|]. split; [assumption|apply print_N_nonempty].
        -- unfold lex_Q, lex_num, frac_digits. cbn [lsign lint lfrac length pow10]. rewrite app_nil_r, print_N_val.
           rewrite E1. unfold Qeq, inject_Z. cbn [Qnum Qden]. destruct sg; cbn [sign_z]; lia.
        -- cbn. tauto.
        -- left. reflexivity.
    + (* a fraction: '%f', _strip_zeros, surgery *)
      unfold fmt6. fold (Rof q). set (R := Rof q).
      set (ip0 := print_N (R / million)%N).
      destruct (fixed6_cons (R mod million)%N) as (d & rest & Hfx & Hlen). rewrite Hfx.
      destruct (rstrip_spec 48%N rest) as [k Hk]. set (rs := rstrip 48%N rest) in *.
      assert (Hfd : all_digits (d :: rest)) by (rewrite <- Hfx; apply fixed_digits_digits).
      assert (Hrs : all_digits (d :: rs)).
      { pose proof (Forall_inv Hfd) as Hd. pose proof (Forall_inv_tail Hfd) as Hr.
        constructor; [assumption|]. rewrite Hk in Hr. apply Forall_app in Hr. tauto. }
      assert (Hip0 : all_digits ip0) by apply print_N_digits.
      assert (Hne0 : ip0 <> []) by apply print_N_nonempty.
      assert (HL : (S (length rs) + k = 6)%nat).
      { rewrite Hk, app_length, repeat_length in Hlen. lia. }
      assert (HV : digits_val (ip0 ++ d :: rs ++ repeat 48%N k) = Z.of_N R).
      { rewrite <- Hk, <- Hfx. unfold digits_val. rewrite digits_from_app. fold (digits_val ip0). unfold ip0.
        rewrite print_N_val, fixed_digits_spec. change (10 ^ N.of_nat 6)%N with million. change (10 ^ Z.of_nat 6)%Z with 1000000%Z.
        rewrite N.mod_mod by discriminate.
        rewrite (N.div_mod R million) at 3 by discriminate. unfold million. lia. }
      set (ip' := if olz && Qlt_b (-1 # 1) q && Qlt_b q 1 then drop0 ip0 else ip0).
      assert (Hip' : all_digits ip') by (unfold ip'; destruct (olz && _ && _); [apply drop0_digits|]; assumption).
      assert (HV' : forall f, digits_val (ip' ++ f) = digits_val (ip0 ++ f)).
      { intros f. unfold ip'. destruct (olz && _ && _); [apply drop0_val|reflexivity]. }
      destruct (Qlt_b q 0) eqn:Eneg.
      * apply Qlt_b_true in Eneg.
        assert (Hs : match sg with SPlus => [43%N] | _ => [] end = []) by (destruct sg; auto; tauto).
        exists (mkLex SMinus ip' (Some (d :: rs)) unit).
        split; [|split; [|split; [|split]]].
        -- cbn [app]. change (45%N :: ip0 ++ 46%N :: d :: rest) with ((45%N :: ip0) ++ 46%N :: d :: rest).
           rewrite strip_zeros_shape.
           2:{ intros [Hin|Hin]; [discriminate|]. revert Hin. apply digits_no_dot. assumption. }
           rewrite Hs. cbn [app]. fold rs. unfold render. cbn [lsign lint lfrac lunit sign_str frac_str app].
           unfold ip'. destruct (olz && _ && _).
           ++ rewrite strip_lead0_minus by assumption. cbn [app]. rewrite <- !app_assoc. reflexivity.
           ++ cbn [app]. rewrite <- !app_assoc. reflexivity.
        -- unfold wf. cbn [lint lunit lfrac]. split; [assumption|]. split; [assumption|]. split; [discriminate|assumption].
        -- unfold lex_Q, lex_num, frac_digits. cbn [lsign lint lfrac sign_z]. rewrite HV'.
           change (length (d :: rs)) with (S (length rs)).
           rewrite (frac_value ip0 d rs k R HV HL (-1)%Z). unfold Qeq, Qopp. cbn [Qnum Qden]. lia.
        -- cbn. split; [discriminate|]. intros H; discriminate.
        -- left. reflexivity.
      * apply Qlt_b_false in Eneg.
        exists (mkLex (match sg with SPlus => SPlus | _ => SNone end) ip' (Some (d :: rs)) unit).
        split; [|split; [|split; [|split]]].
        -- cbn [app]. rewrite strip_zeros_shape by (apply digits_no_dot; assumption).
           fold rs. unfold render. cbn [lsign lint lfrac lunit frac_str].
           unfold ip'. destruct (olz && _ && _).
           ++ rewrite strip_lead0_plain by assumption. destruct sg; cbn [sign_str app]; rewrite <- !app_assoc; reflexivity.
           ++ destruct sg; cbn [sign_str app]; rewrite <- !app_assoc; reflexivity.
        -- unfold wf. cbn [lint lunit lfrac]. split; [assumption|]. split; [assumption|]. split; [discriminate|assumption].
        -- unfold lex_Q, lex_num, frac_digits. cbn [lsign lint lfrac]. rewrite HV'.
           change (length (d :: rs)) with (S (length rs)).
           assert (Es : sign_z (match sg with SPlus => SPlus | _ => SNone end) = 1%Z) by (destruct sg; reflexivity).
           rewrite Es. rewrite (frac_value ip0 d rs k R HV HL 1%Z). unfold Qeq. cbn [Qnum Qden]. lia.
        -- cbn. split; [discriminate|]. intros H; discriminate.
        -- left. reflexivity.
Qed.

(* ------------------------------------------------------------------ value-level facts *)
Lemma Qmake_div a b : a # b == inject_Z a * (1 # b).
Proof. unfold Qeq, Qmult, inject_Z. cbn. lia. Qed.

Lemma Rof_spec q : inject_Z (Z.of_N (Rof q)) = inject_Z (rhe (Qabs q * inject_Z 1000000)).
Proof.
  unfold Rof. rewrite Z2N.id; [reflexivity|]. apply rhe_nonneg.
  apply Qmult_le_0_compat; [apply Qabs_nonneg|discriminate].
Qed.

Lemma out_q_err q : Qabs (out_q q - q) <= 1 # 2000000.
Proof.
  unfold out_q. destruct (Qeq_bool q 0) eqn:E0.
  - apply Qeq_bool_iff in E0. rewrite E0. discriminate.
  - destruct (Qeq_bool q (inject_Z (qtrunc q))) eqn:E1.
    + setoid_replace (q - q) with 0 by ring. discriminate.
    + assert (Hx : 0 <= Qabs q * inject_Z 1000000) by (apply Qmult_le_0_compat; [apply Qabs_nonneg|discriminate]).
      pose proof (rhe_err _ Hx) as He. rewrite <- Rof_spec in He.
      apply Qabs_Qle_condition in He. destruct He as [He1 He2].
      change (inject_Z 1000000) with (1000000 # 1) in *.
      set (r := inject_Z (Z.of_N (Rof q))) in *.
      destruct (Qlt_b q 0) eqn:En.
      * apply Qlt_b_true in En. rewrite (Qabs_neg q) in He1, He2 by lra.
        rewrite (Qmake_div (Z.of_N (Rof q))). fold r.
        clearbody r. apply Qabs_Qle_condition. split; lra.
      * apply Qlt_b_false in En. rewrite (Qabs_pos q) in He1, He2 by lra.
        rewrite (Qmake_div (Z.of_N (Rof q))). fold r.
        clearbody r. apply Qabs_Qle_condition. split; lra.
Qed.

Lemma inject_Z_small z : Qabs (inject_Z z) < 1 -> z = 0%Z.
Proof.
  intros H. apply Qabs_Qlt_condition in H. destruct H as [H1 H2].
  unfold Qlt, inject_Z in H1, H2. cbn in H1, H2. lia.
Qed.

(* a stored value within a quarter of the 6th decimal of the six-decimal number N/10^6, with the same sign,
   is written as exactly N/10^6 *)
Lemma out_q_exact v (N : Z) :
  Qabs (v - (N # 1000000)) < 1 # 4000000 ->
  ((0 <= N)%Z -> 0 <= v) -> ((N <= 0)%Z -> v <= 0) ->
  out_q v == N # 1000000.
Proof.
  intros Hc Hp Hn. unfold out_q.
  apply Qabs_Qlt_condition in Hc. destruct Hc as [Hc1 Hc2].
  rewrite (Qmake_div N) in *.
  destruct (Qeq_bool v 0) eqn:E0.
  - apply Qeq_bool_iff in E0. rewrite E0 in *.
    assert (N = 0%Z); [|subst; reflexivity].
    apply inject_Z_small. apply Qabs_Qlt_condition. split; lra.
  - destruct (Qeq_bool v (inject_Z (qtrunc v))) eqn:E1.
    + apply Qeq_bool_iff in E1. set (z := qtrunc v) in *.
      assert (z * 1000000 - N = 0)%Z.
      { apply inject_Z_small. unfold Z.sub. rewrite inject_Z_plus, inject_Z_opp, inject_Z_mult. change (inject_Z 1000000) with (1000000 # 1).
        apply Qabs_Qlt_condition. split; lra. }
      assert (EN : inject_Z N == inject_Z z * (1000000 # 1)).
      { change (1000000 # 1) with (inject_Z 1000000). rewrite <- inject_Z_mult. apply inject_Z_injective. lia. }
      rewrite EN, E1. field.
    + assert (Hv0 : ~ v == 0) by (intros H; apply Qeq_bool_iff in H; congruence).
      assert (Hx : 0 <= Qabs v * inject_Z 1000000) by (apply Qmult_le_0_compat; [apply Qabs_nonneg|discriminate]).
      assert (HR : rhe (Qabs v * inject_Z 1000000) = Z.abs N).
      { apply rhe_unique; [assumption|]. change (inject_Z 1000000) with (1000000 # 1).
        destruct (Z.le_ge_cases 0 N) as [HN|HN].
        - specialize (Hp HN). rewrite (Qabs_pos v) by assumption. rewrite Z.abs_eq by assumption.
          apply Qabs_Qlt_condition. split; lra.
        - specialize (Hn HN). rewrite (Qabs_neg v) by assumption. rewrite Z.abs_neq by assumption.
          rewrite inject_Z_opp. apply Qabs_Qlt_condition. split; lra. }
      assert (HRq : inject_Z (Z.of_N (Rof v)) == inject_Z (Z.abs N)) by (rewrite Rof_spec, HR; reflexivity).
      destruct (Qlt_b v 0) eqn:En.
      * apply Qlt_b_true in En.
        assert (HN : (N < 0)%Z).
        { destruct (Z.lt_ge_cases N 0) as [|HN]; [assumption|]. specialize (Hp HN). lra. }
        rewrite (Qmake_div (Z.of_N (Rof v))). rewrite HRq.
        rewrite Z.abs_neq by lia. rewrite inject_Z_opp. ring.
      * apply Qlt_b_false in En.
        assert (HN : (0 < N)%Z).
        { destruct (Z.lt_ge_cases 0 N) as [|HN]; [assumption|]. specialize (Hn HN). exfalso. apply Hv0. lra. }
        rewrite (Qmake_div (Z.of_N (Rof v))). rewrite HRq.
        rewrite Z.abs_eq by lia. reflexivity.
Qed.

Lemma digits_from_nonneg t : all_digits t -> forall a, (0 <= a)%Z -> (0 <= digits_from a t)%Z.
Proof.
  induction 1 as [|c t Hc _ IH]; intros a Ha; [exact Ha|].
  unfold digits_from in *. cbn [fold_left]. apply IH. unfold dstep. pose proof (is_digit_val c Hc). lia.
Qed.

Lemma wf_digits lx : wf lx -> all_digits (lint lx ++ frac_digits lx).
Proof.
  intros (Hi & _ & Hf). apply Forall_app. split; [assumption|].
  unfold frac_digits. destruct (lfrac lx); [tauto|constructor].
Qed.

Lemma lex_Q_sign lx : wf lx ->
  (lsign lx <> SMinus -> 0 <= lex_Q lx) /\ (lsign lx = SMinus -> lex_Q lx <= 0).
Proof.
  intros Hw. pose proof (digits_from_nonneg _ (wf_digits lx Hw) 0%Z ltac:(lia)) as Hd.
  fold (digits_val (lint lx ++ frac_digits lx)) in Hd.
  unfold lex_Q, lex_num, Qle. cbn [Qnum Qden]. split; intros Hs.
  - destruct (lsign lx); cbn [sign_z]; try congruence; lia.
  - rewrite Hs. cbn [sign_z]. lia.
Qed.

Definition eps53 : Q := 1 # 9007199254740992.
Definition tiny : Q := 1 # Z.to_pos (2 ^ 1075).
Definition maxq : Q := inject_Z (10 ^ 308).
Definition roundtrip_range : Q := inject_Z (10 ^ 300).

Lemma maxq_no_overflow q : Qabs q <= maxq -> Qle_bool ovf_threshold (Qabs q) = false.
Proof.
  intros H. destruct (Qle_bool ovf_threshold (Qabs q)) eqn:E; [|reflexivity].
  apply Qle_bool_iff in E. exfalso.
  assert (L : maxq < ovf_threshold) by (vm_compute; reflexivity).
  apply (Qlt_irrefl maxq). eapply Qlt_le_trans; [exact L|]. eapply Qle_trans; eassumption.
Qed.

(* what the theorems assume about float(): binary64 round-to-nearest as a function on exact rationals *)
Definition binary64_like (dbl : Q -> Q) : Prop :=
  (forall q, Qabs q <= maxq -> Qabs (dbl q - q) <= Qabs q * eps53 + tiny) /\
  (forall q, 0 <= q -> 0 <= dbl q) /\
  (forall q, q <= 0 -> dbl q <= 0) /\
  (forall q q', q == q' -> dbl q == dbl q').

Lemma binary64_like_id : binary64_like (fun q => q).
Proof.
  repeat split; try (intros; assumption).
  intros q _. setoid_replace (q - q) with 0 by ring. cbn [Qabs Z.abs].
  pose proof (Qabs_nonneg q). assert (0 <= tiny) by discriminate. assert (0 <= eps53) by discriminate. nra.
Qed.

Section RoundTrip.
  Variable dbl : Q -> Q.
  (* binary64 round-to-nearest-even, below the overflow range: relative error 2^-53 (absolute 2^-1075 when subnormal) *)
  Hypothesis dbl_err : forall q, Qabs q <= maxq -> Qabs (dbl q - q) <= Qabs q * eps53 + tiny.
  Hypothesis dbl_pos : forall q, 0 <= q -> 0 <= dbl q.
  Hypothesis dbl_neg : forall q, q <= 0 -> dbl q <= 0.
  Hypothesis dbl_compat : forall q q', q == q' -> dbl q == dbl q'.

  Lemma parse_render lx :
    wf lx -> to_value dbl lx <> PyInf -> parse_num dbl (render lx) = Some (lx, to_value dbl lx).
  Proof.
    intros H Hi. unfold parse_num. rewrite split_render by assumption.
    destruct (to_value dbl lx); try reflexivity. congruence.
  Qed.

  (* a fraction whose magnitude reaches the binary64 overflow threshold is rejected (not well-formed) *)
  Lemma parse_overflow lx :
    wf lx -> lfrac lx <> None -> ovf_threshold <= Qabs (lex_Q lx) -> parse_num dbl (render lx) = None.
  Proof.
    intros H Hf Ho. unfold parse_num. rewrite split_render by assumption. unfold to_value.
    destruct (lfrac lx); [|congruence]. apply Qle_bool_iff in Ho. rewrite Ho. reflexivity.
  Qed.

  Lemma to_value_spec lx :
    wf lx -> Qabs (lex_Q lx) <= maxq ->
    to_value dbl lx <> PyInf /\
    (lfrac lx = None -> to_value dbl lx = PyInt (lex_num lx) /\ pyq (to_value dbl lx) == lex_Q lx) /\
    (lfrac lx <> None -> to_value dbl lx = PyFloat (dbl (lex_Q lx))) /\
    (lsign lx = SPlus -> ~ pyq (to_value dbl lx) < 0).
  Proof.
    intros Hw Hr. unfold to_value. pose proof (maxq_no_overflow _ Hr) as Ho.
    destruct (lex_Q_sign lx Hw) as [Hs1 Hs2].
    destruct (lfrac lx) as [f|] eqn:Ef.
    - rewrite Ho. split; [discriminate|]. split; [discriminate|]. split; [reflexivity|].
      intros Hs. cbn [pyq]. assert (0 <= lex_Q lx) by (apply Hs1; congruence).
      pose proof (dbl_pos _ H). lra.
    - split; [discriminate|]. split; [|split; [congruence|]].
      + intros _. split; [reflexivity|]. cbn [pyq]. unfold lex_Q, frac_digits. rewrite Ef. cbn. reflexivity.
      + intros Hs. cbn [pyq]. assert (H : 0 <= lex_Q lx) by (apply Hs1; congruence).
        unfold lex_Q, frac_digits in H. rewrite Ef in H. cbn in H.
        unfold Qle in H. cbn in H. unfold Qlt. cbn. lia.
  Qed.

  (* |stored value - written value| *)
  Lemma stored_err lx :
    wf lx -> Qabs (lex_Q lx) <= maxq ->
    Qabs (pyq (to_value dbl lx) - lex_Q lx) <= Qabs (lex_Q lx) * eps53 + tiny.
  Proof.
    intros Hw Hr. destruct (to_value_spec lx Hw Hr) as (_ & Hi & Hf & _).
    destruct (lfrac lx) eqn:Ef.
    - rewrite Hf by discriminate. cbn [pyq]. apply dbl_err. assumption.
    - destruct (Hi eq_refl) as [_ E]. rewrite E. setoid_replace (lex_Q lx - lex_Q lx) with 0 by ring.
      cbn [Qabs Z.abs]. pose proof (Qabs_nonneg (lex_Q lx)).
      assert (0 <= tiny) by discriminate. assert (0 <= eps53) by discriminate. nra.
  Qed.

  (* DESIGN C17 number_roundtrip *)
  Theorem number_roundtrip_thm lx olz :
    wf lx -> Qabs (lex_Q lx) <= roundtrip_range ->
    exists lx' v',
      roundtrip dbl olz lx = Some (lx', v') /\
      Qabs (pyq v' - lex_Q lx) <= (1 # 2000000) + Qabs (lex_Q lx) * (1 # 2251799813685248) + (1 # 100000000000000000000) /\
      (lunit lx' = lunit lx \/
       (pyq (to_value dbl lx) == 0 /\ mem_s (lunit lx) zero_units = true /\ lunit lx' = [])).
  Proof.
    intros Hw Hr.
    assert (Hr' : Qabs (lex_Q lx) <= maxq).
    { eapply Qle_trans; [exact Hr|]. vm_compute. discriminate. }
    destruct (to_value_spec lx Hw Hr') as (Hinf & _ & _ & Hsg).
    destruct Hw as (Hwi & Hwu & Hwf).
    destruct (ser_shape olz (lsign lx) (to_value dbl lx) (lunit lx) Hinf Hwu Hsg) as (lx' & Hser & Hw' & Hq & _ & Hunit).
    assert (Hw0 : wf lx) by (repeat split; assumption).
    pose proof (stored_err lx Hw0 Hr') as He1.
    pose proof (out_q_err (pyq (to_value dbl lx))) as He2. rewrite <- Hq in He2.
    set (Q0 := lex_Q lx) in *. set (v := pyq (to_value dbl lx)) in *. set (Q1 := lex_Q lx') in *.
    assert (HA : 0 <= Qabs Q0) by apply Qabs_nonneg.
    assert (Htiny : tiny <= 1 # 1000000000000000000000000000000) by (vm_compute; discriminate).
    assert (Htiny0 : 0 <= tiny) by discriminate.
    apply Qabs_Qle_condition in He1. apply Qabs_Qle_condition in He2.
    assert (HQ1 : Qabs Q1 <= maxq).
    { apply Qabs_Qle_condition. unfold maxq, eps53 in *. unfold roundtrip_range in Hr.
      pose proof (Qle_Qabs Q0). pose proof (Qle_Qabs (- Q0)). rewrite Qabs_opp in H0.
      change (inject_Z (10 ^ 300)) with (inject_Z (10 ^ 300) * 1) in Hr.
      assert (Hb : inject_Z (10 ^ 300) * 3 <= inject_Z (10 ^ 308)) by (vm_compute; discriminate).
      assert (Hb1 : 1 <= inject_Z (10 ^ 300)) by (vm_compute; discriminate).
      split; lra. }
    pose proof (stored_err lx' Hw' HQ1) as He3. fold Q1 in He3.
    destruct (to_value_spec lx' Hw' HQ1) as (Hinf' & _).
    exists lx', (to_value dbl lx'). split.
    - unfold roundtrip, ser_lex. rewrite Hser. apply parse_render; assumption.
    - split; [|exact Hunit].
      set (v' := pyq (to_value dbl lx')) in *.
      apply Qabs_Qle_condition in He3.
      assert (HA1 : Qabs Q1 <= Qabs Q0 + Qabs Q0 * eps53 + tiny + (1 # 2000000)).
      { apply Qabs_Qle_condition. pose proof (Qle_Qabs Q0). pose proof (Qle_Qabs (- Q0)). rewrite Qabs_opp in H0.
        unfold eps53 in *. split; lra. }
      pose proof (Qabs_nonneg Q1).
      apply Qabs_Qle_condition. unfold eps53 in *. split; lra.
  Qed.

  Lemma stored_sign lx :
    wf lx -> Qabs (lex_Q lx) <= maxq ->
    (0 <= lex_Q lx -> 0 <= pyq (to_value dbl lx)) /\ (lex_Q lx <= 0 -> pyq (to_value dbl lx) <= 0).
  Proof.
    intros Hw Hr. destruct (to_value_spec lx Hw Hr) as (_ & Hi & Hf & _).
    destruct (lfrac lx) eqn:Ef.
    - rewrite Hf by discriminate. cbn [pyq]. split; [apply dbl_pos|apply dbl_neg].
    - destruct (Hi eq_refl) as [_ E]. rewrite E. tauto.
  Qed.

  Lemma out_q_intlike v : is_intlike v = true -> out_q v == v.
  Proof.
    unfold is_intlike, out_q. destruct (Qeq_bool v 0) eqn:E0.
    - intros _. apply Qeq_bool_iff in E0. rewrite E0. reflexivity.
    - cbn [orb]. intros ->. reflexivity.
  Qed.

  Lemma int_is_intlike z : is_intlike (inject_Z z) = true.
  Proof.
    unfold is_intlike. apply orb_true_iff. right. apply Qeq_bool_iff.
    unfold qtrunc, inject_Z. cbn [Qnum Qden]. rewrite Z.quot_1_r. reflexivity.
  Qed.

  Lemma six_scale lx :
    (length (frac_digits lx) <= 6)%nat ->
    lex_Q lx == (lex_num lx * 10 ^ Z.of_nat (6 - length (frac_digits lx))) # 1000000.
  Proof.
    intros Hk. unfold lex_Q, Qeq. cbn [Qnum Qden]. rewrite pow10_spec.
    change (Z.pos 1000000) with (10 ^ Z.of_nat 6)%Z.
    replace (Z.of_nat 6) with (Z.of_nat (6 - length (frac_digits lx)) + Z.of_nat (length (frac_digits lx)))%Z at 1 by lia.
    rewrite Z.pow_add_r by lia. ring.
  Qed.

  (* DESIGN C17 six_digits_exact: within 6 decimals and below 10^9 nothing drifts *)
  Theorem six_digits_exact_thm lx olz :
    wf lx -> (length (frac_digits lx) <= 6)%nat -> Qabs (lex_Q lx) <= inject_Z (10 ^ 9) ->
    exists lx' v',
      roundtrip dbl olz lx = Some (lx', v') /\
      lex_Q lx' == lex_Q lx /\
      pyq v' == pyq (to_value dbl lx) /\
      (lunit lx' = lunit lx \/
       (pyq (to_value dbl lx) == 0 /\ mem_s (lunit lx) zero_units = true /\ lunit lx' = [])).
  Proof.
    intros Hw Hk Hr.
    assert (Hr' : Qabs (lex_Q lx) <= maxq).
    { eapply Qle_trans; [exact Hr|]. vm_compute. discriminate. }
    destruct (to_value_spec lx Hw Hr') as (Hinf & Hint & Hflt & Hsg).
    pose proof (stored_err lx Hw Hr') as He1.
    destruct (stored_sign lx Hw Hr') as [Hsp Hsn].
    pose proof (six_scale lx Hk) as HN. set (N := (lex_num lx * 10 ^ Z.of_nat (6 - length (frac_digits lx)))%Z) in *.
    destruct Hw as (Hwi & Hwu & Hwf).
    destruct (ser_shape olz (lsign lx) (to_value dbl lx) (lunit lx) Hinf Hwu Hsg) as (lx' & Hser & Hw' & Hq & Hnone & Hunit).
    set (Q0 := lex_Q lx) in *. set (v := pyq (to_value dbl lx)) in *.
    assert (Hex : out_q v == N # 1000000).
    { apply out_q_exact.
      - rewrite <- HN. apply Qabs_Qle_condition in He1. apply Qabs_Qle_condition in Hr.
        assert (Htiny : tiny <= 1 # 1000000000000000000000000000000) by (vm_compute; discriminate).
        assert (HA : Qabs Q0 <= inject_Z (10 ^ 9)) by (apply Qabs_Qle_condition; exact Hr).
        pose proof (Qabs_nonneg Q0). change (inject_Z (10 ^ 9)) with (1000000000 # 1) in *. unfold eps53 in *.
        apply Qabs_Qlt_condition. split; lra.
      - intros H. apply Hsp. rewrite HN. unfold Qle. cbn. lia.
      - intros H. apply Hsn. rewrite HN. unfold Qle. cbn. lia. }
    assert (HQ1 : lex_Q lx' == Q0) by (rewrite Hq, Hex, HN; reflexivity).
    assert (HQ1r : Qabs (lex_Q lx') <= maxq) by (rewrite HQ1; exact Hr').
    destruct (to_value_spec lx' Hw' HQ1r) as (Hinf' & Hint' & Hflt' & _).
    exists lx', (to_value dbl lx'). split; [|split; [exact HQ1|split; [|exact Hunit]]].
    - unfold roundtrip, ser_lex. rewrite Hser. apply parse_render; assumption.
    - destruct (lfrac lx') eqn:Ef'.
      + rewrite Hflt' by discriminate. cbn [pyq].
        destruct (lfrac lx) eqn:Ef.
        * unfold v. rewrite Hflt by discriminate. cbn [pyq]. apply dbl_compat. exact HQ1.
        * exfalso. destruct (Hint eq_refl) as [Ev _].
          assert (is_intlike v = true) by (unfold v; rewrite Ev; apply int_is_intlike).
          apply Hnone in H. discriminate.
      + destruct (Hint' eq_refl) as [_ E]. rewrite E, Hq. apply out_q_intlike. apply Hnone. reflexivity.
  Qed.
End RoundTrip.

(* ------------------------------------------------------------------ binary64: dbl_exec satisfies binary64_like *)
Definition two : Q := 2 # 1.
Lemma two_pos : 0 < two. Proof. reflexivity. Qed.
Lemma two_nz : ~ two == 0. Proof. discriminate. Qed.
Lemma pow2_pos e : 0 < two ^ e. Proof. apply Qpower_0_lt, two_pos. Qed.
Lemma pow2_Z e : (0 <= e)%Z -> inject_Z (2 ^ e) == two ^ e.
Proof. intros H. rewrite Zpower_Qpower by assumption. reflexivity. Qed.
Lemma pow2_inv e : two ^ (- e) * two ^ e == 1.
Proof. rewrite Qpower_opp. field. apply Qpower_not_0, two_nz. Qed.

Lemma Qmake_inject p dd : (Zpos p # dd) * inject_Z (Zpos dd) == inject_Z (Zpos p).
Proof. unfold Qeq, Qmult, inject_Z. cbn. lia. Qed.

(* a / b = q / 2^e for (a, b) = scaled n d e *)
Lemma scaled_spec p dd e :
  let a := fst (scaled (Zpos p) (Zpos dd) e) in let b := snd (scaled (Zpos p) (Zpos dd) e) in
  (0 < a)%Z /\ (0 < b)%Z /\ inject_Z a == (Zpos p # dd) * two ^ (- e) * inject_Z b.
Proof.
  unfold scaled. destruct (Z.leb_spec 0 e) as [He|He]; cbn [fst snd].
  - split; [lia|]. split; [apply Z.mul_pos_pos; [lia|apply Z.pow_pos_nonneg; lia]|].
    rewrite inject_Z_mult, pow2_Z by assumption.
    rewrite <- (Qmake_inject p dd) at 1.
    transitivity ((Z.pos p # dd) * inject_Z (Z.pos dd) * (two ^ (- e) * two ^ e)); [rewrite pow2_inv; ring|ring].
  - split; [apply Z.mul_pos_pos; [lia|apply Z.pow_pos_nonneg; lia]|]. split; [lia|].
    rewrite inject_Z_mult, pow2_Z by lia. rewrite <- (Qmake_inject p dd). ring.
Qed.

(* rounding a / b to the nearest integer is within 1/2 of the exact quotient X *)
Lemma rne_Q a b X :
  (0 < a)%Z -> (0 < b)%Z -> inject_Z a == X * inject_Z b ->
  Qabs (inject_Z (rne_div a b) - X) <= 1 # 2.
Proof.
  intros Ha Hb HX. pose proof (rne_div_err a b ltac:(lia) Hb) as E.
  set (m := rne_div a b) in *.
  assert (HB : 0 < inject_Z b) by (unfold Qlt, inject_Z; cbn; lia).
  assert (E1 : inject_Z (2 * (m * b - a)) <= inject_Z b) by (rewrite <- Zle_Qle; lia).
  assert (E2 : inject_Z (- b) <= inject_Z (2 * (m * b - a))) by (rewrite <- Zle_Qle; lia).
  unfold Z.sub in E1, E2. rewrite inject_Z_mult, inject_Z_plus, inject_Z_opp, inject_Z_mult in E1, E2.
  rewrite inject_Z_opp in E2. rewrite HX in E1, E2. change (inject_Z 2) with (2 # 1) in *.
  set (M := inject_Z m) in *. set (B := inject_Z b) in *.
  apply Qabs_Qle_condition. split.
  - apply (Qmult_le_r _ _ B HB). lra.
  - apply (Qmult_le_r _ _ B HB). lra.
Qed.

Lemma q_of_me_spec m e : q_of_me m e == inject_Z m * two ^ e.
Proof.
  unfold q_of_me. destruct (Z.leb_spec 0 e) as [He|He].
  - rewrite inject_Z_mult, pow2_Z by assumption. reflexivity.
  - rewrite Qred_correct.
    assert (K : (0 < 2 ^ (- e))%Z) by (apply Z.pow_pos_nonneg; lia).
    rewrite Qmake_Qdiv, Z2Pos.id by assumption. rewrite pow2_Z by lia.
    rewrite Qpower_opp. unfold Qdiv. rewrite Qinv_involutive. reflexivity.
Qed.

Definition c52 : Q := inject_Z (2 ^ 52).
Definition c53 : Q := inject_Z (2 ^ 53).
Lemma c52_pow : two ^ 52 == c52. Proof. reflexivity. Qed.

Lemma inject_pos z : (0 < z)%Z -> 0 < inject_Z z.
Proof. intros H. unfold Qlt, inject_Z; cbn; lia. Qed.

Lemma X0_bound p dd :
  c52 <= (Zpos p # dd) * two ^ (- (Z.log2 (Zpos p) - Z.log2 (Zpos dd) - 53)).
Proof.
  set (n := Zpos p). set (d := Zpos dd). set (q := n # dd).
  set (ln := Z.log2 n). set (ld := Z.log2 d).
  destruct (Z.log2_spec n ltac:(reflexivity)) as [Hn1 _]. destruct (Z.log2_spec d ltac:(reflexivity)) as [_ Hd2].
  fold ln in Hn1. fold ld in Hd2.
  assert (Hln : (0 <= ln)%Z) by apply Z.log2_nonneg. assert (Hld : (0 <= ld)%Z) by apply Z.log2_nonneg.
  assert (HN : two ^ ln <= inject_Z n) by (rewrite <- pow2_Z by assumption; rewrite <- Zle_Qle; assumption).
  assert (HD : inject_Z d <= two ^ (ld + 1)).
  { rewrite <- pow2_Z by lia. rewrite <- Zle_Qle. replace (Z.succ ld) with (ld + 1)%Z in Hd2 by lia. lia. }
  assert (Hq : 0 <= q) by (unfold q, Qle; cbn; lia).
  assert (HqD : q * inject_Z d == inject_Z n) by apply Qmake_inject.
  replace (- (ln - ld - 53))%Z with ((ld + 1) + 52 + (- ln))%Z by lia.
  rewrite (Qpower_plus two (ld + 1 + 52) (- ln)) by apply two_nz.
  rewrite (Qpower_plus two (ld + 1) 52) by apply two_nz. rewrite c52_pow.
  set (U := two ^ (ld + 1)) in *. set (L := two ^ ln) in *. set (Li := two ^ (- ln)).
  assert (HLi : 0 < Li) by apply pow2_pos.
  assert (HLL : Li * L == 1) by apply pow2_inv.
  assert (c52pos : 0 < c52) by reflexivity.
  assert (H1 : inject_Z n <= q * U).
  { rewrite <- HqD. rewrite (Qmult_comm q (inject_Z d)), (Qmult_comm q U). apply Qmult_le_compat_r; assumption. }
  assert (H2 : L <= q * U) by (eapply Qle_trans; eassumption).
  assert (H3 : L * (c52 * Li) <= q * U * (c52 * Li)).
  { apply Qmult_le_compat_r; [assumption|]. apply Qlt_le_weak. apply Qmult_lt_0_compat; assumption. }
  setoid_replace (L * (c52 * Li)) with (c52 * (Li * L)) in H3 by ring. rewrite HLL in H3.
  setoid_replace (q * (U * c52 * Li)) with (q * U * (c52 * Li)) by ring. lra.
Qed.

Lemma e1_bound p dd :
  let n := Zpos p in let d := Zpos dd in
  let e0 := (Z.log2 n - Z.log2 d - 53)%Z in
  let e1 := if (fst (scaled n d e0) / snd (scaled n d e0) <? 2 ^ 53)%Z then e0 else (e0 + 1)%Z in
  c52 <= (n # dd) * two ^ (- e1).
Proof.
  intros n d e0 e1. pose proof (X0_bound p dd) as H0. fold n d e0 in H0.
  unfold e1. destruct (Z.ltb_spec (fst (scaled n d e0) / snd (scaled n d e0)) (2 ^ 53)) as [Hlt|Hge]; [exact H0|].
  destruct (scaled_spec p dd e0) as (Ha & Hb & HX). fold n d in Ha, Hb, HX.
  set (a := fst (scaled n d e0)) in *. set (b := snd (scaled n d e0)) in *.
  set (X0 := (n # dd) * two ^ (- e0)) in *.
  assert (Hz : (2 ^ 53 * b <= a)%Z).
  { pose proof (Z.mul_div_le a b Hb). nia. }
  assert (HB : 0 < inject_Z b) by (apply inject_pos; assumption).
  assert (Hq : inject_Z (2 ^ 53 * b) <= inject_Z a) by (rewrite <- Zle_Qle; assumption).
  rewrite inject_Z_mult, HX in Hq. fold c53 in Hq.
  apply (proj1 (Qmult_le_r _ _ _ HB)) in Hq.
  replace (- (e0 + 1))%Z with (- e0 + (-1))%Z by lia. rewrite Qpower_plus by apply two_nz.
  change (two ^ (-1)) with (1 # 2). rewrite Qmult_assoc. fold X0.
  assert (C : c53 == c52 * (2 # 1)) by reflexivity. clearbody X0. lra.
Qed.

Lemma half_ulp_tiny : two ^ (-1074) * (1 # 2) == tiny.
Proof. vm_compute. reflexivity. Qed.

Lemma dbl_pos_spec p dd :
  0 <= dbl_pos (Zpos p) (Zpos dd) /\
  Qabs (dbl_pos (Zpos p) (Zpos dd) - (Zpos p # dd)) <= (Zpos p # dd) * eps53 + tiny.
Proof.
  unfold dbl_pos. set (n := Zpos p). set (d := Zpos dd). set (q := n # dd).
  set (e0 := (Z.log2 n - Z.log2 d - 53)%Z).
  set (e1 := if (fst (scaled n d e0) / snd (scaled n d e0) <? 2 ^ 53)%Z then e0 else (e0 + 1)%Z).
  pose proof (e1_bound p dd) as HE1. cbv zeta in HE1. fold n d e0 e1 q in HE1.
  set (e := Z.max e1 (-1074)).
  destruct (scaled_spec p dd e) as (Ha & Hb & HX). fold n d q in Ha, Hb, HX.
  set (a := fst (scaled n d e)) in *. set (b := snd (scaled n d e)) in *.
  set (X := q * two ^ (- e)) in *.
  pose proof (rne_Q a b X Ha Hb HX) as HR.
  pose proof (rne_div_nonneg a b ltac:(lia) Hb) as Hm.
  set (m := rne_div a b) in *. rewrite q_of_me_spec.
  set (M := inject_Z m) in *. set (P := two ^ e).
  assert (HP : 0 < P) by apply pow2_pos.
  assert (HM : 0 <= M) by (unfold M, Qle, inject_Z; cbn; lia).
  assert (Hq0 : 0 <= q) by (unfold q, Qle; cbn; lia).
  assert (HqXP : q == X * P).
  { unfold X, P. rewrite <- Qmult_assoc, pow2_inv. ring. }
  split; [apply Qmult_le_0_compat; [assumption|apply Qlt_le_weak; assumption]|].
  assert (Hd : Qabs (M * P - q) <= P * (1 # 2)).
  { setoid_replace (M * P - q) with ((M - X) * P) by (rewrite HqXP; ring).
    rewrite Qabs_Qmult, (Qabs_pos P) by (apply Qlt_le_weak; assumption).
    rewrite (Qmult_comm P). apply Qmult_le_compat_r; [assumption|apply Qlt_le_weak; assumption]. }
  eapply Qle_trans; [exact Hd|].
  assert (Ht0 : 0 <= tiny) by discriminate.
  destruct (Z.max_spec e1 (-1074)) as [[Hlt Hmax]|[Hge Hmax]]; fold e in Hmax.
  - (* clamped to the subnormal exponent *)
    unfold P. rewrite Hmax, half_ulp_tiny.
    assert (0 <= q * eps53) by (apply Qmult_le_0_compat; [assumption|discriminate]). lra.
  - (* normal: X >= 2^52 *)
    assert (HX52 : c52 <= X) by (unfold X; rewrite Hmax; exact HE1).
    assert (Hq52 : c52 * P <= q).
    { rewrite HqXP. apply Qmult_le_compat_r; [assumption|apply Qlt_le_weak; assumption]. }
    unfold eps53, c52 in *. change (inject_Z (2 ^ 52)) with (4503599627370496 # 1) in Hq52. lra.
Qed.

Lemma dbl_core_spec q :
  Qabs (dbl_core q - q) <= Qabs q * eps53 + tiny /\ (0 <= q -> 0 <= dbl_core q) /\ (q <= 0 -> dbl_core q <= 0).
Proof.
  destruct q as [[|p|p] dd]; unfold dbl_core; cbn [Qnum Qden].
  - assert (E : 0 # dd == 0) by reflexivity. rewrite E. split; [|split; intros _; apply Qle_refl].
    cbn. discriminate.
  - destruct (dbl_pos_spec p dd) as [H0 H1].
    assert (Hq : 0 <= Zpos p # dd) by (unfold Qle; cbn; lia).
    rewrite (Qabs_pos _ Hq). split; [exact H1|]. split; [intros _; exact H0|].
    intros Hn. exfalso. unfold Qle in Hn. cbn in Hn. lia.
  - destruct (dbl_pos_spec p dd) as [H0 H1].
    assert (E : Zneg p # dd == - (Zpos p # dd)) by reflexivity.
    assert (Hq : 0 <= Zpos p # dd) by (unfold Qle; cbn; lia).
    rewrite E, Qabs_opp, (Qabs_pos _ Hq). split; [|split].
    + setoid_replace (- dbl_pos (Z.pos p) (Z.pos dd) - - (Z.pos p # dd))
        with (- (dbl_pos (Z.pos p) (Z.pos dd) - (Z.pos p # dd))) by ring.
      rewrite Qabs_opp. exact H1.
    + intros Hp. assert (Zpos p # dd <= 0) by lra. unfold Qle in H. cbn in H. lia.
    + intros _. lra.
Qed.

Theorem dbl_exec_binary64 : binary64_like dbl_exec.
Proof.
  unfold binary64_like, dbl_exec. repeat split.
  - intros q _. pose proof (Qred_correct q) as E. destruct (dbl_core_spec (Qred q)) as (H & _ & _).
    set (r := Qred q) in *. rewrite <- E. exact H.
  - intros q Hq. pose proof (Qred_correct q) as E. destruct (dbl_core_spec (Qred q)) as (_ & H & _).
    apply H. rewrite E. exact Hq.
  - intros q Hq. pose proof (Qred_correct q) as E. destruct (dbl_core_spec (Qred q)) as (_ & _ & H).
    apply H. rewrite E. exact Hq.
  - intros q q' E. rewrite (Qred_complete q q' E). reflexivity.
Qed.

(* exactness on representable values: m * 2^e with |m| < 2^53, e >= -1074 *)
Lemma rne_div_exact k b : (0 < b)%Z -> rne_div (k * b) b = k.
Proof.
  intros Hb. unfold rne_div. rewrite Z.div_mul, Z.mod_mul by lia.
  destruct (Z.compare_spec (2 * 0) b); lia.
Qed.

Lemma dbl_pos_exact p dd m e' :
  (0 < m < 2 ^ 53)%Z -> (-1074 <= e')%Z -> Zpos p # dd == inject_Z m * two ^ e' ->
  dbl_pos (Zpos p) (Zpos dd) == Zpos p # dd.
Proof.
  intros Hm He' Hq. unfold dbl_pos. set (n := Zpos p). set (d := Zpos dd). set (q := n # dd) in *.
  change (q == inject_Z m * two ^ e') in Hq.
  set (e0 := (Z.log2 n - Z.log2 d - 53)%Z).
  set (e1 := if (fst (scaled n d e0) / snd (scaled n d e0) <? 2 ^ 53)%Z then e0 else (e0 + 1)%Z).
  pose proof (e1_bound p dd) as HE1. cbv zeta in HE1. fold n d e0 e1 q in HE1.
  set (e := Z.max e1 (-1074)).
  assert (HM : inject_Z m <= c53 - 1).
  { assert (inject_Z m <= inject_Z (2 ^ 53 - 1)) by (rewrite <- Zle_Qle; lia).
    assert (inject_Z (2 ^ 53 - 1) == c53 - 1) by reflexivity. lra. }
  assert (HM0 : 0 < inject_Z m) by (apply inject_pos; lia).
  assert (Hle1 : (e1 <= e')%Z).
  { destruct (Z.le_gt_cases e1 e') as [|Hgt]; [assumption|exfalso].
    rewrite Hq in HE1. rewrite <- Qmult_assoc, <- Qpower_plus in HE1 by apply two_nz.
    assert (Hp : two ^ (e' + - e1) <= two ^ (-1)).
    { apply Qpower_le_compat_l; [lia|discriminate]. }
    change (two ^ (-1)) with (1 # 2) in Hp.
    assert (Hpp : 0 < two ^ (e' + - e1)) by apply pow2_pos.
    set (T := two ^ (e' + - e1)) in *. set (M := inject_Z m) in *.
    assert (M * T <= M * (1 # 2)).
    { rewrite (Qmult_comm M T), (Qmult_comm M (1 # 2)). apply Qmult_le_compat_r; [assumption|apply Qlt_le_weak; assumption]. }
    assert (C : c53 == c52 * (2 # 1)) by reflexivity. assert (0 < c52) by reflexivity. lra. }
  assert (Hle : (e <= e')%Z) by (unfold e; lia).
  destruct (scaled_spec p dd e) as (Ha & Hb & HX). fold n d q in Ha, Hb, HX.
  set (a := fst (scaled n d e)) in *. set (b := snd (scaled n d e)) in *.
  set (k := (m * 2 ^ (e' - e))%Z).
  assert (Hk : q * two ^ (- e) == inject_Z k).
  { unfold k. rewrite inject_Z_mult, pow2_Z by lia. rewrite Hq, <- Qmult_assoc, <- Qpower_plus by apply two_nz.
    replace (e' + - e)%Z with (e' - e)%Z by lia. reflexivity. }
  rewrite Hk, <- inject_Z_mult in HX.
  assert (HX' : a = (k * b)%Z) by (apply inject_Z_injective; exact HX).
  rewrite HX', rne_div_exact by assumption. rewrite q_of_me_spec, <- Hk.
  rewrite <- Qmult_assoc, pow2_inv. ring.
Qed.

Theorem dbl_exec_exact m e :
  (Z.abs m < 2 ^ 53)%Z -> (-1074 <= e)%Z -> dbl_exec (inject_Z m * two ^ e) == inject_Z m * two ^ e.
Proof.
  intros Hm He. unfold dbl_exec. set (q := inject_Z m * two ^ e).
  pose proof (Qred_correct q) as E. destruct (Qred q) as [[|p|p] dd] eqn:Er; unfold dbl_core; cbn [Qnum Qden].
  - rewrite <- E. reflexivity.
  - rewrite <- E. assert (Hmp : (0 < m)%Z).
    { assert (Hq : 0 < q) by (rewrite <- E; unfold Qlt; cbn; lia).
      destruct (Z.lt_trichotomy m 0) as [Hn|[Hz|Hp]]; [| |assumption]; exfalso.
      - assert (inject_Z m < 0) by (unfold Qlt, inject_Z; cbn; lia).
        assert (0 < two ^ e) by apply pow2_pos. unfold q in Hq.
        assert (inject_Z m * two ^ e <= 0 * two ^ e) by (apply Qmult_le_compat_r; [|apply Qlt_le_weak; assumption]; apply Qlt_le_weak; assumption).
        lra.
      - subst m. unfold q in Hq. change (inject_Z 0) with 0 in Hq. lra. }
    apply (dbl_pos_exact p dd m e); [lia|assumption|]. rewrite E. reflexivity.
  - rewrite <- E. assert (Hmn : (m < 0)%Z).
    { assert (Hq : q < 0) by (rewrite <- E; unfold Qlt; cbn; lia).
      destruct (Z.lt_trichotomy m 0) as [Hn|[Hz|Hp]]; [assumption| |]; exfalso.
      - subst m. unfold q in Hq. change (inject_Z 0) with 0 in Hq. lra.
      - assert (0 <= inject_Z m * two ^ e).
        { apply Qmult_le_0_compat; [unfold Qle, inject_Z; cbn; lia|apply Qlt_le_weak, pow2_pos]. }
        unfold q in Hq. lra. }
    assert (En : Zneg p # dd == - (Zpos p # dd)) by reflexivity.
    rewrite En. apply Qopp_comp. apply (dbl_pos_exact p dd (- m) e); [lia|assumption|].
    rewrite inject_Z_opp. setoid_replace (Zpos p # dd) with (- (Zneg p # dd)) by (rewrite En; ring).
    rewrite E. unfold q. ring.
Qed.

(* ------------------------------------------------------------------ rounding never crosses an integer below the value *)
Lemma dbl_pos_ge_int p dd k :
  (0 <= k)%Z -> inject_Z k <= Zpos p # dd -> Zpos p # dd <= c52 ->
  inject_Z k <= dbl_pos (Zpos p) (Zpos dd).
Proof.
  intros Hk Hkq Hq52. unfold dbl_pos. set (n := Zpos p). set (d := Zpos dd). set (q := n # dd) in *.
  change (inject_Z k <= q) in Hkq. change (q <= c52) in Hq52.
  set (e0 := (Z.log2 n - Z.log2 d - 53)%Z).
  set (e1 := if (fst (scaled n d e0) / snd (scaled n d e0) <? 2 ^ 53)%Z then e0 else (e0 + 1)%Z).
  pose proof (e1_bound p dd) as HE1. cbv zeta in HE1. fold n d e0 e1 q in HE1.
  set (e := Z.max e1 (-1074)).
  assert (Hq0 : 0 <= q) by (unfold q, Qle; cbn; lia).
  assert (c52pos : 0 < c52) by reflexivity.
  assert (He1 : (e1 <= 0)%Z).
  { destruct (Z.le_gt_cases e1 0) as [|Hgt]; [assumption|exfalso].
    assert (Hp : two ^ (- e1) <= two ^ (-1)) by (apply Qpower_le_compat_l; [lia|discriminate]).
    change (two ^ (-1)) with (1 # 2) in Hp.
    assert (q * two ^ (- e1) <= q * (1 # 2)).
    { rewrite (Qmult_comm q (two ^ _)), (Qmult_comm q (1 # 2)). apply Qmult_le_compat_r; assumption. }
    lra. }
  assert (He : (e <= 0)%Z) by (unfold e; lia).
  destruct (scaled_spec p dd e) as (Ha & Hb & HX). fold n d q in Ha, Hb, HX.
  set (a := fst (scaled n d e)) in *. set (b := snd (scaled n d e)) in *.
  set (X := q * two ^ (- e)) in *.
  pose proof (rne_Q a b X Ha Hb HX) as HR.
  set (m := rne_div a b) in *. rewrite q_of_me_spec.
  set (K := (k * 2 ^ (- e))%Z).
  assert (HK : inject_Z K == inject_Z k * two ^ (- e)) by (unfold K; rewrite inject_Z_mult, pow2_Z by lia; reflexivity).
  assert (HKX : inject_Z K <= X).
  { rewrite HK. unfold X. apply Qmult_le_compat_r; [assumption|apply Qlt_le_weak, pow2_pos]. }
  assert (HmK : (K <= m)%Z).
  { apply Qabs_Qle_condition in HR. destruct HR as [HR1 _].
    assert (Hh : inject_Z K - (1 # 2) <= inject_Z m) by lra.
    unfold Qle, Qminus, Qplus, Qopp, inject_Z in Hh. cbn in Hh. lia. }
  assert (HP : 0 < two ^ e) by apply pow2_pos.
  assert (inject_Z K * two ^ e <= inject_Z m * two ^ e).
  { apply Qmult_le_compat_r; [rewrite <- Zle_Qle; assumption|apply Qlt_le_weak; assumption]. }
  assert (Ek : inject_Z K * two ^ e == inject_Z k).
  { rewrite HK, <- Qmult_assoc, pow2_inv. ring. }
  rewrite <- Ek. assumption.
Qed.

Lemma dbl_exec_ge_int k x :
  (0 <= k)%Z -> inject_Z k <= x -> x <= c52 -> inject_Z k <= dbl_exec x.
Proof.
  intros Hk Hkx Hx. unfold dbl_exec. pose proof (Qred_correct x) as E.
  assert (Hk0 : 0 <= inject_Z k) by (unfold Qle, inject_Z; cbn; lia).
  destruct (Qred x) as [[|p|p] dd]; unfold dbl_core; cbn [Qnum Qden].
  - assert (E0 : 0 # dd == 0) by reflexivity. rewrite E0 in E. lra.
  - apply dbl_pos_ge_int; [assumption|rewrite E; assumption|rewrite E; assumption].
  - exfalso. assert (Zneg p # dd < 0) by (unfold Qlt; cbn; lia). lra.
Qed.

Lemma qtrunc_bounds y : 0 <= y -> inject_Z (qtrunc y) <= y /\ y < inject_Z (qtrunc y + 1).
Proof.
  destruct y as [a b]. unfold Qle at 1. cbn. intros Ha. unfold qtrunc. cbn [Qnum Qden].
  rewrite Z.quot_div_nonneg by lia.
  pose proof (Z.div_mod a (Zpos b) ltac:(lia)). pose proof (Z.mod_pos_bound a (Zpos b) ltac:(lia)).
  unfold Qle, Qlt, inject_Z. cbn [Qnum Qden].
  set (B := Zpos b) in *. set (qq := (a / B)%Z) in *. set (r := (a mod B)%Z) in *.
  rewrite !Z.mul_1_r. clearbody qq r B. split; nia.
Qed.

(* int(255 * p / 100) for an integer percentage p: one binary64 division, then truncation.  The result is the
   floor of the exact value 255p/100 or, when the division rounded up to the next integer, that integer:
   never below the floor, never more than the rounding error above the exact value *)
Theorem pct_int_spec z :
  (0 <= z <= 10 ^ 12)%Z ->
  let x := inject_Z (255 * z) / inject_Z 100 in
  let t := qtrunc (dbl_exec x) in
  (Qfloor x <= t)%Z /\ inject_Z t <= x + x * eps53 + tiny /\ Qabs (inject_Z t - x) < 1.
Proof.
  intros Hz x t.
  assert (Hx0 : 0 <= x).
  { unfold x. apply Qle_shift_div_l; [reflexivity|]. rewrite Qmult_0_l. change 0 with (inject_Z 0). rewrite <- Zle_Qle. lia. }
  assert (Hx52 : x <= c52).
  { unfold x. apply Qle_shift_div_r; [reflexivity|]. unfold c52. rewrite <- inject_Z_mult, <- Zle_Qle. lia. }
  destruct dbl_exec_binary64 as (Herr & Hpos & _ & _).
  pose proof (Hpos x Hx0) as Hd0.
  assert (Hmax : Qabs x <= maxq).
  { rewrite Qabs_pos by assumption. eapply Qle_trans; [exact Hx52|]. vm_compute. discriminate. }
  pose proof (Herr x Hmax) as He. rewrite (Qabs_pos x Hx0) in He. apply Qabs_Qle_condition in He.
  destruct (qtrunc_bounds (dbl_exec x) Hd0) as [Ht1 Ht2]. fold t in Ht1, Ht2.
  pose proof (Qfloor_le x) as Hf1. pose proof (Qlt_floor x) as Hf2.
  assert (Hfl0 : (0 <= Qfloor x)%Z).
  { change 0%Z with (Qfloor 0). apply Qfloor_resp_le. assumption. }
  pose proof (dbl_exec_ge_int (Qfloor x) x Hfl0 Hf1 Hx52) as Hge.
  assert (Hft : (Qfloor x <= t)%Z).
  { assert (inject_Z (Qfloor x) < inject_Z (t + 1)) by (eapply Qle_lt_trans; eassumption).
    rewrite <- Zlt_Qlt in H. lia. }
  split; [exact Hft|]. split; [lra|].
  rewrite inject_Z_plus in Hf2, Ht2. change (inject_Z 1) with 1 in *.
  assert (Hft' : inject_Z (Qfloor x) <= inject_Z t) by (rewrite <- Zle_Qle; assumption).
  assert (Hsmall : x * eps53 + tiny < 1).
  { assert (tiny <= 1 # 4) by (vm_compute; discriminate).
    assert (c52 * eps53 == 1 # 2) by reflexivity.
    assert (x * eps53 <= c52 * eps53) by (apply Qmult_le_compat_r; [assumption|discriminate]). lra. }
  apply Qabs_Qlt_condition. split; lra.
Qed.
