(* GrammarPP.v -- property C02: the Section hypotheses of parse_faithful_partial discharged through the production-engine
   model (ProdParser*.v, builder PP) for the fragment of G that PP's theorems cover.

   1. parse_faithful_fragment_lemma: the lemma of GrammarFacts.Unmodelled generalised to predicates on the declarations
      (okd), media lists (okm) and simple at-rules (oks) THAT OCCUR IN THE SHEET: the handlers have to be faithful only on
      those.  (The old lemma is the instance okd = okm = oks = fun _ => True.)
   2. instance: build_value := ProdParserValue.build_valuex -- the regenerated PropertyValue production tree run by the engine
      model (depth budget 3) followed by the reader of its items; okd := wf_valuex_js (terms are single tokens or rgb());
      PP's value_grammar_faithful_x is then exactly the value hypothesis, so for sheets of rule sets / comments / @media
      whose declarations lie in that fragment NO value hypothesis is left.                                             *)
From CssV Require Import Base Tokenizer Upto Skeleton Grammar GrammarFacts GrammarWf.
From CssV Require ProdParserValue.
From CssV Require Selector.

Section Fragment.
  Variable build_value : list tok -> js.
  Variable build_media : list tok -> js.
  Variable build_other : kind -> list tok -> js.
  Variable lay : layout.
  Variable okd : decl -> Prop.
  Variable okm : mlist -> Prop.
  Variable oks : stmt -> Prop.

  Hypothesis value_faithful_on :
    forall d ga, okd d -> build_value (decl_value lay d (gopt lay ga)) = m_value d.
  Hypothesis media_faithful_on :
    forall g0 media g1, okm media -> build_media (media_head lay g0 media g1 ++ [ch "{"]) = m_mlist media.
  Hypothesis simple_faithful_on :
    forall ns x, match x with SStyle _ _ | SMedia _ _ _ _ _ _ | SComment _ => False | _ => True end -> oks x ->
                 build_other (kind_of x) (r_stmt lay x) = m_stmt ns x.

  Definition okb (b : dblock) : Prop := Forall (fun p => okd (fst (fst p))) (b_decls b).

  (* every declaration of every rule set, every @media head and every simple at-rule of the statement is in the fragment *)
  Fixpoint OkStmt (x : stmt) : Prop :=
    match x with
    | SStyle _ b => okb b
    | SMedia _ _ media _ _ body =>
        okm media /\
        (fix go (l : list (stmt * nat)) : Prop := match l with [] => True | (y, _) :: r => OkStmt y /\ go r end) body
    | SComment _ => True
    | _ => oks x
    end.
  Definition OkSheet (sh : sheet) : Prop := forall x g, In (x, g) sh -> OkStmt x.

  Lemma build_decls_layers_on semi glast l :
    Forall (fun p => okd (fst (fst p))) l ->
    somes (map (build_decl build_value) (decls_layers lay semi glast l)) = map (fun p => m_decl (fst (fst p))) l.
  Proof.
    induction l as [|[[d ga] gb] r IH]; intros Hl; [reflexivity|].
    inversion Hl as [|? ? Hd Hr]; subst. cbn [fst] in Hd.
    cbn [decls_layers map fst]. rewrite map_app. cbn [somes build_decl decl_parts]. unfold decl_parts.
    cbn [build_decl somes]. rewrite somes_app, (IH Hr).
    assert (somes (map (build_decl build_value) (if has_semi lay semi glast r then gap_ldecls (gopt lay gb) else [])) = []) as ->
      by (destruct (has_semi lay semi glast r); [apply somes_gap|reflexivity]).
    cbn [app]. f_equal. unfold m_decl. rewrite (value_faithful_on d ga Hd), (prio_of_decl lay d _ (gopt_no_ident lay ga)).
    reflexivity.
  Qed.

  Lemma build_block_on b :
    okb b -> somes (map (build_decl build_value) (block_layers lay false b)) = map (fun p => m_decl (fst (fst p))) (b_decls b).
  Proof. intros H. unfold block_layers. rewrite map_app, somes_app, somes_gap. now apply build_decls_layers_on. Qed.

  Lemma ok_in_body (body : list (stmt * nat)) y g :
    (fix go (l : list (stmt * nat)) : Prop := match l with [] => True | (y, _) :: r => OkStmt y /\ go r end) body ->
    In (y, g) body -> OkStmt y.
  Proof.
    induction body as [|[y' g'] r IH]; [contradiction|].
    intros [H1 H2] [E|Hin]; [inversion E; subst; exact H1|now apply IH].
  Qed.

  Lemma style_on ns fuel sels b :
    stmt_deep_ok lay (SStyle sels b) = true -> SelectorsAccepted ns (SStyle sels b) -> okb b ->
    build_item build_value build_media build_other fuel ns (stmt_item lay (SStyle sels b)) = m_stmt ns (SStyle sels b).
  Proof.
    intros Hok Hsel Hb. destruct fuel; cbn [stmt_item build_item kind_of]; cbn [stmt_deep_ok] in Hok;
      rewrite (ruleset_layer_lemma _ _ _ Hok); cbn [m_stmt]; rewrite (build_block_on b Hb), map_map; unfold m_block;
      f_equal; f_equal; f_equal; apply map_ext_in; intros y Hy; apply Hsel; exact Hy.
  Qed.

  Lemma build_stmt_on ns : forall fuel x,
    depth x <= fuel -> stmt_deep_ok lay x = true -> SelectorsAccepted ns x -> OkStmt x ->
    build_item build_value build_media build_other fuel ns (stmt_item lay x) = m_stmt ns x.
  Proof.
    induction fuel as [|f IH]; intros x Hd Hok Hsel Hx.
    - destruct x; try (cbn [depth] in Hd; lia).
      + cbn [stmt_item build_item kind_of]. exact (simple_faithful_on ns (SCharset enc) I Hx).
      + cbn [stmt_item build_item kind_of]. exact (simple_faithful_on ns (SImport gk g0 f href media name g1) I Hx).
      + cbn [stmt_item build_item kind_of]. exact (simple_faithful_on ns (SNamespace gk g0 prefix f uri g1) I Hx).
      + cbn [stmt_item build_item kind_of]. exact (simple_faithful_on ns (SPage gk g0 sel g1 b margins) I Hx).
      + cbn [stmt_item build_item kind_of]. exact (simple_faithful_on ns (SFontFace gk g0 b) I Hx).
      + now apply style_on.
      + cbn [stmt_item build_item kind_of]. exact (simple_faithful_on ns (SUnknown kw g0 prelude body) I Hx).
      + reflexivity.
    - destruct x.
      + cbn [stmt_item build_item kind_of]. exact (simple_faithful_on ns (SCharset enc) I Hx).
      + cbn [stmt_item build_item kind_of]. exact (simple_faithful_on ns (SImport gk g0 f0 href media name g1) I Hx).
      + cbn [stmt_item build_item kind_of]. exact (simple_faithful_on ns (SNamespace gk g0 prefix f0 uri g1) I Hx).
      + (* media *)
        cbn [OkStmt] in Hx. destruct Hx as [Hmq Hbody].
        cbn [stmt_deep_ok] in Hok. apply andb_true_iff in Hok as [Hm Hin].
        cbn [stmt_item kind_of build_item]. rewrite (media_faithful_lemma _ _ _ _ _ _ _ Hm). cbn [mp_inner mp_media].
        rewrite (media_faithful_on _ _ _ Hmq). cbn [m_stmt]. f_equal. f_equal. f_equal. f_equal.
        cbn [depth] in Hd. apply le_S_n in Hd.
        apply media_inner_map. intros y g Hy. apply IH.
        * pose proof (depth_in_body _ _ _ Hy). lia.
        * exact (deep_in_body _ _ _ _ Hin Hy).
        * intros z Hz. apply Hsel. eapply stmt_selectors_media; eauto.
        * exact (ok_in_body _ _ _ Hbody Hy).
      + cbn [stmt_item build_item kind_of]. exact (simple_faithful_on ns (SPage gk g0 sel g1 b margins) I Hx).
      + cbn [stmt_item build_item kind_of]. exact (simple_faithful_on ns (SFontFace gk g0 b) I Hx).
      + now apply style_on.
      + cbn [stmt_item build_item kind_of]. exact (simple_faithful_on ns (SUnknown kw g0 prelude body) I Hx).
      + reflexivity.
  Qed.

  Lemma parse_faithful_fragment_lemma sh :
    Delimited sh lay ->
    (forall x g, In (x, g) sh -> SelectorsAccepted (ns_of sh) x) ->
    OkSheet sh ->
    JL (map (build_item build_value build_media build_other (sheet_depth sh) (ns_of sh))
            (skeleton (render sh lay ++ [eof_tok]))) = expected_model sh.
  Proof.
    intros Hd Hsel Hok. rewrite (skeleton_faithful_lemma _ _ (delimited_top_of _ _ Hd)).
    unfold sheet_items, expected_model. rewrite map_map. f_equal. apply map_ext_in. intros [x g] Hin. cbn [fst].
    apply build_stmt_on.
    - eapply depth_le_sheet; eauto.
    - unfold Delimited, delimited in Hd. apply andb_true_iff in Hd as [_ Hd]. rewrite forallb_forall in Hd.
      exact (Hd _ Hin).
    - eapply Hsel; eauto.
    - eapply Hok; eauto.
  Qed.
End Fragment.

(* ================================================================== the value hypothesis discharged by the PP engine *)
(* the statement kinds whose handlers are not modelled at all stay outside: rule sets, comments and @media only *)
Definition no_simple (x : stmt) : Prop := False.

(* values in PP's fragment: every term of every declaration is a single token (identifier / colour keyword, number,
   dimension, percentage, string, url, hex colour, unicode-range) or rgb(), with the side conditions of
   ProdParserValue.wf_valuex_js (numbers of G, colour keywords, dimension splitting) *)
Definition okd_pp (d : decl) : Prop := ProdParserValue.wf_valuex_js d.

Lemma parse_faithful_values_pp_lemma (build_media : list tok -> js) (lay : layout) (okm : mlist -> Prop) :
  (forall g0 media g1, okm media -> build_media (media_head lay g0 media g1 ++ [ch "{"]) = m_mlist media) ->
  forall sh,
  WfSheet sh -> selectors_ok sh = true ->
  OkSheet okd_pp okm no_simple sh ->
  JL (map (build_item ProdParserValue.build_valuex build_media (fun _ _ => JL []) (sheet_depth sh) (ns_of sh))
          (skeleton (render sh lay ++ [eof_tok]))) = expected_model sh.
Proof.
  intros Hm sh Hw Hs Hok.
  apply (parse_faithful_fragment_lemma ProdParserValue.build_valuex build_media (fun _ _ => JL []) lay okd_pp okm no_simple).
  - intros d ga Hd. now apply ProdParserValue.value_grammar_faithful_x.
  - exact Hm.
  - intros ns x _ [].
  - now apply delimited_of_wf_lemma.
  - now apply selectors_ok_accepted.
  - exact Hok.
Qed.

(* ================================================================== the media hypothesis discharged by the PP engine *)
From CssV Require ProdParser ProdParserMedia.
Module PM := ProdParserMedia.
Module PV := ProdParserValue.
Module PPm := ProdParser.

Definition isCom (it : PPm.item) : bool := match it with PPm.IStr t _ => eqs t (s "CSSComment") | _ => false end.
Definition nocom (l : list PPm.item) : list PPm.item := filter (fun it => negb (isCom it)) l.
Lemma nocom_app a b : nocom (a ++ b) = nocom a ++ nocom b.
Proof. apply filter_app. Qed.

Lemma nocom_gapl g : PM.gapl g -> nocom (PM.tok_items g) = [].
Proof.
  induction 1 as [|t g Ht Hg IH]; [reflexivity|].
  change (t :: g) with ([t] ++ g). rewrite PM.tok_items_app, nocom_app, IH, app_nil_r.
  unfold PM.tok_items, PPm.isS, PPm.isC. cbn [flat_map]. destruct Ht as [Ht|Ht]; rewrite Ht; reflexivity.
Qed.

Lemma gapl_gopt lay g : PM.gapl (gopt lay g).
Proof.
  unfold gopt, gap_opt, PM.gapl. destruct (Nat.modulo (lk lay g) 7) as [|[|[|[|[|[|n]]]]]];
    repeat constructor; (left; reflexivity) || (right; reflexivity).
Qed.
Lemma gapl_greq lay g : PM.gapl (greq lay g).
Proof.
  unfold greq, gap_req, PM.gapl. destruct (Nat.modulo (lk lay g) 5) as [|[|[|[|n]]]];
    repeat constructor; (left; reflexivity) || (right; reflexivity).
Qed.

(* ---- the reader of a MediaQuery object (mirrors harness x_mquery): comments dropped, then
        [only|not]? type? ( '(' feature [':' value]? ')' separated by `and` )*                               *)
Definition negword (v : str) : bool := PPm.mem_s v [s "only"; s "not"].
Definition rd_head (l : list PPm.item) : str * str :=
  match l with
  | PPm.IStr ty1 v1 :: r =>
      if eqs ty1 (s "IDENT")
      then if negword (lower v1)
           then (lower v1, match r with PPm.IStr ty2 v2 :: _ => if eqs ty2 (s "IDENT") then lower v2 else [] | _ => [] end)
           else ([], lower v1)
      else ([], [])
  | _ => ([], [])
  end.
Fixpoint rd_exprs (l : list PPm.item) : list js :=
  match l with
  | PPm.IStr ty1 v1 :: r =>
      if eqs ty1 (s "CHAR") && eqs v1 (s "(")
      then match r with
           | PPm.IStr _ f :: ((PPm.IStr _ c :: (PPm.IObj _ _ _ _ _ as o) :: r') as r1) =>
               if eqs c (s ":") then JL [JS (lower f); PV.js_of_item o] :: rd_exprs r' else JL [JS (lower f)] :: rd_exprs r1
           | PPm.IStr _ f :: r' => JL [JS (lower f)] :: rd_exprs r'
           | _ => rd_exprs r
           end
      else rd_exprs r
  | _ :: r => rd_exprs r
  | [] => []
  end.
Definition rd_mq (it : PPm.item) : js :=
  match it with
  | PPm.IObj _ _ _ its _ => let l := nocom its in tag "mq" [JS (fst (rd_head l)); JS (snd (rd_head l)); JL (rd_exprs l)]
  | _ => tag "bad" []
  end.

(* the canonical item list of a query without comments *)
Definition c_expr (e : mexpr) : list PPm.item :=
  PPm.IStr (s "CHAR") (s "(") :: PPm.IStr (s "IDENT") (me_feat e) ::
  match me_val e with
  | Some (_, t) => PPm.IStr (s "CHAR") (s ":") :: PM.dim_item t
  | None => []
  end ++ [PPm.IStr (s "CHAR") (s ")")].
Definition c_ands (lay : layout) (l : list (nat * nat * nat * mexpr)) : list PPm.item :=
  flat_map (fun p => match p with (_, gc, _, e) => PPm.IStr (s "IDENT") (cased lay gc (s "and")) :: c_expr e end) l.
Definition c_mquery (lay : layout) (q : mquery) : list PPm.item :=
  match mq_type q with
  | Some t =>
      match mq_neg q with 0 => [] | _ => [PPm.IStr (s "IDENT") (val (PM.negtok lay q))] end ++
      PPm.IStr (s "IDENT") t :: c_ands lay (mq_exprs q)
  | None => match mq_exprs q with [] => [] | (_, _, _, e) :: r => c_expr e ++ c_ands lay r end
  end.

Lemma nocom_dim t : PM.is_dim t -> nocom (PM.dim_item t) = PM.dim_item t.
Proof. destruct t; intros H; try contradiction; reflexivity. Qed.

Lemma nocom_inner lay e : PM.wf_val (me_val e) ->
  nocom (PM.tok_items [ch "("] ++ PM.x_inner' lay e ++ [PM.it_close]) = c_expr e.
Proof.
  intros Hv. unfold PM.x_inner', PM.x_val, c_expr. rewrite !nocom_app.
  rewrite (nocom_gapl _ (gapl_gopt lay (me_g0 e))), (nocom_gapl _ (gapl_gopt lay (me_g1 e))).
  destruct (me_val e) as [[g t]|]; cbn [PM.wf_val] in Hv.
  - rewrite !nocom_app, (nocom_gapl _ (gapl_gopt lay g)), (nocom_gapl _ (gapl_gopt lay (me_g2 e))), (nocom_dim t Hv).
    destruct t; try contradiction; reflexivity.
  - reflexivity.
Qed.

Lemma nocom_ands lay l : Forall (fun x => PM.wf_val (me_val (snd x))) l -> nocom (PM.x_ands lay l) = c_ands lay l.
Proof.
  induction 1 as [|[[[ga gc] gb] e] r He Hr IH]; [reflexivity|]. cbn [snd] in He.
  cbn [PM.x_ands c_ands flat_map]. fold (c_ands lay r).
  rewrite nocom_app, (nocom_gapl _ (gapl_greq lay ga)). rewrite nocom_app.
  rewrite nocom_app, (nocom_gapl _ (gapl_greq lay gb)).
  replace (PM.tok_items [ch "("] ++ PM.x_inner' lay e ++ [PM.it_close] ++ PM.x_ands lay r)
    with ((PM.tok_items [ch "("] ++ PM.x_inner' lay e ++ [PM.it_close]) ++ PM.x_ands lay r)
    by (rewrite <- !app_assoc; reflexivity).
  rewrite nocom_app, (nocom_inner lay e He), IH. unfold PM.andtok. reflexivity.
Qed.

Lemma nocom_mquery lay q g : PM.wf_mqv q -> PM.gapl g ->
  nocom (PM.x_mquery lay q ++ PM.tok_items g) = c_mquery lay q.
Proof.
  intros [Ht Hv] Hg. rewrite nocom_app, (nocom_gapl g Hg), app_nil_r. unfold PM.x_mquery, c_mquery.
  destruct (mq_type q) as [t|].
  - rewrite !nocom_app, (nocom_ands lay _ Hv). destruct (mq_neg q) as [|n].
    + reflexivity.
    + rewrite nocom_app, (nocom_gapl _ (gapl_greq lay (mq_g0 q))). unfold PM.negtok.
      destruct n; unfold cased; destruct (Nat.odd (lk lay (mq_gcase q))); reflexivity.
  - destruct (mq_exprs q) as [|[[[a b] c] e] r]; [reflexivity|].
    inversion Hv as [|? ? He Hr]; subst. cbn [snd] in He.
    replace (PM.tok_items [ch "("] ++ PM.x_inner' lay e ++ [PM.it_close] ++ PM.x_ands lay r)
      with ((PM.tok_items [ch "("] ++ PM.x_inner' lay e ++ [PM.it_close]) ++ PM.x_ands lay r)
      by (rewrite <- !app_assoc; reflexivity).
    rewrite nocom_app, (nocom_inner lay e He), (nocom_ands lay r Hr). reflexivity.
Qed.

(* value terms of media features must be readable: PP's side conditions for single-token terms *)
Definition ok_mval (e : mexpr) : Prop :=
  match me_val e with Some (_, t) => PM.is_dim t /\ PV.wf_term t /\ PV.wf_term_js t | None => True end.

Lemma dim_item_tobj t : PM.is_dim t -> PM.dim_item t = [PV.tobj t].
Proof.
  destruct t; intros H; try contradiction; try reflexivity.
  cbn [PM.is_dim] in H. cbn [PM.dim_item PV.tobj]. now rewrite H.
Qed.

Lemma rd_expr_one e rest : ok_mval e -> rd_exprs (c_expr e ++ rest) = m_mexpr e :: rd_exprs rest.
Proof.
  unfold ok_mval, c_expr, m_mexpr. destruct (me_val e) as [[g t]|].
  - intros (Hd & Hw & Hj). rewrite (dim_item_tobj t Hd). cbn [app rd_exprs eqs andb].
    change (eqs (s "CHAR") (s "CHAR") && eqs (s "(") (s "(")) with true. cbv iota.
    destruct (PV.tobj t) as [a b|lbl gg w its mt] eqn:E.
    + exfalso. destruct t; try contradiction; cbn [PV.tobj] in E; try discriminate.
      destruct (PPm.mem_s _ _) in E; discriminate.
    + rewrite <- E, (PV.js_tobj t Hw Hj). cbn [rd_exprs]. reflexivity.
  - intros _. destruct rest as [|[a b|l0 g0 w0 i0 m0] rest']; reflexivity.
Qed.

Lemma rd_ands lay l : Forall (fun x => ok_mval (snd x)) l ->
  rd_exprs (c_ands lay l) = map (fun p => m_mexpr (snd p)) l.
Proof.
  induction 1 as [|[[[ga gc] gb] e] r He Hr IH]; [reflexivity|]. cbn [snd] in He.
  cbn [c_ands flat_map map snd]. fold (c_ands lay r). cbn [app rd_exprs].
  change (eqs (s "IDENT") (s "CHAR")) with false. cbn [andb]. rewrite (rd_expr_one e _ He), IH. reflexivity.
Qed.

Definition ok_mq (q : mquery) : Prop :=
  PM.wf_mqv q /\ PM.type_plain q /\ Forall (fun x => ok_mval (snd x)) (mq_exprs q).

Lemma negword_type t : PM.not_neg t -> Tokenizer.normalize t = lower t -> negword (lower t) = false.
Proof. unfold PM.not_neg, negword. intros H E. now rewrite <- E. Qed.

Lemma rd_mq_obj lay q g : ok_mq q -> PM.gapl g -> rd_mq (PM.mq_obj lay q g) = m_mquery q.
Proof.
  intros (Hw & Hp & Hv) Hg. unfold PM.mq_obj, rd_mq. rewrite (nocom_mquery lay q g Hw Hg).
  unfold c_mquery, m_mquery. destruct Hw as [Ht _]. destruct (mq_type q) as [t|] eqn:Et.
  - destruct Ht as [Hn _]. destruct (Hp t Et) as [Hnorm _].
    destruct (mq_neg q) as [|n] eqn:En.
    + cbn [app rd_head]. change (eqs (s "IDENT") (s "IDENT")) with true. cbv iota.
      rewrite (negword_type t Hn Hnorm). cbn [fst snd rd_exprs]. change (eqs (s "IDENT") (s "CHAR")) with false.
      cbn [andb]. rewrite (rd_ands lay _ Hv). reflexivity.
    + cbn [app]. unfold PM.negtok. rewrite En.
      assert (forall w : string, (w = "only" \/ w = "not")%string ->
                lower (cased lay (mq_gcase q) (s w)) = s w /\ negword (s w) = true) as Hc
        by (intros w [-> | ->]; unfold cased; destruct (Nat.odd (lk lay (mq_gcase q))); split; reflexivity).
      destruct n as [|n].
      * destruct (Hc "only"%string (or_introl eq_refl)) as [H1 H2].
        cbn [val T rd_head]. change (eqs (s "IDENT") (s "IDENT")) with true. cbv iota. rewrite H1, H2.
        cbn [fst snd rd_exprs]. change (eqs (s "IDENT") (s "CHAR")) with false. cbn [andb].
        rewrite (rd_ands lay _ Hv). reflexivity.
      * destruct (Hc "not"%string (or_intror eq_refl)) as [H1 H2].
        cbn [val T rd_head]. change (eqs (s "IDENT") (s "IDENT")) with true. cbv iota. rewrite H1, H2.
        cbn [fst snd rd_exprs]. change (eqs (s "IDENT") (s "CHAR")) with false. cbn [andb].
        rewrite (rd_ands lay _ Hv). reflexivity.
  - destruct (mq_exprs q) as [|[[[a b] c] e] r] eqn:Ee; [congruence|].
    inversion Hv as [|? ? He Hr]; subst. cbn [snd] in He.
    assert (rd_head (c_expr e ++ c_ands lay r) = ([], [])) as -> by reflexivity.
    rewrite (rd_expr_one e _ He), (rd_ands lay r Hr). reflexivity.
Qed.

(* ---- the MediaList constructor on a media head (the proof of PM.media_head_spec, keeping the witness) *)
Module PT := Gen.ProdTrees.

Lemma media_head_items lay g0 g1 ga gb q more : PM.gapl g0 -> PM.gapl g1 -> PM.wf_ml' q more ->
  exists its, PPm.build 6 PT.env_real PT.gid_MediaList (g0 ++ r_mlist lay true ((ga, gb, q) :: more) ++ g1)
              = Some (PPm.PRet true its []) /\
              filter PPm.is_mq_obj its = map (PM.pobj lay) (PM.my_eff (PM.ml_pairs lay q more g1)).
Proof.
  intros Hg0 Hg1 Hwf.
  unfold PPm.build. rewrite (PM.media_list_parse_gaps lay g0 g1 ga gb q more Hg0 Hg1 Hwf).
  change (PPm.postof_env PT.env_real PT.gid_MediaList) with (Some PPm.PostML). cbv iota beta.
  unfold PPm.post. cbn [PPm.r_wf PPm.r_items andb]. rewrite filter_app, PM.filter_gapitems, PM.x_ml_objs. cbn [app].
  rewrite PM.pobj_wf.
  assert (Hne : negb match map (PM.pobj lay) (PM.ml_pairs lay q more g1) with [] => true | _ :: _ => false end = true)
    by (destruct more as [|[[? ?] ?] ?]; reflexivity).
  rewrite Hne. cbn [andb]. eexists. split; [reflexivity|].
  rewrite (PM.ml_filter_gap _ Hg0). unfold PM.my_eff.
  destruct (List.find PM.isall (PM.ml_pairs lay q more g1)) as [p|] eqn:Ef.
  - apply (PM.ml_filter_all lay g1 more q _ _ _ p Ef). rewrite app_nil_r, rev_involutive. apply PM.filter_gapitems.
  - rewrite (PM.ml_filter_noall lay g1 more q _ _ _ Ef). rewrite app_nil_r, rev_involutive, PM.filter_gapitems. reflexivity.
Qed.

Lemma ded_incl : forall l seen p, In p (PM.ded seen l) -> In p l.
Proof.
  induction l as [|x l IH]; intros seen p H; [contradiction|]. cbn [PM.ded] in H.
  destruct (PM.mkey (fst x)) as [|c k].
  - destruct H as [->|H]; [now left|right; eapply IH; eauto].
  - destruct (PPm.mem_s (c :: k) seen); [right; eapply IH; eauto|].
    destruct H as [->|H]; [now left|right; eapply IH; eauto].
Qed.
Lemma my_eff_incl l p : In p (PM.my_eff l) -> In p l.
Proof.
  unfold PM.my_eff. destruct (List.find PM.isall l) as [x|] eqn:E.
  - intros [->|[]]. now apply find_some in E as [E _].
  - apply ded_incl.
Qed.
Lemma ml_pairs_in lay gend : PM.gapl gend -> forall more q p,
  In p (PM.ml_pairs lay q more gend) -> In (fst p) (q :: map snd more) /\ PM.gapl (snd p).
Proof.
  intros Hg. induction more as [|[[ga gb] q'] r IH]; intros q p H; cbn [PM.ml_pairs] in H.
  - destruct H as [<-|[]]. split; [now left|exact Hg].
  - destruct H as [<-|H]; [split; [now left|apply gapl_gopt]|].
    destruct (IH q' p H) as [H1 H2]. split; [right; exact H1|exact H2].
Qed.

(* MediaList(tokens of the @media head without its '{') read back: the PP engine on the regenerated MediaList /
   MediaQuery trees (depth budget 6), the MediaList post-processing (repetitions, `all`), then the reader *)
Definition build_media_pp (toks : list tok) : js :=
  match PPm.build 6 PT.env_real PT.gid_MediaList (removelast toks) with
  | Some (PPm.PRet true its _) => JL (map rd_mq (filter PPm.is_mq_obj its))
  | _ => tag "rejected" []
  end.

(* media lists in PP's fragment: every query is accepted by the engine model (known media type, or an unknown one
   without only/not; a query that is followed by another one stops at the comma: PM.wf_ml), media types are plain
   identifiers, feature values are single number / dimension / percentage / non-colour identifier tokens *)
Definition okm_pp (ml : mlist) : Prop := PM.wf_ml ml /\ Forall ok_mq (map snd ml).

Theorem media_grammar_faithful_pp lay g0 media g1 :
  okm_pp media -> build_media_pp (media_head lay g0 media g1 ++ [ch "{"]) = m_mlist media.
Proof.
  intros [Hwf Hq]. unfold build_media_pp. rewrite removelast_last. unfold media_head.
  destruct media as [|[[ga gb] q] more]; [destruct Hwf|]. cbn [PM.wf_ml] in Hwf.
  destruct (media_head_items lay (greq lay g0) (gopt lay g1) ga gb q more (gapl_greq lay g0) (gapl_gopt lay g1) Hwf)
    as (its & Hb & Hf).
  rewrite Hb, Hf. unfold m_mlist. f_equal. cbn [map snd].
  assert (Forall PM.type_plain (map fst (PM.ml_pairs lay q more (gopt lay g1)))) as Hp.
  { rewrite PM.ml_pairs_fst. eapply Forall_impl; [|exact Hq]. intros a (_ & H & _). exact H. }
  rewrite <- (PM.ml_pairs_fst lay (gopt lay g1) more q), <- (PM.my_eff_effective _ Hp). rewrite !map_map.
  apply map_ext_in. intros p Hin. apply my_eff_incl in Hin.
  destruct (ml_pairs_in lay (gopt lay g1) (gapl_gopt lay g1) more q p Hin) as [H1 H2].
  unfold PM.pobj. apply rd_mq_obj; [|exact H2]. rewrite Forall_forall in Hq. apply Hq. exact H1.
Qed.

(* ================================================================== rule sets, comments and @media: no hypothesis left *)
Lemma parse_faithful_pp_lemma (lay : layout) sh :
  WfSheet sh -> selectors_ok sh = true ->
  OkSheet okd_pp okm_pp no_simple sh ->
  JL (map (build_item ProdParserValue.build_valuex build_media_pp (fun _ _ => JL []) (sheet_depth sh) (ns_of sh))
          (skeleton (render sh lay ++ [eof_tok]))) = expected_model sh.
Proof.
  intros Hw Hs Hok. apply (parse_faithful_values_pp_lemma build_media_pp lay okm_pp); auto.
  intros g0 media g1 Hm. now apply media_grammar_faithful_pp.
Qed.

(* ---- a concrete sheet in the fragment: a comment, a rule set with two selectors and three declarations, an @media
   rule with a two-query media list (one with a feature value) containing a rule set and a nested @media *)
Definition pp_d1 : decl :=
  mkDecl (s "color") 0 1 (TmIdent (s "red")) [(SepSp 2, TmNum (mkNum 2 (s "1") (Some (s "50")))); (SepComma 3 4, TmStr 5 (s "x;}"))]
         6 (Some (7, 8)).
Definition pp_d2 : decl := mkDecl (s "Width") 9 10 (TmDim (mkNum 0 (s "10") None) (s "PX")) [(SepSlash 11 12, TmPct (mkNum 1 (s "5") None))] 13 None.
Definition pp_d3 : decl := mkDecl (s "background") 14 15 (TmRgb 16 255 17 18 0 19 20 17 21) [(SepSp 22, TmUrl 23 (s "a.png")); (SepSp 24, TmHex (s "0aF"))] 25 None.
Definition pp_block : dblock := mkBlock 26 [(pp_d1, 27, 28); (pp_d2, 29, 30); (pp_d3, 31, 32)] 33.
Definition pp_mq1 : mquery := mkMQ 1 34 35 (Some (s "screen")) [(36, 37, 38, mkMExpr 39 (s "min-width") 40 (Some (41, TmDim (mkNum 0 (s "25") None) (s "cm"))) 42)].
Definition pp_mq2 : mquery := mkMQ 0 43 44 (Some (s "print")) [].
Definition pp_sheet : sheet :=
  [(SComment (s "/*c*/"), 45);
   (SStyle [ex_sel; ex_sel] pp_block, 46);
   (SMedia 47 48 [(0, 0, pp_mq1); (49, 50, pp_mq2)] 51 52
           [(SStyle [ex_sel] pp_block, 53);
            (SMedia 54 55 [(0, 0, pp_mq2)] 56 57 [(SStyle [ex_sel] pp_block, 58)], 59)], 60)]%nat.

Ltac pp_term :=
  repeat match goal with
         | |- _ /\ _ => split
         | |- Forall _ _ => constructor
         | |- True => exact I
         | |- PV.okw _ => unfold PV.okw
         | |- PM.not_neg _ => unfold PM.not_neg
         | |- PM.known_type _ => unfold PM.known_type
         | |- PM.wf_val _ => cbn
         | |- PM.is_dim _ => cbn
         | |- PV.wf_termx _ => cbn
         | |- PV.wf_termx_js _ => cbn
         | |- PV.wf_term _ => cbn
         | |- PV.wf_term_js _ => cbn
         | |- forall k : nat, _ => let k := fresh "k" in intros k; unfold url_text;
                                   destruct (Nat.modulo k 5) as [|[|[|[|?]]]]; vm_compute; reflexivity
         | |- _ = _ => vm_compute; reflexivity
         | |- _ <= _ => vm_compute; repeat constructor
         | |- _ <> _ => discriminate
         | |- _ \/ _ => left; vm_compute; reflexivity
         end.

Lemma pp_d1_ok : okd_pp pp_d1. Proof. unfold okd_pp, PV.wf_valuex_js, PV.wf_valuex, pp_d1. cbn. pp_term. Qed.
Lemma pp_d2_ok : okd_pp pp_d2. Proof. unfold okd_pp, PV.wf_valuex_js, PV.wf_valuex, pp_d2. cbn. pp_term. Qed.
Lemma pp_d3_ok : okd_pp pp_d3. Proof. unfold okd_pp, PV.wf_valuex_js, PV.wf_valuex, pp_d3. cbn. pp_term. Qed.
Lemma pp_block_ok : okb okd_pp pp_block.
Proof.
  unfold okb, pp_block. cbn [b_decls].
  apply Forall_cons; [exact pp_d1_ok|apply Forall_cons; [exact pp_d2_ok|apply Forall_cons; [exact pp_d3_ok|apply Forall_nil]]].
Qed.

Lemma pp_mq1_ok : ok_mq pp_mq1.
Proof.
  unfold ok_mq, pp_mq1. split; [|split].
  - unfold PM.wf_mqv. cbn. pp_term.
  - intros t E. cbn in E. inversion E; subst. split; [vm_compute; reflexivity|discriminate].
  - apply Forall_cons; [|apply Forall_nil]. unfold ok_mval. cbn. pp_term.
Qed.
Lemma pp_mq2_ok : ok_mq pp_mq2.
Proof.
  unfold ok_mq, pp_mq2. split; [|split].
  - unfold PM.wf_mqv. cbn. pp_term.
  - intros t E. cbn in E. inversion E; subst. split; [vm_compute; reflexivity|discriminate].
  - apply Forall_nil.
Qed.

Lemma pp_sheet_ok : OkSheet okd_pp okm_pp no_simple pp_sheet.
Proof.
  assert (okm_pp [(0, 0, pp_mq2)]%nat) as M2.
  { split; [|apply Forall_cons; [exact pp_mq2_ok|apply Forall_nil]]. cbn [PM.wf_ml PM.wf_ml']. split; [apply pp_mq2_ok|exact I]. }
  assert (okm_pp [(0, 0, pp_mq1); (49, 50, pp_mq2)]%nat) as M1.
  { split; [|apply Forall_cons; [exact pp_mq1_ok|apply Forall_cons; [exact pp_mq2_ok|apply Forall_nil]]].
    cbn [PM.wf_ml PM.wf_ml']. split; [apply pp_mq1_ok|]. split; [|split; [apply pp_mq2_ok|exact I]].
    unfold PM.stopok. cbn. left. vm_compute. reflexivity. }
  intros x g Hin. unfold pp_sheet in Hin. cbn [In] in Hin.
  destruct Hin as [E|[E|[E|[]]]]; inversion E; subst; clear E.
  - exact I.
  - exact pp_block_ok.
  - cbn [OkStmt]. split; [exact M1|]. split; [exact pp_block_ok|]. split; [|exact I].
    split; [exact M2|]. split; [exact pp_block_ok|exact I].
Qed.

Lemma pp_sheet_wf : WfSheet pp_sheet. Proof. vm_compute. reflexivity. Qed.
Lemma pp_sheet_sel : selectors_ok pp_sheet = true. Proof. vm_compute. reflexivity. Qed.
Lemma pp_sheet_shape : length pp_sheet = 3%nat /\ sheet_depth pp_sheet = 2%nat. Proof. split; reflexivity. Qed.
