(* Grammar.v -- the generator grammar G of DESIGN.md section 5.4 (property C02), defined once, in Coq.

   sheet / statement / declaration / value AST;  `layout` = a stream of small naturals;
   render : sheet -> layout -> list tok      the token list of the sheet, whitespace / comments /
                                             quote kind / letter case of keywords chosen by the layout
   text_of : list tok -> str                 the text handed to the implementation
   expected_model : sheet -> js              the SPECIFICATION of the object model the library must build

   Every insignificant choice of the concrete syntax is a *gap*: a natural number g stored in the AST that is an
   index into the layout; the gap renders as  gap_xxx (nth g lay 0).  The harness numbers the gaps 0,1,2,... so
   that each one gets an independent choice; `expected_model` never looks at a gap or at the layout
   (GrammarFacts.expected_model_layout_free is therefore true by construction: the layout is not an argument).

   Selectors are the level-3 selector ASTs of CssV.Selector (owned by C16; whitespace is explicit there).        *)
From CssV Require Import Base Gen.PyTables Gen.TokTables Tokenizer.
From CssV Require Selector.

(* ------------------------------------------------------------------ generic model trees (JSON on the wire) *)
Inductive js := JS (v : str) | JN (n : N) | JL (l : list js).
Definition tag (t : string) (l : list js) : js := JL (JS (s t) :: l).

(* ------------------------------------------------------------------ tokens *)
Definition T (ty : string) (v : str) : tok := mkTok (s ty) v v 0 0.
Definition ch (c : string) : tok := T "CHAR" (s c).
Definition text_of (ts : list tok) : str := concat (map raw ts).
Definition eof_tok : tok := mkTok (s "EOF") [] [] 0 0.

(* ------------------------------------------------------------------ layout *)
Definition layout := list nat.
Definition lk (lay : layout) (g : nat) : nat := nth g lay 0.

Definition wS (v : string) : tok := T "S" (s v).
Definition wC (v : string) : tok := T "COMMENT" (s v).

(* optional gap: whitespace and comments are both allowed, nothing is required *)
Definition gap_opt (n : nat) : list tok :=
  match Nat.modulo n 7 with
  | 0 => [] | 1 => [wS " "] | 2 => [wS (String (ascii_of_nat 10) EmptyString)] | 3 => [wC "/*c*/"]
  | 4 => [wS " "; wC "/**/"; wS (String (ascii_of_nat 9) EmptyString)] | 5 => [wC "/*x*/"; wS " "]
  | _ => [wS "  "; wC "/* y */"]
  end.
(* required gap: at least one S token *)
Definition gap_req (n : nat) : list tok :=
  match Nat.modulo n 5 with
  | 0 => [wS " "] | 1 => [wS (String (ascii_of_nat 10) " ")] | 2 => [wS " "; wC "/*c*/"; wS " "]
  | 3 => [wC "/*c*/"; wS " "] | _ => [wS " "; wC "/**/"]
  end.
(* whitespace-only gap (between statements: a comment there would be a statement of its own) *)
Definition gap_ws (n : nat) : list tok :=
  match Nat.modulo n 3 with 0 => [] | 1 => [wS " "] | _ => [wS (String (ascii_of_nat 10) EmptyString)] end.
(* separator that keeps two tokens apart: an S token or a comment *)
Definition gap_sep (n : nat) : list tok :=
  match Nat.modulo n 4 with
  | 0 => [wS " "] | 1 => [wC "/**/"] | 2 => [wS " "; wC "/*c*/"] | _ => [wC "/*c*/"; wS " "]
  end.

Definition gopt (lay : layout) (g : nat) := gap_opt (lk lay g).
Definition greq (lay : layout) (g : nat) := gap_req (lk lay g).
Definition gws (lay : layout) (g : nat) := gap_ws (lk lay g).
Definition gsep (lay : layout) (g : nat) := gap_sep (lk lay g).

(* letter case of keywords: ASCII upper-casing when the layout says so *)
Definition up_char (c : N) : N := if N.leb 97 c && N.leb c 122 then N.sub c 32 else c.
Definition upper (x : str) : str := map up_char x.
Definition cased (lay : layout) (g : nat) (x : str) : str := if Nat.odd (lk lay g) then upper x else x.

(* ------------------------------------------------------------------ numbers *)
Record num := mkNum { nsign : nat (* 0 none, 1 '+', 2 '-' *); nint : str; nfrac : option str }.
Definition sign_str (n : num) : str := match nsign n with 1 => s "+" | 2 => s "-" | _ => [] end.
Definition num_lex (n : num) : str :=
  sign_str n ++ nint n ++ match nfrac n with Some f => 46%N :: f | None => [] end.

Fixpoint strip0 (d : str) : str :=           (* leading zeros, keeping one digit *)
  match d with
  | c :: r => if N.eqb c 48 then (match r with [] => d | _ => strip0 r end) else d
  | [] => []
  end.
Definition nonempty0 (d : str) : str := match d with [] => s "0" | _ => d end.
Definition strip0_end (d : str) : str := rev (strip0 (rev d)).
(* the canonical decimal spelling of the number value: Python's repr() of int(lexeme) / float(lexeme)
   for the lexemes of G (at most 6 integer and 4 fraction digits) *)
Definition num_val (n : num) : str :=
  let i := nonempty0 (strip0 (nint n)) in
  match nfrac n with
  | None => (if Nat.eqb (nsign n) 2 && negb (eqs i (s "0")) then s "-" else []) ++ i
  | Some f => (if Nat.eqb (nsign n) 2 then s "-" else []) ++ i ++ 46%N :: nonempty0 (strip0_end f)
  end.

Definition is_digit (c : N) : bool := N.leb 48 c && N.leb c 57.
Definition digits (d : str) : bool := forallb is_digit d.
Definition wf_num (n : num) : bool :=
  digits (nint n) && Nat.leb (nsign n) 2 && Nat.leb (length (nint n)) 6 &&
  match nfrac n with
  | None => negb (eqs (nint n) [])
  | Some f => digits f && negb (eqs f []) && Nat.leb (length f) 4
  end.

(* ------------------------------------------------------------------ value terms *)
Inductive cop := OAdd | OSub | OMul | ODiv.
Inductive cterm := CtN (n : num) | CtD (n : num) (u : str) | CtP (n : num).

(* separators between terms: space, comma, slash (gaps around the character) *)
Inductive sep := SepSp (g : nat) | SepComma (g1 g2 : nat) | SepSlash (g1 g2 : nat).

Inductive term :=
| TmIdent (v : str)                       (* an identifier; a colour keyword of `named_colors` is a colour *)
| TmNum (n : num)
| TmDim (n : num) (u : str)
| TmPct (n : num)
| TmStr (gq : nat) (body : str)           (* quote kind chosen by the layout *)
| TmUrl (gq : nat) (body : str)           (* bare / quoted / padded chosen by the layout *)
| TmHex (d : str)                         (* 3 or 6 hex digits *)
| TmRgb (g0 : nat) (r : N) (g1 g2 : nat) (g : N) (g3 g4 : nat) (b : N) (g5 : nat)      (* rgb(r, g, b) *)
| TmFunc (name : str) (g0 : nat) (first : term) (more : list (nat * nat * nat * term)) (g1 : nat)
                                          (* name( a , b c / d ): separator 0 = space, 1 = comma, else slash *)
| TmCalc (gc : nat) (g0 : nat) (first : cterm) (more : list (cop * nat * nat * cterm)) (g1 : nat)
| TmURange (v : str).

Definition hex_digit (c : N) : bool := match hexval c with Some _ => true | None => false end.
Definition hv (c : N) : N := match hexval c with Some d => d | None => 0 end.
Definition named_colors : list (str * (N * N * N)) :=
  [(s "red", (255, 0, 0)); (s "blue", (0, 0, 255)); (s "white", (255, 255, 255)); (s "black", (0, 0, 0));
   (s "lime", (0, 255, 0)); (s "navy", (0, 0, 128)); (s "silver", (192, 192, 192))]%N.

Fixpoint dec_digits (fuel : nat) (n : N) (acc : str) : str :=
  match fuel with
  | O => acc
  | S f => let acc' := N.add 48 (N.modulo n 10) :: acc in
           if N.ltb n 10 then acc' else dec_digits f (N.div n 10) acc'
  end.
Definition dec (n : N) : str := dec_digits 40 n [].
Definition nat_num (n : N) : num := mkNum 0 (dec n) None.

Definition r_cterm (c : cterm) : tok :=
  match c with
  | CtN n => T "NUMBER" (num_lex n)
  | CtD n u => T "DIMENSION" (num_lex n ++ u)
  | CtP n => T "PERCENTAGE" (num_lex n ++ s "%")
  end.
Definition cop_str (o : cop) : string := match o with OAdd => "+" | OSub => "-" | OMul => "*" | ODiv => "/" end.
Definition cop_additive (o : cop) : bool := match o with OAdd | OSub => true | _ => false end.

Definition quote_of (lay : layout) (g : nat) : N := if Nat.even (lk lay g) then 34%N else 39%N.
Definition r_string (lay : layout) (g : nat) (body : str) : tok :=
  let q := quote_of lay g in T "STRING" (q :: body ++ [q]).
Definition url_text (k : nat) (body : str) : str :=
  match Nat.modulo k 5 with
  | 0 => s "url(" ++ body ++ s ")"
  | 1 => s "url(" ++ 34%N :: body ++ 34%N :: s ")"
  | 2 => s "url(" ++ 39%N :: body ++ 39%N :: s ")"
  | 3 => s "url( " ++ 34%N :: body ++ 34%N :: s " )"
  | _ => s "URL( " ++ body ++ s " )"
  end.
Definition r_url (lay : layout) (g : nat) (body : str) : tok := T "URI" (url_text (lk lay g) body).

Fixpoint r_term (lay : layout) (t : term) : list tok :=
  match t with
  | TmIdent v => [T "IDENT" v]
  | TmNum n => [T "NUMBER" (num_lex n)]
  | TmDim n u => [T "DIMENSION" (num_lex n ++ u)]
  | TmPct n => [T "PERCENTAGE" (num_lex n ++ s "%")]
  | TmStr g b => [r_string lay g b]
  | TmUrl g b => [r_url lay g b]
  | TmHex d => [T "HASH" (35%N :: d)]
  | TmRgb g0 r g1 g2 g g3 g4 b g5 =>
      T "FUNCTION" (s "rgb(") :: gopt lay g0 ++ T "NUMBER" (dec r) :: gopt lay g1 ++ ch "," :: gopt lay g2 ++
      T "NUMBER" (dec g) :: gopt lay g3 ++ ch "," :: gopt lay g4 ++ T "NUMBER" (dec b) :: gopt lay g5 ++ [ch ")"]
  | TmFunc name g0 first more g1 =>
      T "FUNCTION" (name ++ s "(") :: gopt lay g0 ++ r_term lay first ++
      (fix go (l : list (nat * nat * nat * term)) : list tok :=
         match l with
         | [] => []
         | (k, ga, gb, x) :: r =>
             match k with
             | 0 => greq lay ga
             | 1 => gopt lay ga ++ ch "," :: gopt lay gb
             | _ => gopt lay ga ++ ch "/" :: gopt lay gb
             end ++ r_term lay x ++ go r
         end) more ++ gopt lay g1 ++ [ch ")"]
  | TmCalc gc g0 first more g1 =>
      T "FUNCTION" (cased lay gc (s "calc(")) :: gopt lay g0 ++ r_cterm first ::
      flat_map (fun p => match p with
                         | (o, ga, gb, x) =>
                             (if cop_additive o then greq lay ga ++ ch (cop_str o) :: greq lay gb
                              else gopt lay ga ++ ch (cop_str o) :: gopt lay gb) ++ [r_cterm x]
                         end) more ++ gopt lay g1 ++ [ch ")"]
  | TmURange v => [T "UNICODE-RANGE" v]
  end.

Definition r_sep (lay : layout) (x : sep) : list tok :=
  match x with
  | SepSp g => greq lay g
  | SepComma g1 g2 => gopt lay g1 ++ ch "," :: gopt lay g2
  | SepSlash g1 g2 => gopt lay g1 ++ ch "/" :: gopt lay g2
  end.

(* ---- the specified model of a value term *)
Definition m_num (n : num) : js := tag "NUMBER" [JS (num_val n)].
Definition m_cterm (c : cterm) : js :=
  match c with
  | CtN n => m_num n
  | CtD n u => tag "DIMENSION" [JS (num_val n); JS (lower u)]
  | CtP n => tag "PERCENTAGE" [JS (num_val n)]
  end.
Definition m_color (kind : string) (r g b : N) : js := tag "COLOR" [JS (s kind); JN r; JN g; JN b].
Definition hex_rgb (d : str) : option (N * N * N) :=
  match d with
  | [a; b; c] => Some (17 * hv a, 17 * hv b, 17 * hv c)%N
  | [a; a'; b; b'; c; c'] => Some (16 * hv a + hv a', 16 * hv b + hv b', 16 * hv c + hv c')%N
  | _ => None
  end.
Fixpoint m_term (t : term) : js :=
  match t with
  | TmIdent v => match Selector.assoc_s (lower v) named_colors with
                 | Some (r, g, b) => m_color "IDENT" r g b
                 | None => tag "IDENT" [JS v]
                 end
  | TmNum n => m_num n
  | TmDim n u => tag "DIMENSION" [JS (num_val n); JS (lower u)]
  | TmPct n => tag "PERCENTAGE" [JS (num_val n)]
  | TmStr _ b => tag "STRING" [JS b]
  | TmUrl _ b => tag "URI" [JS b]
  | TmHex d => match hex_rgb d with Some (r, g, b) => m_color "HASH" r g b | None => tag "BAD" [] end
  | TmRgb _ r _ _ g _ _ b _ => m_color "FUNCTION" r g b
  | TmFunc name _ first more _ =>
      tag "FUNCTION" [JS (lower name ++ s "(");
                      JL (m_term first ::
                          (fix go (l : list (nat * nat * nat * term)) : list js :=
                             match l with
                             | [] => []
                             | (k, _, _, x) :: r =>
                                 match k with 0 => [] | 1 => [tag "OP" [JS (s ",")]] | _ => [tag "OP" [JS (s "/")]] end ++
                                 m_term x :: go r
                             end) more)]
  | TmCalc _ _ first more _ =>
      tag "CALC" [JL (m_cterm first ::
                      flat_map (fun p => match p with (o, _, _, x) => [tag "OP" [JS (s (cop_str o))]; m_cterm x] end) more)]
  | TmURange v => tag "UNICODE-RANGE" [JS (lower v)]
  end.
Definition m_sep (x : sep) : list js :=
  match x with SepSp _ => [] | SepComma _ _ => [tag "OP" [JS (s ",")]] | SepSlash _ _ => [tag "OP" [JS (s "/")]] end.

(* ------------------------------------------------------------------ declarations *)
Record decl := mkDecl {
  d_name : str; d_g1 : nat; d_g2 : nat;
  d_first : term; d_more : list (sep * term);
  d_g3 : nat;
  d_imp : option (nat * nat)        (* '!' gap 'important' (case from the second gap) *)
}.
Definition r_value (lay : layout) (d : decl) : list tok :=
  r_term lay (d_first d) ++ flat_map (fun p => r_sep lay (fst p) ++ r_term lay (snd p)) (d_more d).
Definition r_prio (lay : layout) (d : decl) : list tok :=
  match d_imp d with
  | None => []
  | Some (ga, gb) => gopt lay (d_g3 d) ++ ch "!" :: gopt lay ga ++ [T "IDENT" (cased lay gb (s "important"))]
  end.
Definition r_decl (lay : layout) (d : decl) : list tok :=
  T "IDENT" (d_name d) :: gopt lay (d_g1 d) ++ ch ":" :: gopt lay (d_g2 d) ++ r_value lay d ++ r_prio lay d.
Definition m_decl (d : decl) : js :=
  tag "decl" [JS (lower (d_name d));
              JS (match d_imp d with Some _ => s "important" | None => [] end);
              JL (m_term (d_first d) :: flat_map (fun p => m_sep (fst p) ++ [m_term (snd p)]) (d_more d))].

(* a declaration block body:  gap decl gap ; gap decl gap ; ...  -- the last ';' is optional (layout) *)
Record dblock := mkBlock { b_g0 : nat; b_decls : list (decl * nat * nat); b_last : nat }.
(* semi = true: the last declaration is followed by ';' too (needed when margin boxes follow in an @page block) *)
Fixpoint r_decls (lay : layout) (semi : bool) (glast : nat) (l : list (decl * nat * nat)) : list tok :=
  match l with
  | [] => []
  | (d, ga, gb) :: r =>
      r_decl lay d ++ gopt lay ga ++
      (match r with
       | [] => if semi || Nat.odd (lk lay glast) then ch ";" :: gopt lay gb else []
       | _ => ch ";" :: gopt lay gb
       end) ++ r_decls lay semi glast r
  end.
Definition r_block_body (lay : layout) (semi : bool) (b : dblock) : list tok :=
  gopt lay (b_g0 b) ++ r_decls lay semi (b_last b) (b_decls b).
Definition r_block (lay : layout) (b : dblock) : list tok := ch "{" :: r_block_body lay false b ++ [ch "}"].
Definition m_block (b : dblock) : js := JL (map (fun p => m_decl (fst (fst p))) (b_decls b)).

(* ------------------------------------------------------------------ media queries *)
Record mexpr := mkMExpr { me_g0 : nat; me_feat : str; me_g1 : nat; me_val : option (nat * term); me_g2 : nat }.
Record mquery := mkMQ {
  mq_neg : nat;                      (* 0 none, 1 only, 2 not *)
  mq_gcase : nat; mq_g0 : nat;
  mq_type : option str;              (* media type; None: the query starts with an expression *)
  mq_exprs : list (nat * nat * nat * mexpr)     (* gap AND[case gap] gap ( expr ) *)
}.
Definition r_mexpr (lay : layout) (e : mexpr) : list tok :=
  ch "(" :: gopt lay (me_g0 e) ++ T "IDENT" (me_feat e) :: gopt lay (me_g1 e) ++
  match me_val e with
  | None => []
  | Some (g, t) => ch ":" :: gopt lay g ++ r_term lay t ++ gopt lay (me_g2 e)
  end ++ [ch ")"].
Fixpoint r_mexprs (lay : layout) (first : bool) (l : list (nat * nat * nat * mexpr)) : list tok :=
  match l with
  | [] => []
  | (ga, gc, gb, e) :: r =>
      (if first then [] else greq lay ga ++ T "IDENT" (cased lay gc (s "and")) :: greq lay gb) ++
      r_mexpr lay e ++ r_mexprs lay false r
  end.
Definition r_mquery (lay : layout) (q : mquery) : list tok :=
  match mq_type q with
  | Some t =>
      match mq_neg q with
      | 0 => []
      | 1 => T "IDENT" (cased lay (mq_gcase q) (s "only")) :: greq lay (mq_g0 q)
      | _ => T "IDENT" (cased lay (mq_gcase q) (s "not")) :: greq lay (mq_g0 q)
      end ++ T "IDENT" t :: r_mexprs lay false (mq_exprs q)
  | None => r_mexprs lay true (mq_exprs q)
  end.
Definition m_mexpr (e : mexpr) : js :=
  JL (JS (lower (me_feat e)) :: match me_val e with Some (_, t) => [m_term t] | None => [] end).
Definition m_mquery (q : mquery) : js :=
  tag "mq" [JS (match mq_type q, mq_neg q with
                | None, _ | _, 0 => []
                | _, 1 => s "only"
                | _, _ => s "not" end);
            JS (match mq_type q with Some t => lower t | None => [] end);
            JL (map (fun p => m_mexpr (snd p)) (mq_exprs q))].
(* a comma-separated media list *)
Definition mlist := list (nat * nat * mquery).        (* gap , gap query  (the gaps of the first entry are unused) *)
Fixpoint r_mlist (lay : layout) (first : bool) (l : mlist) : list tok :=
  match l with
  | [] => []
  | (ga, gb, q) :: r =>
      (if first then [] else gopt lay ga ++ ch "," :: gopt lay gb) ++ r_mquery lay q ++ r_mlist lay false r
  end.
(* MediaList keeps the media that take effect (medialist.py:130-156): a simple query (a bare media type) that repeats an
   earlier one is left out, and a simple `all` makes every other entry redundant *)
(* the key is the normalised media type (repaired code: "print, PRINT" is a repetition, "ALL" is `all`) *)
Definition mq_simple (q : mquery) : option str :=
  match mq_type q, mq_neg q, mq_exprs q with Some t, 0, [] => Some (lower t) | _, _, _ => None end.
Definition is_all (q : mquery) : bool := match mq_simple q with Some t => eqs t (s "all") | None => false end.
Fixpoint dedupe (seen : list str) (l : list mquery) : list mquery :=
  match l with
  | [] => []
  | q :: r => match mq_simple q with
              | Some t => if mem_str t seen then dedupe seen r else q :: dedupe (t :: seen) r
              | None => q :: dedupe seen r
              end
  end.
Definition media_effective (l : list mquery) : list mquery :=
  match find is_all l with Some q => [q] | None => dedupe [] l end.
Definition m_mlist (l : mlist) : js := JL (map m_mquery (media_effective (map snd l))).

(* ------------------------------------------------------------------ selectors (AST of CssV.Selector) *)
Definition tok_of_stok (t : Selector.stok) : tok :=
  let n := match Selector.tty_str (Selector.sty t) with Some x => x | None => s "?" end in
  mkTok n (Selector.sval t) (Selector.sval t) 0 0.
Definition r_selector (x : Selector.selector) : list tok := map tok_of_stok (Selector.render x).
(* selector group: sel (gap? ',' gap sel)*   -- whitespace around ',' belongs to the selectors' own lead/trail *)
Fixpoint r_sels (l : list Selector.selector) : list tok :=
  match l with
  | [] => []
  | [x] => r_selector x
  | x :: r => r_selector x ++ ch "," :: r_sels r
  end.

Definition ns_map := Selector.ns_map.
Definition uri_js (u : Selector.nsuri) : js :=
  match u with Selector.UAny => tag "any" [] | Selector.UNone => tag "none" [] | Selector.UStr x => tag "uri" [JS x] end.
Definition ns_uri (ns : ns_map) (q : Selector.nsq) : Selector.nsuri :=
  match q with
  | Selector.NsDefault => match Selector.assoc_s [] ns with Some u => Selector.UStr u | None => Selector.UNone end
  | Selector.NsAny => Selector.UAny
  | Selector.NsNo => Selector.UStr []
  | Selector.NsP p => match Selector.assoc_s p ns with Some u => Selector.UStr u | None => Selector.UNone end
  end.
Definition it (t : string) (v : str) : js := JL [JS (s t); JS v].
Definition itp (t : string) (u : Selector.nsuri) (n : str) : js := JL [JS (s t); uri_js u; JS n].
(* the value of a STRING token inside a selector: delimiters removed, escaped delimiter resolved
   (util.Base._stringtokenvalue, modelled in CssV.Selector.strval) *)
Definition string_val (v : str) : str := match Selector.strval v with Some x => x | None => [] end.

Definition mi_attr (ns : ns_map) (a : Selector.attr) : list js :=
  it "attribute-start" (s "[") ::
  (match Selector.at_ns a with
   | Selector.NsDefault | Selector.NsNo => it "attribute-selector" (Selector.at_name a)
   | q => itp "attribute-selector" (ns_uri ns q) (Selector.at_name a)
   end) ::
  match Selector.at_rest a with
  | None => []
  | Some (o, _, v, _) =>
      [match o with
       | Selector.OpEq => it "equals" (s "=") | Selector.OpIncl => it "includes" (s "~=")
       | Selector.OpDash => it "dashmatch" (s "|=") | Selector.OpPre => it "prefixmatch" (s "^=")
       | Selector.OpSuf => it "suffixmatch" (s "$=") | Selector.OpSub => it "substringmatch" (s "*=")
       end;
       match v with Selector.AvI x => it "attribute-value" x | Selector.AvS x => it "STRING" (string_val x) end]
  end ++ [it "attribute-end" (s "]")].
Definition mi_etok (e : Selector.etok) : js :=
  match e with
  | Selector.EPlus => it "plus" (s "+") | Selector.EMinus => it "minus" (s "-")
  | Selector.EDim v => it "DIMENSION" v | Selector.ENum v => it "NUMBER" v
  | Selector.EStr v => it "STRING" (string_val v) | Selector.EId v => it "IDENT" v
  end.
Definition colons (dbl : bool) : str := if dbl then s "::" else s ":".
Definition mi_pseudo (p : Selector.pseudo) : list js :=
  match p with
  | Selector.PsId dbl n =>
      [it (if dbl || Selector.is_legacy n then "pseudo-element" else "pseudo-class") (colons dbl ++ lower n)]
  | Selector.PsFn dbl n _ e =>
      it (if dbl then "pseudo-element" else "pseudo-class") (colons dbl ++ lower n ++ s "(") ::
      map (fun p => mi_etok (fst p)) e ++ [it "function-end" (s ")")]
  end.
Definition mi_negarg (ns : ns_map) (a : Selector.negarg) : list js :=
  match a with
  | Selector.NaType q n => [itp "negation-type-selector" (ns_uri ns q) n]
  | Selector.NaUniv q => [itp "universal" (ns_uri ns q) (s "*")]
  | Selector.NaHash v => [it "id" v]
  | Selector.NaClass n => [it "class" (s "." ++ n)]
  | Selector.NaAttr a => mi_attr ns a
  | Selector.NaPseudo p => mi_pseudo p
  end.
Definition mi_simple (ns : ns_map) (x : Selector.simple) : list js :=
  match x with
  | Selector.SHash v => [it "id" v]
  | Selector.SClass n => [it "class" (s "." ++ n)]
  | Selector.SAttr a => mi_attr ns a
  | Selector.SPseudo p => mi_pseudo p
  | Selector.SNot _ a _ => it "negation-start" (s ":not(") :: mi_negarg ns a ++ [it "negation-end" (s ")")]
  end.
Definition mi_head (ns : ns_map) (h : Selector.head) : list js :=
  match h with
  | Selector.HNone => []
  | Selector.HType q n => [itp "type-selector" (ns_uri ns q) n]
  | Selector.HUniv q => [itp "universal" (ns_uri ns q) (s "*")]
  end.
Definition mi_compound (ns : ns_map) (c : Selector.compound) : list js :=
  mi_head ns (Selector.c_head c) ++ flat_map (fun p => mi_simple ns (snd p)) (Selector.c_rest c) ++
  match Selector.c_pe c with None => [] | Some (_, p) => mi_pseudo p end.
Definition mi_comb (c : Selector.comb) : js :=
  match c with
  | Selector.CDesc _ _ _ => it "descendant" (s " ") | Selector.CChild _ _ => it "child" (s ">")
  | Selector.CAdj _ _ => it "adjacent-sibling" (s "+") | Selector.CSib _ _ => it "following-sibling" (s "~")
  end.
(* the components of a selector, namespace prefixes expanded to URIs, whitespace and comments left out *)
Definition sel_items (ns : ns_map) (x : Selector.selector) : list js :=
  mi_compound ns (Selector.s_first x) ++
  flat_map (fun p => mi_comb (fst p) :: mi_compound ns (snd p)) (Selector.s_more x).
Definition m_selector (ns : ns_map) (x : Selector.selector) : js :=
  match Selector.sp_selector x with
  | (b, c, d) => tag "sel" [JL (sel_items ns x); JL [JN 0; JN (N.of_nat b); JN (N.of_nat c); JN (N.of_nat d)]]
  end.

(* what the modelled selector machine (C16) builds, in the same shape: S / COMMENT items and a trailing
   descendant combinator (whitespace before a final comment) are insignificant *)
Definition item_js (i : Selector.item) : option js :=
  match i with
  | (Selector.I_COMMENT, _) | (Selector.I_S, _) => None
  | (t, Selector.VStr v) => Some (JL [JS (Selector.ityp_str t); JS v])
  | (t, Selector.VPair u n) => Some (JL [JS (Selector.ityp_str t); uri_js u; JS n])
  | (_, Selector.VComment _) => None
  end.
Fixpoint somes {A} (l : list (option A)) : list A :=
  match l with [] => [] | Some x :: r => x :: somes r | None :: r => somes r end.
Definition is_desc (j : js) : bool :=
  match j with JL (JS t :: _) => eqs t (s "descendant") | _ => false end.
Definition is_comb (j : js) : bool :=
  match j with
  | JL (JS t :: _) => eqs t (s "descendant") || eqs t (s "child") || eqs t (s "adjacent-sibling") || eqs t (s "following-sibling")
  | _ => false
  end.
(* whitespace next to a comment or to another combinator leaves extra "descendant" items in the sequence
   (`a /**/ b`, `a /**/ > b`, `a /**/`): a descendant item adjacent to another combinator, or last, is dropped *)
Fixpoint norm_comb (pend : option js) (l : list js) : list js :=
  match l with
  | [] => match pend with Some p => if is_desc p then [] else [p] | None => [] end
  | x :: r =>
      if negb (is_comb x) then match pend with Some p => [p] | None => [] end ++ x :: norm_comb None r
      else if is_desc x then match pend with Some _ => norm_comb pend r | None => norm_comb (Some x) r end
      else match pend with
           | Some p => if is_desc p then norm_comb (Some x) r else p :: norm_comb (Some x) r
           | None => norm_comb (Some x) r
           end
  end.
(* the selector object the modelled machine (C16) builds from a token list, in the shape of m_selector *)
Definition machine_sel (ns : ns_map) (toks : list tok) : js :=
  match Selector.run ns (Selector.prepass (map Selector.of_tok toks)) with
  | Some (Selector.Accepted b c d q) =>
      tag "sel" [JL (norm_comb None (somes (map item_js q))); JL [JN 0; JN (N.of_nat b); JN (N.of_nat c); JN (N.of_nat d)]]
  | _ => tag "rejected" []
  end.

(* ------------------------------------------------------------------ statements *)
Inductive strform := FStr (gq : nat) | FUrl (gq : nat).          (* "x" or url(x) *)
Definition r_strform (lay : layout) (f : strform) (body : str) : tok :=
  match f with FStr g => r_string lay g body | FUrl g => r_url lay g body end.

(* @page selector:  [name] [:first|:left|:right] *)
Record pagesel := mkPS { ps_name : option str; ps_pseudo : option str }.
Definition r_pagesel (p : pagesel) : list tok :=
  match ps_name p with Some n => [T "IDENT" n] | None => [] end ++
  match ps_pseudo p with Some n => [ch ":"; T "IDENT" n] | None => [] end.

(* the prelude / block of an unknown at-rule: identifiers, numbers, strings and nested groups *)
Inductive soup := SoId (v : str) | SoNum (n : num) | SoStr (gq : nat) (b : str) | SoParen (l : list soup)
                | SoBlock (l : list soup).
Fixpoint r_soup (lay : layout) (x : soup) : list tok :=
  match x with
  | SoId v => [T "IDENT" v; wS " "]
  | SoNum n => [T "NUMBER" (num_lex n); wS " "]
  | SoStr g b => [r_string lay g b]
  | SoParen l => ch "(" :: flat_map (r_soup lay) l ++ [ch ")"]
  | SoBlock l => ch "{" :: flat_map (r_soup lay) l ++ [ch "}"]
  end.

Inductive stmt :=
| SCharset (enc : str)
| SImport (gk : nat) (g0 : nat) (f : strform) (href : str) (media : option (nat * mlist)) (name : option (nat * nat * str))
          (g1 : nat)
| SNamespace (gk : nat) (g0 : nat) (prefix : option (str * nat)) (f : strform) (uri : str) (g1 : nat)
| SMedia (gk : nat) (g0 : nat) (media : mlist) (g1 : nat) (g2 : nat) (body : list (stmt * nat))
| SPage (gk : nat) (g0 : nat) (sel : pagesel) (g1 : nat) (b : dblock) (margins : list (str * nat * dblock * nat))
| SFontFace (gk : nat) (g0 : nat) (b : dblock)
| SStyle (sels : list Selector.selector) (b : dblock)
| SUnknown (kw : str) (g0 : nat) (prelude : list soup) (body : option (list soup))
| SComment (text : str).                  (* the comment token value incl. the delimiters *)

Definition sheet := list (stmt * nat).     (* a statement and the whitespace-only gap after it *)

Definition at_tok (lay : layout) (g : nat) (name : str) : tok :=
  match assoc_str name atkeywords with
  | Some sym => mkTok sym (cased lay g name) (cased lay g name) 0 0
  | None => T "ATKEYWORD" name
  end.

Fixpoint r_stmt (lay : layout) (x : stmt) : list tok :=
  match x with
  | SCharset enc => [mkTok charset_sym (s "@charset ") (s "@charset ") 0 0; T "STRING" (34%N :: enc ++ [34%N]); ch ";"]
  | SImport gk g0 f href media name g1 =>
      at_tok lay gk (s "@import") :: (match f with FStr _ => gopt lay g0 | FUrl _ => gsep lay g0 end) ++ r_strform lay f href ::
      match media with Some (g, ml) => gopt lay g ++ r_mlist lay true ml | None => [] end ++
      match name with Some (ga, gq, n) => gopt lay ga ++ [r_string lay gq n] | None => [] end ++
      gopt lay g1 ++ [ch ";"]
  | SNamespace gk g0 prefix f uri g1 =>
      at_tok lay gk (s "@namespace") :: greq lay g0 ++
      match prefix with Some (p, g) => T "IDENT" p :: greq lay g | None => [] end ++
      r_strform lay f uri :: gopt lay g1 ++ [ch ";"]
  | SMedia gk g0 media g1 g2 body =>
      at_tok lay gk (s "@media") :: greq lay g0 ++ r_mlist lay true media ++ gopt lay g1 ++ ch "{" :: gws lay g2 ++
      (fix go (l : list (stmt * nat)) : list tok :=
         match l with [] => [] | (y, g) :: r => r_stmt lay y ++ gws lay g ++ go r end) body ++ [ch "}"]
  | SPage gk g0 sel g1 b margins =>
      at_tok lay gk (s "@page") :: (match r_pagesel sel with [] => [] | l => greq lay g0 ++ l end) ++
      gopt lay g1 ++ ch "{" :: r_block_body lay (match margins with [] => false | _ => true end) b ++
      flat_map (fun m => match m with
                         | (name, ga, mb, gb) => T "ATKEYWORD" name :: gopt lay ga ++ r_block lay mb ++ gopt lay gb
                         end) margins ++ [ch "}"]
  | SFontFace gk g0 b => at_tok lay gk (s "@font-face") :: gopt lay g0 ++ r_block lay b
  | SStyle sels b => r_sels sels ++ r_block lay b
  | SUnknown kw g0 prelude body =>
      T "ATKEYWORD" kw :: greq lay g0 ++ flat_map (r_soup lay) prelude ++
      match body with Some l => ch "{" :: flat_map (r_soup lay) l ++ [ch "}"] | None => [ch ";"] end
  | SComment text => [T "COMMENT" text]
  end.

Fixpoint r_stmts (lay : layout) (l : sheet) : list tok :=
  match l with [] => [] | (x, g) :: r => r_stmt lay x ++ gws lay g ++ r_stmts lay r end.
Definition render (sh : sheet) (lay : layout) : list tok := r_stmts lay sh.

(* ------------------------------------------------------------------ namespaces in scope *)
Fixpoint ns_of (sh : sheet) : ns_map :=
  match sh with
  | [] => []
  | (SNamespace _ _ prefix _ uri _, _) :: r =>
      (match prefix with Some (p, _) => p | None => [] end, uri) :: ns_of r
  | _ :: r => ns_of r
  end.

(* ------------------------------------------------------------------ the specified object model *)
Definition m_pagesel (p : pagesel) : str :=
  match ps_name p with Some n => n | None => [] end ++
  match ps_pseudo p with Some n => s ":" ++ lower n | None => [] end.

Fixpoint m_stmt (ns : ns_map) (x : stmt) : js :=
  match x with
  | SCharset enc => tag "charset" [JS (lower enc)]
  | SImport _ _ _ href media name _ =>
      tag "import" [JS href;
                    match media with Some (_, ml) => m_mlist ml | None => JL [tag "mq" [JS []; JS (s "all"); JL []]] end;
                    match name with Some (_, _, n) => JL [JS n] | None => JL [] end]
  | SNamespace _ _ prefix _ uri _ =>
      tag "namespace" [JS (match prefix with Some (p, _) => p | None => [] end); JS uri]
  | SMedia _ _ media _ _ body =>
      tag "media" [m_mlist media;
                   JL ((fix go (l : list (stmt * nat)) : list js :=
                          match l with [] => [] | (y, _) :: r => m_stmt ns y :: go r end) body)]
  | SPage _ _ sel _ b margins =>
      tag "page" [JS (m_pagesel sel); m_block b;
                  JL (map (fun m => match m with (name, _, mb, _) => JL [JS (lower name); m_block mb] end) margins)]
  | SFontFace _ _ b => tag "font-face" [m_block b]
  | SStyle sels b => tag "style" [JL (map (m_selector ns) sels); m_block b]
  | SUnknown kw _ _ _ => tag "unknown" [JS (lower kw)]
  | SComment text => tag "comment" [JS text]
  end.

Definition expected_model (sh : sheet) : js := JL (map (fun p => m_stmt (ns_of sh) (fst p)) sh).

(* ---- parseComments=False: the comment statements disappear, at every nesting level, and nothing else *)
Definition is_comment (x : stmt) : bool := match x with SComment _ => true | _ => false end.
Fixpoint strip_stmt (x : stmt) : stmt :=
  match x with
  | SMedia gk g0 media g1 g2 body =>
      SMedia gk g0 media g1 g2
        ((fix go (l : list (stmt * nat)) : list (stmt * nat) :=
            match l with
            | [] => []
            | (y, g) :: r => if is_comment y then go r else (strip_stmt y, g) :: go r
            end) body)
  | _ => x
  end.
Fixpoint strip_comments (sh : sheet) : sheet :=
  match sh with
  | [] => []
  | (x, g) :: r => if is_comment x then strip_comments r else (strip_stmt x, g) :: strip_comments r
  end.
Definition expected_model_nocomments (sh : sheet) : js := expected_model (strip_comments sh).

(* ------------------------------------------------------------------ order of statements (cssstylesheet `expected`) *)
(* rank of a statement in the order  @charset < @import < @namespace < everything else; comments and unknown
   at-rules fit anywhere but before an @charset (which must be the very first token of the sheet) *)
Definition rank (x : stmt) : option nat :=
  match x with
  | SCharset _ => Some 0 | SImport _ _ _ _ _ _ _ => Some 1 | SNamespace _ _ _ _ _ _ => Some 2
  | SComment _ | SUnknown _ _ _ _ => None | _ => Some 3
  end.
Fixpoint ordered_from (cur : nat) (l : sheet) : bool :=
  match l with
  | [] => true
  | (x, _) :: r =>
      match rank x with
      | None => ordered_from (Nat.max cur 1) r
      | Some 0 => false
      | Some k => Nat.leb cur k && ordered_from k r
      end
  end.
Definition well_ordered (sh : sheet) : bool :=
  match sh with
  | (SCharset _, _) :: r => ordered_from 1 r
  | _ => ordered_from 1 sh
  end.
Definition WellOrdered (sh : sheet) : Prop := well_ordered sh = true.

(* ------------------------------------------------------------------ the modelled layers, run on a derivation *)
Definition strip_pos (t : tok) : tok := mkTok (ty t) (raw t) (val t) 0 0.
Definition tok_eqb (a b : tok) : bool := eqs (ty a) (ty b) && eqs (raw a) (raw b) && eqs (val a) (val b).
Fixpoint toks_eqb (a b : list tok) : bool :=
  match a, b with
  | [], [] => true
  | x :: a', y :: b' => tok_eqb x y && toks_eqb a' b'
  | _, _ => false
  end.
(* hypothesis `tokenize_render`, as a decidable check: the shared tokenizer model (parseComments on, full sheet)
   maps the text of the rendering back to the rendered tokens followed by EOF *)
Definition tokenize_render_ok (sh : sheet) (lay : layout) : bool :=
  match tokenize true true (text_of (render sh lay)) with
  | Some ts => toks_eqb ts (render sh lay ++ [eof_tok])
  | None => false
  end.

Fixpoint js_eqb (fuel : nat) (a b : js) : bool :=
  match fuel with
  | O => false
  | S f =>
    match a, b with
    | JS x, JS y => eqs x y
    | JN x, JN y => N.eqb x y
    | JL x, JL y =>
        (fix go (x y : list js) : bool :=
           match x, y with
           | [], [] => true
           | p :: x', q :: y' => js_eqb f p q && go x' y'
           | _, _ => false
           end) x y
    | _, _ => false
    end
  end.
(* hypothesis `selector_accepts`, as a decidable check: C16's selector machine accepts the rendered selector and
   builds the specified components and specificity *)
Definition selector_ok (ns : ns_map) (x : Selector.selector) : bool :=
  js_eqb 60 (machine_sel ns (r_selector x)) (m_selector ns x).
Fixpoint stmt_selectors (x : stmt) : list Selector.selector :=
  match x with
  | SStyle sels _ => sels
  | SMedia _ _ _ _ _ body =>
      (fix go (l : list (stmt * nat)) : list Selector.selector :=
         match l with [] => [] | (y, _) :: r => stmt_selectors y ++ go r end) body
  | _ => []
  end.
Definition selectors_ok (sh : sheet) : bool :=
  forallb (selector_ok (ns_of sh)) (flat_map (fun p => stmt_selectors (fst p)) sh).
