(* EscapeEnc.v -- C13: the 'escapecss' codec error handler (serialize.py:27-39), the way
   do_CSSStyleSheet uses it (`text.encode(encoding, 'escapecss')`, serialize.py:396-419), the
   encoding property of a sheet (cssstylesheet.py:386-414) and the @charset prefix test of the
   css codec (_codec3.py:152-164), over the constants regenerated into Gen/EscapeConsts.v.
   Definitions only; proofs are in EscapeEncFacts.v.                                            *)
From CssV Require Import Base Regex Gen.TokTables Tokenizer Gen.EscapeConsts Gen.Quote.

(* ---- hex(n): Python's lower-case digits, most significant first ------------------------- *)
Definition hexdigit (upper : bool) (d : N) : N :=
  if N.ltb d 10 then N.add 48 d else N.add (if upper then 55 else 87) d.

Fixpoint hex_fuel (fuel : nat) (upper : bool) (c : N) (acc : str) : option str :=
  match fuel with
  | O => None                                        (* excluded by hexdigits_total *)
  | S f => if N.ltb c 16 then Some (hexdigit upper c :: acc)
           else hex_fuel f upper (N.div c 16) (hexdigit upper (N.modulo c 16) :: acc)
  end.
Definition hexdigits (upper : bool) (c : N) : option str := hex_fuel (S (N.to_nat (N.log2 c))) upper c [].

Definition py_hex (c : N) : option str := option_map (app (s "0x")) (hexdigits false c).

Definition upper_ascii (c : N) : N := if N.leb 97 c && N.leb c 122 then N.sub c 32 else c.

(* r'\%s ' % str(hex(ord(x)))[2:].upper()          (serialize.py:37-38) *)
Definition esc (c : N) : option str :=
  option_map (fun h => esc_prefix ++
                       (if esc_upper then map upper_ascii else (fun x => x)) (skipn esc_hex_skip h) ++
                       esc_suffix) (py_hex c).
Definition esc_or_nil (c : N) : str := match esc c with Some e => e | None => [] end.

(* ---- one codec = one instance of this section --------------------------------------------
   encc c   : the bytes str.encode writes for the single character c (after the BOM), None when
              the codec raises UnicodeEncodeError for it
   dec      : bytes.decode, None = UnicodeDecodeError
   bom      : what ''.encode(e) returns (utf-8-sig, utf-16, utf-32 write a BOM first)
   The hypotheses about them live in EscapeEncFacts.v and are validated for every codec the
   harness uses.                                                                              *)
Section Codec.
  Variable encc : N -> option (list N).
  Variable dec : list N -> option str.
  Variable bom : list N.

  Definition encodable (c : N) : bool := match encc c with Some _ => true | None => false end.
  Definition enc1 (c : N) : list N := match encc c with Some b => b | None => [] end.

  (* str.encode(e, 'strict') of a text all of whose characters are encodable *)
  Definition enc_strict (t : str) : list N := bom ++ flat_map enc1 t.

  (* str.encode(e, 'escapecss'): an unencodable character is replaced by the handler's text,
     which the codec then encodes itself (a replacement it cannot encode raises: None)      *)
  Definition enc_char_esc (c : N) : option (list N) :=
    if encodable c then Some (enc1 c)
    else match esc c with
         | Some e => if forallb encodable e then Some (flat_map enc1 e) else None
         | None => None
         end.
  Fixpoint enc_body_esc (t : str) : option (list N) :=
    match t with
    | [] => Some []
    | c :: r => match enc_char_esc c, enc_body_esc r with
                | Some a, Some b => Some (a ++ b)
                | _, _ => None
                end
    end.
  Definition encode_esc (t : str) : option (list N) := option_map (app bom) (enc_body_esc t).

  (* the text those bytes stand for: unencodable characters spelled as CSS escapes *)
  Definition escape_unenc (t : str) : str :=
    flat_map (fun c => if encodable c then [c] else esc_or_nil c) t.
End Codec.

(* the ascii codec, used for closed examples and the refutation witness *)
Definition ascii_encc (c : N) : option (list N) := if N.ltb c 128 then Some [c] else None.
Definition ascii_dec (b : list N) : option str := if forallb (fun c => N.ltb c 128) b then Some b else None.
(* latin-1 *)
Definition latin1_encc (c : N) : option (list N) := if N.ltb c 256 then Some [c] else None.

(* ---- the sheet as far as C13 needs it: a list of rule texts, the first of which may be the
   @charset rule (cssstylesheet.py:386-414, serialize.py:396-419, 430-441) ------------------- *)
Inductive rule :=
| Charset (e : str)          (* CSSCharsetRule with a well-formed encoding name *)
| Other (text : str).        (* any other rule, by its (non-empty) cssText       *)

Definition py_string (v : str) : str := hstring v.   (* helper.string: C03's regenerated Gen/Quote.v (translate/quote.py) *)
Definition rule_text (r : rule) : str :=
  match r with
  | Charset e => charset_fmt_pre ++ py_string e ++ charset_fmt_post
  | Other t => t
  end.
Fixpoint join (sep : str) (l : list str) : str :=
  match l with
  | [] => []
  | [x] => x
  | x :: r => x ++ sep ++ join sep r
  end.
Definition sheet_text (sh : list rule) : str := join line_separator (map rule_text sh).

Definition get_encoding (sh : list rule) : str :=        (* _getEncoding; do_CSSStyleSheet's try/except *)
  match sh with Charset e :: _ => e | _ => lower default_encoding end.
Definition set_encoding (e : str) (sh : list rule) : list rule :=   (* _setEncoding with a non-empty valid name *)
  match sh with
  | Charset _ :: r => Charset (lower e) :: r
  | _ => Charset (lower e) :: sh
  end.

(* one assignment `sheet.encoding = a` of a history: None (or '') removes the rule; a name the charset rule's setter
   refuses (syntax error, unknown to Python, not writable by the serializer: `usable` false) changes nothing
   (csscharsetrule.py:140-166: `_encoding` is assigned only in the try/else)                                      *)
Definition assign (usable : str -> bool) (sh : list rule) (a : option str) : list rule :=
  match a with
  | None => match sh with Charset _ :: r => r | _ => sh end
  | Some e => if usable e then set_encoding e sh else sh
  end.
Definition run_history (usable : str -> bool) (sh : list rule) (ops : list (option str)) : list rule :=
  fold_left (assign usable) ops sh.

(* detectencoding_str restricted to its last candidate: bytes that start with the literal
   at-charset-space-doublequote prefix and contain a closing quote name their encoding (_codec3.py:152-158); None = no such rule      *)
Fixpoint until_quote (t : list N) : option (list N) :=
  match t with
  | [] => None
  | c :: r => if N.eqb c 34 then Some [] else option_map (cons c) (until_quote r)
  end.
Definition detect_charset (bytes : list N) : option str :=
  if starts codec_charset_prefix bytes then until_quote (skipn (length codec_charset_prefix) bytes)
  else None.
