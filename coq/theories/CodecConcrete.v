(* CodecConcrete.v -- Gallina versions of the CPython codecs the correspondence uses (errors='strict'):
   utf-8, utf-8-sig, utf-16(-le/-be), utf-32(-le/-be), latin-1, ascii; any other name = LookupError.
   They instantiate the Section variables of Codec.v so that the model can be run against the
   implementation.  CPython's own quirks are reproduced on purpose (they are observable through the css
   codec):  one-shot utf-16/utf-32 without BOM decodes little-endian while the incremental decoder raises
   UnicodeError; the incremental utf-8-sig decoder returns '' for a truncated BOM even when final.
   Error timing follows CPython (c_dec_trace / c_enc_trace give the result of every call up to the one that raises). *)
From CssV Require Import Base CodecPyLib Codec.
Local Open Scope N_scope.

Inductive kind := K8 | K8sig | K16 (bo : option bool) | K32 (bo : option bool) | KLatin | KAscii.
(* bo: None = BOM decides, Some true = little endian, Some false = big endian *)

Definition norm_name (e : str) : str := lower (py_replace_char e 95 45).

Definition lookup (e : str) : option kind :=
  let n := norm_name e in
  if eqs n (s "utf-8") || eqs n (s "utf8") then Some K8
  else if eqs n (s "utf-8-sig") then Some K8sig
  else if eqs n (s "utf-16") then Some (K16 None)
  else if eqs n (s "utf-16-le") then Some (K16 (Some true))
  else if eqs n (s "utf-16-be") then Some (K16 (Some false))
  else if eqs n (s "utf-32") then Some (K32 None)
  else if eqs n (s "utf-32-le") then Some (K32 (Some true))
  else if eqs n (s "utf-32-be") then Some (K32 (Some false))
  else if eqs n (s "latin-1") || eqs n (s "iso-8859-1") || eqs n (s "latin1") then Some KLatin
  else if eqs n (s "ascii") || eqs n (s "us-ascii") then Some KAscii
  else None.

(* ------------------------------------------------------------------ decoding one character *)
Inductive nxt := Complete (cp : N) (rest : str) | Incomplete | Invalid.

Definition is_cont (b : N) : bool := (128 <=? b) && (b <=? 191).
Definition is_surr (c : N) : bool := (55296 <=? c) && (c <=? 57343).
Definition valid_cp (c : N) : bool := (c <=? 1114111) && negb (is_surr c).

(* CPython's UTF-8 decoder (Objects/stringlib/codecs.h) rejects a sequence as soon as the bytes seen so far cannot
   start a valid one: the second byte is range-checked against the lead byte (E0: A0-BF, ED: 80-9F, F0: 90-BF,
   F4: 80-8F), so overlong forms, surrogates and code points > 10FFFF never need a separate test. *)
Definition ok2_3 (b0 b1 : N) : bool :=
  is_cont b1 && negb ((b0 =? 224) && (b1 <? 160)) && negb ((b0 =? 237) && (160 <=? b1)).
Definition ok2_4 (b0 b1 : N) : bool :=
  is_cont b1 && negb ((b0 =? 240) && (b1 <? 144)) && negb ((b0 =? 244) && (144 <=? b1)).

Definition next8 (b : str) : nxt :=
  match b with
  | [] => Incomplete
  | b0 :: r =>
    if b0 <? 128 then Complete b0 r
    else if b0 <? 194 then Invalid
    else if b0 <? 224 then
      match r with
      | b1 :: r' => if is_cont b1 then Complete ((b0 - 192) * 64 + (b1 - 128)) r' else Invalid
      | [] => Incomplete
      end
    else if b0 <? 240 then
      match r with
      | [] => Incomplete
      | [b1] =>
        if ok2_3 b0 b1 then Incomplete
        else if (b0 =? 237) && is_cont b1 then Incomplete   (* CPython: a truncated surrogate ED A0..BF at the end of
                                                               non-final data is "incomplete"; it is rejected when
                                                               the third byte arrives or at final *)
        else Invalid
      | b1 :: b2 :: r' =>
        if ok2_3 b0 b1 then
          if is_cont b2 then Complete ((b0 - 224) * 4096 + (b1 - 128) * 64 + (b2 - 128)) r' else Invalid
        else Invalid
      end
    else if b0 <? 245 then
      match r with
      | [] => Incomplete
      | [b1] => if ok2_4 b0 b1 then Incomplete else Invalid
      | [b1; b2] => if ok2_4 b0 b1 then (if is_cont b2 then Incomplete else Invalid) else Invalid
      | b1 :: b2 :: b3 :: r' =>
        if ok2_4 b0 b1 then
          if is_cont b2 then
            if is_cont b3
            then Complete ((b0 - 240) * 262144 + (b1 - 128) * 4096 + (b2 - 128) * 64 + (b3 - 128)) r'
            else Invalid
          else Invalid
        else Invalid
      end
    else Invalid
  end.

Definition unit16 (le : bool) (a b : N) : N := if le then b * 256 + a else a * 256 + b.

Definition next16 (le : bool) (b : str) : nxt :=
  match b with
  | a0 :: a1 :: r =>
    let u := unit16 le a0 a1 in
    if (55296 <=? u) && (u <? 56320) then
      match r with
      | a2 :: a3 :: r' =>
        let v := unit16 le a2 a3 in
        if (56320 <=? v) && (v <=? 57343) then Complete (65536 + (u - 55296) * 1024 + (v - 56320)) r' else Invalid
      | _ => Incomplete
      end
    else if is_surr u then Invalid else Complete u r
  | _ => Incomplete
  end.

Definition next32 (le : bool) (b : str) : nxt :=
  match b with
  | a0 :: a1 :: a2 :: a3 :: r =>
    let c := if le then ((a3 * 256 + a2) * 256 + a1) * 256 + a0 else ((a0 * 256 + a1) * 256 + a2) * 256 + a3 in
    if valid_cp c then Complete c r else Invalid
  | _ => Incomplete
  end.

Definition next1 (limit : N) (b : str) : nxt :=
  match b with
  | [] => Incomplete
  | c :: r => if c <? limit then Complete c r else Invalid
  end.

(* decode as many complete characters as possible; result: (text, undecoded tail) *)
Fixpoint scan (next : str -> nxt) (fuel : nat) (b : str) (final : bool) : res (str * str) :=
  match b with
  | [] => Ok ([], [])
  | _ =>
    match fuel with
    | O => Err EIndex
    | S f =>
      match next b with
      | Complete cp rest =>
        match scan next f rest final with Ok (o, p) => Ok (cp :: o, p) | Err e => Err e end
      | Incomplete => if final then Err EUnicode else Ok ([], b)
      | Invalid => Err EUnicode
      end
    end
  end.

Definition next_of (k : kind) (le : bool) : str -> nxt :=
  match k with
  | K8 | K8sig => next8
  | K16 _ => next16 le
  | K32 _ => next32 le
  | KLatin => next1 256
  | KAscii => next1 128
  end.

Definition bom8 : str := [239; 187; 191].

(* ------------------------------------------------------------------ incremental decoders *)
(* cd_order: Some le once the byte order is fixed / the BOM question is settled *)
Record cdst := mkCD { cd_kind : kind; cd_pend : str; cd_order : option bool }.

Definition cd_init (e : str) : option cdst :=
  match lookup e with
  | None => None
  | Some k =>
    Some (mkCD k [] (match k with
                     | K16 bo | K32 bo => bo
                     | K8sig => None
                     | _ => Some true
                     end))
  end.

Definition cd_scan (k : kind) (le : bool) (b : str) (final : bool) : cdst * res str :=
  match scan (next_of k le) (S (length b)) b final with
  | Ok (o, p) => (mkCD k p (Some le), Ok o)
  | Err e => (mkCD k [] (Some le), Err e)
  end.

(* utf-16 / utf-32 incremental decoder on data without BOM (encodings/utf_16.py, utf_32.py): the data is decoded in
   native (little endian) order; "UTF-16 stream does not start with BOM" is raised once that consumed anything,
   otherwise (only an incomplete first character so far) the call returns '' and the data is looked at again *)
Definition nobom (k : kind) (b : str) (final : bool) : cdst * res str :=
  match scan (next_of k true) (S (length b)) b final with
  | Err e => (mkCD k b None, Err e)
  | Ok (_, p) => if (length p <? length b)%nat then (mkCD k b None, Err EUnicode) else (mkCD k b None, Ok [])
  end.

Definition cd_step (st : cdst) (input : str) (final : bool) : cdst * res str :=
  let k := cd_kind st in
  let b := cd_pend st ++ input in
  match cd_order st with
  | Some le => cd_scan k le b final
  | None =>
    match k with
    | K8sig =>   (* encodings/utf_8_sig.py IncrementalDecoder._buffer_decode *)
      if (length b <? 3)%nat then
        if starts b bom8 then (mkCD k b None, Ok [])         (* also when final: CPython returns '' *)
        else cd_scan k true b final
      else if starts bom8 b then cd_scan k true (skipn 3 b) final
      else cd_scan k true b final
    | K16 _ =>   (* encodings/utf_16.py: BOM required by the incremental decoder *)
      match b with
      | a0 :: a1 :: r =>
        if (a0 =? 255) && (a1 =? 254) then cd_scan k true r final
        else if (a0 =? 254) && (a1 =? 255) then cd_scan k false r final
        else nobom k b final
      | [] => (mkCD k b None, Ok [])
      | _ => if final then (mkCD k b None, Err EUnicode) else (mkCD k b None, Ok [])
      end
    | K32 _ =>
      match b with
      | a0 :: a1 :: a2 :: a3 :: r =>
        if (a0 =? 255) && (a1 =? 254) && (a2 =? 0) && (a3 =? 0) then cd_scan k true r final
        else if (a0 =? 0) && (a1 =? 0) && (a2 =? 254) && (a3 =? 255) then cd_scan k false r final
        else nobom k b final
      | [] => (mkCD k b None, Ok [])
      | _ => if final then (mkCD k b None, Err EUnicode) else (mkCD k b None, Ok [])
      end
    | _ => cd_scan k true b final
    end
  end.

(* ------------------------------------------------------------------ one-shot decoders *)
Definition scan_all (k : kind) (le : bool) (b : str) : res str :=
  match scan (next_of k le) (S (length b)) b true with
  | Ok (o, _) => Ok o
  | Err e => Err e
  end.

Definition cd_shot (e : str) (b : str) : res str :=
  match lookup e with
  | None => Err ELookup
  | Some k =>
    match k with
    | K8sig => if starts bom8 b then scan_all k true (skipn 3 b) else scan_all k true b
    | K16 None =>
      match b with
      | a0 :: a1 :: r =>
        if (a0 =? 255) && (a1 =? 254) then scan_all k true r
        else if (a0 =? 254) && (a1 =? 255) then scan_all k false r
        else scan_all k true b                   (* native order of the test machine: little endian *)
      | _ => scan_all k true b
      end
    | K32 None =>
      match b with
      | a0 :: a1 :: a2 :: a3 :: r =>
        if (a0 =? 255) && (a1 =? 254) && (a2 =? 0) && (a3 =? 0) then scan_all k true r
        else if (a0 =? 0) && (a1 =? 0) && (a2 =? 254) && (a3 =? 255) then scan_all k false r
        else scan_all k true b
      | _ => scan_all k true b
      end
    | K16 (Some le) | K32 (Some le) => scan_all k le b
    | _ => scan_all k true b
    end
  end.

(* ------------------------------------------------------------------ encoders *)
Definition enc8 (c : N) : option str :=
  if c <? 128 then Some [c]
  else if c <? 2048 then Some [192 + c / 64; 128 + c mod 64]
  else if is_surr c then None
  else if c <? 65536 then Some [224 + c / 4096; 128 + (c / 64) mod 64; 128 + c mod 64]
  else if c <=? 1114111 then Some [240 + c / 262144; 128 + (c / 4096) mod 64; 128 + (c / 64) mod 64; 128 + c mod 64]
  else None.

Definition u16 (le : bool) (u : N) : str := if le then [u mod 256; u / 256] else [u / 256; u mod 256].

Definition enc16 (le : bool) (c : N) : option str :=
  if is_surr c then None
  else if c <? 65536 then Some (u16 le c)
  else if c <=? 1114111 then
    Some (u16 le (55296 + (c - 65536) / 1024) ++ u16 le (56320 + (c - 65536) mod 1024))
  else None.

Definition enc32 (le : bool) (c : N) : option str :=
  if valid_cp c then
    let b := [c / 16777216; (c / 65536) mod 256; (c / 256) mod 256; c mod 256] in
    Some (if le then rev b else b)
  else None.

Definition enc1 (limit : N) (c : N) : option str := if c <? limit then Some [c] else None.

Definition enc_char (k : kind) : N -> option str :=
  match k with
  | K8 | K8sig => enc8
  | K16 (Some false) => enc16 false
  | K16 _ => enc16 true
  | K32 (Some false) => enc32 false
  | K32 _ => enc32 true
  | KLatin => enc1 256
  | KAscii => enc1 128
  end.

Fixpoint enc_all (f : N -> option str) (t : str) : res str :=
  match t with
  | [] => Ok []
  | c :: r => match f c with
              | None => Err EUnicode
              | Some b => match enc_all f r with Ok o => Ok (b ++ o) | Err e => Err e end
              end
  end.

Definition bom_of (k : kind) : str :=
  match k with
  | K8sig => bom8
  | K16 None => [255; 254]
  | K32 None => [255; 254; 0; 0]
  | _ => []
  end.

Record cest := mkCE { ce_kind : kind; ce_first : bool }.

Definition ce_init (e : str) : option cest :=
  match lookup e with None => None | Some k => Some (mkCE k true) end.

Definition ce_step (st : cest) (t : str) (final : bool) : cest * res str :=
  match enc_all (enc_char (ce_kind st)) t with
  | Ok o => (mkCE (ce_kind st) false, Ok ((if ce_first st then bom_of (ce_kind st) else []) ++ o))
  | Err e => (mkCE (ce_kind st) false, Err e)
  end.

Definition ce_shot (e : str) (t : str) : res str :=
  match lookup e with
  | None => Err ELookup
  | Some k => match enc_all (enc_char k) t with Ok o => Ok (bom_of k ++ o) | Err e => Err e end
  end.

(* ------------------------------------------------------------------ the css codec over these *)
Definition c_decode := decode cd_shot.
Definition c_encode := encode ce_shot.
Definition c_dec_feed (encoding : option str) (force : bool) :=
  dec_feed cdst cd_init cd_step (dec_init cdst encoding force).
Definition c_enc_feed (encoding : option str) :=
  enc_feed cest ce_init ce_step (enc_init cest encoding).
(* per-call results (which call raises) *)
Definition c_dec_trace (encoding : option str) (force : bool) :=
  dec_trace cdst cd_init cd_step (dec_init cdst encoding force).
Definition c_enc_trace (encoding : option str) :=
  enc_trace cest ce_init ce_step (enc_init cest encoding).
(* codecs.getwriter("css"): one result per write *)
Definition c_sw_trace (encoding : option str) :=
  enc_trace_nf cest ce_init ce_step (enc_init cest encoding).
(* codecs.getreader("css")(stream).read() *)
Definition c_sr_trace (encoding : option str) (force : bool) :=
  sr_trace cdst cd_init cd_step (sr_init cdst encoding force).
