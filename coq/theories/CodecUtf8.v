(* CodecUtf8.v -- the Gallina UTF-8 codec is a bijection between valid texts and their encodings:
   decoding what the encoder produced gives the text back.  Surrogates (U+D800..U+DFFF) are rejected by BOTH
   directions, as by CPython's strict utf-8 codec (UnicodeEncodeError: surrogates not allowed / UnicodeDecodeError:
   invalid continuation byte for ed a0..bf); code points above U+10FFFF cannot be encoded. *)
From CssV Require Import Base CodecPyLib Gen.CodecFns Codec CodecConcrete CodecDetect CodecFacts CodecInverse CodecInstances.
From Coq Require Import ZifyBool ZifyN.
Local Open Scope N_scope.
Ltac Zify.zify_post_hook ::= Z.div_mod_to_equations.

Definition valid_text (t : str) : bool := forallb valid_cp t.

(* one character *)
Lemma next8_enc8 c bs rest : enc8 c = Some bs -> next8 (bs ++ rest) = Complete c rest.
Proof.
  unfold enc8. destruct (c <? 128) eqn:H1.
  - intros H. assert (E : bs = [c]) by congruence. rewrite E. cbn [app next8]. now rewrite H1.
  - destruct (c <? 2048) eqn:H2.
    + intros H. assert (E : bs = [192 + c / 64; 128 + c mod 64]) by congruence. rewrite E. clear E H.
      cbn [app]. unfold next8, is_cont.
      replace (192 + c / 64 <? 128) with false by lia.
      replace (192 + c / 64 <? 194) with false by lia.
      replace (192 + c / 64 <? 224) with true by lia.
      replace ((128 <=? 128 + c mod 64) && (128 + c mod 64 <=? 191)) with true by lia.
      f_equal. lia.
    + destruct (is_surr c) eqn:H3; [discriminate|]. unfold is_surr in H3.
      destruct (c <? 65536) eqn:H4.
      * intros H. assert (E : bs = [224 + c / 4096; 128 + (c / 64) mod 64; 128 + c mod 64]) by congruence.
        rewrite E. clear E H. cbn [app]. unfold next8, ok2_3, is_cont.
        replace (224 + c / 4096 <? 128) with false by lia.
        replace (224 + c / 4096 <? 194) with false by lia.
        replace (224 + c / 4096 <? 224) with false by lia.
        replace (224 + c / 4096 <? 240) with true by lia.
        match goal with |- (if ?x then _ else _) = _ => replace x with true by lia end.
        match goal with |- (if ?x then _ else _) = _ => replace x with true by lia end.
        f_equal. lia.
      * destruct (c <=? 1114111) eqn:H5; [|discriminate].
        intros H.
        assert (E : bs = [240 + c / 262144; 128 + (c / 4096) mod 64; 128 + (c / 64) mod 64; 128 + c mod 64]) by congruence.
        rewrite E. clear E H. cbn [app]. unfold next8, ok2_4, is_cont.
        replace (240 + c / 262144 <? 128) with false by lia.
        replace (240 + c / 262144 <? 194) with false by lia.
        replace (240 + c / 262144 <? 224) with false by lia.
        replace (240 + c / 262144 <? 240) with false by lia.
        replace (240 + c / 262144 <? 245) with true by lia.
        match goal with |- (if ?x then _ else _) = _ => replace x with true by lia end.
        match goal with |- (if ?x then _ else _) = _ => replace x with true by lia end.
        match goal with |- (if ?x then _ else _) = _ => replace x with true by lia end.
        f_equal. lia.
Qed.

(* ------------------------------------------------------------------ any char-by-char codec whose reader inverts its writer *)
Lemma scan_enc_all (next : str -> nxt) (f : N -> option str) :
  (forall c bs rest, f c = Some bs -> next (bs ++ rest) = Complete c rest) ->
  (forall c, f c <> Some []) ->
  forall t b, enc_all f t = Ok b -> forall fuel, (length b < fuel)%nat -> scan next fuel b true = Ok (t, []).
Proof.
  intros Hinv Hne. induction t as [|c t IH]; intros b Hb fuel Hf.
  - cbn [enc_all] in Hb. injection Hb as <-. destruct fuel; reflexivity.
  - cbn [enc_all] in Hb. destruct (f c) as [bs|] eqn:Hc; [|discriminate].
    destruct (enc_all f t) as [o|] eqn:Ho; [|discriminate]. injection Hb as <-.
    destruct bs as [|x bs]; [exfalso; now apply (Hne c)|].
    destruct fuel as [|fuel]; [lia|]. change ((x :: bs) ++ o) with (x :: (bs ++ o)). rewrite scan_S.
    change (x :: (bs ++ o)) with ((x :: bs) ++ o). rewrite (Hinv _ _ o Hc).
    rewrite (IH o eq_refl fuel); [reflexivity|]. cbn [length app] in Hf. rewrite app_length in Hf. lia.
Qed.

Lemma enc8_nonempty c : enc8 c <> Some [].
Proof. unfold enc8. repeat match goal with |- context[if ?x then _ else _] => destruct x end; discriminate. Qed.

Definition encode8 (t : str) : res str := enc_all enc8 t.
Definition decode8 (b : str) : res str := scan_all K8 true b.

(* THE round trip: what the UTF-8 encoder produced decodes to the text *)
Theorem utf8_dec_enc_ok t b : encode8 t = Ok b -> decode8 b = Ok t.
Proof.
  intros H. unfold decode8, scan_all. cbn [next_of].
  now rewrite (scan_enc_all next8 enc8 next8_enc8 enc8_nonempty t b H _ (Nat.lt_succ_diag_r _)).
Qed.

(* the encoder accepts exactly the valid texts (no surrogates, <= U+10FFFF) *)
Lemma enc8_valid c : valid_cp c = true <-> exists bs, enc8 c = Some bs.
Proof.
  unfold valid_cp, enc8, is_surr. split.
  - intros H. repeat match goal with |- context[if ?x then _ else _] => destruct x eqn:? end; eauto; lia.
  - intros [bs H]. repeat match goal with H : context[if ?x then _ else _] |- _ => destruct x eqn:? end;
      try discriminate; lia.
Qed.

Theorem utf8_encode_valid t : valid_text t = true -> exists b, encode8 t = Ok b.
Proof.
  unfold valid_text, encode8. induction t as [|c t IH]; cbn [forallb enc_all]; [eauto|].
  intros H. apply andb_true_iff in H as [H1 H2]. apply enc8_valid in H1 as [bs ->].
  destruct (IH H2) as [o ->]. eauto.
Qed.

Theorem utf8_encode_invalid t : valid_text t = false -> encode8 t = Err EUnicode.
Proof.
  unfold valid_text, encode8. induction t as [|c t IH]; cbn [forallb enc_all]; [discriminate|].
  intros H. destruct (enc8 c) as [bs|] eqn:Hc; [|reflexivity].
  assert (Hv : valid_cp c = true) by (apply enc8_valid; eauto). rewrite Hv in H. cbn [andb] in H.
  now rewrite (IH H).
Qed.

Theorem utf8_dec_enc t : valid_text t = true -> exists b, encode8 t = Ok b /\ decode8 b = Ok t.
Proof. intros H. destruct (utf8_encode_valid t H) as [b Hb]. exists b. split; [exact Hb|now apply utf8_dec_enc_ok]. Qed.

(* ------------------------------------------------------------------ UTF-16 and UTF-32 (fixed byte order) *)
Lemma unit16_u16 le u rest : u < 65536 ->
  match u16 le u ++ rest with a0 :: a1 :: r => unit16 le a0 a1 = u /\ r = rest | _ => False end.
Proof. intros H. unfold u16, unit16. destruct le; cbn [app]; split; try reflexivity; lia. Qed.

Lemma next16_enc16 le c bs rest : enc16 le c = Some bs -> next16 le (bs ++ rest) = Complete c rest.
Proof.
  unfold enc16. destruct (is_surr c) eqn:H1; [discriminate|]. unfold is_surr in H1.
  destruct (c <? 65536) eqn:H2.
  - intros H. assert (E : bs = u16 le c) by congruence. rewrite E. clear E H.
    unfold u16, next16, unit16, is_surr. destruct le; cbn [app].
    + replace (c / 256 * 256 + c mod 256) with c by lia.
      replace ((55296 <=? c) && (c <? 56320)) with false by lia. now rewrite H1.
    + replace (c / 256 * 256 + c mod 256) with c by lia.
      replace ((55296 <=? c) && (c <? 56320)) with false by lia. now rewrite H1.
  - destruct (c <=? 1114111) eqn:H3; [|discriminate].
    intros H.
    assert (E : bs = u16 le (55296 + (c - 65536) / 1024) ++ u16 le (56320 + (c - 65536) mod 1024)) by congruence.
    rewrite E. clear E H. set (u := 55296 + (c - 65536) / 1024). set (v := 56320 + (c - 65536) mod 1024).
    assert (Hu : 55296 <= u < 56320) by (subst u; lia). assert (Hv : 56320 <= v <= 57343) by (subst v; lia).
    unfold u16, next16, unit16. destruct le; cbn [app].
    + replace (u / 256 * 256 + u mod 256) with u by lia. replace (v / 256 * 256 + v mod 256) with v by lia.
      replace ((55296 <=? u) && (u <? 56320)) with true by lia.
      replace ((56320 <=? v) && (v <=? 57343)) with true by lia. f_equal. subst u v. lia.
    + replace (u / 256 * 256 + u mod 256) with u by lia. replace (v / 256 * 256 + v mod 256) with v by lia.
      replace ((55296 <=? u) && (u <? 56320)) with true by lia.
      replace ((56320 <=? v) && (v <=? 57343)) with true by lia. f_equal. subst u v. lia.
Qed.

Lemma enc16_nonempty le c : enc16 le c <> Some [].
Proof.
  unfold enc16, u16. repeat match goal with |- context[if ?x then _ else _] => destruct x end; discriminate.
Qed.

Lemma next32_enc32 le c bs rest : enc32 le c = Some bs -> next32 le (bs ++ rest) = Complete c rest.
Proof.
  unfold enc32. destruct (valid_cp c) eqn:H1; [|discriminate]. intros H.
  assert (Hc : c <= 1114111) by (unfold valid_cp in H1; lia).
  destruct le.
  - assert (E : bs = [c mod 256; (c / 256) mod 256; (c / 65536) mod 256; c / 16777216]) by (cbn [rev app] in H; congruence).
    rewrite E. clear E H. cbn [app]. unfold next32.
    replace (((c / 16777216 * 256 + c / 65536 mod 256) * 256 + c / 256 mod 256) * 256 + c mod 256) with c by lia.
    now rewrite H1.
  - assert (E : bs = [c / 16777216; (c / 65536) mod 256; (c / 256) mod 256; c mod 256]) by congruence.
    rewrite E. clear E H. cbn [app]. unfold next32.
    replace (((c / 16777216 * 256 + c / 65536 mod 256) * 256 + c / 256 mod 256) * 256 + c mod 256) with c by lia.
    now rewrite H1.
Qed.

Lemma enc32_nonempty le c : enc32 le c <> Some [].
Proof. unfold enc32. destruct (valid_cp c); [destruct le|]; discriminate. Qed.

Lemma enc1_inv lim c bs rest : enc1 lim c = Some bs -> next1 lim (bs ++ rest) = Complete c rest.
Proof. unfold enc1, next1. destruct (c <? lim) eqn:H; [|discriminate]. intros [= <-]. cbn [app]. now rewrite H. Qed.
Lemma enc1_nonempty lim c : enc1 lim c <> Some [].
Proof. unfold enc1. destruct (c <? lim); discriminate. Qed.

(* ------------------------------------------------------------------ every codec of the proved decoder table is invertible *)
(* two names of the same codec kind (e.g. the name in the rule and the canonical name the detector answers) *)
Theorem r_inverse e e2 x y : r_init e2 <> None -> lookup e = lookup e2 ->
  ce_shot e x = Ok y -> r_shot e2 y = Ok x.
Proof.
  unfold ce_shot, r_shot, r_init. intros Hk ->. destruct (lookup e2) as [k|]; [|discriminate].
  destruct (enc_all (enc_char k) x) as [o|] eqn:E; [|discriminate]. intros H.
  assert (Hy : y = bom_of k ++ o) by congruence. subst y. clear H.
  destruct k as [| |[[|]|]|[[|]|]| |]; try (exfalso; apply Hk; reflexivity);
    cbn [bom_of app r_step snd enc_char next_of] in *.
  - now rewrite (scan_enc_all next8 enc8 next8_enc8 enc8_nonempty x o E _ (Nat.lt_succ_diag_r _)).
  - now rewrite (scan_enc_all (next16 true) (enc16 true) (next16_enc16 true) (enc16_nonempty true) x o E _ (Nat.lt_succ_diag_r _)).
  - now rewrite (scan_enc_all (next16 false) (enc16 false) (next16_enc16 false) (enc16_nonempty false) x o E _ (Nat.lt_succ_diag_r _)).
  - now rewrite (scan_enc_all (next32 true) (enc32 true) (next32_enc32 true) (enc32_nonempty true) x o E _ (Nat.lt_succ_diag_r _)).
  - now rewrite (scan_enc_all (next32 false) (enc32 false) (next32_enc32 false) (enc32_nonempty false) x o E _ (Nat.lt_succ_diag_r _)).
  - now rewrite (scan_enc_all (next1 256) (enc1 256) (enc1_inv 256) (enc1_nonempty 256) x o E _ (Nat.lt_succ_diag_r _)).
  - now rewrite (scan_enc_all (next1 128) (enc1 128) (enc1_inv 128) (enc1_nonempty 128) x o E _ (Nat.lt_succ_diag_r _)).
Qed.

(* ================================================================== closed inverse instances for utf-8 *)
Definition ascii (x : str) : bool := forallb (fun c => c <? 128) x.

Lemma enc_all_ascii x : ascii x = true -> enc_all enc8 x = Ok x.
Proof.
  unfold ascii. induction x as [|c x IH]; cbn [forallb enc_all]; [reflexivity|].
  intros H. apply andb_true_iff in H as [H1 H2]. unfold enc8 at 1. rewrite H1, (IH H2). reflexivity.
Qed.

Lemma utf8_head_transparent h rest y : ascii h = true -> enc_all enc8 (h ++ rest) = Ok y -> exists tl, y = h ++ tl.
Proof.
  intros Hh. rewrite enc_all_app, (enc_all_ascii _ Hh). destruct (enc_all enc8 rest) as [o|]; [|discriminate].
  intros [= <-]. eauto.
Qed.

Lemma utf8_not_sig e : lookup e = Some K8 -> is_sig e = false.
Proof.
  unfold lookup, is_sig, norm_name. intros H.
  destruct (eqs (lower (py_replace_char e 95 45)) (s "utf-8-sig")) eqn:E; [|reflexivity].
  destruct (eqs (lower (py_replace_char e 95 45)) (s "utf-8") || eqs (lower (py_replace_char e 95 45)) (s "utf8")) eqn:E2;
    [|discriminate H].
  apply eqs_spec in E. rewrite E in E2. discriminate E2.
Qed.

Lemma ascii_app x y : ascii (x ++ y) = ascii x && ascii y.
Proof. unfold ascii. apply forallb_app. Qed.

(* encode then decode, no encoding argument anywhere, the rule names utf-8 (any spelling CodecConcrete.lookup knows):
   the very same text comes back -- no hypothesis about codecs left *)
Theorem decode_encode_detected_utf8 e rest b force :
  lookup e = Some K8 -> ascii e = true -> ~ In 34 e -> is_css e = false ->
  encode ce_shot (prefix ++ e ++ 34 :: rest) None = Ok b ->
  decode r_shot b None force = Ok (prefix ++ e ++ 34 :: rest).
Proof.
  intros Hk Ha Hq Hc. apply CodecInverse.decode_encode_charset_thm; auto.
  - now apply utf8_not_sig.
  - intros x y. apply r_inverse; [unfold r_init; rewrite Hk; discriminate|reflexivity].
  - unfold ce_shot. rewrite Hk. cbn [enc_char bom_of app]. intros y Hy.
    destruct (enc_all enc8 (prefix ++ e ++ 34 :: rest)) as [o|] eqn:E; [|discriminate]. injection Hy as <-.
    change (prefix ++ e ++ 34 :: rest) with (prefix ++ e ++ [34] ++ rest) in E. rewrite !app_assoc in E.
    apply utf8_head_transparent in E as [tl ->].
    + exists tl. now rewrite <- !app_assoc.
    + rewrite !ascii_app, Ha. reflexivity.
Qed.

(* ------------------------------------------------------------------ no rule: the default *)
Lemma enc8_first_big c y r : (c <? 128) = false -> enc8 c = Some (y :: r) -> 192 <= y.
Proof.
  unfold enc8. intros ->. destruct (c <? 2048).
  - intros H. assert (y = 192 + c / 64) by congruence. lia.
  - destruct (is_surr c); [discriminate|]. destruct (c <? 65536).
    + intros H. assert (y = 224 + c / 4096) by congruence. lia.
    + destruct (c <=? 1114111); [|discriminate]. intros H. assert (y = 240 + c / 262144) by congruence. lia.
Qed.

Lemma starts_bytes_text p : ascii p = true -> forall t b, enc_all enc8 t = Ok b -> starts p b = true -> starts p t = true.
Proof.
  unfold ascii. induction p as [|x p IH]; intros Hp t b Hb Hs; [reflexivity|].
  cbn [forallb] in Hp. apply andb_true_iff in Hp as [Hx Hp].
  destruct b as [|y b]; [discriminate|]. cbn [starts] in Hs. apply andb_true_iff in Hs as [Hxy Hs].
  apply N.eqb_eq in Hxy. subst y.
  destruct t as [|c t]; [discriminate|]. cbn [enc_all] in Hb.
  destruct (enc8 c) as [bs|] eqn:Hc; [|discriminate]. destruct (enc_all enc8 t) as [o|] eqn:Ho; [|discriminate].
  injection Hb as Hb.
  assert (Hcx : c = x /\ bs = [x]).
  { destruct (c <? 128) eqn:A1.
    - unfold enc8 in Hc. rewrite A1 in Hc. injection Hc as <-. cbn [app] in Hb. injection Hb as -> _. auto.
    - exfalso. destruct bs as [|y r]; [now apply (enc8_nonempty c)|]. cbn [app] in Hb. injection Hb as -> _.
      apply (enc8_first_big _ _ _ A1) in Hc. lia. }
  destruct Hcx as [-> ->]. cbn [app] in Hb. injection Hb as <-.
  cbn [starts]. rewrite N.eqb_refl. cbn [andb]. now apply (IH Hp t o).
Qed.

Lemma enc8_first_zero c bs : enc8 c = Some (0 :: bs) -> c = 0.
Proof.
  destruct (c <? 128) eqn:A1.
  - unfold enc8. rewrite A1. congruence.
  - intros H. apply (enc8_first_big _ _ _ A1) in H. lia.
Qed.

(* what the premise on the text must exclude: U+FEFF or NUL in front, NUL right after a leading '@' *)
Definition head_ok (t : str) : Prop :=
  match t with
  | [] => True
  | c0 :: r => c0 <> 0 /\ c0 <> 65279 /\ (c0 = 64 -> match r with c1 :: _ => c1 <> 0 | [] => True end)
  end.

Lemma utf8_default_shape t b : head_ok t -> starts prefix t = false -> enc_all enc8 t = Ok b -> default_shape b.
Proof.
  intros Hh Hs Hb. destruct t as [|c0 t]; [injection Hb as <-; exact I|].
  destruct Hh as [H0 [Hfe H64]].
  assert (Hsb : starts prefix b = false).
  { destruct (starts prefix b) eqn:E; [|reflexivity]. rewrite (starts_bytes_text prefix eq_refl _ _ Hb E) in Hs. discriminate. }
  cbn [enc_all] in Hb. destruct (enc8 c0) as [bs|] eqn:Hc; [|discriminate].
  destruct (enc_all enc8 t) as [o|] eqn:Ho; [|discriminate]. injection Hb as <-.
  revert Hc. unfold enc8. destruct (c0 <? 128) eqn:A1.
  - intros [= <-]. cbn [app default_shape] in *. destruct (N.eq_dec c0 64) as [->|N64].
    + right; left. split; [reflexivity|]. split; [exact Hsb|].
      specialize (H64 eq_refl). destruct t as [|c1 t]; [injection Ho as <-; exact I|].
      cbn [enc_all] in Ho. destruct (enc8 c1) as [bs1|] eqn:Hc1; [|discriminate].
      destruct (enc_all enc8 t) as [o1|]; [|discriminate]. injection Ho as <-.
      destruct bs1 as [|y bs1]; [exfalso; now apply (enc8_nonempty c1)|]. cbn [app].
      intros ->. now apply enc8_first_zero in Hc1.
    + left. repeat split; lia.
  - destruct (c0 <? 2048) eqn:A2.
    { intros H. assert (E0 : bs = [192 + c0 / 64; 128 + c0 mod 64]) by congruence. subst bs. clear H.
      cbn [app default_shape]. left. repeat split; lia. }
    destruct (is_surr c0) eqn:A3; [discriminate|]. unfold is_surr in A3.
    destruct (c0 <? 65536) eqn:A4.
    + intros H. assert (E0 : bs = [224 + c0 / 4096; 128 + (c0 / 64) mod 64; 128 + c0 mod 64]) by congruence.
      subst bs. clear H. cbn [app default_shape]. destruct (N.eq_dec (224 + c0 / 4096) 239) as [E|NE].
      * right; right. split; [exact E|]. rewrite E. unfold bom_utf8. cbn [starts].
        destruct (N.eqb 187 (128 + c0 / 64 mod 64)) eqn:B1; [|reflexivity].
        destruct (N.eqb 191 (128 + c0 mod 64)) eqn:B2; [|reflexivity].
        exfalso. apply Hfe. lia.
      * left. repeat split; lia.
    + destruct (c0 <=? 1114111) eqn:A5; [|discriminate].
      intros H.
      assert (E0 : bs = [240 + c0 / 262144; 128 + (c0 / 4096) mod 64; 128 + (c0 / 64) mod 64; 128 + c0 mod 64]) by congruence.
      subst bs. clear H. cbn [app default_shape]. left. repeat split; lia.
Qed.

Lemma lookup_utf8 : lookup utf8 = Some K8.
Proof. reflexivity. Qed.

(* encode then decode, no encoding argument anywhere, no leading rule (a text starting with at-import or at-media
   included): UTF-8 by default in both directions, the very same text comes back *)
Theorem decode_encode_detected_norule_utf8 t b force :
  head_ok t -> starts prefix t = false ->
  encode ce_shot t None = Ok b -> decode r_shot b None force = Ok t.
Proof.
  intros Hh Hs Hb. eapply CodecInverse.decode_encode_norule_thm; [exact Hs| |  |exact Hb].
  - intros x y. apply r_inverse; [discriminate|reflexivity].
  - revert Hb. unfold encode. rewrite (detectu_norule _ Hs). cbn [fst]. rewrite is_sig_utf8.
    unfold encode_with. change (is_css utf8) with false. cbv iota. unfold ce_shot. rewrite lookup_utf8.
    cbn [enc_char bom_of app]. destruct (enc_all enc8 t) as [o|] eqn:E; [|discriminate]. intros [= <-].
    now apply (utf8_default_shape t).
Qed.

(* ================================================================== utf-16-le/-be, utf-32-le/-be named by the rule *)
Lemma not_sig_of_lookup e k : lookup e = Some k -> k <> K8sig -> is_sig e = false.
Proof.
  intros H Hk. unfold is_sig. destruct (eqs (lower (py_replace_char e 95 45)) (s "utf-8-sig")) eqn:E; [|reflexivity].
  apply eqs_spec in E. unfold lookup, norm_name in H. rewrite E in H. vm_compute in H. congruence.
Qed.

(* the name the byte-level detector answers for the BOM-less shapes of the rule head *)
Definition canon (k : kind) : str :=
  match k with
  | K16 (Some true) => s "utf-16-le"
  | K16 (Some false) => s "utf-16-be"
  | K32 (Some true) => s "utf-32-le"
  | K32 (Some false) => s "utf-32-be"
  | _ => []
  end.

(* encode then decode, no encoding argument anywhere, the rule names utf-16-le/-be or utf-32-le/-be: the text comes
   back with the rule naming the codec in the detector's spelling (the documented rewrite) *)
Theorem decode_encode_detected_wide e k rest b force :
  lookup e = Some k ->
  (k = K16 (Some true) \/ k = K16 (Some false) \/ k = K32 (Some true) \/ k = K32 (Some false)) ->
  ~ In 34 e -> is_css e = false ->
  encode ce_shot (prefix ++ e ++ 34 :: rest) None = Ok b ->
  decode r_shot b None force = Ok (prefix ++ canon k ++ 34 :: rest).
Proof.
  intros Hk Hcase Hq Hc. unfold encode. rewrite (detectu_rule _ _ _ Hq). cbn [fst].
  assert (Hs : is_sig e = false) by (apply (not_sig_of_lookup _ _ Hk); destruct Hcase as [-> | [-> | [-> | ->]]]; discriminate).
  rewrite Hs. unfold encode_with. rewrite Hc. intros Hb.
  assert (Hinv : r_shot (canon k) b = Ok (prefix ++ e ++ 34 :: rest)).
  { apply (r_inverse e (canon k) _ _); [|rewrite Hk|exact Hb]; destruct Hcase as [-> | [-> | [-> | ->]]]; (discriminate || reflexivity). }
  assert (Hdet : detectencoding_str b true = Some (Some (canon k), false)).
  { revert Hb. unfold ce_shot. rewrite Hk. rewrite enc_all_app.
    destruct Hcase as [-> | [-> | [-> | ->]]]; cbn [enc_char bom_of app canon];
      match goal with |- context[enc_all ?f prefix] => let v := eval vm_compute in (enc_all f prefix) in
                                                     change (enc_all f prefix) with v end;
      cbv iota; destruct (enc_all _ (e ++ 34 :: rest)) as [o|]; try discriminate; intros [= <-]; cbn [app].
    - apply implicit_utf16_le.
    - apply implicit_utf16_be.
    - apply implicit_utf32_le.
    - apply implicit_utf32_be. }
  assert (Hcss : is_css (canon k) = false) by (destruct Hcase as [-> | [-> | [-> | ->]]]; reflexivity).
  rewrite (decode_detected_general r_shot _ force _ false _ Hdet Hcss Hinv).
  rewrite (fix_rename _ _ _ _ Hq).
  replace (nosig (canon k)) with (canon k) by (destruct Hcase as [-> | [-> | [-> | ->]]]; reflexivity). reflexivity.
Qed.
