(* Colors.v -- executable model of css_parser's colour values (C17)
     css/value.py ColorValue._setCssText : #rgb / #rrggbb, colour names, rgb[a]() and hsl[a]() to (red, green, blue, alpha)
     serialize.py CSSSerializer._hash    : #aabbcc -> #abc  (minimizeColorHash)
   plus the specification side: the CSS3 Color definitions typed in here independently of /repo
   (4.2.1 hex and rgb() notation, 4.2.4 the HSL-to-RGB algorithm, 4.3 the extended colour keyword table).        *)
From Coq Require Import QArith Qabs Qround.
From CssV Require Import Base Regex Numbers Gen.Colors.
Local Open Scope Z_scope.

(* ------------------------------------------------------------------ hex colours *)
Definition hexmatch (v : str) : bool :=                      (* reHexcolor.match(v) is not None *)
  match m re_hexcolor_body None v (fun _ t' => if end_ok hex_end_strict t' then Some tt else None) with
  | Some _ => true
  | None => false
  end.

Definition hexdig (c : N) : option Z :=
  if N.leb 48 c && N.leb c 57 then Some (Z.of_N c - 48)
  else if N.leb 97 c && N.leb c 102 then Some (Z.of_N c - 87)
  else if N.leb 65 c && N.leb c 70 then Some (Z.of_N c - 55)
  else None.
(* int(t, 16) on a non-empty string of hex digits; None = outside that domain (ValueError for '') *)
Fixpoint int16_from (a : Z) (t : str) : option Z :=
  match t with
  | [] => Some a
  | c :: r => match hexdig c with Some d => int16_from (16 * a + d) r | None => None end
  end.
Definition int16 (t : str) : option Z := match t with [] => None | _ => int16_from 0 t end.

Definition slice (a b : nat) (t : str) : str := firstn (b - a) (skipn a t).     (* t[a:b], 0 <= a <= b *)
Definition idx (i : nat) (t : str) : str := firstn 1 (skipn i t).              (* t[i] as a string; [] when out of range *)

Definition triple (l : list (option Z)) : option (Z * Z * Z) :=
  match l with
  | [Some r; Some g; Some b] => Some (r, g, b)
  | _ => None
  end.
(* value.py:383-395 *)
Definition hex_rgb (v : str) : option (Z * Z * Z) :=
  if Nat.eqb (length v) hex_short_len
  then triple (map (fun i => int16 (idx i v ++ idx i v)) hex_short_idx)
  else triple (map (fun ab => int16 (slice (fst ab) (snd ab) v)) hex_long_slices).

Inductive cres := NoColor | ColorCrash | Rgba (rgb : Z * Z * Z) (alpha : Q).
Definition color_of_hash (v : str) : cres :=
  if hexmatch v then match hex_rgb v with Some c => Rgba c 1 | None => ColorCrash end else NoColor.

(* serialize.py:379-389 *)
Definition hash_min (minimize : bool) (val : str) : str :=
  if minimize && Nat.eqb (length val) hash_len
     && forallb (fun ab => eqs (idx (fst ab) val) (idx (snd ab) val)) hash_pairs
  then 35%N :: flat_map (fun i => idx i val) hash_pick
  else val.

(* CSS3 Color 4.2.1: "#rgb is converted into #rrggbb by replicating digits" *)
Definition hv (c : N) : Z := match hexdig c with Some d => d | None => 0 end.
Definition is_hex (c : N) : bool := match hexdig c with Some _ => true | None => false end.
Definition css3_hex3 (a b c : N) : Z * Z * Z := (17 * hv a, 17 * hv b, 17 * hv c).
Definition css3_hex6 (a1 a2 b1 b2 c1 c2 : N) : Z * Z * Z := (16 * hv a1 + hv a2, 16 * hv b1 + hv b2, 16 * hv c1 + hv c2).

(* ------------------------------------------------------------------ colour names *)
Fixpoint assoc_s {A} (k : str) (l : list (str * A)) : option A :=
  match l with [] => None | (k', v) :: r => if eqs k' k then Some v else assoc_s k r end.
(* value.py:379  rgba = COLORS[normalize(v)]  (the caller passes the normalised name) *)
Definition named_color (name : str) : option ((Z * Z * Z) * Q) := assoc_s name colors_table.

(* CSS3 Color 4.3 extended colour keywords (147) + 4.2.3 transparent; typed from the specification *)
Definition css3_named : list (str * ((Z * Z * Z) * Q)) :=
  [(s "transparent", ((0, 0, 0), 0%Q));
   (s "aliceblue", ((240, 248, 255), 1%Q));
   (s "antiquewhite", ((250, 235, 215), 1%Q));
   (s "aqua", ((0, 255, 255), 1%Q));
   (s "aquamarine", ((127, 255, 212), 1%Q));
   (s "azure", ((240, 255, 255), 1%Q));
   (s "beige", ((245, 245, 220), 1%Q));
   (s "bisque", ((255, 228, 196), 1%Q));
   (s "black", ((0, 0, 0), 1%Q));
   (s "blanchedalmond", ((255, 235, 205), 1%Q));
   (s "blue", ((0, 0, 255), 1%Q));
   (s "blueviolet", ((138, 43, 226), 1%Q));
   (s "brown", ((165, 42, 42), 1%Q));
   (s "burlywood", ((222, 184, 135), 1%Q));
   (s "cadetblue", ((95, 158, 160), 1%Q));
   (s "chartreuse", ((127, 255, 0), 1%Q));
   (s "chocolate", ((210, 105, 30), 1%Q));
   (s "coral", ((255, 127, 80), 1%Q));
   (s "cornflowerblue", ((100, 149, 237), 1%Q));
   (s "cornsilk", ((255, 248, 220), 1%Q));
   (s "crimson", ((220, 20, 60), 1%Q));
   (s "cyan", ((0, 255, 255), 1%Q));
   (s "darkblue", ((0, 0, 139), 1%Q));
   (s "darkcyan", ((0, 139, 139), 1%Q));
   (s "darkgoldenrod", ((184, 134, 11), 1%Q));
   (s "darkgray", ((169, 169, 169), 1%Q));
   (s "darkgreen", ((0, 100, 0), 1%Q));
   (s "darkgrey", ((169, 169, 169), 1%Q));
   (s "darkkhaki", ((189, 183, 107), 1%Q));
   (s "darkmagenta", ((139, 0, 139), 1%Q));
   (s "darkolivegreen", ((85, 107, 47), 1%Q));
   (s "darkorange", ((255, 140, 0), 1%Q));
   (s "darkorchid", ((153, 50, 204), 1%Q));
   (s "darkred", ((139, 0, 0), 1%Q));
   (s "darksalmon", ((233, 150, 122), 1%Q));
   (s "darkseagreen", ((143, 188, 143), 1%Q));
   (s "darkslateblue", ((72, 61, 139), 1%Q));
   (s "darkslategray", ((47, 79, 79), 1%Q));
   (s "darkslategrey", ((47, 79, 79), 1%Q));
   (s "darkturquoise", ((0, 206, 209), 1%Q));
   (s "darkviolet", ((148, 0, 211), 1%Q));
   (s "deeppink", ((255, 20, 147), 1%Q));
   (s "deepskyblue", ((0, 191, 255), 1%Q));
   (s "dimgray", ((105, 105, 105), 1%Q));
   (s "dimgrey", ((105, 105, 105), 1%Q));
   (s "dodgerblue", ((30, 144, 255), 1%Q));
   (s "firebrick", ((178, 34, 34), 1%Q));
   (s "floralwhite", ((255, 250, 240), 1%Q));
   (s "forestgreen", ((34, 139, 34), 1%Q));
   (s "fuchsia", ((255, 0, 255), 1%Q));
   (s "gainsboro", ((220, 220, 220), 1%Q));
   (s "ghostwhite", ((248, 248, 255), 1%Q));
   (s "gold", ((255, 215, 0), 1%Q));
   (s "goldenrod", ((218, 165, 32), 1%Q));
   (s "gray", ((128, 128, 128), 1%Q));
   (s "green", ((0, 128, 0), 1%Q));
   (s "greenyellow", ((173, 255, 47), 1%Q));
   (s "grey", ((128, 128, 128), 1%Q));
   (s "honeydew", ((240, 255, 240), 1%Q));
   (s "hotpink", ((255, 105, 180), 1%Q));
   (s "indianred", ((205, 92, 92), 1%Q));
   (s "indigo", ((75, 0, 130), 1%Q));
   (s "ivory", ((255, 255, 240), 1%Q));
   (s "khaki", ((240, 230, 140), 1%Q));
   (s "lavender", ((230, 230, 250), 1%Q));
   (s "lavenderblush", ((255, 240, 245), 1%Q));
   (s "lawngreen", ((124, 252, 0), 1%Q));
   (s "lemonchiffon", ((255, 250, 205), 1%Q));
   (s "lightblue", ((173, 216, 230), 1%Q));
   (s "lightcoral", ((240, 128, 128), 1%Q));
   (s "lightcyan", ((224, 255, 255), 1%Q));
   (s "lightgoldenrodyellow", ((250, 250, 210), 1%Q));
   (s "lightgray", ((211, 211, 211), 1%Q));
   (s "lightgreen", ((144, 238, 144), 1%Q));
   (s "lightgrey", ((211, 211, 211), 1%Q));
   (s "lightpink", ((255, 182, 193), 1%Q));
   (s "lightsalmon", ((255, 160, 122), 1%Q));
   (s "lightseagreen", ((32, 178, 170), 1%Q));
   (s "lightskyblue", ((135, 206, 250), 1%Q));
   (s "lightslategray", ((119, 136, 153), 1%Q));
   (s "lightslategrey", ((119, 136, 153), 1%Q));
   (s "lightsteelblue", ((176, 196, 222), 1%Q));
   (s "lightyellow", ((255, 255, 224), 1%Q));
   (s "lime", ((0, 255, 0), 1%Q));
   (s "limegreen", ((50, 205, 50), 1%Q));
   (s "linen", ((250, 240, 230), 1%Q));
   (s "magenta", ((255, 0, 255), 1%Q));
   (s "maroon", ((128, 0, 0), 1%Q));
   (s "mediumaquamarine", ((102, 205, 170), 1%Q));
   (s "mediumblue", ((0, 0, 205), 1%Q));
   (s "mediumorchid", ((186, 85, 211), 1%Q));
   (s "mediumpurple", ((147, 112, 219), 1%Q));
   (s "mediumseagreen", ((60, 179, 113), 1%Q));
   (s "mediumslateblue", ((123, 104, 238), 1%Q));
   (s "mediumspringgreen", ((0, 250, 154), 1%Q));
   (s "mediumturquoise", ((72, 209, 204), 1%Q));
   (s "mediumvioletred", ((199, 21, 133), 1%Q));
   (s "midnightblue", ((25, 25, 112), 1%Q));
   (s "mintcream", ((245, 255, 250), 1%Q));
   (s "mistyrose", ((255, 228, 225), 1%Q));
   (s "moccasin", ((255, 228, 181), 1%Q));
   (s "navajowhite", ((255, 222, 173), 1%Q));
   (s "navy", ((0, 0, 128), 1%Q));
   (s "oldlace", ((253, 245, 230), 1%Q));
   (s "olive", ((128, 128, 0), 1%Q));
   (s "olivedrab", ((107, 142, 35), 1%Q));
   (s "orange", ((255, 165, 0), 1%Q));
   (s "orangered", ((255, 69, 0), 1%Q));
   (s "orchid", ((218, 112, 214), 1%Q));
   (s "palegoldenrod", ((238, 232, 170), 1%Q));
   (s "palegreen", ((152, 251, 152), 1%Q));
   (s "paleturquoise", ((175, 238, 238), 1%Q));
   (s "palevioletred", ((219, 112, 147), 1%Q));
   (s "papayawhip", ((255, 239, 213), 1%Q));
   (s "peachpuff", ((255, 218, 185), 1%Q));
   (s "peru", ((205, 133, 63), 1%Q));
   (s "pink", ((255, 192, 203), 1%Q));
   (s "plum", ((221, 160, 221), 1%Q));
   (s "powderblue", ((176, 224, 230), 1%Q));
   (s "purple", ((128, 0, 128), 1%Q));
   (s "red", ((255, 0, 0), 1%Q));
   (s "rosybrown", ((188, 143, 143), 1%Q));
   (s "royalblue", ((65, 105, 225), 1%Q));
   (s "saddlebrown", ((139, 69, 19), 1%Q));
   (s "salmon", ((250, 128, 114), 1%Q));
   (s "sandybrown", ((244, 164, 96), 1%Q));
   (s "seagreen", ((46, 139, 87), 1%Q));
   (s "seashell", ((255, 245, 238), 1%Q));
   (s "sienna", ((160, 82, 45), 1%Q));
   (s "silver", ((192, 192, 192), 1%Q));
   (s "skyblue", ((135, 206, 235), 1%Q));
   (s "slateblue", ((106, 90, 205), 1%Q));
   (s "slategray", ((112, 128, 144), 1%Q));
   (s "slategrey", ((112, 128, 144), 1%Q));
   (s "snow", ((255, 250, 250), 1%Q));
   (s "springgreen", ((0, 255, 127), 1%Q));
   (s "steelblue", ((70, 130, 180), 1%Q));
   (s "tan", ((210, 180, 140), 1%Q));
   (s "teal", ((0, 128, 128), 1%Q));
   (s "thistle", ((216, 191, 216), 1%Q));
   (s "tomato", ((255, 99, 71), 1%Q));
   (s "turquoise", ((64, 224, 208), 1%Q));
   (s "violet", ((238, 130, 238), 1%Q));
   (s "wheat", ((245, 222, 179), 1%Q));
   (s "white", ((255, 255, 255), 1%Q));
   (s "whitesmoke", ((245, 245, 245), 1%Q));
   (s "yellow", ((255, 255, 0), 1%Q));
   (s "yellowgreen", ((154, 205, 50), 1%Q))].

Definition rgba_eqb (x y : option ((Z * Z * Z) * Q)) : bool :=
  match x, y with
  | None, None => true
  | Some ((r, g, b), a), Some ((r', g', b'), a') => Z.eqb r r' && Z.eqb g g' && Z.eqb b b' && Qeq_bool a a'
  | _, _ => false
  end.
Definition tables_agree : bool :=
  forallb (fun k => rgba_eqb (assoc_s k colors_table) (assoc_s k css3_named))
          (map fst colors_table ++ map fst css3_named).

(* ------------------------------------------------------------------ rgb() / hsl() *)
Local Open Scope Q_scope.
Inductive comp := CNum (v : pynum) | CPct (v : pynum).      (* NUMBER / PERCENTAGE component with its stored value *)
Definition comp_letter (c : comp) : N := match c with CNum _ => 78%N | CPct _ => 80%N end.

Definition qmod1 (x : Q) : Q := x - inject_Z (Qfloor x).     (* x % 1.0 *)
(* colorsys._v / hls_to_rgb over exact rationals *)
Definition hue_v (m1 m2 hue : Q) : Q :=
  let hue := qmod1 hue in
  if Qlt_b hue (1 # 6) then m1 + (m2 - m1) * hue * 6
  else if Qlt_b hue (1 # 2) then m2
  else if Qlt_b hue (2 # 3) then m1 + (m2 - m1) * ((2 # 3) - hue) * 6
  else m1.
Definition hls_to_rgb (h l sat : Q) : Q * Q * Q :=
  if Qeq_bool sat 0 then (l, l, l)
  else
    let m2 := if Qle_bool l (1 # 2) then l * (1 + sat) else l + sat - l * sat in
    let m1 := 2 * l - m2 in
    (hue_v m1 m2 (h + (1 # 3)), hue_v m1 m2 h, hue_v m1 m2 (h - (1 # 3))).

(* CSS3 Color 4.2.4, "HOW TO RETURN hsl.to.rgb(h, s, l)" with h already normalised to [0, 1) *)
Definition css3_hue (m1 m2 h : Q) : Q :=
  let h := if Qlt_b h 0 then h + 1 else h in
  let h := if Qlt_b 1 h then h - 1 else h in
  if Qlt_b (h * 6) 1 then m1 + (m2 - m1) * h * 6
  else if Qlt_b (h * 2) 1 then m2
  else if Qlt_b (h * 3) 2 then m1 + (m2 - m1) * ((2 # 3) - h) * 6
  else m1.
Definition css3_hsl (h sat l : Q) : Q * Q * Q :=
  let m2 := if Qle_bool l (1 # 2) then l * (sat + 1) else l + sat - l * sat in
  let m1 := l * 2 - m2 in
  (css3_hue m1 m2 (h + (1 # 3)), css3_hue m1 m2 h, css3_hue m1 m2 (h - (1 # 3))).
Definition clip (lo hi x : Q) : Q := if Qlt_b x lo then lo else if Qlt_b hi x then hi else x.

Inductive fres :=
| FInvalid                                   (* check not in checks[functiontype]: logged as an error *)
| FCrash
| FRgba (r g b a : Q) (exact : bool).        (* exact=false: components are the pre-rounding reals r*255 of the hsl path *)

Section WithDbl.
  Variable dbl : Q -> Q.
  (* value.py:420  int(255 * v / 100)  in binary64 *)
  Definition pct255 (v : pynum) : Q :=
    match v with
    | PyInt z => inject_Z (qtrunc (dbl (inject_Z (rgb_scale * z)%Z / inject_Z pct_scale)))
    | _ => inject_Z (qtrunc (dbl (dbl (inject_Z rgb_scale * pyq v) / inject_Z pct_scale)))
    end.
  Definition raw_of (hsl : bool) (c : comp) : Q :=
    match c with
    | CNum v => pyq v
    | CPct v => if hsl then pyq v / inject_Z pct_scale else pct255 v
    end.
  (* value.py:397-455 for a function whose arguments the production accepted (3 or 4 components) *)
  Definition fn_color (fname : str) (args : list comp) : fres :=
    let hsl := eqs fname (s "hsl(") || eqs fname (s "hsla(") in
    let raw := map (raw_of hsl) args in
    let check := map comp_letter args in
    match assoc_s fname color_checks with
    | None => FCrash
    | Some ok =>
      if negb (mem_s check ok) then FInvalid
      else
        match raw with
        | [a; b; c] | [a; b; c; _] =>
          let alpha := match raw with [_; _; _; x] => x | _ => 1 end in
          if hsl then
            match hls_to_rgb (a / inject_Z hue_scale) c b with
            | (r, g, bl) => FRgba (r * inject_Z rgb_scale) (g * inject_Z rgb_scale) (bl * inject_Z rgb_scale) alpha false
            end
          else FRgba a b c alpha true
        | _ => FCrash
        end
    end.
End WithDbl.
