(* ProdParserPushed.v -- who writes tokenizer._pushed (the `pushed` cell of the stash).
   After the repair of prodparser.py (no tokenizer.push in the Missing/Done branch) the only write is the stopAndKeep
   branch of "process prod" (l.616-625); a constructor started by a toSeq callback runs ProdParser(), which clears the
   cell.  So: in a tree without stopAndKeep productions, over sub-grammars without them, the cell is never written --
   it keeps its initial content or is emptied by a sub-parser.  For ALL environments, trees, token lists. *)
From CssV Require Import Base Regex Tokenizer ProdParser ProdParserFacts Gen.ProdTrees ProdParserSafe.
Local Open Scope nat_scope.

(* ------------------------------------------------------------------ "process prod" and the pushed cell *)
Lemma process_pushed sub postof p t st :
  p_stopkeep p = false ->
  (forall lab g, p_toseq p = ASub lab g -> forall anc l r, sub g anc t l = Ret r -> pushed (r_stash r) = []) ->
  match process sub postof p t st with
  | LCont st' | LBreak st' => pushed (l_stash st') = pushed (l_stash st) \/ pushed (l_stash st') = []
  | LOut _ => True
  end.
Proof.
  intros Hk Hs. rewrite process_eq. unfold pseq, ptail. rewrite Hk.
  destruct (p_toseq p) as [| | | | | |c|lab g|] eqn:Ha; cbn [aplain];
    try (destruct (p_stop p), (p_nextsor p); cbn; auto; fail).
  - destruct (stringvalue (val t)); cbn; [|exact I]. destruct (p_stop p), (p_nextsor p); cbn; auto.
  - destruct (urivalue (val t)); cbn; [|exact I]. destruct (p_stop p), (p_nextsor p); cbn; auto.
  - destruct (sub g _ t _) as [r| | | |] eqn:Hg; try exact I. destruct (postof g); [|exact I].
    destruct (post _ _); [|exact I]. pose proof (Hs lab g eq_refl _ _ r Hg) as Hr.
    destruct (p_stop p), (p_nextsor p); cbn; right; exact Hr.
Qed.

Section Pushed.
  Variable o : opts.
  Variable sub : nat -> bool -> tok -> list tok -> out.
  Variable postof : nat -> option postcode.
  Variable P0 : list tok.                       (* the cell at the start of the parse *)

  (* no stopAndKeep; the sub-parsers it starts hand back an empty cell *)
  Definition Qp (p : prod) : Prop :=
    p_stopkeep p = false /\
    forall lab g, p_toseq p = ASub lab g -> forall anc t l r, sub g anc t l = Ret r -> pushed (r_stash r) = [].
  Definition Ip (st : lstate) : Prop := pushed (l_stash st) = P0 \/ pushed (l_stash st) = [].

  Lemma body_pushed t st :
    stack_all Qp (l_stack st) -> Ip st ->
    match body o sub postof t st with
    | LCont st' | LBreak st' => stack_all Qp (l_stack st') /\ Ip st'
    | LOut _ => True
    end.
  Proof.
    intros HQ HI. unfold body.
    destruct (o_checkS o && negb (eqs (ty t) (s "COMMENT")) && eqs (ty t) (s "S") && l_afterS st); [split; assumption|].
    set (st1 := if o_checkS o && negb (eqs (ty t) (s "COMMENT")) then set_afterS st (eqs (ty t) (s "S")) else st).
    assert (Hst1 : l_stack st1 = l_stack st /\ l_stash st1 = l_stash st) by (unfold st1; destruct (_ && _); split; reflexivity).
    destruct Hst1 as [E1 E2].
    assert (HQ1 : stack_all Qp (l_stack st1)) by (rewrite E1; exact HQ).
    assert (HI1 : Ip st1) by (unfold Ip; rewrite E2; exact HI).
    destruct (eqs (ty t) (s "COMMENT")); [cbn; split; assumption|].
    destruct (l_defaultS st1 && eqs (ty t) (s "S") && negb (o_checkS o)).
    { destruct (_ || _); cbn; split; assumption. }
    destruct (eqs (ty t) (s "INVALID")); [cbn; split; assumption|].
    destruct (eqs (ty t) (s "EOF")); [cbn; split; assumption|].
    cbn [l_stack set_started].
    pose proof (find_all Qp (find_fuel (l_stack st1)) (l_stack st1) t HQ1) as Hfa.
    destruct (find _ (l_stack st1) t) as [p stack|stack|stack| |]; try exact I.
    - destruct Hfa as [[Hk Hs] [Hm Hqs]].
      match goal with |- context [process sub postof p t ?stx] => set (sx := stx) end.
      pose proof (process_seq sub postof p t sx) as Hps.
      pose proof (process_pushed sub postof p t sx Hk (fun lab g Ha anc l r => Hs lab g Ha anc t l r)) as Hpp.
      assert (Hsx : pushed (l_stash sx) = pushed (l_stash st1)) by reflexivity.
      destruct (process sub postof p t sx) as [st'|st'|x]; [| |exact I];
        destruct Hps as [A1 _]; rewrite A1; (split; [exact Hqs|]); unfold Ip in *; rewrite Hsx in Hpp;
        destruct Hpp as [Hpp|Hpp]; rewrite Hpp; auto.
    - cbn. destruct (l_stopnm st1); cbn; split; assumption.
    - cbn. split; assumption.
  Qed.

  Lemma pull_pushed st t st1 : pull st = Some (t, st1) -> pushed (l_stash st1) = pushed (l_stash st).
  Proof.
    unfold pull. destruct (saved (l_stash st)); [|intros H; inversion H; subst; reflexivity].
    destruct (spull _ _ _) as [[[[t0 own] anc] l]|]; [|discriminate]. intros H; inversion H; subst; reflexivity.
  Qed.

  Lemma loop_pushed n : forall st r,
    stack_all Qp (l_stack st) -> Ip st -> loop o sub postof n st = Ret r ->
    pushed (r_stash r) = P0 \/ pushed (r_stash r) = [].
  Proof.
    assert (Hfin : forall st r, Ip st -> finish o st = Ret r -> pushed (r_stash r) = P0 \/ pushed (r_stash r) = []).
    { intros st r HI Hf. destruct (finish_ret o st _ Hf) as [_ H]. destruct (H r eq_refl) as [_ [_ [E _]]]. rewrite E. exact HI. }
    induction n as [|n IH]; intros st r HQ HI; [discriminate|]. rewrite loop_unfold.
    destruct (pull st) as [[t st1]|] eqn:Hp; [|apply Hfin; exact HI].
    destruct (pull_fields st t st1 Hp) as [E1 _]. pose proof (pull_pushed st t st1 Hp) as E2.
    pose proof (body_pushed t st1 ltac:(rewrite E1; exact HQ) ltac:(unfold Ip; rewrite E2; exact HI)) as Hb.
    pose proof (body_ext o sub postof t st1) as Hx.
    destruct (body o sub postof t st1) as [st2|st2|x].
    - destruct Hb as [B1 B2]. apply IH; assumption.
    - destruct Hb as [B1 B2]. apply Hfin. exact B2.
    - intros E. exfalso. exact (Hx r E).
  Qed.
End Pushed.

Lemma parse_tree_pushed sub postof clear o tr anc first toks sh r :
  tall (Qp sub) tr ->
  parse_tree sub postof clear o tr anc first toks sh = Ret r ->
  pushed (r_stash r) = pushed (if clear then stash0 else sh) \/ pushed (r_stash r) = [].
Proof.
  intros Ht. unfold parse_tree, init_state. destruct (enter tr) as [f|] eqn:He; [|discriminate].
  apply loop_pushed; cbn [l_stack l_stash].
  - constructor; [|constructor]. eapply enter_all; eauto.
  - left. reflexivity.
Qed.

(* ------------------------------------------------------------------ environments; dom = the grammars that may be started *)
Definition nokeep (dom : nat -> bool) (p : prod) : bool :=
  negb (p_stopkeep p) && match p_toseq p with ASub _ g => dom g | _ => true end.
Definition nokeep_dom (dom : nat -> bool) (env : genv) : Prop :=
  forall g gr, dom g = true -> nth_error env g = Some gr -> tallb (nokeep dom) (g_tree gr) = true.

Lemma nokeep_tall dom env d t :
  (forall g anc first l r, dom g = true -> pparse_sub d env g anc first l = Ret r -> pushed (r_stash r) = []) ->
  tallb (nokeep dom) t = true ->
  tall (Qp (fun g a t l => pparse_sub d env g a (Some t) l)) t.
Proof.
  intros IH. apply tallb_tall. intros p Hp. unfold nokeep in Hp. apply andb_true_iff in Hp. destruct Hp as [Hk Hc].
  apply negb_true_iff in Hk. split; [exact Hk|]. intros lab g Ha anc t0 l r Hr. rewrite Ha in Hc. exact (IH g anc (Some t0) l r Hc Hr).
Qed.

(* a constructor of a grammar of dom hands back an empty cell *)
Theorem pparse_sub_pushed dom env :
  nokeep_dom dom env ->
  forall d g anc first l r, dom g = true -> pparse_sub d env g anc first l = Ret r -> pushed (r_stash r) = [].
Proof.
  intros Hnk. induction d as [|d IH]; intros g anc first l r Hg; [discriminate|]. cbn [pparse_sub].
  destruct (nth_error env g) as [gr|] eqn:Hn; [|discriminate]. intros Hr.
  destruct (parse_tree_pushed _ _ _ _ _ _ _ _ _ r (nokeep_tall dom env d _ IH (Hnk g gr Hg Hn)) Hr) as [H|H]; exact H.
Qed.

(* the cell keeps its content, or a sub-parser (ProdParser() clears it) has emptied it *)
Theorem pparse_pushed_only_stopkeep : forall dom d env clear o t toks sh r,
  nokeep_dom dom env -> tallb (nokeep dom) t = true ->
  pparse d env clear o t toks sh = Ret r ->
  pushed (r_stash r) = pushed (if clear then stash0 else sh) \/ pushed (r_stash r) = [].
Proof.
  intros dom d env clear o t toks sh r Hnk Ht. unfold pparse. apply parse_tree_pushed.
  apply (nokeep_tall dom env d); [|exact Ht]. exact (pparse_sub_pushed dom env Hnk d).
Qed.

Corollary pparse_never_pushes : forall dom d env clear o t toks sh r,
  nokeep_dom dom env -> tallb (nokeep dom) t = true ->
  clear = true \/ pushed sh = [] ->
  pparse d env clear o t toks sh = Ret r -> pushed (r_stash r) = [].
Proof.
  intros dom d env clear o t toks sh r Hnk Ht Hc Hr.
  destruct (pparse_pushed_only_stopkeep dom d env clear o t toks sh r Hnk Ht Hr) as [H|H]; [|exact H].
  rewrite H. destruct Hc as [->|Hc]; [reflexivity|]. destruct clear; [reflexivity|exact Hc].
Qed.

(* the whole-environment form: no grammar has a stopAndKeep production *)
Definition nokeep_env (env : genv) : bool := forallb (fun gr => tallb (fun p => negb (p_stopkeep p)) (g_tree gr)) env.
Lemma nokeep_env_dom env : nokeep_env env = true -> nokeep_dom (fun _ => true) env.
Proof.
  intros H g gr _ Hn. apply nth_error_In in Hn. unfold nokeep_env in H. rewrite forallb_forall in H. specialize (H _ Hn).
  revert H. generalize (g_tree gr). fix F 1. intros t. destruct t as [p|ps lo hi|ps oo]; cbn [tallb]; intros H.
  - unfold nokeep. rewrite H. destruct (p_toseq p); reflexivity.
  - induction ps as [|c r IH]; [reflexivity|]. apply andb_true_iff in H. destruct H as [H1 H2]. rewrite (F c H1). exact (IH H2).
  - induction ps as [|c r IH]; [reflexivity|]. apply andb_true_iff in H. destruct H as [H1 H2]. rewrite (F c H1). exact (IH H2).
Qed.
Theorem pparse_pushed_nokeep_env : forall d env clear o t toks sh r,
  nokeep_env env = true -> tallb (fun p => negb (p_stopkeep p)) t = true ->
  pparse d env clear o t toks sh = Ret r ->
  pushed (r_stash r) = pushed (if clear then stash0 else sh) \/ pushed (r_stash r) = [].
Proof.
  intros d env clear o t toks sh r He Ht. apply (pparse_pushed_only_stopkeep (fun _ => true)); [apply nokeep_env_dom, He|].
  exact (nokeep_env_dom [mkGr [] t opts0 PostOk] ltac:(cbn; rewrite Ht; reflexivity) 0 _ eq_refl eq_refl).
Qed.

(* ------------------------------------------------------------------ decidable check of nokeep_dom *)
Fixpoint nokeep_domb_from (dom : nat -> bool) (i : nat) (env : genv) : bool :=
  match env with
  | [] => true
  | gr :: rest => (if dom i then tallb (nokeep dom) (g_tree gr) else true) && nokeep_domb_from dom (S i) rest
  end.
Lemma nokeep_domb_ok dom env : nokeep_domb_from dom 0 env = true -> nokeep_dom dom env.
Proof.
  assert (H : forall env i, nokeep_domb_from dom i env = true -> forall g gr, dom (i + g) = true -> nth_error env g = Some gr ->
            tallb (nokeep dom) (g_tree gr) = true).
  { clear env. induction env as [|gr0 rest IH]; intros i Hb g gr Hd Hn; [destruct g; discriminate|].
    cbn [nokeep_domb_from] in Hb. apply andb_true_iff in Hb. destruct Hb as [Hb1 Hb2]. destruct g as [|g]; cbn in Hn.
    - inversion Hn; subst. rewrite Nat.add_0_r in Hd. rewrite Hd in Hb1. exact Hb1.
    - apply (IH (S i) Hb2 g gr); [|exact Hn]. replace (S i + g) with (i + S g) by lia. exact Hd. }
  intros Hb g gr. apply (H env 0 Hb).
Qed.

(* ------------------------------------------------------------------ the media grammars of env_real *)
Definition dom_media (g : nat) : bool :=
  Nat.eqb g 0 || Nat.eqb g 1 || Nat.eqb g 2 || Nat.eqb g 4 || Nat.eqb g 5 || Nat.eqb g 6.
Lemma media_nokeep : nokeep_dom dom_media env_real.
Proof. apply nokeep_domb_ok. vm_compute. reflexivity. Qed.
(* everything but PropertyValue: its `END ;` production is the one stopAndKeep production of the library *)
Definition dom_not_pv (g : nat) : bool := negb (Nat.eqb g 3).
Lemma not_pv_nokeep : nokeep_dom dom_not_pv env_real.
Proof. apply nokeep_domb_ok. vm_compute. reflexivity. Qed.
Example env_real_has_stopkeep : nokeep_env env_real = false.
Proof. vm_compute. reflexivity. Qed.

Theorem media_never_pushes : forall toks d r,
  pparse_env d env_real gid_MediaList toks = Ret r -> pushed (r_stash r) = [].
Proof. intros toks d r. unfold pparse_env. apply (pparse_sub_pushed dom_media env_real media_nokeep); reflexivity. Qed.
Theorem media_query_never_pushes : forall toks d r,
  pparse_env d env_real gid_MediaQuery toks = Ret r -> pushed (r_stash r) = [].
Proof. intros toks d r. unfold pparse_env. apply (pparse_sub_pushed dom_media env_real media_nokeep); reflexivity. Qed.
(* every constructor of the library except PropertyValue *)
Theorem ctor_never_pushes : forall g, g <> gid_PropertyValue -> forall toks d r,
  pparse_env d env_real g toks = Ret r -> pushed (r_stash r) = [].
Proof.
  intros g Hg toks d r. unfold pparse_env. apply (pparse_sub_pushed dom_not_pv env_real not_pv_nokeep).
  unfold dom_not_pv. apply negb_true_iff, Nat.eqb_neq. exact Hg.
Qed.

(* PropertyValue on  a ; b  DOES leave the `;` in the cell (stopAndKeep of the END production) *)
Definition tkp (t v : string) : tok := mkTok (s t) (s v) (s v) 1 1.
Example property_value_pushes :
  exists r, pparse_env 3 env_real gid_PropertyValue [tkp "IDENT" "a"; tkp "S" " "; tkp "CHAR" ";"; tkp "S" " "; tkp "IDENT" "b"] = Ret r
            /\ pushed (r_stash r) = [tkp "CHAR" ";"].
Proof. vm_compute. eauto. Qed.
(* why the conclusion is a disjunction: with the pinned ProdParser() that does not clear (clear = false) a cell that is
   not empty at the start is emptied by the first sub-parser (its constructor runs ProdParser(), which clears) *)
Example pushed_emptied_by_sub :
  exists r, pparse 3 env_real false opts0 tree_MediaList [tkp "IDENT" "screen"] (mkStash [] [tkp "CHAR" ";"]) = Ret r
            /\ pushed (r_stash r) = [].
Proof. vm_compute. eauto. Qed.
Example pushed_kept_without_sub :
  exists r, pparse 3 env_real false opts0 tree_MediaList [tkp "CHAR" ","] (mkStash [] [tkp "CHAR" ";"]) = Ret r
            /\ pushed (r_stash r) = [tkp "CHAR" ";"].
Proof. vm_compute. eauto. Qed.

Print Assumptions pparse_pushed_only_stopkeep.
Print Assumptions pparse_never_pushes.
Print Assumptions pparse_pushed_nokeep_env.
Print Assumptions media_never_pushes.
Print Assumptions media_query_never_pushes.
Print Assumptions ctor_never_pushes.
