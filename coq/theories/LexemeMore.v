(* LexemeMore.v -- C09 extension: exact characterisation of the RATIO production on texts that start
   with an integer, and the at-keyword lookup for ALL respellings (imported from the C10 builder's
   RespellFacts.v) connected to `classify`.                                                     *)
From CssV Require Import Base Regex RegexFacts Respell RespellFacts.
From CssV Require Import LexemeRegex Gen.Productions Gen.TokTables Tokenizer TokenizerFacts Lexemes LexemeFacts.

(* ------------------------------------------------------------------ RATIO *)
Definition ratio_body : re :=
  Cat ws_re (Cat D1 (Cat ws_re (Cat (Chr 47) (Cat ws_re (Cat D1 (Ahead 41)))))).
Lemma ratio_re_body : ratio_re = Cat (NotBehind 40) ratio_body. Proof. reflexivity. Qed.

Lemma m_notbehind {R} c b p t (k : cont R) : p <> Some c -> m (Cat (NotBehind c) b) p t k = m b p t k.
Proof.
  intros H. cbn [m]. destruct p as [x|]; [|reflexivity].
  destruct (N.eqb_spec x c) as [->|]; [congruence|reflexivity].
Qed.

Lemma first_ahead c rest : First (R:=nat) (m (Ahead c)) [] (c :: rest).
Proof. intros p k v H. cbn [m app]. now rewrite N.eqb_refl. Qed.

Lemma forallb_wst xs : forallb is_ws xs = true -> forallb wst xs = true.
Proof. intros H. rewrite <- H. apply forallb_ext'. apply wst_is. Qed.

Lemma dig_head_not_ws d t : is_dig d = true -> head_not wst (d :: t) = true.
Proof. intros H. simpl. rewrite <- digt_is in H. now rewrite (dig_not_ws _ H). Qed.

Lemma ws_head_not_dig w t : is_ws w = true -> head_not digt (w :: t) = true.
Proof. intros H. simpl. rewrite <- wst_is in H. now rewrite (ws_not_dig _ H). Qed.

Section Ratio.
Variables (ds1 w1 w2 ds2 : str).
Hypothesis H1 : ds1 <> [].
Hypothesis D1ok : forallb is_dig ds1 = true.
Hypothesis W1ok : forallb is_ws w1 = true.
Hypothesis W2ok : forallb is_ws w2 = true.
Hypothesis H2 : ds2 <> [].
Hypothesis D2ok : forallb is_dig ds2 = true.

Definition ratio_text : str := ds1 ++ w1 ++ [47%N] ++ w2 ++ ds2.

Lemma head_of_digits ds t : ds <> [] -> forallb is_dig ds = true -> exists d r, ds ++ t = d :: r /\ is_dig d = true.
Proof.
  destruct ds as [|d ds]; [congruence|]. intros _ H. simpl in H. apply andb_true_iff in H as [H _].
  exists d, (ds ++ t). auto.
Qed.

Lemma ws_then_nonws_head w t : forallb is_ws w = true -> head_not digt t = true -> head_not digt (w ++ t) = true.
Proof.
  destruct w as [|x w]; [auto|]. intros H _. simpl in H. apply andb_true_iff in H as [H _].
  now apply ws_head_not_dig.
Qed.

Lemma first_ratio_body rest : First (R:=nat) (m ratio_body) ratio_text (41%N :: rest).
Proof.
  unfold ratio_body, ratio_text, ws_re.
  destruct (head_of_digits ds1 (w1 ++ [47%N] ++ w2 ++ ds2 ++ 41%N :: rest) H1 D1ok) as (d1 & r1 & E1 & Hd1).
  destruct (head_of_digits ds2 (41%N :: rest) H2 D2ok) as (d2 & r2 & E2 & Hd2).
  change (ds1 ++ w1 ++ [47%N] ++ w2 ++ ds2) with ([] ++ ds1 ++ w1 ++ [47%N] ++ w2 ++ ds2).
  apply first_cat.
  { apply (first_run _ wst); [reflexivity|reflexivity|simpl; lia|].
    rewrite <- !app_assoc. rewrite E1. now apply dig_head_not_ws. }
  apply first_cat.
  { apply (first_run _ digt); [reflexivity|now apply forallb_digt| |].
    - destruct ds1; [congruence|simpl; lia].
    - rewrite <- !app_assoc. apply ws_then_nonws_head; [exact W1ok|reflexivity]. }
  apply first_cat.
  { apply (first_run _ wst); [reflexivity|now apply forallb_wst|lia|reflexivity]. }
  apply first_cat.
  { now apply (first_single _ (fun x => N.eqb x 47)). }
  apply first_cat.
  { apply (first_run _ wst); [reflexivity|now apply forallb_wst|lia|]. rewrite E2. now apply dig_head_not_ws. }
  rewrite <- (app_nil_r ds2). apply first_cat.
  - apply (first_run _ digt); [reflexivity|now apply forallb_digt| |reflexivity].
    destruct ds2; [congruence|simpl; lia].
  - apply first_ahead.
Qed.

(* positive characterisation: integer, optional white space, '/', optional white space, integer, directly
   before ')' and not directly after '(' is ONE RATIO token *)
Theorem ratio_token_lemma : forall dc prev rest, prev <> Some 40%N ->
  try_prods productions dc false prev (ratio_text ++ 41%N :: rest) = Some (Step (s "RATIO") ratio_text true).
Proof.
  intros dc prev rest Hp.
  destruct (head_of_digits ds1 (w1 ++ [47%N] ++ w2 ++ ds2 ++ 41%N :: rest) H1 D1ok) as (d1 & r1 & E1 & Hd1).
  assert (Et : ratio_text ++ 41%N :: rest = d1 :: r1).
  { unfold ratio_text. rewrite <- !app_assoc. exact E1. }
  rewrite Et. rewrite (dispatch_range _ _ _ range_dig d1).
  2:{ unfold in_rng. unfold is_dig, dig_rs in Hd1. cbn [in_ranges] in Hd1. now rewrite orb_false_r in Hd1. }
  destruct sel_dig as [ps ->]. rewrite <- Et.
  rewrite (try_prods_hit _ _ _ _ _ _ (length ratio_text)); [now rewrite firstn_app_exact| |reflexivity].
  destruct shapes_ok as (_ & _ & _ & _ & _ & _ & _ & _ & _ & _ & ->).
  unfold rmatch. rewrite ratio_re_body, m_notbehind by exact Hp.
  apply first_ratio_body. f_equal. rewrite app_length. lia.
Qed.

(* ... and only then: something other than ')' (or a further digit) after the second integer *)
Lemma ratio_needs_paren_lemma : forall rest, hd_not is_dig rest = true -> hd_not (is_c 41) rest = true ->
  Fails (R:=nat) (m ratio_re) (ratio_text ++ rest).
Proof.
  intros rest Hnd Hnp. rewrite ratio_re_body. apply fails_cat_notbehind. unfold ratio_body, ratio_text, ws_re.
  rewrite <- !app_assoc.
  destruct (head_of_digits ds1 (w1 ++ [47%N] ++ w2 ++ ds2 ++ rest) H1 D1ok) as (d1 & r1 & E1 & Hd1).
  assert (F47 : forall x t Z, N.eqb x 47 = false -> Fails (R:=nat) (m (Cat (Chr 47) Z)) (x :: t)).
  { intros x t Z Hx. apply fails_cat_chr_head. simpl. now rewrite Hx. }
  change (ds1 ++ w1 ++ [47%N] ++ w2 ++ ds2 ++ rest) with ([] ++ (ds1 ++ w1 ++ [47%N] ++ w2 ++ ds2 ++ rest)).
  apply (fails_cat_run _ wst); [reflexivity|reflexivity|rewrite E1; now apply dig_head_not_ws|].
  intros i Hi. simpl in Hi. assert (i = O) by lia. subst i. cbn [skipn app].
  apply (run_fails _ digt); [reflexivity|now apply forallb_digt| | |].
  - apply ws_then_nonws_head; [exact W1ok|reflexivity].
  - intros x t Hx. apply (fails_cat_run _ wst _ _ _ []); [reflexivity|reflexivity| |].
    + simpl. now rewrite (dig_not_ws _ Hx).
    + intros j Hj. simpl in Hj. assert (j = O) by lia. subst j. cbn [skipn app].
      apply F47. now apply dig_not_47.
  - apply (run_fails _ wst); [reflexivity|now apply forallb_wst|reflexivity| |].
    + intros x t Hx. apply F47. now apply ws_not_47.
    + cbn [app]. apply (fails_cat_single _ (fun x => N.eqb x 47)); [reflexivity|].
      destruct (head_of_digits ds2 rest H2 D2ok) as (d2 & r2 & E2 & Hd2).
      apply (run_fails _ wst); [reflexivity|now apply forallb_wst|rewrite E2; now apply dig_head_not_ws| |].
      * intros x t Hx. apply fails_cat_l. apply fails_rep_pos; [|discriminate].
        apply (fails_single _ digt); [reflexivity|now apply ws_not_dig].
      * apply (run_fails _ digt); [reflexivity|now apply forallb_digt|now apply head_digt| |].
        -- intros x t Hx p k. cbn [m]. unfold digt, dig_rs in Hx. cbn [in_ranges] in Hx.
           destruct (N.eqb_spec x 41) as [->|]; [discriminate Hx|reflexivity].
        -- intros p k. cbn [m]. destruct rest as [|c r]; [reflexivity|]. simpl in Hnp. unfold is_c in Hnp.
           apply negb_true_iff in Hnp. now rewrite Hnp.
Qed.
End Ratio.

(* never directly after an opening parenthesis *)
Lemma ratio_after_paren_lemma : forall t, rmatch ratio_re (Some 40%N) t = None.
Proof. intros t. unfold rmatch. rewrite ratio_re_body. reflexivity. Qed.

(* ------------------------------------------------------------------ at-keywords: every respelling *)
(* C10's theorem (RespellFacts.atkeyword_respell_lemma), restated for `classify` *)
Theorem atkeyword_tokval_lemma : forall kw sym found,
  In (kw, sym) atkeywords -> Respelling kw found -> tokval (s "ATKEYWORD") found = (sym, found).
Proof.
  intros kw sym found Hin Hr.
  pose proof (atkeyword_respell_lemma kw sym found [] Hin Hr) as H1.
  rewrite (finish_tokval (s "ATKEYWORD") found []) in H1.
  - destruct (tokval (s "ATKEYWORD") found) as [a b]. cbn [fst snd] in H1. congruence.
  - right. cbn [starts]. apply andb_false_r.
Qed.
