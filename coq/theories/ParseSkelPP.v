(* ParseSkelPP.v -- C01: parse_never_raises_skeleton with the media-query-list leaf PROVED.
   The PP builder's engine model (ProdParser*.v) gives ProdParserBridge.media_leaf and the theorem that it returns
   on every token run cut out of a tokenized text (media_leaf_returns_tokenized).  To use it, the skeleton
   evaluation is re-proved relative to a token invariant P (here: "is a token of the tokenized text"): every run
   that reaches a leaf consists of tokens of the input, so a leaf only has to return on such runs.           *)
From CssV Require Import Base Regex Tokenizer TokenizerFacts Quote Gen.StrTokenValue Upto UptoFacts Skeleton SkeletonFacts
     ParseTotal ParseTotalFacts ParseSkel ParseSkelFacts.
From CssV Require ProdParser ProdParserBridge.
Local Open Scope nat_scope.

Lemma infix_incl {A} (x ts : list A) : infix x ts -> forall t, In t x -> In t ts.
Proof. intros (p & q & ->) t Ht. apply in_or_app. right. apply in_or_app. left. exact Ht. Qed.

Lemma Forall_infix {A} (P : A -> Prop) (x ts : list A) : infix x ts -> Forall P ts -> Forall P x.
Proof. apply infix_Forall. Qed.

(* the pieces a rule set hands to its leaves are contiguous pieces of its run *)
Lemma ruleset_selector_infix run : infix (removelast (rs_selector (ruleset_split run))) run.
Proof.
  unfold ruleset_split. destruct (upto FBlockStart None run) as [sel r1] eqn:E1. apply upto_none_partition in E1.
  destruct (upto FBlockEnd None r1) as [sty r2]. cbn [rs_selector].
  eapply infix_trans; [apply infix_removelast|]. subst run. apply infix_prefix.
Qed.

Lemma ruleset_decls_infix run items :
  rs_decls (ruleset_split run) = Some items -> exists b, items = decl_block b /\ infix b run.
Proof.
  unfold ruleset_split. destruct (upto FBlockStart None run) as [sel r1] eqn:E1. apply upto_none_partition in E1.
  destruct (upto FBlockEnd None r1) as [sty r2] eqn:E2. apply upto_none_partition in E2. cbn [rs_decls].
  assert (Hsty : infix sty run).
  { subst run r1. eapply infix_trans; [apply infix_prefix|]. apply infix_suffix. }
  match goal with |- (if ?g then _ else _) = _ -> _ => destruct g end; [|discriminate].
  destruct (separate_end sty) as [b e] eqn:E3. apply separate_end_infix in E3.
  destruct e as [e|]; [|discriminate].
  destruct (is_eof e).
  - intros H. injection H as <-. exists sty. split; [reflexivity|exact Hsty].
  - destruct (eqs (val e) (s "}")); [|discriminate]. intros H. injection H as <-.
    exists b. split; [reflexivity|]. eapply infix_trans; eauto.
Qed.

Lemma media_head_infix ts : infix (mp_media (media_split ts)) ts.
Proof.
  unfold media_split. destruct (upto FMQEnd None ts) as [m r1] eqn:E1. apply upto_none_partition in E1.
  assert (Hm : infix m ts) by (subst ts; apply infix_prefix).
  match goal with |- context[if ?b then upto FBlockStart None r1 else ([], r1)] => destruct b end.
  - destruct (upto FBlockStart None r1) as [nm r2].
    match goal with |- context[if negb ?b then _ else _] => destruct (negb b) end; [exact Hm|].
    destruct (upto FMediaEnd None r2) as [rl r3]. destruct (separate_end rl) as [body e3]. exact Hm.
  - match goal with |- context[if negb ?b then _ else _] => destruct (negb b) end; [exact Hm|].
    destruct (upto FMediaEnd None r1) as [rl r3]. destruct (separate_end rl) as [body e3]. exact Hm.
Qed.

Section SkelOn.
  Variable St : Type.
  Variable leaf : leafkind -> St -> list tok -> outcome St.
  Variable flag : St -> St.
  Variable add_comment : St -> tok -> St.
  Variable on_unknown : St -> option (tok * list uitem) -> St.
  Variable charset_commit : St -> charset_result -> St.
  Variable st0 : St.

  Variable P : tok -> Prop.                       (* an invariant of the tokens of the input *)
  Hypothesis HPtok : forall t, P t -> tokinv t.
  (* each leaf returns on every run made of input tokens *)
  Hypothesis Hleaf : forall k st run, Forall P run -> exists st', leaf k st run = Returned st'.

  Notation seqi := (seq_items St).
  Notation edecl := (eval_decl St leaf flag add_comment on_unknown).
  Notation eruleset := (eval_ruleset St leaf flag add_comment on_unknown).
  Notation estmt := (eval_stmt St leaf flag add_comment on_unknown charset_commit).

  Lemma seq_items_total_on f items :
    (forall it, In it items -> forall st, exists st', f st it = Returned st') ->
    forall st, exists st', seqi f items st = Returned st'.
  Proof.
    unfold seq_items. induction items as [|it items IH]; intros Hf st; [cbn; eauto|].
    cbn [fold_left bind]. destruct (Hf it (or_introl eq_refl) st) as [st1 H1]. rewrite H1.
    apply IH. intros it' Hin. apply Hf. right. exact Hin.
  Qed.

  Definition item_on (it : item) : Prop :=
    match it with IComment _ => True | IStmt _ run => Forall P run end.

  Lemma eval_decl_on st it : item_on it -> exists st', edecl st it = Returned st'.
  Proof. destruct it as [t|k run]; [cbn; eauto|]. intros H. destruct k; cbn; eauto. Qed.

  Lemma disp_items_on cls body : Forall P body -> forall it, In it (disp cls body 0) -> item_on it.
  Proof.
    intros Hb it Hin. destruct it as [t|k run]; [exact I|].
    destruct (disp_run_infix cls body 0 k run Hin) as [_ Hi]. eapply infix_Forall; eauto.
  Qed.

  Lemma eval_ruleset_on st run : Forall P run -> exists st', eruleset st run = Returned st'.
  Proof.
    intros Hr. unfold eval_ruleset. destruct (rs_gate (ruleset_split run)); [|eauto].
    destruct (Hleaf LSelector st (removelast (rs_selector (ruleset_split run)))) as [st1 H1].
    { eapply infix_Forall; [apply ruleset_selector_infix|exact Hr]. }
    rewrite H1. cbn [bind].
    destruct (rs_decls (ruleset_split run)) as [items|] eqn:Ed; [|eauto].
    apply ruleset_decls_infix in Ed as (b & -> & Hb).
    apply seq_items_total_on. intros it Hin st2. apply eval_decl_on.
    apply (disp_items_on cls_decl b); [eapply infix_Forall; eauto|exact Hin].
  Qed.

  Definition item_ok_on (fuel : nat) (it : item) : Prop :=
    match it with
    | IComment _ => True
    | IStmt _ run => run <> [] /\ length run <= fuel /\ Forall P run
    end.

  Lemma eval_stmt_on : forall fuel inmedia st it,
    item_ok_on fuel it -> exists st', estmt fuel inmedia st it = Returned st'.
  Proof.
    induction fuel as [|f IH]; intros inmedia st it Hok.
    - destruct it as [t|k run]; [cbn; eauto|]. destruct Hok as (Hne & Hlen & HP).
      destruct run; [congruence|cbn [length] in Hlen; lia].
    - destruct it as [t|k run]; [cbn; eauto|]. destruct Hok as (Hne & Hlen & HP).
      assert (Hmedia : exists st', estmt (S f) inmedia st (IStmt KMedia run) = Returned st').
      { cbn [eval_stmt].
        destruct (Hleaf LMediaQuery st (mp_media (media_split (tl run)))) as [st1 H1].
        { eapply infix_Forall; [apply media_head_infix|]. destruct run; [congruence|]. inversion HP; assumption. }
        rewrite H1. cbn [bind].
        destruct (mp_inner (media_split (tl run))) as [items|] eqn:Ei; [|eauto].
        apply media_inner_infix in Ei as (body & -> & Hb).
        assert (HPb : Forall P body).
        { eapply infix_Forall; [exact Hb|]. destruct run; [congruence|]. inversion HP; assumption. }
        apply seq_items_total_on. intros it Hin st2. apply IH.
        destruct it as [t|k1 run1]; [exact I|].
        destruct (disp_run_infix cls_media body 0 k1 run1 Hin) as [Hne1 Hi1].
        split; [exact Hne1|]. split; [|eapply infix_Forall; eauto].
        pose proof (infix_length _ _ (infix_trans _ _ _ Hi1 Hb)) as Hl.
        destruct run as [|t0 run']; [congruence|]. cbn [tl] in Hl. cbn [length] in Hlen. lia. }
      destruct k; try exact Hmedia; cbn [eval_stmt]; try (destruct inmedia; eauto using eval_ruleset_on); eauto using eval_ruleset_on.
      (* KCharset at the top level *)
      destruct (charset_rule_total_lemma run) as [r Hr].
      { eapply Forall_impl; [|exact HP]. exact HPtok. }
      rewrite Hr. cbn [bind]. eauto.
  Qed.

  Lemma eval_sheet_on ts : Forall P ts ->
    exists st', eval_sheet St leaf flag add_comment on_unknown charset_commit st0 ts = Returned st'.
  Proof.
    intros Hall. unfold eval_sheet. apply seq_items_total_on. intros it Hin st. apply eval_stmt_on.
    destruct it as [t|k run]; [exact I|].
    destruct (disp_run_infix cls_sheet ts 0 k run Hin) as [Hne Hi].
    split; [exact Hne|]. split; [apply infix_length; exact Hi|eapply infix_Forall; eauto].
  Qed.

  Lemma eval_style_on ts : Forall P ts ->
    exists st', eval_style St leaf flag add_comment on_unknown st0 ts = Returned st'.
  Proof.
    intros Hall. unfold eval_style. apply seq_items_total_on. intros it Hin st. apply eval_decl_on.
    apply (disp_items_on cls_decl ts Hall it Hin).
  Qed.
End SkelOn.

(* ------------------------------------------------------------------ the media-query-list leaf proved *)
Section PP.
  Variable St : Type.
  Variable leaf : leafkind -> St -> list tok -> outcome St.
  Variable flag : St -> St.
  Variable add_comment : St -> tok -> St.
  Variable on_unknown : St -> option (tok * list uitem) -> St.
  Variable charset_commit : St -> charset_result -> St.
  Variable mq_commit : St -> bool -> list ProdParser.item -> St.
  Variable st0 : St.

  (* the LMediaQuery entry of the leaf table IS the engine model's MediaList leaf *)
  Definition media_leaf_is_pp : Prop :=
    forall st run, leaf LMediaQuery st run = ProdParserBridge.media_leaf St mq_commit st run.
  (* what remains assumed: the leaves that are still unmodelled *)
  Definition other_leaves_total : Prop :=
    forall k, k <> LMediaQuery -> forall st run, exists st', leaf k st run = Returned st'.

  Theorem parse_never_raises_skeleton_pp_lemma :
    media_leaf_is_pp -> other_leaves_total ->
    parse_never_raises_skel_statement St leaf flag add_comment on_unknown charset_commit st0.
  Proof.
    intros Hmq Hoth api dc text. unfold parse_outcome_skel.
    destruct (tokenize_total_lemma dc api text) as [toks Htk]. rewrite Htk.
    set (P := fun t : tok => In t toks).
    assert (HPtok : forall t, P t -> tokinv t).
    { intros t Ht Hty. eapply string_tokens_quoted_lemma; eauto. }
    assert (Hleaf : forall k st run, Forall P run -> exists st', leaf k st run = Returned st').
    { intros k st run Hr. destruct k; try (apply Hoth; discriminate).
      rewrite Hmq. eapply ProdParserBridge.media_leaf_returns_tokenized; [exact Htk|].
      intros t Ht. rewrite Forall_forall in Hr. apply Hr. exact Ht. }
    assert (Hall : Forall P toks) by (apply Forall_forall; intros t Ht; exact Ht).
    destruct api.
    - eapply eval_sheet_on; eauto.
    - eapply eval_style_on; eauto.
  Qed.
End PP.

(* non-vacuity: a leaf table whose media entry is the engine model and whose other entries return *)
Definition example_leaf (k : leafkind) : nat -> list tok -> outcome nat :=
  match k with
  | LMediaQuery => ProdParserBridge.media_leaf nat (fun n _ _ => S n)
  | _ => fun n _ => Returned (S n)
  end.
Example pp_hypotheses_example :
  media_leaf_is_pp nat example_leaf (fun n _ _ => S n) /\ other_leaves_total nat example_leaf.
Proof.
  split; [intros st run; reflexivity|].
  intros k Hk st run. destruct k; try congruence; cbn; eauto.
Qed.
